#!/usr/bin/env python3
"""
One-off: transcribe the pinned FIRST schemas (tools/schemas) into Lean `Schema` terms
(lean/Cvss/Spec/SchemaTerms.lean, COMMITTED and FROZEN).  Asserts that each schema only uses the
shape `Cvss.Spec.Schema` gives semantics to.
"""
import json, os
from fractions import Fraction
HERE = os.path.dirname(os.path.abspath(__file__))

def s(x):
    return 'c!"%s"' % x.replace("\\", "\\\\").replace('"', '\\"')

def rat(x):
    f = Fraction(repr(x)) if isinstance(x, float) else Fraction(x)
    return "(mkRat (%d) %d)" % (f.numerator, f.denominator)

def resolve(root, sub):
    while "$ref" in sub:
        assert set(sub) == {"$ref"}, sub
        t = root
        for part in sub["$ref"][2:].split("/"):
            t = t[part]
        sub = t
    return sub

out = ["""/-
  FROZEN transcription of the pinned FIRST JSON schemas (tools/schemas) into `Schema` terms,
  produced once by tools/freeze_spec_schema.py.
-/
import Cvss.Spec.Schema
namespace Cvss.Spec.Schema
open Cvss
set_option maxRecDepth 100000
"""]
PAT = {"2.0": "Regex.pattern20", "3.0": "Regex.pattern30", "3.1": "Regex.pattern31", "4.0": "Regex.pattern40"}
for ver, name in [("2.0", "schema20"), ("3.0", "schema30"), ("3.1", "schema31"), ("4.0", "schema40")]:
    root = json.load(open(os.path.join(HERE, "schemas", "cvss-v%s.json" % ver)))
    allowed_top = {"license", "$schema", "title", "id", "$id", "type", "definitions", "properties", "required", "allOf"}
    assert set(root) <= allowed_top, set(root) - allowed_top
    assert root["type"] == "object"
    props = []
    for k, sub in root["properties"].items():
        sub = resolve(root, sub)
        keys = set(sub) - {"description", "default"}
        if "pattern" in sub:
            assert keys == {"type", "pattern"} and sub["type"] == "string" and k == "vectorString"
            props.append("(%s, .pattern %s)" % (s(k), PAT[ver]))
        elif "enum" in sub:
            assert keys <= {"type", "enum"} and sub.get("type", "string") == "string", sub
            props.append("(%s, .enumStr [%s])" % (s(k), ", ".join(s(v) for v in sub["enum"])))
        elif sub.get("type") == "number":
            assert keys == {"type", "minimum", "maximum"}, sub
            props.append("(%s, .number %s %s)" % (s(k), rat(sub["minimum"]), rat(sub["maximum"])))
        else:
            raise AssertionError((k, sub))
    bands = []
    for item in root.get("allOf", []):
        assert set(item) == {"anyOf"}
        alts = []
        sk = vk = None
        for alt in item["anyOf"]:
            assert set(alt) == {"properties"} and len(alt["properties"]) == 2
            (k1, t1), (k2, t2) = alt["properties"].items()
            t1, t2 = resolve(root, t1), resolve(root, t2)
            assert t1.get("type") == "number" and set(t1) <= {"type", "minimum", "maximum", "multipleOf"}
            assert set(t2) == {"const"}
            sk, vk = k1, k2
            alts.append("{ min := %s, max := %s, step := %s, sev := %s }" % (
                rat(t1["minimum"]), rat(t1["maximum"]), rat(t1.get("multipleOf", 0)), s(t2["const"])))
        bands.append("(%s, %s, [%s])" % (s(sk), s(vk), ",\n      ".join(alts)))
    out.append("def %s : Schema where\n  required := [%s]\n  props := [\n    %s\n  ]\n  bands := [\n    %s\n  ]\n" % (
        name, ", ".join(s(k) for k in root["required"]), ",\n    ".join(props), ",\n    ".join(bands)))
out.append("end Cvss.Spec.Schema\n")
open(os.path.join(HERE, "..", "lean", "Cvss", "Spec", "SchemaTerms.lean"), "w").write("\n".join(out))
