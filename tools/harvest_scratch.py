#!/usr/bin/env python3
"""
Harvest regression-corpus entries from seeded changes WITHOUT touching /repo: each patch is evaluated on scratch copies
(tools/par_eval.py --keep), the replay files its property's quick check writes there (the concrete failing inputs) are
added to corpus/<pid>.jsonl.  Run by hand; never run by a check.   usage: harvest_scratch.py <seed id> ...
"""
import glob, json, os, shutil, subprocess, sys
VERIF = os.path.dirname(os.path.dirname(os.path.abspath(__file__)))
for sid in sys.argv[1:]:
    d = os.path.join(VERIF, "seeded", sid)
    pid = json.load(open(os.path.join(d, "meta.json")))["property"]
    tag = "H_" + sid
    subprocess.run(["/venv/bin/python", os.path.join(VERIF, "tools", "par_eval.py"), tag, os.path.join(d, "patch.diff"), "--checks", pid,
                    "--kind", "seed", "--out", "/tmp/harvest_out", "--keep"], stdout=subprocess.PIPE, stderr=subprocess.STDOUT)
    path = os.path.join(VERIF, "corpus", pid + ".jsonl")
    have = set(open(path).read().splitlines()) if os.path.exists(path) else set()
    new = 0
    for f in sorted(glob.glob("/tmp/ev/%s/verif/replays/%s-quick-*-*.json" % (tag, pid))):
        r = json.load(open(f))
        if r.get("replay") is None or "signature" not in r:
            continue
        e = json.dumps({"from": sid, "signature": r["signature"], "what": r["what"], "input": r.get("input"),
                        "expected": r.get("expected"), "replay": r["replay"]}, sort_keys=True, default=repr)
        if e not in have and len(e) < 20000:
            have.add(e); new += 1
    with open(path, "w") as fo:
        fo.write("\n".join(sorted(have)) + "\n")
    subprocess.run(["git", "-C", "/repo", "worktree", "remove", "--force", "/tmp/ev/%s/repo" % tag])
    shutil.rmtree("/tmp/ev/%s" % tag, ignore_errors=True)
    print(sid, pid, "+%d" % new, flush=True)
