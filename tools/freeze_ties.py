#!/usr/bin/env python3
"""
One-off generator of INPUTS (not an oracle): v4 vectors whose exact interpolated value lies exactly on a rounding tie
(x.x5), found by sampling effective assignments through the Lean specification (`S raw4`).  Rating-boundary ties
(3.95 / 6.95 / 8.95) and 0.05 / 9.95 are kept preferentially.  Result: tools/ties.json, used by the score / rating / JSON
checks as extra inputs.  usage: freeze_ties.py [n_samples]
"""
import json
import os
import random
import sys
from fractions import Fraction

sys.path.insert(0, os.path.dirname(os.path.abspath(__file__)))
from vh import core  # noqa

n = int(sys.argv[1]) if len(sys.argv) > 1 else 400000
rng = random.Random(20260926)
V = core.VOCAB["4"]
SCORED = ["AV", "AC", "AT", "PR", "UI", "VC", "VI", "VA", "SC", "SI", "SA", "E", "CR", "IR", "AR",
          "MAV", "MAC", "MAT", "MPR", "MUI", "MVC", "MVI", "MVA", "MSC", "MSI", "MSA"]
vecs = []
for _ in range(n):
    a = {}
    for m in SCORED:
        if m in V["mandatory"]:
            a[m] = rng.choice(V["legal"][m])
        elif rng.random() < (0.25 if m.startswith("M") else 0.7):
            a[m] = rng.choice(V["legal"][m])
    vecs.append(core.render("4", a))
# second population: EVERY base assignment with each Exploit Maturity value (no other optional metric)
import itertools
for combo in itertools.product(*[V["legal"][m] for m in V["mandatory"]]):
    base = "/".join("%s:%s" % mv for mv in zip(V["mandatory"], combo))
    for e in ("A", "P", "U"):
        vecs.append("CVSS:4.0/%s/E:%s" % (base, e))
out = core.run_driver(["S\traw4\t%s" % core.enc(s) for s in vecs], nproc=16)
ties = {}
for s, r in zip(vecs, out):
    if not r.startswith("ok\t"):
        continue
    num, den = r[3:].split("/")
    x = Fraction(int(num), int(den))
    x = max(Fraction(0), min(Fraction(10), x))
    t = x * 10
    if t - int(t) == Fraction(1, 2):
        ties.setdefault(int(t), [])
        if len(ties[int(t)]) < (12 if int(t) in (0, 39, 69, 89, 99) else 3):
            ties[int(t)].append(s)
res = {"4": [s for t in sorted(ties) for s in ties[t]], "v4_tie_tenths": sorted(ties), "samples": n}
json.dump(res, open(os.path.join(os.path.dirname(os.path.abspath(__file__)), "ties.json"), "w"), indent=0)
print(len(res["4"]), "tie vectors over", len(ties), "tenths; rating-boundary ties:", {t: len(ties.get(t, [])) for t in (0, 39, 69, 89, 99)})
