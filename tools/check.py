#!/usr/bin/env python3
import argparse
import json
import os
import signal
import sys

HERE = os.path.dirname(os.path.abspath(__file__))
sys.path.insert(0, HERE)
sys.dont_write_bytecode = True


def main():
    ap = argparse.ArgumentParser()
    ap.add_argument("property")
    ap.add_argument("--tier", default=os.environ.get("VERIF_TIER", "quick"), choices=["quick", "thorough"])
    ap.add_argument("--replay")
    ap.add_argument("--seed", type=int, default=int(os.environ.get("VERIF_SEED", "0") or 0))
    args = ap.parse_args()
    pid = args.property.upper()
    from vh import framework

    manifest = json.load(open(os.path.join(os.path.dirname(HERE), "MANIFEST.json")))
    entry = next((c for c in manifest["checks"] if c["property_id"] == pid), None)
    level = entry["level_claimed"]["category"] if entry else "proof"
    if args.replay:
        return framework.run_replay(pid, args.replay)

    limit = 25 * 60 if args.tier == "quick" else 100 * 60

    def on_alarm(signum, frame):
        print("TIMEOUT %s tier=%s after %ds (no verdict)" % (pid, args.tier, limit))
        os._exit(2)

    signal.signal(signal.SIGALRM, on_alarm)
    signal.alarm(limit)
    return framework.run_check(pid, args.tier, args.seed, level, entry["level_claimed"]["text"] if entry else None)


if __name__ == "__main__":
    sys.exit(main())
