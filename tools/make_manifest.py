#!/usr/bin/env python3
"""Writes MANIFEST.json from the table below (kept in one place so it stays valid)."""
import json, os
HERE = os.path.dirname(os.path.abspath(__file__))
ROOT = os.path.dirname(HERE)

TB = ("Trusted: Lean 4.33 kernel; axioms propext/Classical.choice/Quot.sound only (audited each run); translators "
      "tools/gen_tables.py (tables) and tools/gen_code.py + lean/Cvss/Py.lean (scoring source, validated against CPython each run); correspondence harness + driver; the hand-written model of the Python control flow is "
      "modelled, not verified (Decimal/float as exact rationals); frozen specification copies under lean/Cvss/Spec.")

PROOF_TECH = "Lean 4 theorems over regenerated tables + model/spec-vs-code correspondence"
PROOF_TECH_SRC = "Lean 4 theorems over regenerated tables and re-translated scoring source (model = translated source) + model/spec-vs-code correspondence"
CHECKS = {
 "C01": ("proof", "Lean: v3_build_eq_spec — for every valid metric map and both minor versions the model of cvss3.py (parse, add_missing_optional, PR-by-scope, cap, formulas) computes exactly the FIRST equations on the assignment of the ORIGINAL map; every weight the library reads is pinned to the specification's tables (kernel-decided over the regenerated tables); v3_spec_range; v3_*_decimal_robust (C19 file) shows the only inexact Decimal operations cannot change a score. Tie: translator + model-vs-code and Lean-spec-vs-code correspondence on all 5,184 base vectors and sampled temporal/environmental vectors (thorough: the whole 7.2 M-class quotient).", PROOF_TECH, "6/C01, 12"),
 "C02": ("proof", "Lean: v4_build_eq_spec — model of cvss4.py (fill-in of Modified metrics/defaults, m(), macrovector, next-lower macrovectors, product search over max vectors with fall-back, contributions, clamp, EPSILON rounding) = the specification's algorithm for every valid map; look-up table, depths, max vectors pinned to frozen specification copies; v4_lookup_total, v4_gaps_nonneg, v4_distance_choice_irrelevant, roundHalfUp_epsilon_robust. Tie: correspondence on every scoring-group assignment in random contexts + random vectors (thorough: all 15,116,544 effective assignments).", PROOF_TECH, "6/C02, 12"),
 "C03": ("proof", "Lean: v2_scores_eq_spec (model of cvss2.py = the guide's equations incl. f(Impact), cap, adjusted temporal, clamps), v2_none_iff, v2_spec_range; weights pinned. Tie: all 729 base vectors, the low-end family, sampled vectors (thorough: all 18,895,680 effective assignments).", PROOF_TECH, "6/C03, 12"),
 "C04": ("proof", "Lean: v{2,3,4}_construct_accepts_iff (constructor succeeds iff the string is in the declarative grammar), ..._mandatory_iff, construct_outcomes / no_foreign_exception for EVERY string; vocabulary pinned to the frozen specification copy, token cleanliness, exception taxonomy from exceptions.py. Tie: outcome class on valid vectors, the C04 edit stream and bounded-exhaustive small strings vs the model and vs an independently written grammar classifier.", PROOF_TECH, "6/C04, 12"),
 "C05": ("proof", "Lean: v{2,3,4}_obs_of_assignment (all named observables are functions of the normalised assignment), ..._perm_accepted / ..._nd_accepted (permutations and explicit Not Defined are accepted and state the same values). Tie: the relation on the real code for sampled vectors x variants and systematic base x single-optional pairs; model-vs-code on all observables.", PROOF_TECH, "6/C05, 12"),
 "C06": ("proof", "Lean: the five substitution families on the specification equations for arbitrary assignments (frames, ND-modified, ND-equivalent, overridden base, supplemental) + constructor-level corollaries through model = spec. Tie: the substitutions applied to sampled vectors on the real code; scores model-vs-code.", PROOF_TECH, "6/C06, 12"),
 "C07": ("proof", "Lean: clean vector = rendering of the canonical listing (exactly the defined metrics, once, table order), clean round trip, equality iff same version and same defined values, equivalence relation, hash consistency, never equal across classes (all versions). Tie: expected canonical listing, round trip, ==/!=/hash/set/dict on generated pairs incl. objects warmed by other accessor calls; model-vs-code.", PROOF_TECH, "6/C07, 12"),
 "C08": ("proof", "Lean: every accepted v2/v3 string and every v4 clean vector matches the official vectorString pattern (declarative regex semantics; fullMatch_iff; frozen transcription of the schema patterns; order_ok pins the v4 emission order to the official order); clean vectors, RH vector part and the interactive result are accepted by the own constructor. Tie: emitted strings (after interleaved sessions / accessor calls / equal version spellings) re-parsed by the code and matched with Python re; Lean matcher cross-validated against re.", PROOF_TECH, "6/C08, 12"),
 "C09": ("proof", "Lean: every score of a constructed object is k/10 with 0<=k<=100 (v2, v3, v4), None exactly for all-ND v2 groups, ratings = official scales (kernel-decided on all 101 values and lifted), v4 rating views coincide, printed score format. Tie: score atlas (every attainable tenth per version/slot, band edges) format / rating / cross-view agreement over all four JSON option sets on the real code.", PROOF_TECH, "6/C09, 12"),
 "C10": ("proof", "Lean: v2_json_valid / v3_json_valid — for every accepted vector and all four option sets as_json succeeds and has no failing location in the (frozen transcription of the) official schema; v4: the statement is false on the tree — json_v4_invalid_witness proves the negation, recorded as known findings by failing schema location and value. Tie: exact validator on the code's JSON for sampled vectors, the low-end family and accepted edited strings; JSON model-vs-code.", PROOF_TECH, "6/C10, 11, 12"),
 "C11": ("proof", "Lean: asJson{2,3}_full / asJson4_full (every field and its value), asJson{2,3}_minimal (exactly which whole groups are removed and when), asJson_sort (= unsorted followed by sorting), sortObj_perm / sortObj_sorted, keys distinct. Tie: every field of the four option sets vs input, scores, ratings and the frozen metric-name table on the real code; JSON model-vs-code.", PROOF_TECH, "6/C11, 12"),
 "C12": ("proof", "Lean: fromRh_ok_iff / fromRh_error_iff (acceptance and error taxonomy), rh_roundtrip_v{2,3,4}, printed score parses back to itself and to no other score (float grammar + binary64 rounding modelled, kernel-decided 101x101). Tie: round trip and outcome class on score-text x vector streams; model-vs-code on ASCII score texts.", PROOF_TECH, "6/C12, 12"),
 "C13": ("proof", "Lean: parseText_never_raises, parseText_sound, parseText_nodup, parseText_complete_v2/v3 (every delimited valid vector is returned) for the scanner model of the regex with findall semantics, any \\d predicate. Tie: oracle for the four clauses on generated texts; result set model-vs-code.", PROOF_TECH, "6/C13, 12"),
 "C14": ("proof", "Lean: v2/v3 step monotonicity theorems (base, temporal, 3.1 environmental in every metric; 3.0 environmental in the non-exempt metrics; witness of the 3.0 exemption), v4_step_mono / v4_step_mono_E (every scoring metric, effective values) by an integer shadow of the algorithm, an affine corner argument and 8,154 kernel checks. Tie: the relation on the real code for all v2/v3 base steps and grouped/sampled v4 steps; scores model-vs-code.", PROOF_TECH, "6/C14, 12"),
 "C15": ("proof", "Lean: v{2,3}_subvectors (faithful listing incl. base value for undefined Modified metrics), v{2,3}_reassembled (base + both sub-vectors is accepted and scores identically). Tie: expected listing and re-assembled scores on the real code; sub-vectors model-vs-code.", PROOF_TECH, "6/C15, 12"),
 "C16": ("proof", "Lean: Dialogue specification; ask_result_iff, ask_eof_iff, ask_never_keyError, dialogue_pairs, ask_result_parses_v*, ask_result_constructs; selectable_all, empty_selects_nd. Tie: scripted dialogues (valid/invalid/empty/any case, premature EOF, equal version spellings) vs an independent simulation of the statement and vs the model.", PROOF_TECH, "6/C16, 12"),
 "C17": ("proof", "Lean: dispatch, report_valid (exact report format from the library's results), report_invalid, main_interactive, main_never_crashes_any, report_scores_iff_accepted over the library model. Tie: main() in-process for all flag subsets x vectors x answer scripts vs the API, vs the Lean grammar (with history replay) and vs the model; subprocess runs in thorough.", PROOF_TECH, "6/C17, 12"),
 "C18": ("other", "Partial: Lean accessors_pure (structural: the model object is an immutable value) and accessors_total_v{2,3,4} (no accessor can fail on a constructed object); the assurance for the Python object is model-based differential execution of random accessor histories incl. mutation of returned dicts. Aliasing/caching are runtime facts the model cannot exhibit.", "Lean 4 theorems + model-based differential accessor histories", "6/C18"),
 "C19": ("other", "Partial: arithmetic part proved in Lean (v3_base/env_decimal_robust: any 1e-7 perturbation of the inexact powers leaves every score unchanged, so rounding mode and precision >= 28 cannot matter; v2 scores depend on the map only through look-ups; v4 EPSILON robustness in C02); histories (incl. look-alike neighbours), threads, hash seeds, decimal contexts, global-state snapshots are sampled against the model's pure prediction, not proved.", "Lean 4 theorems (arithmetic part) + differential histories/threads/seeds/contexts", "6/C19"),
 "C20": ("other", "Partial: no theorem quantifies over interpreters; each installed interpreter (2.7, 3.6-3.13) runs one probe on identical operations and is compared with the reference interpreter, which the other checks tie to the Lean model; Lean: sortObj_order_independent (sorted JSON does not depend on dict iteration order).", "cross-interpreter correspondence to the one Lean model", "6/C20"),
}

# what was added after the first revision (kept apart so that the original level texts stay readable)
EXTRA = {
 "C15": "",
 "C14": "",
 "C09": "",
 "C07": "",
 "C06": "",
 "C01": " Search beyond single constructions: special families (corners, full spelling, rounding ties), repeated construction, scores read from as_json(), warm / cold-start concurrency.",
 "C02": " Search beyond single constructions: special families incl. 261 frozen rounding ties found with the Lean spec, repeated construction, warm / cold-start concurrency.",
 "C03": " Search beyond single constructions: corner and cap families, repeated construction, scores read from as_json(), warm / cold-start concurrency.",
 "C13": " Lean (C13Order): parseText_order / parseText_eq_dedup - the result is exactly the first-occurrence de-duplication of the built candidates (a function of the text alone; order part of C19/C20 after repo fix 9402f24). Tie also on long texts (to 256 KiB) with vectors at power-of-two offsets and optional-only fragments.",
 "C16": " The question order is learned behaviourally, prompts are auxiliary only; runs of thousands of illegal answers.",
 "C17": " Lean (C17Messages): the message / prompt / stdout models are erasures of the verified core (parseMsg_v*, constructMsg_*_iff, mainMsg_eq, dialogue_vector, stdout_total). The report oracle compares VALUES in the API's order (layout-tolerant); wording and layout are auxiliary correspondence.",
 "C18": " Every history also exercises a related partner object; expected values come from the Lean model, not from the same (possibly polluted) process.",
 "C19": " Also: cold-start concurrency in fresh processes, repeated construction, process-global state snapshot before import vs after use, extraction result order under hash seeds.",
 "C20": " Also: argparse spellings, near-miss RH score texts, extraction result order.",
}

# source tie (DESIGN 16), appended to the level text
SRC_TIE = {
 "C01": "cvss3.py's WHOLE constructor (parse_vector, check_mandatory, handle_scope, add_missing_optional, get_value, compute_*) and its accessors (clean_vector, severities, sub-vectors, as_json) are re-translated from the source text on every run (tools/gen_code.py -> Gen/Code3) and CodeTie3.construct_eq / init_tail_eq etc. re-prove model = translated source for every string / metric dict; CodeTie3Final composes them with this property's theorems (source_v3_scores_eq_spec: the translated source computes the FIRST equations); the translation is executed against CPython on ~13,000 inputs per run (exact Decimal values, exception classes).",
 "C02": "cvss4.py's WHOLE constructor (parse_vector, check_mandatory, add_missing_optional, m(), macroVector(), the 350-line compute_base_score, final_rounding, compute_severity) and its accessors are re-translated from the source text on every run (Gen/Code4; binary floats as exact rationals, NaN modelled); CodeTie4.compute_base_score_eq re-proves translated scoring = model baseScore for EVERY metric dict, CodeTie4Ctor.construct_eq the whole constructor for every string, CodeTie4Final composes them with the grammar theorems; the translated constructor is executed against CPython on ~17,000 inputs per run (8,700 scored vectors).",
 "C03": "cvss2.py's WHOLE constructor and its accessors are re-translated from the source text on every run (Gen/Code2) and CodeTie2.construct_eq / init_tail_eq etc. re-prove model = translated source for every string / metric dict; CodeTie2Final: source_v2_scores_eq_spec (the translated source computes the guide's equations); executed against CPython on ~11,000 inputs per run.",
 "C04": 'the constructors and accessor methods this property leans on are re-translated from the source text of cvss2/3/4.py on every run and CodeTie2/3/4 (+Final) re-prove model = translated source (construct_eq: same exception class or same object for EVERY string); the translation is executed against CPython every run. CodeTie{2,3}Final: source_v{2,3}_construct_accepts_iff / _outcomes / _mandatory_iff - the translated constructor succeeds exactly on the grammar and otherwise raises the malformed or the mandatory class.',
 "C05": 'the constructors and accessor methods this property leans on are re-translated from the source text of cvss2/3/4.py on every run and CodeTie2/3/4 (+Final) re-prove model = translated source (construct_eq: same exception class or same object for EVERY string); the translation is executed against CPython every run.',
 "C06": 'the constructors and accessor methods this property leans on are re-translated from the source text of cvss2/3/4.py on every run and CodeTie2/3/4 (+Final) re-prove model = translated source (construct_eq: same exception class or same object for EVERY string); the translation is executed against CPython every run.',
 "C07": 'the constructors and accessor methods this property leans on are re-translated from the source text of cvss2/3/4.py on every run and CodeTie2/3/4 (+Final) re-prove model = translated source (construct_eq: same exception class or same object for EVERY string); the translation is executed against CPython every run.',
 "C09": 'the constructors and accessor methods this property leans on are re-translated from the source text of cvss2/3/4.py on every run and CodeTie2/3/4 (+Final) re-prove model = translated source (construct_eq: same exception class or same object for EVERY string); the translation is executed against CPython every run.',
 "C10": 'the constructors and accessor methods this property leans on are re-translated from the source text of cvss2/3/4.py on every run and CodeTie2/3/4 (+Final) re-prove model = translated source (construct_eq: same exception class or same object for EVERY string); the translation is executed against CPython every run.',
 "C11": 'the constructors and accessor methods this property leans on are re-translated from the source text of cvss2/3/4.py on every run and CodeTie2/3/4 (+Final) re-prove model = translated source (construct_eq: same exception class or same object for EVERY string); the translation is executed against CPython every run.',
 "C14": 'the constructors and accessor methods this property leans on are re-translated from the source text of cvss2/3/4.py on every run and CodeTie2/3/4 (+Final) re-prove model = translated source (construct_eq: same exception class or same object for EVERY string); the translation is executed against CPython every run.',
 "C15": 'the constructors and accessor methods this property leans on are re-translated from the source text of cvss2/3/4.py on every run and CodeTie2/3/4 (+Final) re-prove model = translated source (construct_eq: same exception class or same object for EVERY string); the translation is executed against CPython every run.',
 "C08": 'the constructors and accessor methods this property leans on are re-translated from the source text of cvss2/3/4.py on every run and CodeTie2/3/4 (+Final) re-prove model = translated source (construct_eq: same exception class or same object for EVERY string); the translation is executed against CPython every run.',
 "C12": "the constructors and accessor methods this property leans on are re-translated from the source text of cvss2/3/4.py on every run and CodeTie2/3/4 (+Final) re-prove model = translated source (construct_eq: same exception class or same object for EVERY string); the translation is executed against CPython every run. Red Hat notation: from_rh_vector / rh_vector are translated too and CodeTieNRh.from_rh_vector_eq / rh_vector_eq re-prove them equal to the model's fromRh / rh (float() and float equality as modelled in Model/Float.lean); 2,100 RH strings per version are run against CPython.",
}


def main():
    checks = []
    for pid, (cat, text, tech, ref) in sorted(CHECKS.items()):
        text = text + EXTRA.get(pid, "") + ((" SOURCE TIE (DESIGN 16): " + SRC_TIE[pid]) if pid in SRC_TIE else "")
        if pid in SRC_TIE and tech == PROOF_TECH:
            tech = PROOF_TECH_SRC
        checks.append({
            "property_id": pid,
            "quick_cmd": "./check %s --tier quick" % pid,
            "thorough_cmd": "./check %s --tier thorough" % pid,
            "evidence_file": "evidence/%s.json" % pid,
            "replay_cmd_template": "./check %s --replay {path}" % pid,
            "engine": "lean-proof+correspondence",
            "level_claimed": {"category": cat, "text": text, "design_ref": "DESIGN.md §" + ref},
            "level_note": TB,
            "technique": tech,
        })
    na = []
    props = [json.loads(l)["id"] for l in open(os.path.join(ROOT, "properties.jsonl"))]
    for p in props:
        if p not in CHECKS:
            na.append({"property_id": p, "reason": "not claimed in this revision"})
    m = {
        "version": 1,
        "setup_cmd": "./setup.sh",
        "hooks": {"guard": "CVSS_VERIF", "enable": "no hooks are needed: the library is imported in-process by the harness", 
                  "baseline_off_cmd": "cd /repo && /venv/bin/python -m pytest -ra -q -p no:cacheprovider --timeout=900 --continue-on-collection-errors",
                  "source_commits": [], "add_only": True},
        "engines": [{"name": "lean-proof+correspondence", "path": "lean/ tools/", "serves_properties": sorted(CHECKS),
                     "kind_free_text": "Lean 4 theorems about an executable model (tables regenerated from /repo every run) + differential correspondence between the compiled model/spec driver and the real code"}],
        "checks": checks,
        "not_applicable": na,
        "notes": "See DESIGN.md. ./check Cxx --tier quick|thorough; VERIF_SEED honoured.",
    }
    json.dump(m, open(os.path.join(ROOT, "MANIFEST.json"), "w"), indent=1)

if __name__ == "__main__":
    main()
