#!/usr/bin/env python3
"""Writes MANIFEST.json from the table below (kept in one place so it stays valid)."""
import json, os
HERE = os.path.dirname(os.path.abspath(__file__))
ROOT = os.path.dirname(HERE)

TB = ("Trusted: Lean 4.33 kernel; axioms propext/Classical.choice/Quot.sound only (audited each run); translator "
      "tools/gen_tables.py; correspondence harness + driver; the hand-written model of the Python control flow is "
      "modelled, not verified (Decimal/float as exact rationals); frozen specification copies under lean/Cvss/Spec.")

PROOF_TECH = "Lean 4 theorems over regenerated tables + model/spec-vs-code correspondence"
CHECKS = {
 "C01": ("proof", "Lean: every weight the library reads is the specification's (kernel-decided over the regenerated tables); model = specification equations; tie: translator + model-vs-code and Lean-spec-vs-code correspondence on all base vectors and sampled temporal/environmental vectors.", PROOF_TECH, "6/C01"),
 "C02": ("proof", "Lean: look-up table, depths and highest-severity vectors pinned to the specification's copies; model score = specification algorithm; tie: translator + correspondence on every scoring-group assignment in random contexts and random full vectors.", PROOF_TECH, "6/C02"),
 "C03": ("proof", "Lean: v2 weights pinned to the guide; model = guide equations; tie: translator + correspondence on all base vectors and sampled temporal/environmental vectors.", PROOF_TECH, "6/C03"),
 "C04": ("proof", "Lean: the parser's tables are the specification's vocabulary, tokens separator-free, exception taxonomy; acceptance of the model parser = declarative grammar; tie: outcome class of the three constructors on valid vectors and the C04 edit stream vs model and vs an independently written grammar classifier.", PROOF_TECH, "6/C04"),
 "C05": ("proof", "Lean: parse result is invariant under field permutation and explicit Not Defined; observables factor through the normalised map; tie: the relation itself on the real code for sampled vectors x variants, and model-vs-code on all observables.", PROOF_TECH, "6/C05"),
 "C06": ("proof", "Lean: Not Defined weights equal their declared equivalents in the regenerated tables, v4 defaults, modified-override facts; tie: the five substitution families applied to sampled vectors on the real code, scores model-vs-code.", PROOF_TECH, "6/C06"),
 "C07": ("proof", "Lean: equality is an equivalence consistent with the hash key, never across classes; clean vector canonical; tie: clean vector vs expected canonical listing, re-parse round trip, ==/hash/set/dict on generated pairs, model-vs-code.", PROOF_TECH, "6/C07"),
 "C08": ("proof", "Lean: every legal field matches the official pattern (declarative regex semantics, frozen transcription of the schema patterns); emitted vectors accepted by the model parser; tie: emitted strings re-parsed by the code and matched with Python re against the pinned patterns; Lean regex matcher cross-validated against re.", PROOF_TECH, "6/C08"),
 "C09": ("proof", "Lean: rating functions equal the official scales on all 101 values; the three v4 rating views coincide; score range; tie: score atlas (every attainable tenth per version/slot incl. band edges) format, rating and cross-view agreement on the real code.", PROOF_TECH, "6/C09"),
 "C10": ("proof", "Lean: schema semantics (frozen transcription of the pinned schemas); every metric field, score and rating passes its constraint for v2/v3.0/v3.1; v4: negation witness (the statement is false on the tree, recorded as known findings by failing schema location); tie: exact validator on the code's JSON for sampled vectors x options, JSON model-vs-code.", PROOF_TECH, "6/C10"),
 "C11": ("proof", "Lean: JSON keys distinct, sort = permutation sorted by key, minimal = full minus optional groups; tie: every field of the four option sets vs input, scores, ratings and the frozen metric-name table on the real code; JSON model-vs-code.", PROOF_TECH, "6/C11"),
 "C12": ("proof", "Lean: printed score parses back to itself and to no other score (all 101 x 101, float grammar + binary64 rounding modelled); rh format; from_rh acceptance; tie: round trip and outcome class on score-text x vector streams on the real code; model-vs-code on ASCII score texts.", PROOF_TECH, "6/C12"),
 "C13": ("proof", "Lean: scanner model of the regex, valid fields use only class characters; totality / soundness / no-duplicates of the model; tie: oracle for the four clauses on generated texts on the real code, result set model-vs-code.", PROOF_TECH, "6/C13"),
 "C14": ("proof", "Lean: weights monotone along the severity orders in the regenerated tables; rounding monotone; tie: the relation itself on the real code for all v2/v3 base steps and sampled/grouped v4 steps; scores model-vs-code.", PROOF_TECH, "6/C14"),
 "C15": ("proof", "Lean: groups partition the metric table in order; sub-vectors list group metrics with stated/ND/base values; tie: expected listing and score preservation of the re-assembled vector on the real code; sub-vectors model-vs-code.", PROOF_TECH, "6/C15"),
 "C16": ("proof", "Lean: every legal value selectable, empty answer selects Not Defined, result = accepted answers (model of the question loop); tie: scripted dialogues vs an independent simulation of the statement and vs the model.", PROOF_TECH, "6/C16"),
 "C17": ("proof", "Lean: version dispatch and report format of the CLI model over the library model; tie: main() in-process for all flag subsets x vectors x answer scripts vs what the API reports and vs the model.", PROOF_TECH, "6/C17"),
 "C18": ("other", "Partial: Lean theorem accessors_pure is structural (the model object is an immutable value); the assurance is model-based differential execution of random accessor histories incl. mutation of returned dicts. Aliasing/caching are runtime facts the model cannot exhibit.", "Lean 4 theorem (structural) + model-based differential accessor histories", "6/C18"),
 "C19": ("other", "Partial: arithmetic part proved in Lean (scores depend on the metric map only through look-ups; decimal robustness/exactness); histories, threads, hash seeds, decimal contexts, global-state snapshots are sampled against the model's pure prediction, not proved.", "Lean 4 theorems (arithmetic part) + differential histories/threads/seeds/contexts", "6/C19"),
 "C20": ("other", "Partial: no theorem quantifies over interpreters; each of the installed interpreters is tied to the same Lean model by running one probe on identical operations and comparing with the reference interpreter (which the other checks tie to the model).", "cross-interpreter correspondence to the one Lean model", "6/C20"),
}

def main():
    checks = []
    for pid, (cat, text, tech, ref) in sorted(CHECKS.items()):
        checks.append({
            "property_id": pid,
            "quick_cmd": "./check %s --tier quick" % pid,
            "thorough_cmd": "./check %s --tier thorough" % pid,
            "evidence_file": "evidence/%s.json" % pid,
            "replay_cmd_template": "./check %s --replay {path}" % pid,
            "engine": "lean-proof+correspondence",
            "level_claimed": {"category": cat, "text": text, "design_ref": "DESIGN.md §" + ref},
            "level_note": TB,
            "technique": tech,
        })
    na = []
    props = [json.loads(l)["id"] for l in open(os.path.join(ROOT, "properties.jsonl"))]
    for p in props:
        if p not in CHECKS:
            na.append({"property_id": p, "reason": "not claimed in this revision"})
    m = {
        "version": 1,
        "setup_cmd": "./setup.sh",
        "hooks": {"guard": "CVSS_VERIF", "enable": "no hooks are needed: the library is imported in-process by the harness", 
                  "baseline_off_cmd": "cd /repo && /venv/bin/python -m pytest -ra -q -p no:cacheprovider --timeout=900 --continue-on-collection-errors",
                  "source_commits": [], "add_only": True},
        "engines": [{"name": "lean-proof+correspondence", "path": "lean/ tools/", "serves_properties": sorted(CHECKS),
                     "kind_free_text": "Lean 4 theorems about an executable model (tables regenerated from /repo every run) + differential correspondence between the compiled model/spec driver and the real code"}],
        "checks": checks,
        "not_applicable": na,
        "notes": "See DESIGN.md. ./check Cxx --tier quick|thorough; VERIF_SEED honoured.",
    }
    json.dump(m, open(os.path.join(ROOT, "MANIFEST.json"), "w"), indent=1)

if __name__ == "__main__":
    main()
