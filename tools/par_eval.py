#!/usr/bin/env python3
"""
Evaluate a patch on COPIES: a scratch git worktree of /repo with the patch applied and a scratch copy of /verif's
machinery (tools, lean incl. build output, corpus, known findings), with CVSS_REPO pointing at the worktree.  /repo and
/verif themselves are not touched, so several patches can be evaluated at once and clean-tree checks can run meanwhile.
Used for the benign round (false-alarm test) and for pre-screening seeded changes; the recorded evaluation of a kept
seeded change is still done by tools/seed_eval.py on /repo itself.

usage: par_eval.py <id> <patch> [--checks C01,...|all] [--jobs N] [--out /verif/benign] [--kind benign|seed] [--tier quick]
"""
import argparse
import json
import os
import re
import shutil
import subprocess
import sys
import time
from concurrent.futures import ThreadPoolExecutor

VERIF = os.path.dirname(os.path.dirname(os.path.abspath(__file__)))
REPO = "/repo"
PY = "/venv/bin/python"


def sh(cmd, cwd=None, env=None, timeout=6000):
    p = subprocess.run(cmd, cwd=cwd, env=env, stdout=subprocess.PIPE, stderr=subprocess.STDOUT, timeout=timeout)
    return p.returncode, p.stdout.decode("utf-8", "replace")


def tests(wt):
    rc, out = sh([PY, "-m", "pytest", "-q", "-p", "no:cacheprovider", "-rA", "tests"], cwd=wt,
                 env=dict(os.environ, PYTHONPATH=wt))
    return sorted(set(re.findall(r"^PASSED (\S+)", out, re.M)))


def main():
    ap = argparse.ArgumentParser()
    ap.add_argument("id")
    ap.add_argument("patch")
    ap.add_argument("--checks", default="all")
    ap.add_argument("--jobs", type=int, default=3)
    ap.add_argument("--out", default=os.path.join(VERIF, "benign"))
    ap.add_argument("--kind", default="benign")
    ap.add_argument("--tier", default="quick")
    ap.add_argument("--note", default="")
    ap.add_argument("--seed", default="0")
    ap.add_argument("--keep", action="store_true", help="keep the scratch copies (for inspection)")
    args = ap.parse_args()
    root = "/tmp/ev/%s" % args.id
    wt, vf = root + "/repo", root + "/verif"
    sh(["git", "-C", REPO, "worktree", "remove", "--force", wt])
    shutil.rmtree(root, ignore_errors=True)
    os.makedirs(root)
    meta = {"id": args.id, "kind": args.kind, "note": args.note, "tier": args.tier, "evaluated_on": "scratch copies (tools/par_eval.py)"}
    try:
        rc, out = sh(["git", "-C", REPO, "worktree", "add", "--detach", wt, "HEAD"])
        base_pass = tests(wt)
        rc, out = sh(["git", "-C", wt, "apply", os.path.abspath(args.patch)])
        if rc != 0:
            print("patch does not apply:", out)
            return 2
        mut_pass = tests(wt)
        meta["tests_pass_before"], meta["tests_pass_after"] = len(base_pass), len(mut_pass)
        meta["same_tests_pass"] = base_pass == mut_pass
        if not (base_pass == mut_pass and len(base_pass) >= 34):
            print("tests differ:", len(base_pass), len(mut_pass), sorted(set(base_pass) ^ set(mut_pass))[:5])
            return 3
        rc, out = sh(["rsync", "-a", "--exclude", ".git", "--exclude", "replays", "--exclude", "evidence", "--exclude", "seeded",
                      "--exclude", "benign", "--exclude", "scratch", VERIF + "/", vf + "/"])
        os.makedirs(vf + "/evidence", exist_ok=True)
        os.makedirs(vf + "/scratch", exist_ok=True)
        env = dict(os.environ, CVSS_REPO=wt, VERIF_SEED=args.seed)
        env.pop("VERIF_EVIDENCE_DIR", None)
        checks = ["C%02d" % i for i in range(1, 21)] if args.checks == "all" else args.checks.split(",")

        def one(c):
            t0 = time.time()
            rc, out = sh([vf + "/check", c, "--tier", args.tier], cwd=vf, env=env)
            lines = [l for l in out.splitlines() if l.startswith(("VIOLATION", "KNOWN-FINDING", "PASS", "FAIL", "TIMEOUT", "NOTE"))]
            sig = []
            for l in lines:
                m = re.match(r"VIOLATION property=(\S+) replay=(\S+)(.*)", l)
                if m:
                    try:
                        d = json.load(open(os.path.join(vf, m.group(2))))
                        sig.append(d.get("signature") or ("no-failing-input-found: " + "; ".join(
                            str(x)[:300] for x in d.get("no_longer_checks", [])[:3])))
                    except Exception:  # noqa
                        sig.append(m.group(3).strip())
            if rc not in (0, 1):
                sig.append("exit %d: %s" % (rc, out[-400:]))
            return c, {"exit": rc, "signatures": sig[:8], "violation_lines": sum(1 for l in lines if l.startswith("VIOLATION")),
                       "notes": [l[:300] for l in lines if l.startswith("NOTE")][:5], "wall_s": round(time.time() - t0, 1)}

        results = {}
        c, r = one(checks[0])      # alone first: translator + build happen once
        results[c] = r
        print(args.id, c, r["exit"], r["signatures"][:2], flush=True)
        with ThreadPoolExecutor(args.jobs) as ex:
            for c, r in ex.map(one, checks[1:]):
                results[c] = r
                print(args.id, c, r["exit"], r["signatures"][:2], r["notes"][:1], flush=True)
        meta["checks"] = results
        meta["alarms"] = [c for c, r in results.items() if r["exit"] != 0]
        d = os.path.join(args.out, args.id)
        os.makedirs(d, exist_ok=True)
        if os.path.abspath(args.patch) != os.path.abspath(os.path.join(d, "patch.diff")):
            shutil.copy(args.patch, os.path.join(d, "patch.diff"))
        json.dump(meta, open(os.path.join(d, "meta.json"), "w"), indent=1)
        print(args.id, "alarms:", meta["alarms"])
        return 0
    finally:
        if not args.keep:
            sh(["git", "-C", REPO, "worktree", "remove", "--force", wt])
            shutil.rmtree(root, ignore_errors=True)


if __name__ == "__main__":
    sys.exit(main())
