"""
Minimal JSON-Schema validator for the keywords the four FIRST CVSS schemas use
(type, enum, const, properties, required, $ref, minimum, maximum, multipleOf, pattern, allOf, anyOf).
Numbers are compared exactly (a float is read as the decimal its repr shows).
Returns the list of failing locations, so a finding can be identified by *where* validation fails.
"""
from __future__ import annotations

import json
import os
import re
from fractions import Fraction

SCHEMA_DIR = os.path.join(os.path.dirname(os.path.dirname(os.path.abspath(__file__))), "schemas")
_cache = {}


def load(version):
    if version not in _cache:
        _cache[version] = json.load(open(os.path.join(SCHEMA_DIR, "cvss-v%s.json" % version)))
    return _cache[version]


def num(x):
    if isinstance(x, bool):
        return None
    if isinstance(x, int):
        return Fraction(x)
    if isinstance(x, float):
        return Fraction(repr(x))
    return None


def type_ok(t, x):
    if t == "object":
        return isinstance(x, dict)
    if t == "string":
        return isinstance(x, str)
    if t == "number":
        return isinstance(x, (int, float)) and not isinstance(x, bool)
    if t == "integer":
        return isinstance(x, int) and not isinstance(x, bool)
    if t == "array":
        return isinstance(x, list)
    if t == "boolean":
        return isinstance(x, bool)
    if t == "null":
        return x is None
    return False


def validate(schema, inst, root=None, path="$"):
    """list of 'path:keyword' strings; empty = valid"""
    root = root or schema
    errs = []
    if "$ref" in schema:
        ref = schema["$ref"]
        assert ref.startswith("#/")
        tgt = root
        for part in ref[2:].split("/"):
            tgt = tgt[part]
        errs += validate(tgt, inst, root, path)
    if "type" in schema and not type_ok(schema["type"], inst):
        errs.append(path + ":type")
    if "enum" in schema and inst not in schema["enum"]:
        errs.append(path + ":enum")
    if "const" in schema and inst != schema["const"]:
        errs.append(path + ":const")
    n = num(inst)
    if n is not None:
        if "minimum" in schema and n < num(schema["minimum"]):
            errs.append(path + ":minimum")
        if "maximum" in schema and n > num(schema["maximum"]):
            errs.append(path + ":maximum")
        if "multipleOf" in schema and (n / num(schema["multipleOf"])).denominator != 1:
            errs.append(path + ":multipleOf")
    if "pattern" in schema and isinstance(inst, str) and re.search(schema["pattern"], inst) is None:
        errs.append(path + ":pattern")
    if isinstance(inst, dict):
        for k in schema.get("required", []):
            if k not in inst:
                errs.append(path + "." + k + ":required")
        for k, sub in schema.get("properties", {}).items():
            if k in inst:
                errs += validate(sub, inst[k], root, path + "." + k)
    for i, sub in enumerate(schema.get("allOf", [])):
        errs += validate(sub, inst, root, path + "/allOf[%d]" % i)
    if "anyOf" in schema:
        alts = [validate(sub, inst, root, path) for sub in schema["anyOf"]]
        if not any(len(a) == 0 for a in alts):
            errs.append(path + ":anyOf")
    return errs
