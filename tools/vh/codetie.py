"""
SOURCE TIE (added to the table translator and the behavioural correspondence):

  1. tools/gen_code.py re-translates the scoring methods of cvss2.py / cvss3.py / cvss4.py from the SOURCE TEXT of the
     current tree into lean/Cvss/Gen/Code{2,3,4}.lean;
  2. `lake build Cvss.Props.CodeTie{2,3,4}` re-proves "hand-written model = translated source" (for every metric dict);
  3. the compiled `codedriver` runs the TRANSLATED source on concrete vectors and this module runs the REAL methods on
     the same vectors in-process: exact Decimal attributes, filled-in dicts, m() / macroVector().  That validates the
     translator and lean/Cvss/Py.lean against CPython (they are in the trusted base of step 2).

Status per class:
  kernel-checked   translated, equality theorems re-checked, translation agrees with CPython on every input run
  not-re-proved    translated, but an equality theorem no longer checks (the source changed - semantically or not)
  untranslated     the current source is outside the translator's Python subset (a rewrite); nothing is claimed
  unvalidated      the translation disagrees with CPython on some input (translator / Py.lean defect or state in the code)

Only `kernel-checked` adds assurance.  Any other status is reported (NOTE line, evidence) and makes the check extend its
failing-input search exactly as for a broken tie; by itself it is not a violation, because the registered tie (table
translator + behavioural correspondence) is still in force and a rewrite of the source is not a property failure.
"""
import json
import os
import random
import subprocess
import time
from fractions import Fraction

from . import core

VERIF = core.VERIF
LEAN = core.LEAN_DIR
CODEDRIVER = os.path.join(LEAN, ".lake", "build", "bin", "codedriver")

CLASS_OF = {"2": "Code2", "3": "Code3", "4": "Code4"}
# which translated classes each property's theorems lean on
NEEDS = {
    "C01": ["3"], "C02": ["4"], "C03": ["2"], "C04": ["2", "3", "4"], "C05": ["2", "3", "4"],
    "C06": ["2", "3", "4"], "C07": ["2", "3", "4"], "C09": ["2", "3", "4"], "C10": ["2", "3", "4"], "C11": ["2", "3", "4"],
    "C08": ["2", "3", "4"], "C12": ["2", "3", "4"], "C14": ["2", "3", "4"], "C15": ["2", "3"],
}
V4_KEYS = ["AV", "AC", "AT", "PR", "UI", "VC", "VI", "VA", "SC", "SI", "SA", "CR", "IR", "AR", "E", "MSI", "MSA", "MAV", "S", "U"]


def _sh(cmd, cwd=None, timeout=3000):
    p = subprocess.run(cmd, cwd=cwd, stdout=subprocess.PIPE, stderr=subprocess.STDOUT, timeout=timeout)
    return p.returncode, p.stdout.decode("utf-8", "replace")


def translate_and_prove(pid, log):
    """steps 1 and 2 (call under the build lock). -> {version: {status, detail, translated, theorems_module}}"""
    vers = NEEDS.get(pid, [])
    res = {}
    if not vers:
        return res
    rc, out = _sh(["/venv/bin/python", os.path.join(VERIF, "tools", "gen_code.py"), "--repo", core.REPO])
    try:
        info = json.loads(out.strip().splitlines()[-1])
    except Exception:  # noqa
        info = {"classes": {}, "changed": [], "crash": out[-600:]}
    log.append("[source translator] changed=%s" % info.get("changed"))
    t0 = time.time()
    rc_drv, out_drv = _sh(["lake", "build", "codedriver"], cwd=LEAN)
    for v in vers:
        cls = CLASS_OF[v]
        c = info.get("classes", {}).get(cls)
        r = {"class": cls, "translated": (c or {}).get("translated", []), "module": "Cvss.Props.CodeTie" + v}
        # CodeTieN.lean plus its companions (CodeTieNCtor, CodeTieNFinal, ...): all declare into namespace CodeTieN
        r["modules"] = [r["module"]] + sorted(
            "Cvss.Props." + fn[:-5] for fn in os.listdir(os.path.join(LEAN, "Cvss", "Props"))
            if fn.startswith("CodeTie%s" % v) and fn.endswith(".lean") and fn != "CodeTie%s.lean" % v)
        if c is None:
            r.update(status="untranslated", detail="translator did not run: " + str(info.get("crash", ""))[:300])
        elif c["untranslated"]:
            r.update(status="untranslated", detail="; ".join("%s: %s" % (u["name"], u["error"]) for u in c["untranslated"])[:600])
        elif rc_drv != 0:
            r.update(status="untranslated", detail="the translation does not elaborate: " + out_drv[-500:])
        else:
            rc, o = _sh(["lake", "build"] + r["modules"], cwd=LEAN)
            if rc == 0:
                r.update(status="kernel-checked", detail="")
            else:
                errs = [l for l in o.splitlines() if "error" in l][:6]
                r.update(status="not-re-proved", detail="\n".join(errs)[:900] or o[-600:])
        res[v] = r
    log.append("[source tie %.1fs] %s" % (time.time() - t0, {v: r["status"] for v, r in res.items()}))
    return res


def _run_codedriver(lines):
    data = ("\n".join(lines) + "\n").encode("utf-8")
    p = subprocess.run([CODEDRIVER], input=data, stdout=subprocess.PIPE, stderr=subprocess.PIPE)
    if p.returncode != 0:
        raise RuntimeError("codedriver exit %d: %s" % (p.returncode, p.stderr.decode()[-300:]))
    out = p.stdout.decode("utf-8").split("\n")
    if out and out[-1] == "":
        out.pop()
    if len(out) != len(lines):
        raise RuntimeError("codedriver returned %d lines for %d requests" % (len(out), len(lines)))
    return out


def _frac(x):
    if x is None:
        return "None"
    f = Fraction(x)
    return "%d/%d" % (f.numerator, f.denominator)


def _real(ver, s):
    """what the real methods leave on the object, in the codedriver's output format"""
    im = core.impl()
    try:
        o = im.cls[ver](s)
    except im.CVSSError:
        return "rejected"
    except Exception:  # noqa
        return "exc"
    try:
        def js(sort, minimal):
            try:
                d = o.as_json(sort=sort, minimal=minimal)
                out = []
                for k, v in d.items():
                    if isinstance(v, str):
                        out.append('%s="%s"' % (k, v))
                    elif v is None:
                        out.append("%s=null" % k)
                    else:
                        from decimal import Decimal
                        out.append("%s=%s" % (k, _frac(Decimal(repr(float(v))))))
                return ",".join(out)
            except Exception:  # noqa
                return "EXC"

        def call(f, *a):
            try:
                return f(*a)
            except Exception:  # noqa
                return "EXC"

        if ver == "2":
            return "ok\t%s %s %s\t%s\t%s\t%s\t%s" % (
                _frac(o.base_score), _frac(o.temporal_score), _frac(o.environmental_score), call(o.clean_vector),
                call(lambda: "|".join(o.severities())), call(o.temporal_vector), call(o.environmental_vector)) + "\t" + ";".join(
                js(a, b) for a in (False, True) for b in (False, True)) + "\t" + call(lambda: " ".join(
                    "None" if x is None else _frac(__import__("decimal").Decimal(repr(float(x)))) for x in o.scores()))
        if ver == "3":
            return "ok\t%s %s %s\t%s\t%s" % (
                _frac(o.base_score), _frac(o.temporal_score), _frac(o.environmental_score),
                ",".join("%s:%s" % kv for kv in sorted(o.metrics.items())),
                ",".join("%s:%s" % kv for kv in sorted(o.original_metrics.items()))) + "\t%s\t%s\t%s\t%s\t%s" % (
                call(o.clean_vector), call(o.clean_vector, False), call(lambda: "|".join(o.severities())),
                call(o.temporal_vector), call(o.environmental_vector)) + "\t" + ";".join(
                js(a, b) for a in (False, True) for b in (False, True)) + "\t" + call(lambda: " ".join(
                    "None" if x is None else _frac(__import__("decimal").Decimal(repr(float(x)))) for x in o.scores()))
        ms = []
        for k in V4_KEYS:
            try:
                r = o.m(k)
                ms.append("None" if r is None else str(r))
            except Exception:  # noqa
                ms.append("EXC")
        try:
            mv = o.macroVector()
        except Exception:  # noqa
            mv = "EXC"
        return "ok\t%s\t%s\t%s\t%s" % (mv, " ".join(ms), call(o.clean_vector), call(o.clean_vector, False))
    except Exception as e:  # noqa  (attribute renamed, other types: not comparable)
        return "incomparable\t%s: %s" % (type(e).__name__, e)


def _real_construct(ver, s):
    """outcome of the real constructor on ANY string, in the format of the codedriver's K-operations"""
    im = core.impl()
    try:
        o = im.cls[ver](s)
    except Exception as e:  # noqa
        n = type(e).__name__
        if isinstance(e, im.CVSSError) and n.startswith("CVSS" + ver):
            n = n[5:]
        return "err\t" + n
    try:
        if ver == "2":
            return "ok\t%s %s %s\t%s" % (_frac(o.base_score), _frac(o.temporal_score), _frac(o.environmental_score),
                                         ",".join("%s:%s" % kv for kv in sorted(o.metrics.items())))
        if ver == "3":
            return "ok\t%s %s %s\t%s\t%s" % (_frac(o.base_score), _frac(o.temporal_score), _frac(o.environmental_score),
                                             ",".join("%s:%s" % kv for kv in sorted(o.metrics.items())), o.minor_version)
        from decimal import Decimal
        return "ok\t%s\t%s\t%s\t%s" % (_frac(Decimal(repr(float(o.base_score)))), o.severity,
                                       ",".join("%s:%s" % kv for kv in sorted(o.metrics.items())),
                                       ",".join("%s:%s" % kv for kv in sorted(o.original_metrics.items())))
    except Exception as e:  # noqa
        return "incomparable\t%s: %s" % (type(e).__name__, e)


def _canon_k(ver, line):
    p = line.split("\t")
    if p and p[0] == "ok":
        idx = [2] if ver in ("2", "3") else [3, 4]
        for i in idx:
            if i < len(p) and p[i]:
                p[i] = ",".join(sorted(p[i].split(",")))
    return "\t".join(p)


def _strings(ver, rng, n):
    """valid vectors and near-valid strings (the C04 edit stream) for the whole-constructor comparison"""
    out = []
    for _ in range(n):
        s = core.rand_vector(ver, rng)
        out.append(s)
        for _ in range(2):
            try:
                e = core.edit(s, rng, ver)
            except Exception:  # noqa
                continue
            if isinstance(e, str):
                out.append(e)
    out += ["", "/", ":", "CVSS:3.1/", "CVSS:4.0/", "AV:N", "CVSS:3.0/AV:N/"]
    try:
        out += core.optional_only(ver, rng, 30)
    except Exception:  # noqa
        pass
    return [s for s in out if isinstance(s, str) and core.sendable(s)]


def _canon(ver, line):
    if ver == "3" and line.startswith("ok\t"):
        p = line.split("\t")
        if len(p) >= 4:
            p[2] = ",".join(sorted(p[2].split(","))) if p[2] else p[2]
            p[3] = ",".join(sorted(p[3].split(","))) if p[3] not in ("", "None") else p[3]
            return "\t".join(p)
    return line


def _inputs(ver, rng, n):
    V = core.VOCAB[ver]
    out = []
    # every assignment of the mandatory metrics (v2: 729, v3: 2 x 2,592); v4 has 104,976: sampled
    mand = [(k, vs) for k, vs in V["vocab"] if k in V["mandatory"]]
    if ver in ("2", "3"):
        import itertools
        for combo in itertools.product(*[vs for _, vs in mand]):
            a = dict(zip([k for k, _ in mand], combo))
            for pf in core.PREFIX[ver]:
                out.append(core.render(ver, a, prefix=pf))
    for _ in range(n):
        out.append(core.rand_vector(ver, rng))
    for _ in range(n // 4):
        out.append(core.rand_vector(ver, rng, p_absent=0.1, p_nd=0.3))
    try:
        out += [s for s in core.special(ver, rng, 200)]
        if ver == "2":
            out += core.v2_low_family()[:4000]
    except Exception:  # noqa
        pass
    return [s for s in out if core.sendable(s)]


def validate_translation(pid, tie, seed, scale=1):
    """step 3. -> per version {compared, differences:[...]}; downgrades `kernel-checked` to `unvalidated` on a difference"""
    rng = random.Random(seed * 104729 + 17)
    for v, r in tie.items():
        if r["status"] not in ("kernel-checked", "not-re-proved"):
            continue
        if not os.path.exists(CODEDRIVER):
            r["validation"] = {"compared": 0, "note": "codedriver missing"}
            continue
        items = _inputs(v, rng, 3000 * scale)
        try:
            got = _run_codedriver(["%s\t%s" % (v, core.enc(s)) for s in items])
        except Exception as e:  # noqa
            r["validation"] = {"compared": 0, "note": str(e)[:300]}
            continue
        diffs, incomparable, n_ok = [], 0, 0
        for s, g in zip(items, got):
            w = _real(v, s)
            if w.startswith("incomparable"):
                incomparable += 1
                continue
            if _canon(v, g) != _canon(v, w):
                if len(diffs) < 5:
                    diffs.append({"input": s, "translated_source": g[:300], "real_code": w[:300]})
            else:
                n_ok += 1
        # the whole translated constructor (parse_vector, check_mandatory, ...) on valid and near-valid strings
        n_k = 0
        if "__init__" in r.get("translated", []) or (v == "4" and "parse_vector" in r.get("translated", [])):
            strs = _strings(v, rng, 1500 * scale)
            if v == "4":
                strs += [core.rand_vector("4", rng) for _ in range(4000 * scale)] + [core.rand_vector("4", rng, p_absent=0.2, p_nd=0.2)
                                                                                     for _ in range(2000 * scale)]
                try:
                    strs += [x for x in core.special("4", rng, 400)]
                except Exception:  # noqa
                    pass
                strs = [x for x in strs if core.sendable(x)]
            try:
                gotk = _run_codedriver(["K%s\t%s" % (v, core.enc(s)) for s in strs])
            except Exception as e:  # noqa
                gotk, strs = [], []
                r["validation_note"] = str(e)[:300]
            kinds = {}
            for s, g in zip(strs, gotk):
                w = _real_construct(v, s)
                if w.startswith("incomparable"):
                    incomparable += 1
                    continue
                n_k += 1
                kinds[w.split("\t")[1] if w.startswith("err") else "ok"] = kinds.get(w.split("\t")[1] if w.startswith("err") else "ok", 0) + 1
                if _canon_k(v, g) != _canon_k(v, w):
                    if len(diffs) < 5:
                        diffs.append({"input": s, "translated_source": g[:300], "real_code": w[:300], "op": "construct"})
                else:
                    n_ok += 1
            r["constructor_outcomes"] = kinds
        if "from_rh_vector" in r.get("translated", []) and "rh_vector" in r.get("translated", []):
            # Red Hat notation: from_rh_vector on right / wrong / oddly spelled scores and on malformed texts, rh_vector of the result
            im = core.impl()
            rh = []
            for s_ in items[: 700 * scale]:
                try:
                    o = im.cls[v](s_)
                    b = o.scores()[0]
                except Exception:  # noqa
                    continue
                t = int(round(b * 10))
                rh += ["%d.%d/%s" % (t // 10, t % 10, s_), "%d.%d/%s" % ((t + 1) // 10, (t + 1) % 10, s_), rng.choice(
                    ["%d.%d0/%s", " %d.%d /%s", "+%d.%d/%s", "%d%de-1/%s", "%d.%d/ %s", "%d.%d|%s", "%d.%d/%s/", "%d.%d//%s"]) % (
                    t // 10, t % 10, s_)]
            rh += ["", "/", "7.5", "nan/" + items[0], "inf/" + items[0], "1e400/" + items[0], "x/" + items[0], "/" + items[0],
                   "7.5/", "1_0.0/" + items[0], "0x1p3/" + items[0], "٧.٥/" + items[0]]
            rh = [x for x in rh if core.sendable(x) and all(ord(c) < 128 for c in x.split("/", 1)[0])]
            try:
                gotr = _run_codedriver(["R%s\t%s" % (v, core.enc(x)) for x in rh])
            except Exception as e:  # noqa
                gotr, rh = [], []
                r["validation_note"] = str(e)[:300]
            for x, g in zip(rh, gotr):
                try:
                    o = im.cls[v].from_rh_vector(x)
                    from decimal import Decimal
                    w = "ok\t%s\t%s" % (_frac(Decimal(repr(float(o.scores()[0])))), o.rh_vector())
                except Exception as e:  # noqa
                    n = type(e).__name__
                    if isinstance(e, im.CVSSError) and n.startswith("CVSS" + v):
                        n = n[5:]
                    w = "err\t" + n
                n_k += 1
                if g != w:
                    if len(diffs) < 5:
                        diffs.append({"input": x, "translated_source": g[:300], "real_code": w[:300], "op": "from_rh_vector"})
                else:
                    n_ok += 1
        if "__eq__" in r.get("translated", []) and "__hash__" in r.get("translated", []):
            # `==` and the hashed key on pairs: the same vector, a respelling of it (other field order), another vector
            im = core.impl()
            pairs = []
            vs_ok = []
            for s_ in items[: 2500 * scale]:
                try:
                    im.cls[v](s_)
                    vs_ok.append(s_)
                except Exception:  # noqa
                    pass
            for i, s_ in enumerate(vs_ok[:800 * scale]):
                pf = next((p_ for p_ in core.PREFIX[v] if p_ and s_.startswith(p_)), "")
                fs = s_[len(pf):].split("/")
                rng.shuffle(fs)
                pairs += [(s_, s_), (s_, pf + "/".join(fs)), (s_, vs_ok[(i * 7 + 1) % len(vs_ok)])]
            try:
                gote = _run_codedriver(["E%s\t%s\t%s" % (v, core.enc(a), core.enc(b)) for a, b in pairs])
            except Exception as e:  # noqa
                gote, pairs = [], []
                r["validation_note"] = str(e)[:300]
            for (a, b), g in zip(pairs, gote):
                try:
                    oa, ob = im.cls[v](a), im.cls[v](b)
                    w = "ok\t%s\t%s" % ("true" if oa == ob else "false", oa.clean_vector())
                    if (hash(oa) == hash(ob)) != (oa.clean_vector() == ob.clean_vector()):
                        w += "\thash-inconsistent"
                except Exception as e:  # noqa
                    w = "EXC %s" % type(e).__name__
                n_k += 1
                if g != w:
                    if len(diffs) < 5:
                        diffs.append({"input": [a, b], "translated_source": g[:300], "real_code": w[:300], "op": "__eq__/__hash__"})
                else:
                    n_ok += 1
        if v == "4" and "as_json" in r.get("translated", []):
            # compute_severity / as_json as translated, on the object the real code scored
            im = core.impl()
            reqs, wants = [], []
            for s_ in items[: 1500 * scale]:
                try:
                    o = im.cls["4"](s_)
                    from decimal import Decimal
                    f = Fraction(Decimal(repr(float(o.base_score))))
                    js = []
                    for a in (False, True):
                        for b in (False, True):
                            d = o.as_json(sort=a, minimal=b)
                            js.append(",".join(('%s="%s"' % (k, x)) if isinstance(x, str) else ("%s=null" % k) if x is None
                                               else "%s=%s" % (k, _frac(Decimal(repr(float(x))))) for k, x in d.items()))
                    wants.append("ok\t%s\t%s" % (o.severity, ";".join(js)))
                    reqs.append("J4\t%s\t%d\t%d" % (core.enc(s_), f.numerator, f.denominator))
                except Exception:  # noqa
                    continue
            try:
                gotj = _run_codedriver(reqs) if reqs else []
            except Exception as e:  # noqa
                gotj, wants = [], []
                r["validation_note"] = str(e)[:300]
            for rq, g, w in zip(reqs, gotj, wants):
                n_k += 1
                if g != w:
                    if len(diffs) < 5:
                        diffs.append({"input": rq, "translated_source": g[:300], "real_code": w[:300], "op": "as_json"})
                else:
                    n_ok += 1
        r["validation"] = {"compared": len(items) - incomparable + n_k, "agree": n_ok, "incomparable": incomparable,
                           "constructor_strings": n_k, "constructor_outcomes": r.pop("constructor_outcomes", None),
                           "differences": diffs}
        if diffs and r["status"] == "kernel-checked":
            r["status"] = "unvalidated"
            r["detail"] = "translated source and CPython disagree, e.g. %r" % (diffs[0],)
        elif incomparable and not n_ok and r["status"] == "kernel-checked":
            r["status"] = "unvalidated"
            r["detail"] = "the real object no longer exposes the attributes the translation is compared on"
    return tie
