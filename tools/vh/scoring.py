"""Shared machinery for C01/C02/C03: model-vs-code and spec-vs-code on scores of valid vectors."""
from __future__ import annotations

from . import core
from .core import VOCAB, enc


def eff_key(ver, s):
    """a key identifying the (version prefix, set of stated fields) of a valid vector string"""
    body = s
    pfx = ""
    for p in core.PREFIX[ver]:
        if p and s.startswith(p):
            pfx, body = p, s[len(p):]
    nd = VOCAB[ver]["nd"]
    return pfx + "|" + "/".join(sorted(f for f in body.split("/") if not f.endswith(":" + nd)))


def check_scores(ctx, ver, strings, label, slots=("base", "temporal", "environmental")):
    """model-vs-code on scores(); spec-vs-code (the property's own oracle) on the real code"""
    items = [(ver, s) for s in strings]
    ctx.count(len(items))
    if label.endswith("quotient"):
        ctx.distinct_bulk += len(strings)   # one string per class, distinct by construction
    else:
        for s in strings:
            ctx.nontrivial(eff_key(ver, s))
    if strings:
        ctx.sample({"op": "CVSS%s(s).scores()" % ver, "s": strings[0]})
    impl_out = []
    if ctx.model_available:
        n, dis, impl_out = core.compare_construct(items, "s", ctx.tally)
        for v, s, mo, io_ in dis:
            ctx.disagree("model-vs-code:%s:scores" % label, s, mo, io_)
        spec = core.run_driver(["S\tscore\t%s\t%s" % (ver, enc(s)) for s in strings])
    else:
        impl_out = [core.impl_construct(ver, "s", s) for s in strings]
        spec = [None] * len(strings)
    for s, sp, io_ in zip(strings, spec, impl_out):
        if not io_.startswith("ok\t"):
            ctx.violation("v%s:valid-vector-rejected:%s" % (ver, io_.split("\t")[-1]),
                          "a well-formed vector is rejected", s, "accepted", io_,
                          replay={"op": "scores", "ver": ver, "s": s})
            continue
        if sp is None:
            continue
        if sp != io_:
            a = sp.split("\t")[-1].split(" ")
            b = io_.split("\t")[-1].split(" ")
            slot = next((slots[i] for i in range(min(len(a), len(b), len(slots))) if a[i] != b[i]), "shape")
            minor = s[5:8] if ver == "3" else ver
            ctx.violation("v%s:%s-score-differs-from-specification" % (minor, slot),
                          "reported %s score differs from the specification's equations" % slot,
                          s, sp, io_, replay={"op": "scores", "ver": ver, "s": s})


def replay_scores(data):
    r = data.get("replay") or {}
    if r.get("kind") == "cold":
        from . import conc
        return conc.replay_cold(r)
    ver, s = r["ver"], r["s"]
    if r.get("op") == "json-scores":
        im = core.impl()
        sc = im.cls[ver](s).scores()
        bad = []
        for so in (False, True):
            for mi in (False, True):
                js = im.cls[ver](s).as_json(sort=so, minimal=mi)
                for k, x in zip(["baseScore", "temporalScore", "environmentalScore"], sc):
                    if k in js and x is not None and js[k] != x:
                        bad.append((so, mi, k, js[k]))
        return not bad, "CVSS%s(%r): scores() %r; as_json scores that differ (sort, minimal, key, value): %r" % (ver, s, sc, bad)
    if r.get("volume"):
        import random as _random
        rr = _random.Random(1)
        im = core.impl()
        sp = core.run_driver(["S\tscore\t%s\t%s" % (ver, enc(s))])[0]
        first = core.impl_construct(ver, "s", s)
        VV = VOCAB[ver]
        scored = [(m, vals) for m, vals in VV["vocab"] if not (ver == "4" and m in ("S", "AU", "R", "V", "RE", "U"))]
        for _ in range(int(r["volume"]) + 10):
            try:
                im.cls[ver](core.PREFIX[ver][-1] + "/".join("%s:%s" % (m, rr.choice(vals)) for m, vals in scored)).scores()
            except Exception:  # noqa
                pass
        again = core.impl_construct(ver, "s", s)
        return first == sp and again == sp, "CVSS%s(%r): specification %r, first %r, after %d other constructions %r" % (ver, s, sp, first, r["volume"], again)
    if r.get("repeat") or r.get("threads"):
        # repeated / concurrent construction of one string: every result must equal the specification's
        import threading
        outs = []
        sp = core.run_driver(["S\tscore\t%s\t%s" % (ver, enc(s))])[0]

        def w():
            for _ in range(200):
                outs.append(core.impl_construct(ver, "s", s))
        ths = [threading.Thread(target=w) for _ in range(r.get("threads", 1))]
        import sys as _sys
        old = _sys.getswitchinterval()
        _sys.setswitchinterval(1e-6)
        try:
            for t in ths:
                t.start()
            for t in ths:
                t.join()
        finally:
            _sys.setswitchinterval(old)
        bad = [o for o in outs if o != sp]
        return not bad, "CVSS%s(%r) constructed %d times (%d threads): %s" % (ver, s, len(outs), r.get("threads", 1),
                                                                            ("%d results differ from the specification %r, e.g. %r" % (len(bad), sp, bad[0])) if bad else "all equal the specification")
    io_ = core.impl_construct(ver, "s", s)
    sp = core.run_driver(["S\tscore\t%s\t%s" % (ver, enc(s))])[0]
    ok = io_ == sp
    return ok, "CVSS%s(%r).scores(): implementation %r, specification %r" % (ver, s, io_, sp)


def extra_probes(ctx, ver, strings, label):
    """searches beyond one-construction-at-a-time: (a) the SAME string constructed again and again in one process,
    (b) several threads constructing at once, (c) a fresh process whose first use of the package is concurrent.
    Each result is compared with the first / single-threaded result, which check_scores has compared with the
    specification."""
    from . import conc
    rng = ctx.rng
    step = max(1, len(strings) // ctx.n(2500, 40000))
    sample = strings[::step]
    first = {}
    for rnd in range(3):
        for s in sample:
            r = core.impl_construct(ver, "s", s)
            ctx.count()
            if first.setdefault(s, r) != r:
                ctx.violation("v%s:score-changes-on-repeated-construction" % ver,
                              "constructing the identical string again in the same process gives different scores",
                              s, first[s], r, replay={"op": "scores", "ver": ver, "s": s, "repeat": rnd + 1})
                return
    # the scores as_json() reports (all four option sets) are the scores() just compared with the specification
    JS = {"2": ["baseScore", "temporalScore", "environmentalScore"], "3": ["baseScore", "temporalScore", "environmentalScore"],
          "4": ["baseScore"]}[ver]
    im = core.impl()
    for s in sample[:: max(1, len(sample) // ctx.n(1500, 20000))]:
        try:
            sc = im.cls[ver](s).scores()
        except Exception:  # noqa
            continue
        one = im.cls[ver](s)
        for so in (False, True, False, True):
            for mi in (False, True):
                js0 = one.as_json(sort=so, minimal=mi)
                js = dict(js0)
                for kk in list(js0.keys()):          # the caller edits what it was given; the next call must not see it
                    js0[kk] = 61
                ctx.count()
                for k, x in zip(JS, sc):
                    if k in js and x is not None and js[k] != x:
                        ctx.violation("v%s:json-%s-differs-from-scores" % (ver, k), "the %s that as_json() reports differs from scores()" % k,
                                      s, x, {"sort": so, "minimal": mi, k: js[k]}, replay={"op": "json-scores", "ver": ver, "s": s})
    # VOLUME: a few early vectors, then very many DISTINCT other constructions in the same process, then the early ones again
    # (bounded caches wrap at capacities like 2^8 .. 2^16; the thorough tier goes beyond 2^20)
    early = sample[:: max(1, len(sample) // 300)][:300]
    e_ref = [core.impl_construct(ver, "s", s) for s in early]
    V = VOCAB[ver]
    n_vol = ctx.n(70000, 1300000) if ctx.scale == 1 else 70000
    cls = im.cls[ver]
    seen_n = 0
    # every scored metric spelled out with a uniformly drawn value: (almost) every construction has a NEW effective assignment
    # (measured: 98% distinct among 300 k; the thorough volume exceeds 2^20 distinct effective v4 assignments)
    scored = [(m, vals) for m, vals in V["vocab"] if not (ver == "4" and m in ("S", "AU", "R", "V", "RE", "U"))]
    pfx = core.PREFIX[ver][-1]
    for i in range(n_vol):
        try:
            cls(pfx + "/".join("%s:%s" % (m, rng.choice(vals)) for m, vals in scored)).scores()
            seen_n += 1
        except Exception:  # noqa
            pass
        if i in (300, 5000, 70000 - 1, n_vol - 1) or (i & (i + 1)) == 0 and i > 1000:
            for s, b in zip(early[:: (1 if i >= 70000 - 1 else 6)], e_ref[:: (1 if i >= 70000 - 1 else 6)]):
                g = core.impl_construct(ver, "s", s)
                if g != b:
                    ctx.violation("v%s:score-changes-after-many-other-constructions" % ver, "after %d other constructions in the process a vector scores differently" % (i + 1),
                                  s, b, g, replay={"op": "scores", "ver": ver, "s": s, "volume": i + 1})
                    return
    ctx.count(seen_n)
    small = sample[:: max(1, len(sample) // ctx.n(700, 6000))]
    conc.warm_threads(ctx, small, lambda s: core.impl_construct(ver, "s", s), "v%s" % ver,
                      replay_of=lambda s: {"op": "scores", "ver": ver, "s": s, "threads": 4})
    ops = [["S", ver, s] for s in small[:: max(1, len(small) // 160)] if core.sendable(s)]
    conc.cold_start(ctx, ops, "v%s" % ver, runs=ctx.n(6, 16), nthreads=8)
    # interpreter options that must not matter (-O, -OO, PYTHONOPTIMIZE), objects pickled across processes with other hash seeds
    conc.flag_variants(ctx, ops, "v%s" % ver)
    conc.pickle_across(ctx, [(ver, op[2]) for op in ops[:: max(1, len(ops) // 60)]], "v%s" % ver)
    # construction at every remaining stack depth near the recursion limit: a RecursionError may escape, a silently different
    # score may not
    import sys as _sys
    lim = _sys.getrecursionlimit()

    def at_depth(d, s):
        if d > 0:
            return at_depth(d - 1, s)
        o = core.build(ver, s, variant=0)          # a RecursionError propagates to the sweep below
        return "ok\t" + core.obs_field(ver, o, "s")
    for s in [op[2] for op in ops[:: max(1, len(ops) // 6)]][:6]:
        ref = core.impl_construct(ver, "s", s)
        base_depth = len(__import__("inspect").stack(0))
        for d in range(max(0, lim - base_depth - 90), lim - base_depth + 5):
            try:
                got = at_depth(d, s)
            except RecursionError:
                continue
            except Exception as ex:  # noqa  (an error of the hierarchy wrapping the RecursionError is not a silent wrong score)
                continue
            ctx.count()
            if got != ref:
                ctx.violation("v%s:score-differs-near-the-recursion-limit" % ver, "constructed %d frames below the recursion limit the scores differ silently" % (lim - base_depth - d),
                              s, ref, got, replay={"op": "scores", "ver": ver, "s": s})
                break
