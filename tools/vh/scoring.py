"""Shared machinery for C01/C02/C03: model-vs-code and spec-vs-code on scores of valid vectors."""
from __future__ import annotations

from . import core
from .core import VOCAB, enc


def eff_key(ver, s):
    """a key identifying the (version prefix, set of stated fields) of a valid vector string"""
    body = s
    pfx = ""
    for p in core.PREFIX[ver]:
        if p and s.startswith(p):
            pfx, body = p, s[len(p):]
    nd = VOCAB[ver]["nd"]
    return pfx + "|" + "/".join(sorted(f for f in body.split("/") if not f.endswith(":" + nd)))


def check_scores(ctx, ver, strings, label, slots=("base", "temporal", "environmental")):
    """model-vs-code on scores(); spec-vs-code (the property's own oracle) on the real code"""
    items = [(ver, s) for s in strings]
    ctx.count(len(items))
    if label.endswith("quotient"):
        ctx.distinct_bulk += len(strings)   # one string per class, distinct by construction
    else:
        for s in strings:
            ctx.nontrivial(eff_key(ver, s))
    if strings:
        ctx.sample({"op": "CVSS%s(s).scores()" % ver, "s": strings[0]})
    impl_out = []
    if ctx.model_available:
        n, dis, impl_out = core.compare_construct(items, "s", ctx.tally)
        for v, s, mo, io_ in dis:
            ctx.disagree("model-vs-code:%s:scores" % label, s, mo, io_)
        spec = core.run_driver(["S\tscore\t%s\t%s" % (ver, enc(s)) for s in strings])
    else:
        impl_out = [core.impl_construct(ver, "s", s) for s in strings]
        spec = [None] * len(strings)
    for s, sp, io_ in zip(strings, spec, impl_out):
        if not io_.startswith("ok\t"):
            ctx.violation("v%s:valid-vector-rejected:%s" % (ver, io_.split("\t")[-1]),
                          "a well-formed vector is rejected", s, "accepted", io_,
                          replay={"op": "scores", "ver": ver, "s": s})
            continue
        if sp is None:
            continue
        if sp != io_:
            a = sp.split("\t")[-1].split(" ")
            b = io_.split("\t")[-1].split(" ")
            slot = next((slots[i] for i in range(min(len(a), len(b), len(slots))) if a[i] != b[i]), "shape")
            minor = s[5:8] if ver == "3" else ver
            ctx.violation("v%s:%s-score-differs-from-specification" % (minor, slot),
                          "reported %s score differs from the specification's equations" % slot,
                          s, sp, io_, replay={"op": "scores", "ver": ver, "s": s})


def replay_scores(data):
    r = data.get("replay") or {}
    ver, s = r["ver"], r["s"]
    io_ = core.impl_construct(ver, "s", s)
    sp = core.run_driver(["S\tscore\t%s\t%s" % (ver, enc(s))])[0]
    ok = io_ == sp
    return ok, "CVSS%s(%r).scores(): implementation %r, specification %r" % (ver, s, io_, sp)
