"""Implementation-side observation of one object, for the relational oracles."""
from __future__ import annotations

import json
import zlib

from . import core


WARM_OPS = {"2": "svcrtejkJKw", "3": "svcnrtejkJKw", "4": "svcnrjkJKw"}


def warm_calls(s):
    """a deterministic (function of the string) short sequence of accessor calls, for ~30% of the strings:
    observables must not depend on which accessors were called before (replays reproduce it from the string)"""
    import zlib
    h = zlib.crc32(s.encode("utf-8", "surrogatepass"))
    if h % 10 >= 3:
        return []
    n = 1 + (h >> 4) % 3
    return [(h >> (8 + 5 * i)) % 11 for i in range(n)]


def construct(ver, s, warm=False):
    """(object, None) or (None, canonical error name)"""
    im = core.impl()
    # a deterministic share of the constructions is preceded by a look-alike: the other-minor-version twin (v3) or the very
    # same string, built and dropped - whatever an implementation remembers between constructions must not matter
    h = zlib.crc32(s.encode("utf-8", "replace")) & 3
    try:
        if h == 1 and ver == "3" and s.startswith("CVSS:3."):
            im.cls[ver](("CVSS:3.1/" if s.startswith("CVSS:3.0/") else "CVSS:3.0/") + s[9:])
        elif h == 2:
            im.cls[ver](s)
    except Exception:  # noqa
        pass
    try:
        o = core.build(ver, s)
    except Exception as e:  # noqa
        return None, core.err_name(ver, e)
    if warm:
        ops = WARM_OPS[ver]
        for k in warm_calls(s):
            try:
                core.obs_field(ver, o, ops[k % len(ops)])
            except Exception:  # noqa  (a raising accessor is reported by the oracles themselves)
                pass
    return o, None


def observe(ver, o, what="svcnrte"):
    """dict of observables of a constructed object; an accessor that raises is recorded as such"""
    d = {}
    for c in what:
        try:
            d[c] = core.obs_field(ver, o, c)
        except Exception as e:  # noqa
            d[c] = "RAISED:%s" % type(e).__name__
    return d


NAMES = {"s": "scores", "v": "severities", "c": "clean_vector", "n": "clean_vector(output_prefix=False)",
         "r": "rh_vector", "t": "temporal_vector", "e": "environmental_vector", "j": "as_json()",
         "k": "as_json(minimal=True)", "J": "as_json(sort=True)", "K": "as_json(sort=True,minimal=True)", "w": "compute_*() again",
         "f": "option flags given as other truthy / falsy values"}


def parse_fields(ver, s):
    """(prefix, [(metric, value)]) of a string the harness itself generated as valid"""
    pfx = ""
    body = s
    for p in core.PREFIX[ver]:
        if p and s.startswith(p):
            pfx, body = p, s[len(p):]
    return pfx, [tuple(f.split(":")) for f in body.split("/")]


def rejected_verdict(ver, s, e):
    """for replay(): the constructor rejects `s`.  That fails a property about accepted vectors only if `s` IS a valid vector
    (Lean grammar); a string the grammar rejects too (e.g. a corpus entry recorded from a change that accepted it) leaves
    nothing to check."""
    try:
        vd = core.run_driver(["S\tacc\t%s\t%s" % (ver, core.enc(s))])[0] if core.sendable(s) else "unknown"
    except Exception:  # noqa
        vd = "unknown"
    if vd == "ok":
        return False, "CVSS%s(%r) is rejected (%s) although it is a valid vector" % (ver, s, e)
    return True, "CVSS%s(%r) is rejected (%s) and is not a valid vector of the version (grammar: %s): nothing to check" % (ver, s, e, vd)
