"""Implementation-side observation of one object, for the relational oracles."""
from __future__ import annotations

import json

from . import core


def construct(ver, s):
    """(object, None) or (None, canonical error name)"""
    im = core.impl()
    try:
        return im.cls[ver](s), None
    except Exception as e:  # noqa
        return None, core.err_name(ver, e)


def observe(ver, o, what="svcnrte"):
    """dict of observables of a constructed object; an accessor that raises is recorded as such"""
    d = {}
    for c in what:
        try:
            d[c] = core.obs_field(ver, o, c)
        except Exception as e:  # noqa
            d[c] = "RAISED:%s" % type(e).__name__
    return d


NAMES = {"s": "scores", "v": "severities", "c": "clean_vector", "n": "clean_vector(output_prefix=False)",
         "r": "rh_vector", "t": "temporal_vector", "e": "environmental_vector", "j": "as_json()",
         "k": "as_json(minimal=True)", "J": "as_json(sort=True)", "K": "as_json(sort=True,minimal=True)"}


def parse_fields(ver, s):
    """(prefix, [(metric, value)]) of a string the harness itself generated as valid"""
    pfx = ""
    body = s
    for p in core.PREFIX[ver]:
        if p and s.startswith(p):
            pfx, body = p, s[len(p):]
    return pfx, [tuple(f.split(":")) for f in body.split("/")]
