"""Driving cvss.interactive.ask_interactively and cvss.cvss_calculator.main in-process."""
from __future__ import annotations

import contextlib
import importlib
import io
import sys

from . import core

VERSION_ARG = {"2": 2, "3.0": 3.0, "3.1": 3.1, "4": 4.0}


class Script:
    """replacement for `string_input`: hands out the scripted answers, then raises EOFError"""

    def __init__(self, answers):
        self.answers = list(answers)
        self.used = 0
        self.marks = []  # stdout length at each call, to recover which question was being asked

    def __call__(self, *a):
        if a and a[0] and self.out is not None:
            self.out.write(a[0])          # like input(prompt)
        self.marks.append(self.out.tell() if self.out is not None else 0)
        if self.used >= len(self.answers):
            self.used += 1
            raise EOFError()
        x = self.answers[self.used]
        self.used += 1
        return x

    out = None

    def readline(self, *a):
        """as sys.stdin, for code that calls input() / sys.stdin.readline() directly"""
        try:
            return self() + "\n"
        except EOFError:
            return ""


# numerically equal spellings of the version argument (the docstring documents "2 or 3.0/3.1 or 4")
VERSION_SPELLINGS = {"2": [2, 2.0], "3.0": [3.0, 3], "3.1": [3.1], "4": [4.0, 4]}


def ask(iver, all_metrics, answers, no_colors=True, spelling=0):
    """returns dict(outcome='result'|'eof'|'raised:<T>', vector, consumed, asked=[(metric_name, n)], stdout)"""
    core.impl()
    inter = importlib.import_module("cvss.interactive")
    sc = Script(answers)
    buf = io.StringIO()
    sc.out = buf
    old = getattr(inter, "string_input", None)
    old_stdin = sys.stdin
    if old is not None:
        inter.string_input = sc
    sys.stdin = sc
    res = {"outcome": None, "vector": None}
    try:
        with contextlib.redirect_stdout(buf):
            try:
                varg = VERSION_SPELLINGS[iver][spelling % len(VERSION_SPELLINGS[iver])]
                res["vector"] = inter.ask_interactively(varg, all_metrics, no_colors)
                res["outcome"] = "result"
            except EOFError:
                res["outcome"] = "eof"
            except Exception as e:  # noqa
                res["outcome"] = "raised:%s" % type(e).__name__
    finally:
        sys.stdin = old_stdin
        if old is not None:
            inter.string_input = old
    text = buf.getvalue()
    res["stdout"] = text
    res["consumed"] = min(sc.used, len(answers))
    # which metric each input call belonged to: the prompt printed just before it is "<Full name>: a/b/c "
    asked = []
    for mk in sc.marks:
        line = text[:mk].split("\n")[-1]
        name = line.split(":")[0]
        if asked and asked[-1][0] == name:
            asked[-1][1] += 1
        else:
            asked.append([name, 1])
    res["asked"] = asked
    return res


def run_main(argv, stdin_lines):
    """cvss_calculator.main() with patched argv / stdin / stdout / stderr.
    returns dict(stdout, stderr, exit, raised)"""
    core.impl()
    calc = importlib.import_module("cvss.cvss_calculator")
    inter = importlib.import_module("cvss.interactive")
    sc = Script(stdin_lines)
    out, err = io.StringIO(), io.StringIO()
    sc.out = out
    old_in, old_argv, old_stdin = getattr(inter, "string_input", None), sys.argv, sys.stdin
    if old_in is not None:
        inter.string_input = sc
    sys.stdin = sc
    sys.argv = ["cvss_calculator"] + list(argv)
    res = {"exit": 0, "raised": None}
    try:
        with contextlib.redirect_stdout(out), contextlib.redirect_stderr(err):
            try:
                calc.main()
            except SystemExit as e:
                res["exit"] = e.code if isinstance(e.code, int) else (0 if e.code is None else 1)
            except BaseException as e:  # noqa
                res["raised"] = "%s: %s" % (type(e).__name__, e)
                res["exit"] = 1
    finally:
        if old_in is not None:
            inter.string_input = old_in
        sys.argv = old_argv
        sys.stdin = old_stdin
    res["stdout"] = out.getvalue()
    res["stderr"] = err.getvalue()
    res["consumed"] = min(sc.used, len(stdin_lines))
    return res


def question_order(ver, all_metrics):
    """order in which scripts are written: the tree's table order when it lists the specification's
    metrics, else the frozen vocabulary order (the oracles never assume an order)"""
    V = core.VOCAB[ver]
    want = V["order"] if all_metrics else V["mandatory"]
    try:
        c = importlib.import_module("cvss.constants" + ver)
        have = list(c.METRICS_ABBREVIATIONS.keys()) if all_metrics else list(c.METRICS_MANDATORY)
        if sorted(have) == sorted(want):
            return have
    except Exception:  # noqa
        pass
    return want


def rand_answers(iver, all_metrics, rng, p_bad=0.15, p_eof=0.1, complete=None):
    """an answer script: mostly valid answers (random case / padding / empty for ND), some invalid"""
    ver = iver[0]
    V = core.VOCAB[ver]
    metrics = question_order(ver, all_metrics)
    ans = []
    expect = []
    for m in metrics:
        while rng.random() < p_bad:
            ans.append(rng.choice(["?", "ZZ", "0", " ", "N/A", "x y", "--", m, "nd", "é"]))
            # some of these may be legal (e.g. " " -> ND, "nd"); the model decides
        v = rng.choice(V["legal"][m])
        r = rng.random()
        txt = v
        if v == V["nd"] and r < 0.5:
            txt = rng.choice(["", " ", "\t"])
        elif r < 0.7:
            txt = rng.choice([v.lower(), v.upper(), " " + v, v + " ", v.swapcase(), "\x1c" + v, v + "\x1f\t", "\x0b" + v.lower()])
        ans.append(txt)
        expect.append((m, v))
    if complete is False or (complete is None and rng.random() < p_eof):
        ans = ans[: rng.randrange(len(ans))] if ans else ans
    return ans
