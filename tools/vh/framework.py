"""
One run of one check:  translator -> lake build (proofs re-checked) -> axiom audit ->
correspondence + property oracles on the real code -> (if the tie or a proof broke) failing-input
search -> evidence, KNOWN-FINDING / VIOLATION lines, exit code.
"""
from __future__ import annotations

import fcntl
import hashlib
import importlib
import json
import os
import random
import re
import subprocess
import sys
import time
import traceback

from . import codetie, core

VERIF = core.VERIF
LEAN = core.LEAN_DIR
ALLOWED_AXIOMS = {"propext", "Classical.choice", "Quot.sound"}
TRUSTED_BASE = [
    "Lean 4.33.0 kernel (leanchecker re-check in the thorough tier)",
    "axioms allowed in property theorems: propext, Classical.choice, Quot.sound (audited every run)",
    "translator tools/gen_tables.py (imports /repo's modules, emits lean/Cvss/Gen/*.lean)",
    "source translator tools/gen_code.py (Python subset -> lean/Cvss/Gen/Code*.lean) with the semantics in lean/Cvss/Py.lean; "
    "validated every run by executing the translation and the real methods on the same vectors (exact Decimal values)",
    "correspondence harness tools/vh + compiled Lean driver (model and spec executed on the same inputs as /repo's code)",
    "hand-written model lean/Cvss/Model/*.lean of the Python control flow: modelled, not verified; Decimal and binary floats abstracted by exact rationals",
    "frozen specification copies lean/Cvss/Spec/* (weights, v4 look-up table, grammar vocabulary, severity scale)",
]


class Ctx:
    def __init__(self, pid, tier, seed):
        self.pid = pid
        self.tier = tier
        self.seed = seed
        self.rng = random.Random((seed * 1000003) ^ int(hashlib.sha1(pid.encode()).hexdigest()[:8], 16))
        self.scale = 1  # multiplied when the tie is broken and the search is extended
        self.evaluations = 0
        self.distinct = set()
        self.distinct_bulk = 0  # cases known distinct by construction (exhaustive enumerations), counted not stored
        self.samples = []
        self.tally = core.Tally()
        self.disagreements = []  # (obligation, input, model, impl)
        self.aux_disagreements = []
        self.violations = []  # dict(signature, what, input, expected, actual, kind)
        self.notes = []
        self.exhaustive = False
        self.model_available = True
        self.extra = {}

    # budgets ---------------------------------------------------------------------------------
    def n(self, quick, thorough=None):
        base = quick if self.tier == "quick" else (thorough if thorough is not None else quick * 10)
        return int(base * self.scale)

    # bookkeeping -----------------------------------------------------------------------------
    def count(self, n=1):
        self.evaluations += n

    def nontrivial(self, key):
        self.distinct.add(key if isinstance(key, (str, int, tuple)) else repr(key))

    def sample(self, s):
        if len(self.samples) < 12:
            self.samples.append(s)

    def disagree(self, obligation, inp, model, impl_):
        if len(self.disagreements) < 200:
            self.disagreements.append({"obligation": obligation, "input": inp, "model": model, "impl": impl_})
        else:
            self.disagreements.append(None)

    def aux(self, obligation, inp, model, impl_):
        """auxiliary correspondence: behaviour the model covers but NO property constrains (prompt wording, colours,
        message texts).  A difference is recorded in the evidence and printed as a NOTE; it never fails a check."""
        self.aux_disagreements.append({"obligation": obligation, "input": inp, "model": model, "impl": impl_})

    def violation(self, signature, what, inp, expected=None, actual=None, kind=None, replay=None):
        """a concrete input on which the property's own statement fails on the real code"""
        for v in self.violations:
            if v["signature"] == signature:
                v["count"] += 1
                return
        self.violations.append({"signature": signature, "what": what, "input": inp, "expected": expected,
                                "actual": actual, "kind": kind or self.pid, "count": 1, "replay": replay})


def sh(cmd, cwd=None, timeout=None, env=None):
    p = subprocess.run(cmd, cwd=cwd, stdout=subprocess.PIPE, stderr=subprocess.STDOUT, timeout=timeout, env=env)
    return p.returncode, p.stdout.decode("utf-8", "replace")


COMMON_ASSUMPTIONS = [
    "an argument is 'the same string' whether it is a str, an instance of a str subclass or a str-Enum member; a trivial user subclass of a "
    "class, a copy, a deepcopy and an un-pickled object are 'the same object' (a deterministic half of all constructions goes these ways)",
    "interpreter options -O / -OO / PYTHONOPTIMIZE, the terminal (width, TERM, colour conventions, tty or pipe), locale variables, hash "
    "seeds and the decimal context (precision >= 28) are ambient conditions that must not change any result",
    "concurrency, cold start, recursion depth, volume and cross-process probes SEARCH for failing schedules / histories on the real "
    "code; they are not proofs and a pass says nothing beyond what was run",
]


def generic_replay(mod, data):
    """replays of the process-level probes are the same for every property (vh/conc.py); everything else is the property's own"""
    r = data.get("replay") if isinstance(data, dict) else None
    kind = r.get("kind") if isinstance(r, dict) else None
    if kind in ("flags", "pickle", "cold", "env"):
        from . import conc
        return {"flags": conc.replay_flags, "pickle": conc.replay_pickle, "cold": conc.replay_cold, "env": conc.replay_env}[kind](r)
    return mod.replay(data)


def prop_modules(pid):
    """the Lean modules holding the theorems of property `pid`: Props/<pid>.lean plus Props/<pid><Suffix>.lean
    (e.g. C04Final, C19Tables0); all declare into namespace Cvss.Props.<pid>"""
    d = os.path.join(LEAN, "Cvss", "Props")
    mods = []
    for fn in sorted(os.listdir(d)):
        if fn.endswith(".lean") and fn.startswith(pid) and (len(fn) == len(pid) + 5 or not fn[len(pid)].isdigit()):
            mods.append("Cvss.Props." + fn[:-5])
    return mods or ["Cvss.Props." + pid]


def translate_and_build(pid, log):
    """step 0/1: regenerate Gen from /repo, rebuild the property's module and the driver."""
    res = {"translator_ok": True, "build_ok": True, "driver_ok": True, "errors": [], "changed": []}
    os.makedirs(os.path.join(VERIF, "scratch"), exist_ok=True)
    with open(os.path.join(VERIF, "scratch", ".build.lock"), "w") as lk:
        fcntl.flock(lk, fcntl.LOCK_EX)
        rc, out = sh(["/venv/bin/python", os.path.join(VERIF, "tools", "gen_tables.py"), "--repo", core.REPO])
        log.append("[translator] " + out.strip()[-2000:])
        try:
            info = json.loads(out.strip().splitlines()[-1])
            res["changed"] = info.get("changed", [])
            if info.get("failed"):
                res["translator_ok"] = False
                res["errors"] += ["translator: %s" % f for f in info["failed"]]
        except Exception:  # noqa
            res["translator_ok"] = False
            res["errors"].append("translator crashed: " + out.strip()[-800:])
        t0 = time.time()
        rc, out = sh(["lake", "build", "driver"], cwd=LEAN, timeout=3000)
        if rc != 0:
            res["driver_ok"] = False
            res["errors"].append("driver build failed:\n" + _errors_of(out))
        if res["driver_ok"] and os.path.exists(core.DRIVER):
            # private copy of the driver: a later build (another check, an edit) must not pull it away mid-run
            import shutil
            priv = os.path.join(VERIF, "scratch", "driver_%s_%d" % (pid, os.getpid()))
            shutil.copy2(core.DRIVER, priv)
            core.DRIVER = priv
            res["private_driver"] = priv
        rc, out = sh(["lake", "build"] + prop_modules(pid), cwd=LEAN, timeout=6000)
        log.append("[lake build %.1fs rc=%d]" % (time.time() - t0, rc))
        if rc != 0:
            res["build_ok"] = False
            res["errors"].append("proof build failed:\n" + _errors_of(out))
        try:
            res["source_tie"] = codetie.translate_and_prove(pid, log)
        except Exception as e:  # noqa  (the source tie is an addition: its machinery failing must not fail the check)
            res["source_tie"] = {}
            log.append("[source tie] machinery failed: %s" % e)
    return res


def _errors_of(out):
    lines = out.splitlines()
    keep = []
    for i, l in enumerate(lines):
        if l.startswith("error:") or "error:" in l[:80]:
            keep.extend(lines[i : i + 6])
    return "\n".join(keep[:60]) if keep else out[-1500:]


AUDIT_TMPL = """%(imports)s
import Lean
open Lean Elab Command in
#eval show CommandElabM Unit from do
  let env ← getEnv
  let ns := `Cvss.Props.%(pid)s
  let mut out : Array String := #[]
  for (n, ci) in env.constants.toList do
    if n.getPrefix == ns && !n.isInternalDetail then
      if let .thmInfo _ := ci then
        let axs ← Lean.collectAxioms n
        out := out.push s!"AXIOMS {n} {axs.toList}"
  for l in out.qsort (· < ·) do
    IO.println l
"""


def audit(pid, log, mods=None):
    """step 2: every theorem in namespace Cvss.Props.<pid> and the axioms it depends on."""
    path = os.path.join(VERIF, "scratch", "Audit_%s_%d.lean" % (pid, os.getpid()))
    with open(path, "w") as f:
        f.write(AUDIT_TMPL % {"pid": pid, "imports": "\n".join("import " + m for m in (mods or prop_modules(pid)))})
    try:
        rc, out = sh(["lake", "env", "lean", path], cwd=LEAN, timeout=1800)
    finally:
        try:
            os.remove(path)
        except OSError:
            pass
    thms = []
    for l in out.splitlines():
        m = re.match(r"AXIOMS (\S+) \[(.*)\]", l)
        if m:
            axs = [a.strip() for a in m.group(2).split(",") if a.strip()]
            thms.append({"theorem": m.group(1), "axioms": axs,
                         "ok": all(a in ALLOWED_AXIOMS for a in axs)})
    if rc != 0:
        log.append("[audit] failed: " + out[-1000:])
    # textual audit of the sources
    bad = []
    pat = re.compile(r"\b(sorry|admit|native_decide|bv_decide|implemented_by|unsafe)\b|^\s*axiom\s|maxHeartbeats\s+0")
    for root, _, files in os.walk(os.path.join(LEAN, "Cvss")):
        for fn in files:
            if fn.endswith(".lean"):
                p = os.path.join(root, fn)
                in_block = False
                for i, line in enumerate(open(p, encoding="utf-8"), 1):
                    code = line
                    if in_block:
                        if "-/" in code:
                            in_block = False
                        continue
                    if "/-" in code and "-/" not in code:
                        in_block = True
                        code = code.split("/-")[0]
                    code = re.sub(r"/-.*?-/", "", code).split("--")[0]
                    if pat.search(code):
                        bad.append("%s:%d: %s" % (os.path.relpath(p, VERIF), i, line.strip()))
    return {"rc": rc, "theorems": thms, "source_hits": bad}


def cvss_closure(mods):
    """the Cvss.* modules the given modules import, transitively (own project only)"""
    seen, todo = [], list(mods)
    while todo:
        m = todo.pop()
        if m in seen:
            continue
        seen.append(m)
        path = os.path.join(LEAN, *m.split(".")) + ".lean"
        try:
            for line in open(path, encoding="utf-8"):
                mm = re.match(r"\s*import\s+(Cvss\.[\w.]+)", line)
                if mm:
                    todo.append(mm.group(1))
        except OSError:
            pass
    return sorted(seen)


def leancheck(pid, log, extra=()):
    """thorough tier: the toolchain's independent re-checker replays the compiled declarations of the property's
    modules and of every project module they depend on"""
    mods = cvss_closure(prop_modules(pid) + list(extra))
    t0 = time.time()
    rc, out = sh(["lake", "env", "leanchecker"] + mods, cwd=LEAN, timeout=5400)
    log.append("[leanchecker %d modules %.0fs rc=%d] %s" % (len(mods), time.time() - t0, rc, out.strip()[-300:]))
    return rc == 0, len(mods), out.strip()[-600:]


def load_known():
    p = os.path.join(VERIF, "known_findings.json")
    try:
        return json.load(open(p))
    except FileNotFoundError:
        return {"findings": [], "fixed": []}


def write_replay(pid, name, data):
    d = os.path.join(VERIF, "replays")
    os.makedirs(d, exist_ok=True)
    path = os.path.join(d, "%s-%s.json" % (pid, name))
    with open(path, "w") as f:
        json.dump(data, f, indent=1, ensure_ascii=True, default=repr)
    return os.path.relpath(path, VERIF)


def run_corpus(mod, ctx):
    """regression corpus: inputs / histories that once exposed a (seeded or real) violation run first, through the
    property module's own replay oracle"""
    path = os.path.join(VERIF, "corpus", "%s.jsonl" % ctx.pid)
    if not os.path.exists(path) or not hasattr(mod, "replay"):
        return
    n = 0
    for line in open(path):
        line = line.strip()
        if not line:
            continue
        try:
            entry = json.loads(line)
            ok, msg = generic_replay(mod, entry)
        except Exception as e:  # noqa
            ctx.notes.append("corpus entry not replayable: %s" % e)
            continue
        n += 1
        ctx.count()
        if not ok:
            ctx.violation(entry.get("signature", "corpus"), entry.get("what", "corpus entry fails again") + " [corpus]",
                          entry.get("input"), entry.get("expected"), msg[:600], replay=entry.get("replay"))
    ctx.extra["corpus_entries_replayed"] = n


def run_check(pid, tier, seed, level, level_text=None):
    t0 = time.time()
    log = []
    mod = importlib.import_module("vh.props.%s" % pid.lower())
    ctx = Ctx(pid, tier, seed)
    exit_code = 0
    out_lines = []

    for old in os.listdir(os.path.join(VERIF, "replays")) if os.path.isdir(os.path.join(VERIF, "replays")) else []:
        if old.startswith("%s-%s-" % (pid, tier)):
            os.remove(os.path.join(VERIF, "replays", old))
    b = translate_and_build(pid, log)
    a = audit(pid, log) if b["build_ok"] else {"rc": 1, "theorems": [], "source_hits": []}
    proof_problems = list(b["errors"])
    if b["build_ok"]:
        if a["rc"] != 0:
            proof_problems.append("axiom audit did not run")
        for t in a["theorems"]:
            if not t["ok"]:
                proof_problems.append("theorem %s depends on non-standard axioms %s" % (t["theorem"], t["axioms"]))
        if not a["theorems"]:
            proof_problems.append("no theorem found in Cvss.Props.%s" % pid)
        for h in a["source_hits"]:
            proof_problems.append("forbidden construct in source: " + h)
    # source tie: model = translated source (re-proved), translation = CPython (executed)
    tie = b.get("source_tie") or {}
    try:
        codetie.validate_translation(pid, tie, seed, 1 if tier == "quick" else 8)
    except Exception as e:  # noqa
        log.append("[source tie] validation failed to run: %s" % e)
    tie_notes = []
    for v, r in sorted(tie.items()):
        if r["status"] == "kernel-checked":
            ns = r["module"].split(".")[-1]
            ta = audit(ns, log, r.get("modules") or [r["module"]])
            r["theorems"] = ta["theorems"]
            bad_ax = [t for t in ta["theorems"] if not t["ok"]]
            if ta["rc"] != 0 or not ta["theorems"] or bad_ax:
                r["status"] = "not-re-proved"
                r["detail"] = "axiom audit of %s: rc=%d, %d theorems, non-standard axioms in %s" % (
                    r["module"], ta["rc"], len(ta["theorems"]), [t["theorem"] for t in bad_ax])
        if r["status"] != "kernel-checked":
            tie_notes.append("source tie CVSS%s %s: %s" % (v, r["status"], (r.get("detail") or "")[:400]))
    lc = None
    if tier == "thorough" and b["build_ok"]:
        ok_lc, n_lc, out_lc = leancheck(pid, log, [m for r in tie.values() if r["status"] == "kernel-checked"
                                                       for m in (r.get("modules") or [r["module"]])])
        lc = {"modules": n_lc, "ok": ok_lc}
        if not ok_lc:
            proof_problems.append("leanchecker rejects the compiled proofs: " + out_lc)
    ctx.model_available = b["driver_ok"] and os.path.exists(core.DRIVER)

    im = core.impl()
    crashed = None
    if im.error:
        ctx.violation("import", "the package does not import: " + im.error, None)
    else:
        try:
            run_corpus(mod, ctx)
            mod.run(ctx)
            if (proof_problems or ctx.disagreements or tie_notes) and not ctx.violations:
                # the tie or a proof is broken: extend the failing-input search on the real code
                for k in (4, 16) if tier == "quick" else (3,):
                    ctx.scale = k
                    ctx.rng = random.Random(seed * 7919 + k)
                    ctx.notes.append(("tie broken" if (proof_problems or ctx.disagreements) else "source tie not in force")
                                     + ": search extended x%d" % k)
                    mod.run(ctx)
                    if ctx.violations:
                        break
        except core.DriverError as e:
            proof_problems.append("driver failed: %s" % e)
            ctx.model_available = False
            try:
                mod.run(ctx)
            except Exception:  # noqa
                crashed = traceback.format_exc()
        except Exception:  # noqa
            crashed = traceback.format_exc()

    known = load_known()
    kf = [k for k in known.get("findings", []) if k["property"] == pid]
    new_violations = []
    for v in ctx.violations:
        hit = next((k for k in kf if k["signature"] == v["signature"]), None)
        if hit:
            out_lines.append("KNOWN-FINDING: property=%s %s" % (pid, hit["what"]))
        else:
            new_violations.append(v)
    # a listed finding that did not show up is still announced (the defect is recorded, not repaired)
    seen = {v["signature"] for v in ctx.violations}
    for k in kf:
        if k["signature"] not in seen:
            out_lines.append("KNOWN-FINDING: property=%s %s (recorded; not re-observed by this run's sample)" % (pid, k["what"]))

    for i, v in enumerate(new_violations[:5]):
        rp = write_replay(pid, "%s-%d-%d" % (tier, seed, i), {
            "property": pid, "signature": v["signature"], "what": v["what"], "input": v["input"],
            "expected": v["expected"], "actual": v["actual"], "replay": v.get("replay"),
            "replay_cmd": "./check %s --replay <this file>" % pid})
        out_lines.append("VIOLATION property=%s replay=%s" % (pid, rp))
        exit_code = 1
    n_dis = len(ctx.disagreements)
    if not new_violations and (proof_problems or n_dis or crashed):
        # ignore disagreements fully explained by listed known findings? no: a disagreement means the
        # model no longer describes the code; it is reported unless a concrete failing input was found.
        rp = write_replay(pid, "%s-%d-tie" % (tier, seed), {
            "property": pid,
            "no_longer_checks": proof_problems,
            "correspondence_disagreements": [d for d in ctx.disagreements if d][:20],
            "n_disagreements": n_dis,
            "harness_crash": crashed,
            "note": "no concrete failing input was found on the real code; the property is no longer shown to hold",
        })
        out_lines.append("VIOLATION property=%s replay=%s no-failing-input-found" % (pid, rp))
        exit_code = 1

    thms = a["theorems"]
    tie_thms = [t for r in tie.values() for t in (r.get("theorems") or [])]
    # + translator tie + correspondence tie + one source tie per class whose tie is IN FORCE (a source tie that is not in force
    # is an addition that is absent, reported as a NOTE and in `source_tie`; it is not an undischarged obligation of the level)
    obligations = len(thms) + 2 + sum(1 for r in tie.values() if r["status"] == "kernel-checked")
    discharged = sum(1 for t in thms if t["ok"]) + (1 if b["translator_ok"] and b["build_ok"] else 0) + (
        1 if (n_dis == 0 and ctx.model_available and not crashed) else 0) + sum(
        1 for r in tie.values() if r["status"] == "kernel-checked")
    if not b["build_ok"]:
        obligations = max(obligations, 3)
        discharged = min(discharged, obligations - 1)
    ev = {
        "property_id": pid,
        "tier": tier,
        "seed": seed,
        "level": level,
        "coverage": {
            "obligations": obligations,
            "discharged": discharged,
            "checker_cmd": "cd lean && lake build Cvss.Props.%s driver && lake env lean <audit: #print axioms of every theorem in Cvss.Props.%s>" % (pid, pid),
            "trusted_base": TRUSTED_BASE,
            "theorems": thms,
            "tables_regenerated": b["changed"],
            "evaluations": ctx.evaluations,
            "distinct_nontrivial": len(ctx.distinct) + ctx.distinct_bulk,
            "rule": getattr(mod, "RULE", ""),
            "samples": ctx.samples or ["(none)"],
            "exhaustive": bool(ctx.exhaustive),
            "distribution": ctx.tally.as_dict(),
            "correspondence_disagreements": n_dis,
            "auxiliary_model_drift": {"count": len(ctx.aux_disagreements), "first": ctx.aux_disagreements[:3]},
            "explanation": getattr(mod, "EXPLANATION", "") or (level_text or ""),
            "notes": ctx.notes,
            "leanchecker": lc,
            "source_tie": {("CVSS" + v): {k: r.get(k) for k in ("class", "modules", "status", "detail", "translated", "theorems",
                                                                 "validation")} for v, r in sorted(tie.items())},
            **ctx.extra,
        },
        "assumptions": list(getattr(mod, "ASSUMPTIONS", [])) + COMMON_ASSUMPTIONS,
        "wall_s": round(time.time() - t0, 2),
        "violations": len(new_violations) + (1 if exit_code and not new_violations else 0),
        "known_findings": [k["signature"] for k in kf],
        "log": log[-6:],
    }
    evdir = os.environ.get("VERIF_EVIDENCE_DIR") or os.path.join(VERIF, "evidence")  # seeded-change evaluations write elsewhere
    os.makedirs(evdir, exist_ok=True)
    with open(os.path.join(evdir, "%s.json" % pid), "w") as f:
        json.dump(ev, f, indent=1, ensure_ascii=True, default=repr)
    if b.get("private_driver"):
        try:
            os.remove(b["private_driver"])
        except OSError:
            pass
    for l in out_lines:
        print(l)
    status = "PASS" if exit_code == 0 else "FAIL"
    print("%s %s tier=%s seed=%d theorems=%d/%d evaluations=%d distinct=%d disagreements=%d violations=%d wall=%.1fs" % (
        status, pid, tier, seed, sum(1 for t in thms if t["ok"]), len(thms), ctx.evaluations, len(ctx.distinct) + ctx.distinct_bulk,
        n_dis, len(new_violations), time.time() - t0))
    if ctx.aux_disagreements:
        print("NOTE %s: %d auxiliary model/code differences in behaviour no property constrains (%s); see the evidence file" % (
            pid, len(ctx.aux_disagreements), ", ".join(sorted({d["obligation"] for d in ctx.aux_disagreements}))))
    for tn in tie_notes:
        print("NOTE %s: %s" % (pid, tn.replace("\n", " | ")[:700]))
    if proof_problems:
        print("proof/tie problems:\n  " + "\n  ".join(p[:600] for p in proof_problems[:6]))
    if crashed:
        print("harness crash:\n" + crashed)
    return exit_code


def run_replay(pid, path):
    mod = importlib.import_module("vh.props.%s" % pid.lower())
    data = json.load(open(path))
    if not hasattr(mod, "replay") or data.get("replay") is None and data.get("input") is None:
        print("replay file names no concrete input (tie/proof breakage):")
        print(json.dumps(data, indent=1)[:3000])
        return 1
    ok, msg = generic_replay(mod, data)
    print(("REPRODUCED: " if not ok else "NOT REPRODUCED (property holds on this input now): ") + msg)
    return 1 if not ok else 0
