"""C11 — JSON output is faithful to the object; sort and minimal only reorder / omit."""
from __future__ import annotations

import json
import os

from .. import core, obs
from ..core import VOCAB

RULE = ("accepted vectors x {sort} x {minimal}: version / vectorString / score / rating / metric fields of as_json() "
        "against the input, scores(), severities() and the frozen metric-name table; sort=True = same items in "
        "ascending key order; minimal=True = full output minus whole temporal/environmental groups, never a base "
        "field, never a group with a defined metric; JSON also compared model-vs-code; distinct = distinct "
        "(version, vector, options); includes vectors whose temporal/environmental score is 0.0"
        " + special families (every metric spelled out, rating-boundary ties); the document's rating is the official rating of the document's score")
ASSUMPTIONS = ["metric-name table: tools/names.json (frozen)"]
NAMES = json.load(open(os.path.join(core.VERIF, "tools", "names.json")))

GROUP_SCORE = {"2": {"temporal": ["temporalScore"], "environmental": ["environmentalScore"]},
               "3": {"temporal": ["temporalScore", "temporalSeverity"], "environmental": ["environmentalScore", "environmentalSeverity"]}}
SCOREKEYS = ["baseScore", "temporalScore", "environmentalScore"]
SEVKEYS = ["baseSeverity", "temporalSeverity", "environmentalSeverity"]


def expected_metric_fields(ver, a):
    """json key -> expected value name for every metric"""
    V = VOCAB[ver]
    nd = V["nd"]
    out = {}
    for m in V["order"]:
        v = a.get(m, nd)
        if v == nd and m.startswith("M") and m[1:] in V["legal"] and ver in "34":
            v = a[m[1:]]
        if nd not in V["legal"][m] and v == nd:
            continue
        out[NAMES[ver]["keys"][m]] = NAMES[ver]["names"][m if v in NAMES[ver]["names"][m] else m[1:]][v]
    return out


def group_keys(ver, g):
    V = VOCAB[ver]
    return [NAMES[ver]["keys"][m] for m in V[g]] + GROUP_SCORE[ver][g]


def check(ctx, ver, a, pfx, s, o):
    V = VOCAB[ver]
    nd = V["nd"]
    base = {"ver": ver, "s": s, "assignment": a, "prefix": pfx}
    try:
        sc, sev = o.scores(), o.severities()
        outs = {(so, mi): o.as_json(sort=so, minimal=mi) for so in (False, True) for mi in (False, True)}
    except Exception as ex:  # noqa
        ctx.violation("v%s:as_json-raised" % ver, "as_json() raised", s, None, repr(ex), replay=base)
        return
    full = outs[(False, False)]
    ver_want = {"2": "2.0", "4": "4.0"}.get(ver, pfx[5:8])
    if full.get("vectorString") != s:
        ctx.violation("v%s:vectorString" % ver, "vectorString is not the string supplied", s, s, full.get("vectorString"), replay=base)
    if ver != "4" and full.get("version") != ver_want:
        ctx.violation("v%s:version" % ver, "version field does not identify the input's version", s, ver_want, full.get("version"), replay=base)
    if ver == "4" and not str(full.get("version", "")).startswith("4"):
        ctx.violation("v4:version", "version field does not identify the input's version", s, "4.0", full.get("version"), replay=base)
    for (so, mi), d in outs.items():
        rp = dict(base, sort=so, minimal=mi)
        for i, k in enumerate(SCOREKEYS[: len(sc)]):
            if k in d:
                if sc[i] is not None and d[k] != sc[i]:
                    ctx.violation("v%s:%s-differs-from-score" % (ver, k), "%s differs from the defined score" % k, s, sc[i], d[k], replay=rp)
                if type(d[k]) is not float:
                    ctx.violation("v%s:%s-not-float" % (ver, k), "%s is not a float" % k, s, "float", repr(d[k]), replay=rp)
        if ver != "2":
            for i, k in enumerate(SEVKEYS[: len(sev)]):
                if k in d and str(d[k]).upper() != sev[i].upper():
                    ctx.violation("v%s:%s-differs-from-rating" % (ver, k), "%s differs from the rating" % k, s, sev[i], d[k], replay=rp)
                # the document is self-consistent: the rating it carries is the official rating of the score it carries
                sk = SCOREKEYS[i]
                if k in d and sk in d and type(d[sk]) is float:
                    from .c09 import official
                    if str(d[k]).upper() != official(ver, d[sk]).upper():
                        ctx.violation("v%s:%s-is-not-the-rating-of-%s" % (ver, k, sk), "the rating in the document is not the official rating of the score in the document",
                                      s, official(ver, d[sk]), {sk: d[sk], k: d[k]}, replay=rp)
        want = expected_metric_fields(ver, a)
        for k, v in want.items():
            if k in d and d[k] != v:
                ctx.violation("v%s:metric-field-%s" % (ver, k), "metric field does not name the effective value", s, v, d[k], replay=rp)
        if not mi:
            for k in want:
                if k not in d:
                    ctx.violation("v%s:metric-field-missing" % ver, "full output lacks a metric field", s, k, None, replay=rp)
    # sort only reorders
    for mi in (False, True):
        u, srt = outs[(False, mi)], outs[(True, mi)]
        rp = dict(base, sort=True, minimal=mi)
        if dict(u) != dict(srt) or list(srt.keys()) != sorted(u.keys()):
            ctx.violation("v%s:sort-changes-content-or-order-not-ascending" % ver, "sort=True changes more than the key order, or order not ascending",
                          s, sorted(u.keys()), list(srt.keys()), replay=rp)
    # minimal only removes whole optional groups without a defined metric
    mn = outs[(False, True)]
    rp = dict(base, sort=False, minimal=True)
    for k, v in mn.items():
        if k not in full or full[k] != v:
            ctx.violation("v%s:minimal-adds-or-changes" % ver, "minimal=True adds or changes a field", s, full.get(k), v, replay=rp)
    removed = [k for k in full if k not in mn]
    if ver == "4":
        groups = {}
    else:
        groups = {g: group_keys(ver, g) for g in ("temporal", "environmental")}
    covered = set()
    for g, ks in groups.items():
        gone = [k for k in ks if k in removed]
        if gone:
            if len(gone) != len([k for k in ks if k in full]):
                ctx.violation("v%s:minimal-removes-part-of-%s-group" % (ver, g), "minimal=True removes part of a group", s, ks, gone, replay=rp)
            if any(a.get(m, nd) != nd for m in V[g]):
                ctx.violation("v%s:minimal-drops-%s-group-with-defined-metric" % (ver, g),
                              "minimal=True removes the %s group although a %s metric has a defined value" % (g, g),
                              s, "group kept", sorted(gone), replay=rp)
        covered.update(gone)
    for k in removed:
        if k not in covered:
            ctx.violation("v%s:minimal-removes-base-field" % ver, "minimal=True removes a field outside the temporal/environmental groups", s, None, k, replay=rp)


def run(ctx):
    rng = ctx.rng
    cases = []
    for _ in range(ctx.n(6000, 150000)):
        ver = rng.choice("234")
        a = core.rand_assignment(ver, rng, p_absent=rng.choice([0.2, 0.5, 0.9]), p_nd=rng.choice([0.1, 0.3]))
        # bias towards zero scores (truthiness of 0.0) in a share of the v2/v3 cases
        if ver == "2" and rng.random() < 0.3:
            a.update({"C": "N", "I": "N", "A": "N"})
        if ver == "2" and rng.random() < 0.15:
            a["TD"] = "N"
        if ver == "3" and rng.random() < 0.2:
            a.update({"C": "N", "I": "N", "A": "N"})
        pfx = rng.choice(core.PREFIX[ver])
        cases.append((ver, a, pfx, core.render(ver, a, rng, prefix=pfx)))
    for ver in "234":
        for s in core.singletons(ver, rng, ctx.n(12, 200)):
            pfx, fields = obs.parse_fields(ver, s)
            cases.append((ver, dict(fields), pfx, s))
    for ver in "234":
        for s in core.special(ver, rng, ctx.n(800, 15000)):
            pfx, fields = obs.parse_fields(ver, s)
            cases.append((ver, dict(fields), pfx, s))
    from .. import conc
    conc.flag_variants(ctx, [["C", c[0], c[3]] for c in cases[:: max(1, len(cases) // ctx.n(120, 1200))] if core.sendable(c[3])], "json")
    conc.pickle_across(ctx, [(c[0], c[3]) for c in cases[:: max(1, len(cases) // 40)]], "json")
    ctx.count(len(cases) * 4)
    ctx.sample({"vector": cases[0][3]})
    for ver in "234":
        flat = [(v, s) for v, _, _, s in cases if v == ver]
        if ctx.model_available and flat:
            n, dis, _ = core.compare_construct(flat, "svjkJK", ctx.tally)
            for v, s, mo, io_ in dis:
                ctx.disagree("model-vs-code:v%s:as_json" % v, s, mo[:400], io_[:400])
    for ver, a, pfx, s in cases:
        ctx.nontrivial((ver, s))
        o, e = obs.construct(ver, s, warm=True)
        if o is None:
            ctx.violation("v%s:valid-vector-rejected" % ver, "accepted vector rejected", s, "accepted", e,
                          replay={"ver": ver, "s": s, "assignment": a, "prefix": pfx})
            continue
        check(ctx, ver, a, pfx, s, o)


def replay(data):
    r = data["replay"]
    o, e = obs.construct(r["ver"], r["s"], warm=True)
    if o is None:
        return obs.rejected_verdict(r["ver"], r["s"], e)

    class C:
        v = []

        def violation(self, sig, what, *a, **k):
            self.v.append(sig)
    c = C()
    check(c, r["ver"], r["assignment"], r["prefix"], r["s"], o)
    return data["signature"] not in c.v, "CVSS%s(%r): as_json(minimal=True)=%r; failing clauses now: %r" % (
        r["ver"], r["s"], dict(o.as_json(minimal=True)), c.v)
