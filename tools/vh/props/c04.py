"""C04 — acceptance is exactly the version's grammar; errors follow the taxonomy."""
from __future__ import annotations

from .. import core
from ..core import VOCAB, enc, render

RULE = ("strings: valid vectors in random order, and 1-3 edits of them (insert/delete/replace a character, "
        "drop/duplicate/swap/transplant a field, case, padding, prefix, separators, non-ASCII), given to all "
        "three constructors; distinct = distinct (constructor, string); the outcome class "
        "(accepted / Malformed / Mandatory / foreign) is compared model-vs-code and grammar-spec-vs-code")
ASSUMPTIONS = ["strings are sequences of Unicode scalar values; lone surrogates are probed on the implementation only"]

FIXED = ["", "/", ":", "//", "CVSS:3.0/", "CVSS:3.1/", "CVSS:4.0/", "CVSS:3.0", "CVSS:3.1/AV:N", "AV:N", "AV", "AV:",
         ":N", "AV:N:N", "CVSS:3.1/AV:N/AC:L/PR:N/UI:N/S:U/C:H/I:H/A:H/", "CVSS:3.1//AV:N/AC:L/PR:N/UI:N/S:U/C:H/I:H/A:H",
         "CVSS:3.1/AV:N/AC:L/PR:N/UI:N/S:X/C:H/I:H/A:H", "CVSS:3.1/AV:N/AC:L/PR:N/UI:N/S:U/C:H/I:H/A:H/MS:X",
         "CVSS:3.1/AV:N/AC:L/PR:N/UI:N/C:H/I:H/A:H/MS:C", "CVSS:3.1/MAV:N/MAC:L/MPR:N/MUI:N/MS:U/MC:H/MI:H/MA:H",
         "CVSS:4.0/AV:N/AC:L/AT:N/PR:N/UI:N/VC:H/VI:H/VA:H/SC:H/SI:S/SA:N",
         "CVSS:4.0/MAV:N/MAC:L/MAT:N/MPR:N/MUI:N/MVC:H/MVI:H/MVA:H/MSC:H/MSI:S/MSA:N",
         "CVSS:4.0/AV:N/AC:L/AT:N/PR:N/UI:N/VC:H/VI:H/VA:H/SC:H/SI:H/SA:N/U:clear",
         "CVSS:4.0/AV:N/AC:L/AT:N/PR:N/UI:N/VC:H/VI:H/VA:H/SC:H/SI:H/SA:N/U:Clear",
         "AV:N/AC:L/Au:N/C:P/I:P/A:P/E:ND", "AV:N/AC:L/Au:N/C:P/I:P/A:ND", "AV:N/AC:L/Au:N/C:P/I:P/A:P/",
         "av:n/ac:l/au:n/c:p/i:p/a:p", "AV:N/AC:L/AU:N/C:P/I:P/A:P", " AV:N/AC:L/Au:N/C:P/I:P/A:P",
         "AV:N/AC:L/Au:N/C:P/I:P/A:P/AV:N", "AV:N/AC:L/Au:N/C:P/I:P/A:P/AV:L", "None", "CVSS:3.1/None:None"]


def small_strings():
    """bounded-exhaustive part of the tie: EVERY string of length <= 4 over a small alphabet of structural
    characters and token letters, and every way of gluing <= 3 pieces from a piece vocabulary"""
    import itertools
    out = []
    alpha = "AV:/N "
    for n in range(0, 5):
        for tup in itertools.product(alpha, repeat=n):
            out.append("".join(tup))
    pieces = ["AV:N", "AC:L", "Au:N", "C:P", "/", ":", "CVSS:3.1/", "CVSS:4.0/", "E:X", "E:ND", "AV", "N", " ", "//", "S:U", "U:Red"]
    for n in range(1, 4):
        for tup in itertools.product(pieces, repeat=n):
            out.append("".join(tup))
    return out


def run(ctx):
    rng = ctx.rng
    items = []
    for s in FIXED + small_strings():
        for v in "234":
            items.append((v, s))
    for _ in range(ctx.n(12000, 250000)):
        ver = rng.choice("234")
        s = core.rand_vector(ver, rng, p_absent=rng.choice([0.2, 0.6, 0.9]))
        items.append((ver, s))
        for _ in range(3):
            t = s
            for _ in range(rng.choice([1, 1, 1, 2, 3])):
                t = core.edit(t, rng, ver)
            # the edited string goes to its own constructor and sometimes to another one
            items.append((ver, t))
            if rng.random() < 0.25:
                items.append((rng.choice("234"), t))
    # well-formed strings WITHOUT any / with only some mandatory metrics (e.g. what temporal_vector() prints)
    for ver in "234":
        for s in core.optional_only(ver, rng, ctx.n(400, 8000)):
            items.append((ver, s))
            if rng.random() < 0.3:
                items.append((ver, s + "/" + "/".join("%s:%s" % (m, rng.choice(core.VOCAB[ver]["legal"][m]))
                                                      for m in rng.sample(core.VOCAB[ver]["mandatory"], rng.randrange(1, 4)))))
    # every prefix variant in front of a valid body, for every constructor
    for ver in "234":
        body = core.render(ver, core.rand_assignment(ver, rng, p_absent=0.8), prefix="")
        for pe in core.PREFIX_EDITS:
            for v in "234":
                items.append((v, pe + body))
    # de-duplicate
    items = list(dict.fromkeys(items))
    send = [(v, s) for v, s in items if core.sendable(s)]
    ctx.count(len(items))
    for v, s in items:
        ctx.nontrivial((v, s))
    ctx.sample({"op": "CVSS%s(s)" % send[5][0], "s": send[5][1]})
    ctx.sample({"op": "CVSS%s(s)" % send[-1][0], "s": send[-1][1]})
    from .. import conc
    conc.flag_variants(ctx, [["C", v, s] for v, s in send[:: max(1, len(send) // ctx.n(400, 4000))]], "acceptance")
    if ctx.model_available:
        n, dis, outs = core.compare_construct(send, "", ctx.tally)
        for v, s, mo, io_ in dis:
            ctx.disagree("model-vs-code:v%s:outcome" % v, s, mo, io_)
        spec = core.run_driver(["S\tacc\t%s\t%s" % (v, enc(s)) for v, s in send])
    else:
        outs = [core.impl_construct(v, "", s) for v, s in send]
        spec = [None] * len(send)
    for (v, s), sp, io_ in zip(send, spec, outs):
        got = io_.rstrip("\t")
        if got.endswith("FOREIGN") or got.startswith("accessor"):
            ctx.violation("v%s:foreign-exception" % v, "an exception from outside the CVSSError hierarchy escapes the constructor",
                          s, "CVSSError subclass or success", _exc(v, s), replay={"ver": v, "s": s})
        elif sp is not None and sp != got:
            ctx.violation("v%s:%s-but-grammar-says-%s" % (v, got.replace("\t", ":"), sp.replace("\t", ":")),
                          "constructor outcome differs from the version's grammar", s, sp, got,
                          replay={"ver": v, "s": s})
    # strings the protocol cannot carry (lone surrogates): only "no foreign exception"
    for v in "234":
        for s in ["\ud800", "AV:N/\udfff", "CVSS:3.1/AV:\ud800"]:
            io_ = core.impl_construct(v, "", s)
            ctx.count()
            if "FOREIGN" in io_:
                ctx.violation("v%s:foreign-exception" % v, "an exception from outside the CVSSError hierarchy escapes the constructor",
                              s, "CVSSError", _exc(v, s), replay={"ver": v, "s": s})


def _exc(v, s):
    try:
        core.impl().cls[v](s)
        return "accepted"
    except Exception as e:  # noqa
        return "%s: %s" % (type(e).__name__, e)


def replay(data):
    r = data["replay"]
    v, s = r["ver"], r["s"]
    got = core.impl_construct(v, "", s).rstrip("\t")
    sp = core.run_driver(["S\tacc\t%s\t%s" % (v, enc(s))])[0] if core.sendable(s) else "err"
    ok = (got == sp) and "FOREIGN" not in got
    return ok, "CVSS%s(%r): implementation %s (%s), grammar %s" % (v, s, got, _exc(v, s), sp)
