"""C16 — the interactive builder returns exactly the answered, valid vector."""
from __future__ import annotations

import importlib

from .. import core, inter, obs
from ..core import VOCAB, enc

RULE = ("ask_interactively(version, all_metrics) for versions 2, 3.0, 3.1, 4.0 x {mandatory, all} driven with scripted "
        "answers (valid in any letter case / padding, empty for Not Defined, invalid, premature end of input): questions "
        "asked, answers consumed and result compared with an independent simulation of the statement and with the "
        "Lean model; every (metric, legal value) of every version selected once by its own spelling; distinct = "
        "distinct (version, all?, answer script)"
        " + runs of 1,300-12,000 illegal answers to one question; the question order is learned behaviourally (result vector / cyclic token feed), never read from the prompts")
ASSUMPTIONS = ["case-insensitive matching is ASCII case folding; answers are ASCII except a few probes"]


def simulate(iver, allm, answers, order):
    """the statement, executed with the metrics in the order the builder asked them:
    returns (outcome, vector, consumed, [(metric, n)])"""
    ver = iver[0]
    V = VOCAB[ver]
    pfx = {"2": "", "3.0": "CVSS:3.0/", "3.1": "CVSS:3.1/", "4": "CVSS:4.0/"}[iver]
    i = 0
    fields = []
    asked = []
    for m in order:
        n = 0
        while True:
            if i >= len(answers):
                asked.append([m, n + 1])
                return "eof", None, len(answers), asked
            a = answers[i].strip()
            i += 1
            n += 1
            if a == "":
                a = V["nd"]
            hit = [v for v in V["legal"].get(m, []) if v.upper() == a.upper()]
            if hit:
                fields.append("%s:%s" % (m, hit[0]))
                break
        asked.append([m, n])
    return "result", pfx + "/".join(fields), i, asked


def names_to_abbr(iver):
    c = importlib.import_module("cvss.constants" + iver[0])
    inv = {}
    for k, v in c.METRICS_ABBREVIATIONS.items():
        inv.setdefault(v, k)
    return inv


PFX = {"2": "", "3.0": "CVSS:3.0/", "3.1": "CVSS:3.1/", "4": "CVSS:4.0/"}
_ORDER = {}


def fields_of(iver, vector):
    """metric abbreviations of a returned vector, in the order of its fields"""
    body = vector[len(PFX[iver]):] if PFX[iver] and vector.startswith(PFX[iver]) else vector
    return [f.split(":")[0] for f in body.split("/")]


def learned_order(iver, allm):
    """The order in which the builder asks its questions, learned WITHOUT reading the prompts (their wording and layout
    are not constrained by any property): every value token of the version is fed cyclically, so each question is
    eventually answered legally, and the fields of the returned vector give the order."""
    key = (iver, allm)
    if key not in _ORDER:
        V = VOCAB[iver[0]]
        toks = sorted({v for vs in V["legal"].values() for v in vs})
        n = len(V["order"]) if allm else len(V["mandatory"])
        res = inter.ask(iver, allm, toks * (n + 3))
        _ORDER[key] = fields_of(iver, res["vector"]) if res["outcome"] == "result" and isinstance(res["vector"], str) else None
    return _ORDER[key]


def order_asked(iver, allm, res):
    """question order for one observed session: from the returned vector when there is one, else the learned order"""
    if res["outcome"] == "result" and isinstance(res["vector"], str):
        return fields_of(iver, res["vector"])
    o = learned_order(iver, allm)
    if o is None:
        o = inter.question_order(iver[0], allm)
    return list(o)


def check(ctx, iver, allm, answers, spelling=None):
    if spelling is None:
        spelling = (len(answers) + (1 if allm else 0)) % 2   # deterministic choice among equal spellings of the version
    rp = {"iver": iver, "all": allm, "answers": answers, "spelling": spelling}
    res = inter.ask(iver, allm, answers, spelling=spelling)
    V = VOCAB[iver[0]]
    expected_set = V["order"] if allm else V["mandatory"]
    order = order_asked(iver, allm, res)
    if len(set(order)) != len(order) or any(m not in expected_set for m in order) or sorted(order) != sorted(expected_set):
        ctx.violation("%s:wrong-set-of-questions" % iver, "the builder does not ask each metric of the requested set exactly once",
                      rp, sorted(expected_set), order, replay=rp)
    order = list(dict.fromkeys(m for m in order if m in expected_set))
    want = simulate(iver, allm, answers, order + [m for m in expected_set if m not in order])
    # what the prompts say was asked (auxiliary only: depends on the prompt layout "<Full name>: ...")
    inv = names_to_abbr(iver)
    asked_by_prompt = [[inv.get(n, n), k] for n, k in res["asked"]]
    got = (res["outcome"], res["vector"], res["consumed"], want[3] if res["outcome"] == want[0] else asked_by_prompt, asked_by_prompt)
    if res["outcome"].startswith("raised"):
        ctx.violation("%s:raises-%s" % (iver, res["outcome"][7:]), "ask_interactively raises", rp, want[0], res["outcome"], replay=rp)
        return got
    if got[0] != want[0] or got[1] != want[1]:
        sig = "%s:result-differs" % iver
        if got[0] == "eof" and want[0] == "result":
            bad = next((m for (m, n), (m2, n2) in zip(asked_by_prompt, want[3]) if n != n2), None)
            sig = "%s:legal-answer-not-accepted-for-%s" % (iver, bad)
        ctx.violation(sig, "the builder's result differs from 'exactly the accepted answers' for this script", rp, want[:2], got[:2], replay=rp)
    elif got[2] != want[2]:
        ctx.violation("%s:questions-asked-differ" % iver, "answers consumed differ from the statement (a question is repeated only until the answer is legal)",
                      rp, want[2], got[2], replay=rp)
    if got[0] == "result":
        o, e = obs.construct(iver[0], got[1])
        if o is None:
            ctx.violation("%s:result-rejected-by-class" % iver, "the returned vector is rejected by the corresponding class", rp, "accepted", [got[1], e], replay=rp)
    return got


def run(ctx):
    rng = ctx.rng
    scripts = []
    # every legal value of every metric selectable, by its own spelling and in lower case
    for iver in ["2", "3.0", "3.1", "4"]:
        V = VOCAB[iver[0]]
        qorder = inter.question_order(iver[0], True)
        for m in V["order"]:
            for v in V["legal"][m]:
                for form in (v, v.lower()):
                    ans = []
                    for k in qorder:
                        ans.append(form if k == m else V["legal"][k][0])
                    scripts.append((iver, True, ans))
    nsel = len(scripts)
    for _ in range(ctx.n(3000, 80000)):
        iver = rng.choice(["2", "3.0", "3.1", "4"])
        allm = rng.random() < 0.6
        scripts.append((iver, allm, inter.rand_answers(iver, allm, rng)))
    scripts.append(("3.1", False, []))
    scripts.append(("4", True, ["n"] * 5))
    # LONG runs of illegal answers to one question ("repeats a question until the answer is legal": no bound)
    for iver in ["2", "3.0", "3.1", "4"]:
        for n_bad, allm in ((1300, False), (ctx.n(2600, 12000), True)):
            order = learned_order(iver, allm) or inter.question_order(iver[0], allm)
            k = rng.randrange(len(order))
            ans = []
            for j, m in enumerate(order):
                if j == k:
                    ans += [rng.choice(["?", "ZZ", "0", "no", "-"]) for _ in range(n_bad)]
                ans.append(rng.choice(VOCAB[iver[0]]["legal"][m]))
            scripts.append((iver, allm, ans))
    from .. import conc
    fl = [["I", iv, al, an] for iv, al, an in scripts[nsel:][:: max(1, (len(scripts) - nsel) // ctx.n(60, 600))] if len(an) < 200 and all(core.sendable(x) for x in an)]
    conc.flag_variants(ctx, fl, "interactive")
    ctx.count(len(scripts))
    ctx.extra["selectability_scripts"] = nsel
    ctx.sample({"version": scripts[nsel][0], "all_metrics": scripts[nsel][1], "answers": scripts[nsel][2]})
    gots = []
    for iver, allm, ans in scripts:
        ctx.nontrivial((iver, allm, tuple(ans)))
        gots.append(check(ctx, iver, allm, ans))
        ctx.tally.add("%s:%s" % (iver, gots[-1][0]))
    if ctx.model_available:
        # everything the builder PRINTS (banner, headings with hints, colours, question lines): model vs code
        selp = [sc for sc in scripts[nsel:] if all(core.sendable(a) and all(ord(c) < 128 for c in a) for a in sc[2])][: ctx.n(1200, 20000)]
        nc = [len(sc[2]) % 2 == 0 for sc in selp]
        lines = ["D\t%s\t%s\t%s" % (iver, "1" if allm else "0", "1" if n_ else "0") + "".join("\t" + enc(a) for a in ans)
                 for (iver, allm, ans), n_ in zip(selp, nc)]
        outp = core.run_driver(lines)
        for (iver, allm, ans), n_, mo in zip(selp, nc, outp):
            res = inter.ask(iver, allm, ans, no_colors=n_)
            want = "out\t%s\t%s" % (core.esc(res["stdout"]), "result:" + core.esc(res["vector"]) if res["outcome"] == "result" else "eof")
            ctx.count()
            if mo != want:
                ctx.aux("model-vs-code:interactive-stdout:%s" % iver, {"all": allm, "no_colors": n_, "answers": ans}, mo[:400], want[:400])
        sel = [(i, sc) for i, sc in enumerate(scripts) if all(core.sendable(a) and all(ord(c) < 128 for c in a) for a in sc[2])]
        lines = ["I\t%s\t%s" % (iver, "1" if allm else "0") + "".join("\t" + enc(a) for a in ans) for _, (iver, allm, ans) in sel]
        out = core.run_driver(lines)
        for (i, (iver, allm, ans)), mo in zip(sel, out):
            g = gots[i]
            # primary tie: outcome, returned vector, answers consumed (the model's list of questions is compared with what
            # the PROMPTS say only as auxiliary correspondence, because it depends on the prompt layout)
            mf = mo.split("\t")
            if g[0] == "result":
                io_, mo_ = "result\t%s\t%d" % (core.esc(g[1]), g[2]), "\t".join(mf[:3])
            elif g[0] == "eof":
                io_, mo_ = "eof", mf[0]
            else:
                io_, mo_ = g[0], mo
            if mo_ != io_:
                ctx.disagree("model-vs-code:ask_interactively:%s" % iver, {"all": allm, "answers": ans}, mo[:300], io_[:300])
            else:
                asked = ",".join("%s:%d" % (m, n) for m, n in g[4])
                if mf[-1] != asked and len(mf) > 1:
                    ctx.aux("model-vs-code:questions-as-read-from-the-prompts:%s" % iver, {"all": allm, "answers": ans}, mf[-1][:300], asked[:300])


def replay(data):
    r = data["replay"]

    class C:
        v = []

        def violation(self, sig, what, *a, **k):
            self.v.append(sig + ": " + what)
    c = C()
    got = check(c, r["iver"], r["all"], r["answers"], r.get("spelling"))
    return not c.v, "ask_interactively(%s, all=%s) with answers %r -> %r; %s" % (r["iver"], r["all"], r["answers"], got[:3], "; ".join(c.v) or "as the statement demands")
