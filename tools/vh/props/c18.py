"""C18 — a constructed object is an immutable value with total, pure accessors."""
from __future__ import annotations

import copy

from .. import core, obs

RULE = ("accepted vectors x random sequences (length 5-40) of accessor calls on ONE instance: scores, severities, "
        "clean_vector (both prefix options), rh_vector, sub-vectors, as_json with the four option sets, ==, hash, and "
        "in-place mutation of every dict that as_json() returned; every result compared with the first-call result of "
        "a fresh object and with the Lean model's prediction; distinct = distinct (vector, sequence)")
ASSUMPTIONS = ["aliasing and caching are runtime facts the functional model cannot exhibit; they are sampled, not proved"]
EXPLANATION = ("Lean: in the model every accessor is a function of an immutable Obj, so any call sequence returns the single-call "
               "results (theorem accessors_pure); assurance for the Python object comes from model-based differential execution "
               "of random accessor histories incl. mutation of returned dicts.")
OPS = {"2": "svcrtejkJK=#!", "3": "svcnrtejkJK=#!", "4": "svcnrjkJK=#!"}


def run(ctx):
    rng = ctx.rng
    cases = []
    for _ in range(ctx.n(2500, 60000)):
        ver = rng.choice("234")
        s = core.rand_vector(ver, rng, p_absent=rng.choice([0.2, 0.6]))
        seq = "".join(rng.choice(OPS[ver]) for _ in range(rng.randrange(5, 41)))
        cases.append((ver, s, seq))
    ctx.count(sum(len(c[2]) for c in cases))
    ctx.sample({"vector": cases[0][1], "accessor_sequence": cases[0][2]})
    # model prediction for every observable
    pred = {}
    for ver in "234":
        mask = "".join(c for c in OPS[ver] if c not in "=#!")
        flat = [(v, s) for v, s, _ in cases if v == ver]
        if ctx.model_available and flat:
            n, dis, outs = core.compare_construct(flat, mask, ctx.tally)
            for v, s, mo, io_ in dis:
                ctx.disagree("model-vs-code:v%s:accessors" % v, s, mo[:300], io_[:300])
    for ver, s, seq in cases:
        ctx.nontrivial((ver, s, seq))
        rp = {"ver": ver, "s": s, "seq": seq}
        fresh, e = obs.construct(ver, s)
        o, _ = obs.construct(ver, s)
        twin, _ = obs.construct(ver, s)
        if o is None:
            ctx.violation("v%s:valid-vector-rejected" % ver, "accepted vector rejected", s, "accepted", e, replay=rp)
            continue
        first = {}
        returned = []
        h0 = None
        for i, c in enumerate(seq):
            try:
                if c == "=":
                    val = (o == twin, o == o, o != twin)
                    want = (True, True, False)
                elif c == "#":
                    val = hash(o) == hash(twin)
                    want = True
                elif c == "!":
                    for d in returned:
                        for k in list(d.keys()):
                            d[k] = "MUTATED"
                        d["extra"] = 1
                        d.pop("baseScore", None)
                    continue
                else:
                    val = core.obs_field(ver, o, c)
                    if c in "jkJK":
                        returned.append(o.as_json(sort=c in "JK", minimal=c in "kK"))
                    if c not in first:
                        first[c] = core.obs_field(ver, obs.construct(ver, s)[0], c)
                    want = first[c]
            except Exception as ex:  # noqa
                ctx.violation("v%s:accessor-%s-raises" % (ver, obs.NAMES.get(c, c)), "an accessor raises on an accepted vector", rp, None, "step %d: %r" % (i, ex), replay=rp)
                break
            if val != want:
                ctx.violation("v%s:%s-not-pure" % (ver, obs.NAMES.get(c, {"=": "==", "#": "hash"}.get(c, c))),
                              "an accessor's result changes with the call history", rp, want, "step %d: %r" % (i, val), replay=rp)
                break


def replay(data):
    r = data["replay"]

    class C:
        v = []
        model_available = False

        def violation(self, sig, what, *a, **k):
            self.v.append(sig + ": " + what + " " + repr(a[2:3]))
    # re-run the single case
    import random
    c = C()
    ver, s, seq = r["ver"], r["s"], r["seq"]
    fresh, _ = obs.construct(ver, s)
    o, _ = obs.construct(ver, s)
    base = {}
    bad = []
    returned = []
    for i, ch in enumerate(seq):
        if ch in "=#":
            continue
        if ch == "!":
            for d in returned:
                for k in list(d.keys()):
                    d[k] = "MUTATED"
            continue
        val = core.obs_field(ver, o, ch)
        if ch in "jkJK":
            returned.append(o.as_json(sort=ch in "JK", minimal=ch in "kK"))
        want = core.obs_field(ver, obs.construct(ver, s)[0], ch)
        if val != want:
            bad.append("step %d %s: %r != fresh %r" % (i, ch, val[:120], want[:120]))
    return not bad, "accessor sequence %r on CVSS%s(%r): %s" % (seq, ver, s, "; ".join(bad) or "every call returned the fresh-object result")
