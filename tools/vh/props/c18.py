"""C18 — a constructed object is an immutable value with total, pure accessors."""
from __future__ import annotations

import copy
import json

from .. import core, obs

RULE = ("accepted vectors x random sequences (length 5-40) of accessor calls on ONE instance: scores, severities, "
        "clean_vector (both prefix options), rh_vector, sub-vectors, as_json with the four option sets, ==, hash, and "
        "in-place mutation of every dict that as_json() returned; every result compared with the first-call result of "
        "a fresh object and with the Lean model's prediction; distinct = distinct (vector, sequence)"
        " + every history also touches a RELATED partner object (same string / respelled / other minor version / one metric changed); expected values from the Lean model")
ASSUMPTIONS = ["aliasing and caching are runtime facts the functional model cannot exhibit; they are sampled, not proved"]
EXPLANATION = ("Lean: in the model every accessor is a function of an immutable Obj, so any call sequence returns the single-call "
               "results (theorem accessors_pure); assurance for the Python object comes from model-based differential execution "
               "of random accessor histories incl. mutation of returned dicts.")
OPS = {"2": "svcrtejkJK=#!wf", "3": "svcnrtejkJK=#!wf", "4": "svcnrjkJK=#!wf"}


FLAGS = [(1, 0), ("yes", ""), (2, None), ([0], []), ((None,), ()), (1.5, 0.0), (-1, 0), ("0", 0), (object(), None)]


def partner_of(ver, s, rng):
    """a second object related to the first: the same string, another spelling of the same vector, the other minor
    version (v3), or one metric changed; returns (kind, string, equal?)"""
    V = core.VOCAB[ver]
    pfx, fields = obs.parse_fields(ver, s)
    k = rng.randrange(4)
    if k == 0:
        return "same", s, True
    if k == 1:
        f = list(fields)
        rng.shuffle(f)
        have = {m for m, _ in f}
        for m in V["order"]:
            if m not in have and V["nd"] in V["legal"][m] and rng.random() < 0.3:
                f.insert(rng.randrange(len(f) + 1), (m, V["nd"]))
        return "respelled", pfx + "/".join("%s:%s" % mv for mv in f), True
    if k == 2 and ver == "3":
        other = "CVSS:3.1/" if pfx == "CVSS:3.0/" else "CVSS:3.0/"
        return "other-minor", other + "/".join("%s:%s" % mv for mv in fields), False
    f = list(fields)
    i = rng.randrange(len(f))
    m, v = f[i]
    alt = [x for x in V["legal"][m] if x != v and not (m not in V["mandatory"] and x == V["nd"])]
    if not alt:
        return "same", s, True
    f[i] = (m, rng.choice(alt))
    return "one-metric-changed", pfx + "/".join("%s:%s" % mv for mv in f), False


def predictions(pairs):
    """the Lean model's value of every accessor for each (ver, string): a reference that no state of the Python process
    can influence; {} when the driver is unavailable or the string cannot be sent"""
    pred = {}
    for ver in "234":
        mask = "".join(c for c in OPS[ver] if c not in "=#!wf")
        todo = sorted({x for v, x in pairs if v == ver and core.sendable(x)})
        if not todo:
            continue
        try:
            out = core.run_driver(["C\t%s\t%s\t%s" % (ver, mask, core.enc(x)) for x in todo])
        except Exception:  # noqa
            continue
        for x, line in zip(todo, out):
            parts = line.split("\t")
            if parts[0] == "ok" and len(parts) == len(mask) + 1:
                pred[(ver, x)] = {c: (core.canon_unsorted(f) if c in "jk" else f) for c, f in zip(mask, parts[1:])}
    return pred


def run_case(ver, s, ps, equal, seq, pred=None):
    """one accessor history on ONE object `o` (and on a related partner object, ops prefixed with '~'); returns a list of
    (signature, what, detail).  Every result must equal the first-call result of a FRESH object for the same string."""
    problems = []
    o, e = obs.construct(ver, s)
    if o is None:
        return [("v%s:valid-vector-rejected" % ver, "accepted vector rejected", e)]
    p, e2 = obs.construct(ver, ps)
    if p is None:
        return [("v%s:valid-vector-rejected" % ver, "accepted vector rejected", e2)]
    objs = {False: (o, s), True: (p, ps)}
    first = {False: {}, True: {}}
    returned = []
    on_partner = False
    for i, c in enumerate(seq):
        if c == "~":
            on_partner = True
            continue
        obj, src = objs[on_partner]
        who = "partner" if on_partner else "object"
        try:
            if c == "=":
                val = (o == p, p == o, o != p, o == o, p != p)
                want = (equal, equal, not equal, True, False)
            elif c == "#":
                ho, hp = hash(o), hash(p)       # always taken: a cached hash must not change what == says afterwards
                val = (ho == hp) if equal else True
                want = True
            elif c == "f":
                # option flags are truth values: any truthy / falsy argument behaves like True / False
                k = (i * 7 + len(src)) % len(FLAGS)
                t, f_ = FLAGS[k]
                val = (json.dumps(obj.as_json(sort=t, minimal=f_)) , json.dumps(obj.as_json(sort=f_, minimal=t)),
                       None if ver == "2" else obj.clean_vector(output_prefix=f_), None if ver == "2" else obj.clean_vector(output_prefix=t))
                want = (json.dumps(obj.as_json(sort=True, minimal=False)), json.dumps(obj.as_json(sort=False, minimal=True)),
                        None if ver == "2" else obj.clean_vector(output_prefix=False), None if ver == "2" else obj.clean_vector(output_prefix=True))
            elif c == "!":
                for d in returned:
                    for k in list(d.keys()):
                        d[k] = "MUTATED"
                    d["extra"] = 1
                    d.pop("baseScore", None)
                on_partner = False
                continue
            else:
                val = core.obs_field(ver, obj, c)
                if c in "jk":
                    val = core.canon_unsorted(val)
                if c in "jkJK":
                    returned.append(obj.as_json(sort=c in "JK", minimal=c in "kK"))
                if c not in first[on_partner]:
                    if pred and (ver, src) in pred and c in pred[(ver, src)]:
                        first[on_partner][c] = pred[(ver, src)][c]       # the pure model's value
                    else:
                        w = core.obs_field(ver, obs.construct(ver, src)[0], c)
                        first[on_partner][c] = core.canon_unsorted(w) if c in "jk" else w
                want = first[on_partner][c]
        except Exception as ex:  # noqa
            problems.append(("v%s:accessor-%s-raises" % (ver, obs.NAMES.get(c, c)), "an accessor raises on an accepted vector", "step %d (%s): %r" % (i, who, ex)))
            break
        if val != want:
            problems.append(("v%s:%s-not-pure" % (ver, obs.NAMES.get(c, {"=": "==", "#": "hash"}.get(c, c))),
                             "an accessor's result changes with the call history (its own, or that of a related object)",
                             "step %d (%s): %r, the expected (model / fresh object) value is %r" % (i, who, str(val)[:160], str(want)[:160])))
            break
        on_partner = False
    return problems


def run(ctx):
    rng = ctx.rng
    cases = []
    for _ in range(ctx.n(2500, 60000)):
        ver = rng.choice("234")
        s = core.rand_vector(ver, rng, p_absent=rng.choice([0.2, 0.6]))
        kind, ps, equal = partner_of(ver, s, rng)
        seq = "".join(("~" if rng.random() < 0.35 and c not in "=#!" else "") + c
                      for c in (rng.choice(OPS[ver] + "=#") for _ in range(rng.randrange(5, 41))))
        cases.append((ver, s, ps, equal, seq))
    # short systematic histories around == and hash for every kind of partner
    for _ in range(ctx.n(600, 6000)):
        ver = rng.choice("2334")
        s = core.rand_vector(ver, rng, p_absent=rng.choice([0.2, 0.6, 0.95]))
        kind, ps, equal = partner_of(ver, s, rng)
        for seq in ("=#=", "#=", "=~#=#=", "#~#==", "~J=J~j", "J~J~j=", "~K~kKk", "c~c=#=", "=s~s="):
            cases.append((ver, s, ps, equal, seq if ver != "2" or "n" not in seq else seq.replace("n", "c")))
    ctx.count(sum(len(c[4]) for c in cases))
    ctx.sample({"vector": cases[0][1], "partner": cases[0][2], "accessor_sequence": cases[0][4]})
    for ver in "234":
        mask = "".join(c for c in OPS[ver] if c not in "=#!wf")
        flat = [(v, s) for v, s, _, _, _ in cases if v == ver]
        if ctx.model_available and flat:
            n, dis, outs = core.compare_construct(flat, mask, ctx.tally)
            for v, s, mo, io_ in dis:
                ctx.disagree("model-vs-code:v%s:accessors" % v, s, mo[:300], io_[:300])
    from .. import conc
    conc.pickle_across(ctx, [(v, x) for v, s, ps, _, _ in cases[:: max(1, len(cases) // 30)] for x in (s, ps)], "value")
    pred = predictions([(v, x) for v, s, ps, _, _ in cases for x in (s, ps)]) if ctx.model_available else {}
    ctx.extra["results_checked_against_the_model"] = len(pred)
    for ver, s, ps, equal, seq in cases:
        ctx.nontrivial((ver, s, ps, seq))
        rp = {"ver": ver, "s": s, "partner": ps, "equal": equal, "seq": seq}
        for sig, what, detail in run_case(ver, s, ps, equal, seq, pred):
            ctx.violation(sig, what, rp, None, detail, replay=rp)


def replay(data):
    r = data["replay"]
    ps = r.get("partner", r["s"])
    equal = r.get("equal", True)
    bad = run_case(r["ver"], r["s"], ps, equal, r["seq"], predictions([(r["ver"], r["s"]), (r["ver"], ps)]))
    return not bad, "accessor sequence %r on CVSS%s(%r) with partner %r: %s" % (
        r["seq"], r["ver"], r["s"], ps, "; ".join("%s: %s" % (b[0], b[2]) for b in bad) or "every call returned the fresh-object result")
