"""C08 — every vector string the library emits is valid for its version."""
from __future__ import annotations

import re

from .. import core, inter, jschema, obs
from ..core import VOCAB, enc

RULE = ("emitted strings: clean_vector() and the vector part of rh_vector() of accepted vectors of every version "
        "(every optional subset sampled, random input order), and ask_interactively() results for random answer "
        "scripts; each re-parsed by the library and matched against the pinned official vectorString pattern "
        "(Python re and the Lean regex semantics); distinct = distinct emitted strings"
        " + systematic field orders incl. the library's own table orders; objects built through from_rh_vector() and parse_cvss_from_text() emit the same valid vectors")
ASSUMPTIONS = ["official patterns: pinned copies of FIRST's schemas under tools/schemas"]

SCHEMA_OF = {"2": "2.0", "3.0": "3.0", "3.1": "3.1", "4": "4.0"}


def pattern(key):
    return jschema.load(SCHEMA_OF[key])["properties"]["vectorString"]["pattern"]


def key_of(ver, s):
    if ver == "3":
        return "3.0" if s.startswith("CVSS:3.0/") else "3.1"
    return ver


def check_emitted(ctx, ver, src, emitted, how, rp):
    ctx.nontrivial((ver, emitted))
    o, e = obs.construct(ver, emitted)
    if o is None:
        ctx.violation("v%s:%s-rejected-by-own-parser" % (ver, how), "%s is rejected by the library's own parser" % how,
                      src, "accepted", {"emitted": emitted, "error": e}, replay=rp)
    k = key_of(ver, emitted)
    if re.search(pattern(k), emitted) is None:
        ctx.violation("v%s:%s-violates-official-pattern" % (k, how), "%s does not match the official vectorString pattern" % how,
                      src, "match of " + SCHEMA_OF[k] + " vectorString pattern", emitted, replay=rp)
    return k


def vectors_round(ctx, rng, n, em):
    s = c = None
    for _ in range(n):
        ver = rng.choice("234")
        s = core.rand_vector(ver, rng, p_absent=rng.choice([0.0, 0.2, 0.5, 0.8]), p_nd=rng.choice([0.0, 0.2]))
        o, e = obs.construct(ver, s)
        ctx.count()
        rp = {"kind": "vector", "ver": ver, "s": s}
        if o is None:
            ctx.violation("v%s:valid-vector-rejected" % ver, "accepted vector rejected", s, "accepted", e, replay=rp)
            continue
        try:
            pre = ""
            if rng.random() < 0.35:
                # other accessors first, in random order: what is emitted must not depend on earlier calls
                pre = "".join(rng.choice("nsvrcjK") for _ in range(rng.randrange(1, 4)))
                for ch in pre:
                    core.obs_field(ver, o, ch)
                rp = {"kind": "vector", "ver": ver, "s": s, "pre": pre}
            c = o.clean_vector()
            r = o.rh_vector()
        except Exception as ex:  # noqa
            ctx.violation("v%s:accessor-raised" % ver, "clean_vector()/rh_vector() raised", s, None, repr(ex), replay=rp)
            continue
        k = check_emitted(ctx, ver, s, c, "clean_vector()" + (" after other accessor calls" if pre else ""), rp)
        if "/" not in r:
            ctx.violation("v%s:rh-has-no-slash" % ver, "rh_vector() has no '/'", s, None, r, replay=rp)
        else:
            check_emitted(ctx, ver, s, r.split("/", 1)[1], "rh_vector() vector part", rp)
        em.append((k, c))
    if s is not None:
        ctx.sample({"vector": s, "clean": c})


def routes_round(ctx, rng, n, em):
    """(a) systematic field orders (official, the orders of the library's own tables, alphabetical, reversed, rotated groups),
    with and without Not Defined spelled out; (b) objects built by the OTHER routes - from_rh_vector() and
    parse_cvss_from_text() - emit the same valid vectors as the constructor's object"""
    im = core.impl()
    for _ in range(n):
        ver = rng.choice("234")
        a = core.rand_assignment(ver, rng, p_absent=rng.choice([0.0, 0.3, 0.7]), p_nd=rng.choice([0.0, 0.0, 0.2]))
        for s in core.order_variants(ver, a, rng):
            o, e = obs.construct(ver, s)
            ctx.count()
            rp = {"kind": "vector", "ver": ver, "s": s}
            if o is None:
                ctx.violation("v%s:valid-vector-rejected" % ver, "accepted vector rejected", s, "accepted", e, replay=rp)
                continue
            try:
                c, r = o.clean_vector(), o.rh_vector()
            except Exception as ex:  # noqa
                ctx.violation("v%s:accessor-raised" % ver, "clean_vector()/rh_vector() raised", s, None, repr(ex), replay=rp)
                continue
            em.append((check_emitted(ctx, ver, s, c, "clean_vector()", rp), c))
            check_emitted(ctx, ver, s, r.split("/", 1)[-1], "rh_vector() vector part", rp)
            # other routes to an object of the same vector
            alts = []
            try:
                alts.append(("from_rh_vector(rh_vector())", im.cls[ver].from_rh_vector(r)))
            except Exception as ex:  # noqa
                pass   # C12 reports a failing round trip
            if ver != "4":
                try:
                    from cvss.parser import parse_cvss_from_text
                    got = parse_cvss_from_text("see " + s + " .")
                    if len(got) == 1:
                        alts.append(("parse_cvss_from_text()", got[0]))
                except Exception:  # noqa
                    pass   # C13 reports
            for how, p in alts:
                rp2 = {"kind": "route", "ver": ver, "s": s, "how": how}
                try:
                    outs = [("clean_vector()", p.clean_vector()), ("rh_vector() vector part", p.rh_vector().split("/", 1)[-1])]
                    if ver != "4":
                        pass
                except Exception as ex:  # noqa
                    ctx.violation("v%s:accessor-raised" % ver, "an accessor of an object built by %s raised" % how, s, None, repr(ex), replay=rp2)
                    continue
                ctx.count()
                for what, x in outs:
                    check_emitted(ctx, ver, s, x, "%s of the object built by %s" % (what, how), rp2)
                if outs[0][1] != c or p.rh_vector() != r:
                    ctx.violation("v%s:route-changes-emitted-vector" % ver, "the object built by %s emits other vectors than the constructor's object" % how,
                                  s, [c, r], [outs[0][1], p.rh_vector()], replay=rp2)


def interactive_round(ctx, rng, n, em):
    rp = res = None
    for _ in range(n):
        iver = rng.choice(["2", "3.0", "3.1", "4"])
        allm = rng.random() < 0.6
        ans = inter.rand_answers(iver, allm, rng, complete=True)
        sp = rng.randrange(2)
        res = inter.ask(iver, allm, ans, spelling=sp)
        ctx.count()
        rp = {"kind": "interactive", "iver": iver, "all": allm, "answers": ans, "spelling": sp}
        if res["outcome"] != "result":
            continue
        k = check_emitted(ctx, iver[0], rp, res["vector"], "ask_interactively() result", rp)
        em.append((k, res["vector"]))
        # the object built from the builder's result emits valid vectors too
        o, e = obs.construct(iver[0], res["vector"])
        if o is not None:
            try:
                check_emitted(ctx, iver[0], rp, o.clean_vector(), "clean_vector() of the builder's result", rp)
            except Exception as ex:  # noqa
                ctx.violation("%s:accessor-raised" % iver, "clean_vector() raised", rp, None, repr(ex), replay=rp)
    if rp is not None:
        ctx.sample({"interactive": rp, "result": res.get("vector")})


def run(ctx):
    rng = ctx.rng
    em = []
    # interactive sessions and vector constructions are interleaved (emitted strings must stay valid whatever ran before)
    nv, ni = ctx.n(9000, 200000), ctx.n(1500, 30000)
    interactive_round(ctx, rng, ni // 3, em)
    vectors_round(ctx, rng, nv // 2, em)
    interactive_round(ctx, rng, ni - ni // 3, em)
    vectors_round(ctx, rng, nv - nv // 2, em)
    routes_round(ctx, rng, ctx.n(1500, 30000), em)
    from .. import conc
    fl = [["C", v, core.rand_vector(v, rng, p_absent=rng.choice([0.0, 0.5]))] for v in "234" for _ in range(ctx.n(40, 400))]
    conc.flag_variants(ctx, fl, "emitted-vectors")
    # the Lean regex semantics agrees with Python's re on the emitted strings (validates the Re terms)
    if ctx.model_available:
        sel = list(dict.fromkeys(em))[: ctx.n(6000, 60000)]
        out = core.run_driver(["S\tre\t%s\t%s" % (k, enc(s)) for k, s in sel])
        for (k, s), mo in zip(sel, out):
            py = "1" if re.search(pattern(k), s) is not None else "0"
            if mo != py:
                ctx.disagree("lean-regex-vs-python-re:%s" % k, s, mo, py)


def replay(data):
    r = data["replay"]
    if r["kind"] == "route":
        im = core.impl()
        o, e = obs.construct(r["ver"], r["s"])
        if o is None:
            return obs.rejected_verdict(r["ver"], r["s"], e)
        if r["how"].startswith("from_rh"):
            p = im.cls[r["ver"]].from_rh_vector(o.rh_vector())
        else:
            from cvss.parser import parse_cvss_from_text
            p = parse_cvss_from_text("see " + r["s"] + " .")[0]
        outs = [p.clean_vector(), p.rh_vector().split("/", 1)[-1]]
        ver = r["ver"]
        same = p.clean_vector() == o.clean_vector() and p.rh_vector() == o.rh_vector()
        msgs = []
        ok = same
        for x in outs:
            o2, e2 = obs.construct(ver, x)
            m = re.search(pattern(key_of(ver, x)), x) is not None
            ok = ok and o2 is not None and m
            msgs.append("%r: own parser %s, official pattern %s" % (x, "accepts" if o2 is not None else e2, "matches" if m else "DOES NOT match"))
        return ok, "object built by %s: same emitted vectors as the constructor's object: %s; %s" % (r["how"], same, "; ".join(msgs))
    if r["kind"] == "vector":
        o, e = obs.construct(r["ver"], r["s"])
        if o is None:
            return obs.rejected_verdict(r["ver"], r["s"], e)
        for ch in r.get("pre", ""):
            core.obs_field(r["ver"], o, ch)
        outs = [o.clean_vector(), o.rh_vector().split("/", 1)[1]]
        ver = r["ver"]
    else:
        res = inter.ask(r["iver"], r["all"], r["answers"], spelling=r.get("spelling", 0))
        outs = [res["vector"]]
        ver = r["iver"][0]
    msgs = []
    ok = True
    for x in outs:
        o2, e2 = obs.construct(ver, x)
        m = re.search(pattern(key_of(ver, x)), x) is not None
        ok = ok and o2 is not None and m
        msgs.append("%r: own parser %s, official pattern %s" % (x, "accepts" if o2 is not None else e2, "matches" if m else "DOES NOT match"))
    return ok, "; ".join(msgs)
