"""C15 — temporal_vector()/environmental_vector() are faithful and score-preserving."""
from __future__ import annotations

from .. import core, obs
from ..core import VOCAB

RULE = ("accepted v2/v3 vectors (random subsets of optional metrics, explicit ND, random order): both sub-vectors vs the "
        "expected listing (group metrics once, specification order, stated value or ND / X / base value), scores of "
        "base metrics + both sub-vectors re-assembled vs the original scores; sub-vectors model-vs-code; "
        "distinct = distinct (version, vector)")
ASSUMPTIONS = ["specification order of the groups: frozen vocabulary tools/vocab.json"]


def expected(ver, a, group):
    V = VOCAB[ver]
    nd = V["nd"]
    out = []
    for m in V[group]:
        v = a.get(m, nd)
        if v == nd and ver == "3" and m.startswith("M"):
            v = a[m[1:]]
        out.append("%s:%s" % (m, v))
    return "/".join(out)


def twin_first(ver, pfx, s):
    """for a third of the v3 vectors: the same metrics under the OTHER minor version are scored first
    (results must not depend on that); done before anything else touches the vector, and again in replays"""
    if ver == "3" and len(s) % 3 == 0:
        other = "CVSS:3.1/" if pfx == "CVSS:3.0/" else "CVSS:3.0/"
        obs.construct(ver, other + s[len(pfx):])


def check(ctx, ver, pfx, a, s):
    V = VOCAB[ver]
    rp = {"ver": ver, "s": s, "assignment": a, "prefix": pfx}
    twin_first(ver, pfx, s)
    o, e = obs.construct(ver, s, warm=True)
    if o is None:
        ctx.violation("v%s:valid-vector-rejected" % ver, "accepted vector rejected", s, "accepted", e, replay=rp)
        return
    try:
        tv, evv, sc = o.temporal_vector(), o.environmental_vector(), o.scores()
    except Exception as ex:  # noqa
        ctx.violation("v%s:accessor-raised" % ver, "sub-vector accessor raised", s, None, repr(ex), replay=rp)
        return
    if tv != expected(ver, a, "temporal"):
        ctx.violation("v%s:temporal_vector-unfaithful" % ver, "temporal_vector() is not the group's metrics in order with stated/ND values",
                      s, expected(ver, a, "temporal"), tv, replay=rp)
    if evv != expected(ver, a, "environmental"):
        ctx.violation("v%s:environmental_vector-unfaithful" % ver, "environmental_vector() is not the group's metrics in order with stated/ND/base values",
                      s, expected(ver, a, "environmental"), evv, replay=rp)
    base = "/".join("%s:%s" % (m, a[m]) for m in V["mandatory"])
    re_s = pfx + base + "/" + tv + "/" + evv
    o2, e2 = obs.construct(ver, re_s, warm=True)
    if o2 is None:
        ctx.violation("v%s:reassembled-vector-rejected" % ver, "base metrics + both sub-vectors is rejected", s, "accepted", [re_s, e2], replay=rp)
        return
    s2 = o2.scores()
    # "exactly the same scores": an undefined v2 score stays undefined only if the group is all-ND, which the
    # sub-vectors preserve (ND stays ND)
    if s2 != sc:
        ctx.violation("v%s:reassembled-vector-scores-differ" % ver, "base metrics + both sub-vectors scores differently", s, sc, [re_s, s2], replay=rp)


def run(ctx):
    rng = ctx.rng
    cases = []
    for _ in range(ctx.n(12000, 300000)):
        ver = rng.choice("23")
        a = core.rand_assignment(ver, rng, p_absent=rng.choice([0.2, 0.5, 0.9]), p_nd=rng.choice([0.1, 0.3]))
        pfx = rng.choice(core.PREFIX[ver])
        cases.append((ver, pfx, a, core.render(ver, a, rng, prefix=pfx)))
    for ver in "23":
        for s in core.singletons(ver, rng, ctx.n(40, 700)):
            pfx, fields = obs.parse_fields(ver, s)
            cases.append((ver, pfx, dict(fields), s))
    for ver in "23":
        for s in core.special(ver, rng, ctx.n(2500, 50000)):
            pfx, fields = obs.parse_fields(ver, s)
            cases.append((ver, pfx, dict(fields), s))
    # every mandatory-only v3 vector of one minor version (the other minor version is its twin)
    from .. import spaces
    for i, a in enumerate(spaces.all_base("3")):
        pfx = core.PREFIX["3"][(i + ctx.seed) % 2]
        cases.append(("3", pfx, a, core.render("3", a, prefix=pfx)))
    from .. import conc
    conc.flag_variants(ctx, [["C", c[0], c[3]] for c in cases[:: max(1, len(cases) // ctx.n(200, 2000))] if core.sendable(c[3])], "sub-vectors")
    conc.pickle_across(ctx, [(c[0], c[3]) for c in cases[:: max(1, len(cases) // 40)]], "sub-vectors")
    ctx.count(len(cases))
    ctx.sample({"vector": cases[0][3]})
    for ver, pfx, a, s in cases:
        twin_first(ver, pfx, s)
    for ver in "23":
        flat = [(v, s) for v, _, _, s in cases if v == ver]
        if ctx.model_available and flat:
            n, dis, _ = core.compare_construct(flat, "ste", ctx.tally)
            for v, s, mo, io_ in dis:
                ctx.disagree("model-vs-code:v%s:sub-vectors" % v, s, mo, io_)
    for ver, pfx, a, s in cases:
        ctx.nontrivial((ver, s))
        check(ctx, ver, pfx, a, s)


def replay(data):
    r = data["replay"]

    class C:
        v = []

        def violation(self, sig, what, *a, **k):
            self.v.append(sig + ": " + what + " " + repr(a[1:3]))

        def nontrivial(self, *a):
            pass
    c = C()
    check(c, r["ver"], r["prefix"], r["assignment"], r["s"])
    return not c.v, "CVSS%s(%r): %s" % (r["ver"], r["s"], "; ".join(c.v) or "sub-vectors faithful and score-preserving")
