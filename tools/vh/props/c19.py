"""C19 — results depend only on the input: no hidden state or ambient dependence."""
from __future__ import annotations

import contextlib
import copy
import decimal
import importlib
import io
import pickle
import sys
import threading
import warnings

from .. import core, inter, obs, probes
from ..core import enc

RULE = ("probe strings of every version evaluated (a) in a fresh process, (b) after random in-process histories of API "
        "calls (successes, rejections, serialisation, text extraction, interactive, CLI), (c) from 8 concurrent threads "
        "with a 1e-6 s switch interval, (d) in fresh processes under PYTHONHASHSEED 0/1/2/random, (e) under every "
        "decimal rounding mode x precision {28,29,50,200}; all must equal each other and the Lean model; module "
        "globals, decimal context settings, sys.path, warning filters snapshotted before/after; stdout/stderr of "
        "non-CLI calls captured; distinct = distinct (probe, situation)"
        " + cold-start concurrency (fresh processes, 8 threads released together); repeated construction; process-global state snapshot taken BEFORE importing the package vs after use (3.12 and 2.7; all interpreters in thorough)")
ASSUMPTIONS = ["thread schedules and hash seeds are sampled, not proved", "decimal context = its settings, not the sticky status flags"]
EXPLANATION = ("Lean: the scores are functions of the parsed metric map only (model is pure) and v3_decimal_robust / exactness show the "
               "arithmetic part is independent of rounding mode and precision >= 28; histories, threads and hash seeds are tied by "
               "differential execution against the model's pure prediction.")
MASK = {"2": "svcrtejkJK", "3": "svcrtejkJK", "4": "svcrjkJK"}


def snapshot():
    snap = {}
    for name in ("cvss.constants2", "cvss.constants3", "cvss.constants4", "cvss.cvss2", "cvss.cvss3", "cvss.cvss4", "cvss.parser",
                 "cvss.exceptions", "cvss.interactive", "cvss"):
        mod = importlib.import_module(name)
        for k, v in vars(mod).items():
            # the library's tables and public names; a PRIVATE module global (leading underscore: a cache, a lock, a lazily
            # built table) may change - what it must not do is change any result, which the probes above decide
            if k.startswith("_"):
                continue
            if isinstance(v, (dict, list, tuple, str, int, float, decimal.Decimal, set, frozenset)) or v is None:
                snap[name + "." + k] = repr(v)
            else:
                snap[name + "." + k] = "id:%d" % id(v)
    c = decimal.getcontext()
    snap["decimal"] = repr((c.prec, c.rounding, c.Emin, c.Emax, c.capitals, c.clamp, sorted(str(t) for t, on in c.traps.items() if on)))
    snap["sys.path"] = repr(sys.path)
    snap["warnings"] = repr(warnings.filters)
    return snap


def probe_out(ver, s):
    return core.impl_construct(ver, MASK[ver], s)


def neighbours(ver, s, rng):
    """strings a too-coarsely keyed cache would confuse with `s`: other minor version, other spelling,
    one metric changed, one optional metric added"""
    out = []
    pfx, fields = obs.parse_fields(ver, s)
    V = core.VOCAB[ver]
    if ver == "3":
        other = "CVSS:3.1/" if pfx == "CVSS:3.0/" else "CVSS:3.0/"
        out.append(other + s[len(pfx):])
    f = list(fields)
    rng.shuffle(f)
    out.append(pfx + "/".join("%s:%s" % mv for mv in f))
    f = list(fields)
    i = rng.randrange(len(f))
    f[i] = (f[i][0], rng.choice(V["legal"][f[i][0]]))
    out.append(pfx + "/".join("%s:%s" % mv for mv in f))
    absent = [m for m in V["order"] if m not in dict(fields)]
    if absent:
        m = rng.choice(absent)
        out.append(s + "/%s:%s" % (m, rng.choice(V["legal"][m])))
    return out


def distinguishing_probes(ctx, rng, n):
    """valid vectors whose scores change when only the minor version / one optional group changes
    (found with the pure model), so that state shared between such look-alikes is observable"""
    from .. import spaces
    out = []
    if not ctx.model_available:
        return out
    cand = [core.render("3", a, prefix="") for a in spaces.all_base("3") if a["S"] == "C"]
    rng.shuffle(cand)
    cand = cand[:1500]
    r0 = core.run_driver(["C\t3\ts\t" + core.enc("CVSS:3.0/" + b) for b in cand])
    r1 = core.run_driver(["C\t3\ts\t" + core.enc("CVSS:3.1/" + b) for b in cand])
    for b, x, y in zip(cand, r0, r1):
        if x != y:
            out.append(("3", rng.choice(["CVSS:3.0/", "CVSS:3.1/"]) + b))
    rng.shuffle(out)
    return out[:n]


def history_step(rng, near=None):
    im = core.impl()
    k = rng.randrange(8)
    ver = rng.choice("234")
    s = core.rand_vector(ver, rng)
    if near is not None and rng.random() < 0.5:
        ver = near[0]
        s = rng.choice(neighbours(near[0], near[1], rng))
        k = rng.choice([0, 2, 5])
    try:
        if k == 0:
            im.cls[ver](s)
        elif k == 1:
            im.cls[rng.choice("234")](core.edit(s, rng, ver))
        elif k == 2:
            o = im.cls[ver](s)
            d = o.as_json(sort=rng.random() < 0.5, minimal=rng.random() < 0.5)
            d["baseScore"] = -1
            d.clear()
        elif k == 3:
            from . import c13
            importlib.import_module("cvss.parser").parse_cvss_from_text(c13.make_text(rng)[0])
        elif k == 4:
            im.cls[ver].from_rh_vector("%d.%d/%s" % (rng.randrange(10), rng.randrange(10), s))
        elif k == 5:
            o = im.cls[ver](s)
            o.clean_vector(), o.rh_vector(), hash(o), o == o, o.severities()
        elif k == 6:
            iver = rng.choice(["2", "3.0", "3.1", "4"])
            inter.ask(iver, rng.random() < 0.5, inter.rand_answers(iver, True, rng))
            return "cli"
        else:
            inter.run_main(["-v", s] + (["-j"] if rng.random() < 0.5 else []) + (["-" + ver] if ver != "3" else []), [])
            return "cli"
    except Exception:  # noqa
        pass
    return "api"


def run(ctx):
    rng = ctx.rng
    probes_ = []
    for _ in range(ctx.n(60, 400)):
        ver = rng.choice("234")
        s = core.rand_vector(ver, rng, p_absent=rng.choice([0.2, 0.7]))
        if rng.random() < 0.15:
            s = core.edit(s, rng, ver)
        probes_.append((ver, s))
    probes_ += distinguishing_probes(ctx, rng, ctx.n(40, 300))
    ctx.sample({"probe": probes_[0][1]})
    # (a) fresh process = reference
    ops = [["C", v, s] for v, s in probes_]
    ref = probes.run_probe(sys.executable, ops, {"PYTHONHASHSEED": "0"})
    if "probe_failed" in ref or "import_error" in ref:
        ctx.violation("fresh-process-probe-failed", "the probe does not run in a fresh process", None, None, ref)
        return
    base = [probe_out(v, s) for v, s in probes_]
    ctx.count(len(probes_))
    if ctx.model_available:
        for ver in "234":
            idx = [i for i, (v, s) in enumerate(probes_) if v == ver and core.sendable(s)]
            if idx:
                mo = core.run_driver(["C\t%s\t%s\t%s" % (ver, MASK[ver], enc(probes_[i][1])) for i in idx])
                for i, m_ in zip(idx, mo):
                    if core.canon_out(MASK[ver], m_) != core.canon_out(MASK[ver], base[i]):
                        # the very first in-process evaluation already differs from the pure prediction:
                        # either the model is wrong (tie) or an earlier evaluation leaked state
                        iso = probes.run_probe(sys.executable, [["C", ver, probes_[i][1]]], {"PYTHONHASHSEED": "0"})
                        r = (iso.get("results") or [[None]])[0]
                        iso_scores = " ".join(r[1]["scores"]) if r and r[0] == "ok" else None
                        mine = base[i].split("\t")[1] if base[i].startswith("ok") else None
                        if iso_scores is not None and mine is not None and iso_scores != mine:
                            ctx.violation("result-depends-on-history", "a result in this process differs from the result of the same call alone in a fresh process",
                                          probes_[i][1], iso_scores, mine, replay={"kind": "fresh", "ver": ver, "s": probes_[i][1]})
                        base[i] = core.canon_out(MASK[ver], m_) if m_.startswith(("ok", "err")) else base[i]
    # model prediction
    if ctx.model_available:
        for ver in "234":
            flat = [(v, s) for v, s in probes_ if v == ver and core.sendable(s)]
            if flat:
                n, dis, _ = core.compare_construct(flat, MASK[ver], ctx.tally)
                for v, s, mo, io_ in dis:
                    ctx.disagree("model-vs-code:v%s:probe" % v, s, mo[:300], io_[:300])
    # in-process first evaluation vs fresh process
    for (v, s), b, r in zip(probes_, base, ref["results"]):
        fresh = "err\t" + r[1].replace("CVSS" + v, "") if r[0] == "err" else "ok\t" + " ".join(r[1]["scores"])
        mine = b if b.startswith("err") else "ok\t" + b.split("\t")[1]
        if fresh.split("\t")[:2] != mine.split("\t")[:2]:
            ctx.violation("differs-from-fresh-process", "a result in this process differs from the result in a fresh process", s, fresh, mine,
                          replay={"kind": "fresh", "ver": v, "s": s})
    # (b) histories + global state
    snap0 = snapshot()
    out, err = io.StringIO(), io.StringIO()
    nh = ctx.n(150, 2000)
    for h in range(nh):
        hist_seed = rng.randrange(1 << 30)
        hr = __import__("random").Random(hist_seed)
        i = hr.randrange(len(probes_))
        near = probes_[i] if (probes_[i][0] in "234" and obs.construct(*probes_[i])[0] is not None) else None
        with contextlib.redirect_stdout(out), contextlib.redirect_stderr(err):
            kinds = [history_step(hr, near) for _ in range(hr.randrange(1, 12))]
        if "cli" in kinds:
            out.seek(0), out.truncate(0)
        elif out.getvalue() or err.getvalue():
            ctx.violation("writes-to-stdout-or-stderr", "a library call outside the CLI / interactive entry points writes to stdout/stderr",
                          {"history_seed": hist_seed}, "", (out.getvalue() + err.getvalue())[:200], replay={"kind": "history", "seed": hist_seed})
            out.seek(0), out.truncate(0)
        v, s = probes_[i]
        ctx.count()
        ctx.nontrivial(("history", hist_seed, i))
        got = probe_out(v, s)
        if got != base[i]:
            ctx.violation("result-depends-on-history", "a result changes after a history of earlier API calls", {"history_seed": hist_seed, "probe": s},
                          base[i][:200], got[:200], replay={"kind": "history", "seed": hist_seed, "ver": v, "s": s})
    # rare arithmetic paths (clamps, f(Impact)=0, caps) must be silent too
    quiet_out, quiet_err = io.StringIO(), io.StringIO()
    rare = [("2", s) for s in core.v2_low_family()] + [("3", s) for s in core.singletons("3", rng, 40)] + \
           [("4", s) for s in core.singletons("4", rng, 40)]
    with warnings.catch_warnings(record=True) as caught, contextlib.redirect_stdout(quiet_out), contextlib.redirect_stderr(quiet_err):
        warnings.simplefilter("always")
        for v, s in rare:
            o, _ = obs.construct(v, s)
            ctx.count()
            if o is not None:
                o.scores(), o.severities(), o.clean_vector(), o.rh_vector(), o.as_json(minimal=True)
            if quiet_out.getvalue() or quiet_err.getvalue() or caught:
                ctx.violation("writes-to-stdout-or-stderr", "a library call outside the CLI / interactive entry points writes to stdout/stderr or issues a warning",
                              s, "", (quiet_out.getvalue() + quiet_err.getvalue() + "".join(str(w.message) for w in caught))[:200],
                              replay={"kind": "quiet", "ver": v, "s": s})
                break
    snap1 = snapshot()
    for k in snap0:
        if snap0[k] != snap1.get(k):
            ctx.violation("global-state-modified:%s" % k, "process-global state is modified by library calls", k, snap0[k][:200], str(snap1.get(k))[:200],
                          replay={"kind": "globals"})
    # (c) threads
    old = sys.getswitchinterval()
    sys.setswitchinterval(1e-6)
    try:
        for rnd in range(ctx.n(6, 60)):
            results = {}

            def work(tid):
                r2 = __import__("random").Random(tid * 7919 + rnd)
                res = []
                for _ in range(40):
                    i = r2.randrange(len(probes_))
                    res.append((i, probe_out(*probes_[i])))
                results[tid] = res
            ts = [threading.Thread(target=work, args=(t,)) for t in range(8)]
            [t.start() for t in ts]
            [t.join() for t in ts]
            for tid, res in results.items():
                for i, got in res:
                    ctx.count()
                    ctx.nontrivial(("thread", rnd, tid, i))
                    if got != base[i]:
                        ctx.violation("result-differs-under-concurrency", "a result differs when objects are built concurrently from several threads",
                                      probes_[i][1], base[i][:200], got[:200], replay={"kind": "fresh", "ver": probes_[i][0], "s": probes_[i][1]})
    finally:
        sys.setswitchinterval(old)
    # (c') cold start: fresh processes whose FIRST use of the package happens from several threads at once (lazily built
    # module-level tables), and the SAME string constructed repeatedly
    from .. import conc
    cold_ops = [["C", v, s] for v, s in probes_[:: max(1, len(probes_) // 150)] if core.sendable(s)]
    conc.cold_start(ctx, cold_ops, "any", runs=ctx.n(21, 45), nthreads=16)
    for v, s in probes_[:: max(1, len(probes_) // ctx.n(300, 3000))]:
        outs = [probe_out(v, s) for _ in range(4)]
        ctx.count(4)
        if len(set(outs)) != 1:
            ctx.violation("result-changes-on-repeated-construction", "constructing the identical string again gives another result", s, outs[0][:200], outs[-1][:200],
                          replay={"kind": "fresh", "ver": v, "s": s})
    # (b') process-global state BEFORE the package is imported vs after it was used (import-time side effects are invisible
    # to the in-process snapshot): decimal.DefaultContext / Basic / Extended, a fresh thread's context and arithmetic,
    # sys.path, warning filters, locale, logging, environment, signal handlers, stdio, hooks
    g_ops = [["C", v, s] for v, s in probes_[:40]] + [["X", "x AV:N/AC:L/Au:N/C:P/I:P/A:P y"], ["R", "3", "9.8/CVSS:3.1/AV:N/AC:L/PR:N/UI:N/S:U/C:H/I:H/A:H"],
                                                      ["L", ["-j", "-v", "CVSS:3.1/AV:N/AC:L/PR:N/UI:N/S:U/C:H/I:H/A:H"], []],
                                                      ["I", "4", True, ["n"] * 6]]
    from . import c20
    others = [p for d, p in sorted(c20.interpreters().items()) if d.startswith("2.7") or ctx.tier != "quick"]
    for py in [sys.executable] + others:
        g = probes.run_probe(py, {"globals": True, "ops": g_ops})
        ctx.count(len(g_ops))
        for k, b, a in g.get("globals_changed") or []:
            ctx.violation("global-state-modified-by-import-or-use:%s" % k, "process-global state differs between 'before importing the package' and 'after using it'",
                          k, str(b)[:200], str(a)[:200], replay={"kind": "globals-fresh", "python": py, "ops": g_ops})
    # (c'') interpreter options and objects shipped between processes with other hash seeds; the CLI under other environments
    conc.flag_variants(ctx, [op for op in ops[:: max(1, len(ops) // 150)] if core.sendable(str(op[2]))], "any")
    conc.pickle_across(ctx, [(v, s) for v, s in probes_[:: max(1, len(probes_) // 60)] if obs.construct(v, s)[0] is not None], "any")
    conc.cli_environments(ctx, [(["-v", probes_[0][1]], []), (["-3"], ["n", "l", "n", "n", "u", "h", "h", "h"]), (["-4", "-j", "-v", "CVSS:4.0/AV:N/AC:L/AT:N/PR:N/UI:N/VC:N/VI:N/VA:N/SC:N/SI:N/SA:N"], [])], "any")
    # (d) hash seeds (fresh processes), incl. text extraction whose result is a set
    from . import c13
    ops2 = ops + [["X", c13.make_text(rng)[0]] for _ in range(ctx.n(40, 300))]
    ref2 = probes.run_probe(sys.executable, ops2, {"PYTHONHASHSEED": "0"})
    for seed in (["1", "random"] if ctx.tier == "quick" else ["1", "2", "random", "12345"]):
        r = probes.run_probe(sys.executable, ops2, {"PYTHONHASHSEED": seed})
        ctx.count(len(ops2))
        if r.get("results") != ref2.get("results"):
            idx = next((i for i, (x, y) in enumerate(zip(r.get("results", []), ref2.get("results", []))) if x != y), None)
            ctx.violation("result-depends-on-hash-seed", "results differ between PYTHONHASHSEED values", ops2[idx] if idx is not None else None,
                          str(ref2.get("results", [None])[idx or 0])[:300], str(r.get("results", [None])[idx or 0])[:300] if idx is not None else str(r)[:300],
                          replay={"kind": "hashseed", "op": ops2[idx] if idx is not None else None, "seed": seed})
        ctx.nontrivial(("hashseed", seed))
    # (e) decimal contexts
    modes = [decimal.ROUND_CEILING, decimal.ROUND_DOWN, decimal.ROUND_FLOOR, decimal.ROUND_HALF_DOWN, decimal.ROUND_HALF_EVEN,
             decimal.ROUND_HALF_UP, decimal.ROUND_UP, decimal.ROUND_05UP]
    dvecs = [(v, s) for v, s in probes_][: ctx.n(60, 300)]
    for _ in range(ctx.n(300, 5000)):
        v = rng.choice("234")
        dvecs.append((v, core.rand_vector(v, rng, p_absent=0.3)))
    dbase = [core.impl_construct(v, "s", s) for v, s in dvecs]
    for mode in modes:
        for prec in (28, 29, 50, 200):
            with decimal.localcontext() as c:
                c.prec = prec
                c.rounding = mode
                for (v, s), b in zip(dvecs, dbase):
                    ctx.count()
                    got = core.impl_construct(v, "s", s)
                    if got != b:
                        ctx.violation("v%s:result-depends-on-decimal-context" % v, "scores change under an ambient decimal rounding mode / precision >= 28",
                                      s, b, {"rounding": mode, "prec": prec, "got": got}, replay={"kind": "decimal", "ver": v, "s": s, "rounding": mode, "prec": prec})
            ctx.nontrivial(("decimal", mode, prec))
    # constructed under the default context, first READ under another one (and the other way round): lazily computed values
    valid = [((v, s), b) for (v, s), b in zip(dvecs, dbase) if b.startswith("ok\t")]
    valid = valid[:: max(1, len(valid) // 120)]
    for mode in modes:
        objs = [core.build(v, s, variant=0) for (v, s), _ in valid]
        with decimal.localcontext() as c:
            c.rounding = mode
            c.prec = 28
            inner = [core.build(v, s, variant=0) for (v, s), _ in valid]
            got1 = ["ok\t" + core.obs_field(v, o, "s") for ((v, s), _), o in zip(valid, objs)]
        got2 = ["ok\t" + core.obs_field(v, o, "s") for ((v, s), _), o in zip(valid, inner)]
        for ((v, s), b), g1, g2 in zip(valid, got1, got2):
            ctx.count(2)
            if g1 != b or g2 != b:
                ctx.violation("v%s:result-depends-on-decimal-context" % v, "scores change when the object is built under one decimal context and read under another",
                              s, b, {"rounding": mode, "built-default-read-inside": g1, "built-inside-read-default": g2},
                              replay={"kind": "decimal", "ver": v, "s": s, "rounding": mode, "prec": 28})


def replay(data):
    r = data["replay"]
    if r["kind"] == "decimal":
        b = core.impl_construct(r["ver"], "s", r["s"])
        with decimal.localcontext() as c:
            c.prec, c.rounding = r["prec"], r["rounding"]
            g = core.impl_construct(r["ver"], "s", r["s"])
        return b == g, "CVSS%s(%r).scores(): default context %r, rounding=%s prec=%d %r" % (r["ver"], r["s"], b, r["rounding"], r["prec"], g)
    if r["kind"] == "history":
        base = probe_out(r["ver"], r["s"]) if "s" in r else None
        hr = __import__("random").Random(r["seed"])
        hr.random()  # the probe index draw
        out = io.StringIO()
        near = (r["ver"], r["s"]) if "s" in r and obs.construct(r["ver"], r["s"])[0] is not None else None
        with contextlib.redirect_stdout(out), contextlib.redirect_stderr(out):
            kinds = [history_step(hr, near) for _ in range(hr.randrange(1, 12))]
        got = probe_out(r["ver"], r["s"]) if "s" in r else None
        ok = base == got and ("cli" in kinds or not out.getvalue())
        return ok, "history seed %d: probe before %r after %r, captured output %r" % (r["seed"], base, got, out.getvalue()[:100])
    if r["kind"] == "quiet":
        out = io.StringIO()
        with warnings.catch_warnings(record=True) as caught, contextlib.redirect_stdout(out), contextlib.redirect_stderr(out):
            warnings.simplefilter("always")
            o, _ = obs.construct(r["ver"], r["s"])
            if o is not None:
                o.scores(), o.severities(), o.clean_vector(), o.rh_vector(), o.as_json(minimal=True)
        return not (out.getvalue() or caught), "CVSS%s(%r): captured output %r, warnings %r" % (r["ver"], r["s"], out.getvalue()[:200], [str(w.message) for w in caught])
    if r["kind"] == "cold":
        from .. import conc
        return conc.replay_cold(r)
    if r["kind"] == "globals-fresh":
        g = probes.run_probe(r.get("python") or sys.executable, {"globals": True, "ops": r["ops"]})
        ch = g.get("globals_changed") or []
        return not ch, "global state before importing the package vs after using it: %s" % (ch or "unchanged")
    if r["kind"] == "globals":
        s0 = snapshot()
        hr = __import__("random").Random(1)
        with contextlib.redirect_stdout(io.StringIO()):
            for _ in range(200):
                history_step(hr)
        s1 = snapshot()
        diff = [k for k in s0 if s0[k] != s1.get(k)]
        return not diff, "globals changed by 200 API calls: %r" % diff
    return True, "situation %r needs a fresh process; re-run the check" % r["kind"]
