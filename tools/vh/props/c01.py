"""C01 — CVSS v3.0/v3.1 scores equal the FIRST specification equations."""
from __future__ import annotations

import itertools

from .. import core, spaces as enum, scoring
from ..core import VOCAB, render

RULE = ("valid v3.0/v3.1 vectors: every base assignment x both minor versions (exhaustive), base x temporal "
        "and full environmental vectors sampled from the frozen vocabulary with random field order / "
        "Not Defined spelling; distinct = distinct (minor version, set of defined fields); each compared "
        "model-vs-code and Lean-specification-vs-code")
ASSUMPTIONS = ["Decimal arithmetic modelled by exact rationals (v3_decimal_robust covers the two inexact powers)",
               "float(Decimal) of a one-decimal value prints as that value (C09)"]


def run(ctx):
    rng = ctx.rng
    V = VOCAB["3"]
    strings = []
    for pfx in core.PREFIX["3"]:
        for a in enum.all_base("3"):
            strings.append(render("3", a, prefix=pfx))
    base_n = len(strings)
    # base x temporal
    for _ in range(ctx.n(15000, 200000)):
        a = core.rand_assignment("3", rng, optional=False)
        for m in V["temporal"]:
            if rng.random() < 0.8:
                a[m] = rng.choice(V["legal"][m])
        strings.append(render("3", a, rng))
    # full vectors
    for _ in range(ctx.n(40000, 1500000)):
        strings.append(core.rand_vector("3", rng, p_absent=rng.choice([0.1, 0.4, 0.7])))
    ctx.extra["exhaustive_part"] = "all %d base vectors (2 minor versions x 2592)" % base_n
    for i in range(0, len(strings), 100000):
        scoring.check_scores(ctx, "3", strings[i:i + 100000], "v3")


replay = scoring.replay_scores
