"""C01 — CVSS v3.0/v3.1 scores equal the FIRST specification equations."""
from __future__ import annotations

import itertools

from .. import core, spaces as enum, scoring
from ..core import VOCAB, render

RULE = ("valid v3.0/v3.1 vectors: every base assignment x both minor versions (exhaustive), base x temporal "
        "and full environmental vectors sampled from the frozen vocabulary with random field order / "
        "Not Defined spelling; distinct = distinct (minor version, set of defined fields); each compared "
        "model-vs-code and Lean-specification-vs-code"
        " + special families (corner vectors, every metric spelled out, frozen rounding ties, v2 low-end and cap families, base + one optional metric); the same string constructed three times; scores read from as_json() under the four option sets; 4 warm threads (1 us switch interval); fresh processes whose first use of the package is concurrent")
ASSUMPTIONS = ["Decimal arithmetic modelled by exact rationals (v3_decimal_robust covers the two inexact powers)",
               "float(Decimal) of a one-decimal value prints as that value (C09)"]


def run(ctx):
    rng = ctx.rng
    V = VOCAB["3"]
    strings = []
    for pfx in core.PREFIX["3"]:
        for a in enum.all_base("3"):
            strings.append(render("3", a, prefix=pfx))
    base_n = len(strings)
    # base x temporal
    for _ in range(ctx.n(15000, 200000)):
        a = core.rand_assignment("3", rng, optional=False)
        for m in V["temporal"]:
            if rng.random() < 0.8:
                a[m] = rng.choice(V["legal"][m])
        strings.append(render("3", a, rng))
    # full vectors
    for _ in range(ctx.n(40000, 1500000)):
        strings.append(core.rand_vector("3", rng, p_absent=rng.choice([0.1, 0.4, 0.7])))
    strings += core.singletons("3", rng, ctx.n(500, 5184))
    strings += core.special("3", rng, ctx.n(6000, 120000))
    ctx.extra["exhaustive_part"] = "all %d base vectors (2 minor versions x 2592)" % base_n
    for i in range(0, len(strings), 200000):
        scoring.check_scores(ctx, "3", strings[i:i + 200000], "v3")
    scoring.extra_probes(ctx, "3", strings, "v3")
    if ctx.tier == "thorough" and ctx.scale == 1:
        # the whole quotient of the quantifier: 2 x 2592 x 100 base/temporal cases and 2 x 2592 x 27 x 48
        # environmental cases (effective requirement x modified assignments), one spelling each
        n = 0
        for chunk in quotient_chunks(rng):
            scoring.check_scores(ctx, "3", chunk, "v3-quotient")
            n += len(chunk)
        ctx.extra["exhaustive_part"] += "; the whole quotient: %d base/temporal + environmental cases" % n
        ctx.exhaustive = True


def quotient_chunks(rng, size=250000):
    """the quotient named in the property's quantifier, one spelling per class:
    2 x 2592 x 100 base/temporal cases (base assignment x temporal weights, X = top value) and
    2 x 2592 x 27 x 48 environmental cases (effective modified assignment x requirements x temporal weights)"""
    import itertools
    V = VOCAB["3"]
    buf = []
    bases = list(enum.all_base("3"))
    tfull = [V["legal"][m] for m in V["temporal"]]                       # 5 x 5 x 4 = 100 spellings
    tcls = [[v for v in V["legal"][m] if v != "X"] for m in V["temporal"]]  # 4 x 4 x 3 = 48 weight classes
    mand = V["mandatory"]
    for pfx in core.PREFIX["3"]:
        for a in bases:
            body = "/".join("%s:%s" % (k, a[k]) for k in mand)
            for e, rl, rc in itertools.product(*tfull):
                buf.append("%s%s/E:%s/RL:%s/RC:%s" % (pfx, body, e, rl, rc))
            # `a` read as the EFFECTIVE modified assignment: spelled through the base metrics (Modified absent)
            # or through defined Modified metrics over a random base
            if rng.random() < 0.5:
                head = body
            else:
                b = core.rand_assignment("3", rng, optional=False)
                head = "/".join("%s:%s" % (k, b[k]) for k in mand) + "/" + "/".join("M%s:%s" % (k, a[k]) for k in mand)
            for cr, ir, ar in itertools.product("LMH", repeat=3):
                for e, rl, rc in itertools.product(*tcls):
                    buf.append("%s%s/CR:%s/IR:%s/AR:%s/E:%s/RL:%s/RC:%s" % (pfx, head, cr, ir, ar, e, rl, rc))
            if len(buf) >= size:
                yield buf
                buf = []
    if buf:
        yield buf
