"""C03 — CVSS v2 scores equal the CVSS v2 guide equations."""
from __future__ import annotations

from .. import core, spaces as enum, scoring
from ..core import VOCAB, render

RULE = ("valid v2 vectors: all 729 base assignments (exhaustive), all 729 x temporal sample, random full "
        "vectors incl. every defined/undefined group combination, random field order and ND spelling; "
        "distinct = distinct set of defined fields; compared model-vs-code and Lean-specification-vs-code")
ASSUMPTIONS = ["Decimal arithmetic is exact for v2 (at most 23 significant digits < 28)"]


def run(ctx):
    rng = ctx.rng
    V = VOCAB["2"]
    strings = [render("2", a) for a in enum.all_base("2")] + core.v2_low_family()
    for a in enum.all_base("2"):
        for _ in range(ctx.n(12, 48)):
            b = dict(a)
            for m in V["temporal"]:
                if rng.random() < 0.8:
                    b[m] = rng.choice(V["legal"][m])
            strings.append(render("2", b, rng))
    for _ in range(ctx.n(50000, 2000000)):
        strings.append(core.rand_vector("2", rng, p_absent=rng.choice([0.1, 0.4, 0.7])))
    ctx.extra["exhaustive_part"] = "all 729 base vectors"
    for i in range(0, len(strings), 100000):
        scoring.check_scores(ctx, "2", strings[i:i + 100000], "v2")


replay = scoring.replay_scores
