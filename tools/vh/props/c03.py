"""C03 — CVSS v2 scores equal the CVSS v2 guide equations."""
from __future__ import annotations

from .. import core, spaces as enum, scoring
from ..core import VOCAB, render

RULE = ("valid v2 vectors: all 729 base assignments (exhaustive), all 729 x temporal sample, random full "
        "vectors incl. every defined/undefined group combination, random field order and ND spelling; "
        "distinct = distinct set of defined fields; compared model-vs-code and Lean-specification-vs-code"
        " + special families (corner vectors, every metric spelled out, frozen rounding ties, v2 low-end and cap families, base + one optional metric); the same string constructed three times; scores read from as_json() under the four option sets; 4 warm threads (1 us switch interval); fresh processes whose first use of the package is concurrent")
ASSUMPTIONS = ["Decimal arithmetic is exact for v2 (at most 23 significant digits < 28)"]


def run(ctx):
    rng = ctx.rng
    V = VOCAB["2"]
    strings = [render("2", a) for a in enum.all_base("2")] + core.v2_low_family()
    for a in enum.all_base("2"):
        for _ in range(ctx.n(12, 48)):
            b = dict(a)
            for m in V["temporal"]:
                if rng.random() < 0.8:
                    b[m] = rng.choice(V["legal"][m])
            strings.append(render("2", b, rng))
    for _ in range(ctx.n(50000, 2000000)):
        strings.append(core.rand_vector("2", rng, p_absent=rng.choice([0.1, 0.4, 0.7])))
    strings += core.singletons("2", rng, 729)
    strings += core.special("2", rng, ctx.n(6000, 120000))
    ctx.extra["exhaustive_part"] = "all 729 base vectors; all 729 x single-optional-metric spellings"
    for i in range(0, len(strings), 200000):
        scoring.check_scores(ctx, "2", strings[i:i + 200000], "v2")
    scoring.extra_probes(ctx, "2", strings, "v2")
    if ctx.tier == "thorough" and ctx.scale == 1:
        n = 0
        for chunk in quotient_chunks():
            scoring.check_scores(ctx, "2", chunk, "v2-quotient")
            n += len(chunk)
        ctx.extra["exhaustive_part"] += "; the whole quotient: %d effective assignments + defined/undefined group combinations" % n
        ctx.exhaustive = True


def quotient_chunks(size=300000):
    """729 base x 48 temporal weight classes x 540 environmental classes (CDP 5 x TD 4 x CR,IR,AR 3^3), every metric
    defined, plus for every base vector the defined/undefined group combinations (ND spellings)"""
    import itertools
    V = VOCAB["2"]
    buf = []
    tcls = list(itertools.product(["U", "POC", "F", "H"], ["OF", "TF", "W", "U"], ["UC", "UR", "C"]))
    ecls = list(itertools.product(["N", "L", "LM", "MH", "H"], ["N", "L", "M", "H"], "LMH", "LMH", "LMH"))
    for a in enum.all_base("2"):
        body = "/".join("%s:%s" % (k, a[k]) for k in V["mandatory"])
        for e, rl, rc in tcls:
            t = "%s/E:%s/RL:%s/RC:%s" % (body, e, rl, rc)
            for cdp, td, cr, ir, ar in ecls:
                buf.append("%s/CDP:%s/TD:%s/CR:%s/IR:%s/AR:%s" % (t, cdp, td, cr, ir, ar))
            if len(buf) >= size:
                yield buf
                buf = []
        # group definedness: temporal only / environmental only / ND spelled out
        buf.append(body + "/E:ND/RL:ND/RC:ND")
        buf.append(body + "/CDP:ND/TD:ND/CR:ND/IR:ND/AR:ND")
        buf.append(body + "/E:F")
        buf.append(body + "/TD:M")
        buf.append(body + "/E:ND/RL:ND/RC:ND/CDP:ND/TD:ND/CR:ND/IR:ND/AR:H")
    if buf:
        yield buf


replay = scoring.replay_scores
