"""C09 — scores are well-formed and severity ratings follow the official scale."""
from __future__ import annotations

import re

from .. import core, spaces as enum, obs
from ..core import VOCAB, enc, render

RULE = ("score atlas: for every version and score slot a vector reaching each attainable tenth found by enumeration "
        "of all base vectors plus random sampling (band edges 0.0,0.1,3.9,4.0,6.9,7.0,8.9,9.0,10.0 listed in the "
        "evidence); each atlas entry and every sampled vector: float type / range / one-decimal repr, rating vs "
        "the official scale (Lean spec), agreement of severities(), CVSS4.severity, JSON ratings, RH score text; "
        "distinct = distinct (version, slot, tenth) reached"
        " + special families incl. rating-boundary ties; 3.0/3.1 twins rated back to back in both orders; 4 threads calling severities()/scores() on ONE fresh object")
ASSUMPTIONS = ["CPython repr(float) prints a one-decimal value with one decimal digit"]

ONE_DEC = re.compile(r"^(10|\d)\.\d$")
SLOTS = ["base", "temporal", "environmental"]
JSEV = {"2": [None, None, None], "3": ["baseSeverity", "temporalSeverity", "environmentalSeverity"], "4": ["baseSeverity"]}
JSCORE = {"2": ["baseScore", "temporalScore", "environmentalScore"], "3": ["baseScore", "temporalScore", "environmentalScore"],
          "4": ["baseScore"]}


def official(ver, x):
    """the official qualitative scale (the same scale is kernel-checked against the Lean spec for the atlas)"""
    if x is None:
        return "None"
    t = int(round(x * 10))
    if ver == "2":
        return "Low" if t <= 39 else "Medium" if t <= 69 else "High"
    return "None" if t == 0 else "Low" if t <= 39 else "Medium" if t <= 69 else "High" if t <= 89 else "Critical"


def check_obj(ctx, ver, s, o, atlas):
    rp = {"ver": ver, "s": s}
    try:
        sc = o.scores()
        sev = o.severities()
        rh = o.rh_vector()
        js = o.as_json()
    except Exception as ex:  # noqa
        ctx.violation("v%s:accessor-raised" % ver, "scores()/severities()/rh_vector()/as_json() raised", s, None, repr(ex), replay=rp)
        return
    if len(sc) != len(sev):
        ctx.violation("v%s:scores-severities-shape" % ver, "scores() and severities() have different lengths", s, len(sc), len(sev), replay=rp)
        return
    for i, x in enumerate(sc):
        if x is None:
            if ver != "2" or i == 0:
                ctx.violation("v%s:%s-score-is-None" % (ver, SLOTS[i]), "a score that must be defined is None", s, "float", None, replay=rp)
            elif sev[i] != "None":
                ctx.violation("v2:undefined-score-rating", "undefined v2 score is not rated 'None'", s, "None", sev[i], replay=rp)
            continue
        if type(x) is not float or not (0.0 <= x <= 10.0) or not ONE_DEC.match(repr(x)):
            ctx.violation("v%s:%s-score-malformed" % (ver, SLOTS[i]), "score is not a float in [0,10] with exactly one decimal",
                          s, "d.d in [0.0, 10.0]", repr(x), replay=rp)
            continue
        t = int(round(x * 10))
        atlas.setdefault((ver, i, t), s)
        if sev[i] != official(ver, x):
            ctx.violation("v%s:rating-of-%s" % (ver, "%d.%d" % (t // 10, t % 10)), "severity rating differs from the official scale",
                          s, official(ver, x), sev[i], replay=rp)
    if not rh.startswith(repr(sc[0]) + "/"):
        ctx.violation("v%s:rh-score-text" % ver, "rh_vector() does not start with the base score printed with one decimal", s, repr(sc[0]), rh[:8], replay=rp)
    if ver == "4":
        if o.severity != sev[0] or getattr(o, "base_score", None) != sc[0]:
            ctx.violation("v4:severity-attribute", "CVSS4.severity / base_score disagree with severities() / scores()", s, sev[0], o.severity, replay=rp)
    for so in (False, True):
        for mi in (False, True):
            try:
                js = o.as_json(sort=so, minimal=mi)
            except Exception as ex:  # noqa
                ctx.violation("v%s:as_json-raised" % ver, "as_json() raised", s, None, repr(ex), replay=rp)
                continue
            for i, k in enumerate(JSEV[ver]):
                if k is not None and k in js and str(js[k]).upper() != sev[i].upper():
                    ctx.violation("v%s:json-%s" % (ver, k), "JSON rating disagrees with severities()", s, sev[i],
                                  {"sort": so, "minimal": mi, k: js[k]}, replay=rp)
            for i, k in enumerate(JSCORE[ver]):
                if k in js and sc[i] is not None and js[k] != sc[i]:
                    ctx.violation("v%s:json-%s" % (ver, k), "JSON score disagrees with scores()", s, sc[i],
                                  {"sort": so, "minimal": mi, k: js[k]}, replay=rp)


def run(ctx):
    rng = ctx.rng
    atlas = {}
    todo = []
    for ver in "234":
        if ver == "4" and ctx.tier == "quick":
            todo += [(ver, render(ver, a)) for i, a in enumerate(enum.all_base(ver)) if i % 11 == ctx.seed % 11]
        else:
            for pfx in core.PREFIX[ver]:
                todo += [(ver, render(ver, a, prefix=pfx)) for a in enum.all_base(ver)]
    for _ in range(ctx.n(30000, 600000)):
        ver = rng.choice("234")
        todo.append((ver, core.rand_vector(ver, rng, p_absent=rng.choice([0.1, 0.4, 0.8]))))
    todo += [("2", s) for s in core.v2_low_family()]
    for v in "234":
        todo += [(v, s) for s in core.singletons(v, rng, ctx.n(30, 400))]
        todo += [(v, s) for s in core.special(v, rng, ctx.n(1500, 30000))]
    ctx.count(len(todo))
    objs = []
    for ver, s in todo:
        o, e = obs.construct(ver, s, warm=True)
        if o is None:
            ctx.violation("v%s:valid-vector-rejected" % ver, "accepted vector rejected", s, "accepted", e, replay={"ver": ver, "s": s})
            continue
        check_obj(ctx, ver, s, o, atlas)
    # 3.0 / 3.1 TWINS rated back to back (the same metrics under the other minor version, in both orders), and the same
    # string rated again: a rating must follow the object's OWN scores whatever was rated just before
    tw = [s for v, s in todo if v == "3"]
    tw = tw[:: max(1, len(tw) // ctx.n(2500, 40000))] + core.corners("3", rng, ctx.n(1500, 20000))
    for s in tw:
        if not s.startswith("CVSS:3."):
            continue
        other = ("CVSS:3.1/" if s.startswith("CVSS:3.0/") else "CVSS:3.0/") + s[9:]
        for a, b in ((s, other), (other, s)) if rng.random() < 0.5 else ((other, s),):
            for x in (a, b, a):
                o, e = obs.construct("3", x)
                if o is not None:
                    ctx.count()
                    check_obj(ctx, "3", x, o, atlas)
    # several threads asking ONE fresh object at the same moment
    from .. import conc
    shared = [(v, s) for v, s in todo[:: max(1, len(todo) // ctx.n(6000, 40000))]]
    conc.shared_objects(ctx, lambda vs: obs.construct(vs[0], vs[1])[0],
                        lambda o: (tuple(o.severities()), tuple(o.scores())),
                        lambda o: (tuple(o.severities()), tuple(o.scores())), shared, "ratings",
                        replay_of=lambda vs: {"ver": vs[0], "s": vs[1], "shared_threads": 4})
    conc.flag_variants(ctx, [["S", v, s] for v, s in todo[:: max(1, len(todo) // ctx.n(150, 1500))] if core.sendable(s)], "ratings")
    # ratings of the atlas against the official scale (Lean spec) and model-vs-code on scores+severities
    keys = sorted(atlas)
    for k in keys:
        ctx.nontrivial(k)
    items = [(k[0], atlas[k]) for k in keys]
    # v2 undefined slots
    items.append(("2", "AV:N/AC:L/Au:N/C:P/I:P/A:P"))
    if ctx.model_available:
        n, dis, outs = core.compare_construct(items, "sv", ctx.tally)
        for v, s, mo, io_ in dis:
            ctx.disagree("model-vs-code:v%s:scores+severities" % v, s, mo, io_)
        sev_lines = []
        for (ver, i, t) in keys:
            sev_lines.append("S\tsev\t%s\t%d" % ("2" if ver == "2" else "34", t))
        sev_lines.append("S\tsev\t2\tNone")
        official = core.run_driver(sev_lines)
        for (ver, i, t), off in zip(keys, official):
            s = atlas[(ver, i, t)]
            o, _ = obs.construct(ver, s, warm=True)
            got = o.severities()[i]
            if got != off:
                ctx.violation("v%s:rating-of-%s" % (ver, "%d.%d" % (t // 10, t % 10)), "severity rating differs from the official scale",
                              s, off, got, replay={"ver": ver, "s": s, "slot": i, "official": off})
    edges = [0, 1, 39, 40, 69, 70, 89, 90, 100]
    ctx.extra["band_edges_reached"] = {"v%s/%s" % (v, SLOTS[i]): [e for e in edges if (v, i, e) in atlas]
                                       for v in "234" for i in range(3 if v != "4" else 1)}
    ctx.extra["tenths_reached"] = {"v%s/%s" % (v, SLOTS[i]): sum(1 for k in atlas if k[0] == v and k[1] == i)
                                   for v in "234" for i in range(3 if v != "4" else 1)}
    ctx.sample({"atlas_entry": [list(keys[len(keys) // 2]), atlas[keys[len(keys) // 2]]]})


def replay(data):
    r = data["replay"]
    if r.get("shared_threads"):
        from .. import conc

        class C0:
            v = []

            def violation(self, sig, what, *a, **k):
                self.v.append(sig + ": " + what)

            def count(self, *a):
                pass
        c0 = C0()
        conc.shared_objects(c0, lambda vs: obs.construct(vs[0], vs[1])[0], lambda o: (tuple(o.severities()), tuple(o.scores())),
                            lambda o: (tuple(o.severities()), tuple(o.scores())), [(r["ver"], r["s"])] * 3000, "ratings")
        return not c0.v, "CVSS%s(%r): severities()/scores() from 4 threads on one fresh object, 3000 objects: %s" % (
            r["ver"], r["s"], "; ".join(c0.v) or "always the single-threaded result")
    o, e = obs.construct(r["ver"], r["s"], warm=True)
    if o is None:
        return obs.rejected_verdict(r["ver"], r["s"], e)
    atlas = {}

    class C:  # minimal ctx
        v = []

        def violation(self, sig, what, *a, **k):
            self.v.append(sig + ": " + what)
    c = C()
    check_obj(c, r["ver"], r["s"], o, atlas)
    if "official" in r and o.severities()[r["slot"]] != r["official"]:
        c.v.append("rating %r, official %r" % (o.severities()[r["slot"]], r["official"]))
    return not c.v, "CVSS%s(%r): scores %r severities %r; %s" % (r["ver"], r["s"], o.scores(), o.severities(), "; ".join(c.v) or "well-formed")
