"""C14 — a more severe metric value never lowers a score (where the standard is monotone)."""
from __future__ import annotations

from .. import core, spaces as enum, obs
from ..core import VOCAB, render
from . import c02

RULE = ("pairs of accepted vectors one severity step apart in exactly one metric (orders of DESIGN.md §5; Not Defined at "
        "its equivalent value): v2/v3 all base assignments x every base step (exhaustive), random temporal/"
        "environmental contexts x every step, v4 every group assignment x every step in random contexts plus random "
        "vectors; checked on the real code (scores of the more severe vector >= scores of the less severe one in the "
        "slots the statement names) and scores model-vs-code; distinct = distinct (version, vector, metric, step)")
ASSUMPTIONS = ["severity orders as listed in DESIGN.md §5"]

# least -> most severe
ORDER = {
    "2": {"AV": "LAN", "AC": "HML", "Au": "MSN", "C": "NPC", "I": "NPC", "A": "NPC",
          "E": ["U", "POC", "F", "H"], "RL": ["OF", "TF", "W", "U"], "RC": ["UC", "UR", "C"]},
    "3": {"AV": "PLAN", "AC": "HL", "PR": "HLN", "UI": "RN", "S": "UC", "C": "NLH", "I": "NLH", "A": "NLH",
          "E": "UPFH", "RL": "OTWU", "RC": "URC", "CR": "LMH", "IR": "LMH", "AR": "LMH",
          "MAV": "PLAN", "MAC": "HL", "MPR": "HLN", "MUI": "RN", "MS": "UC", "MC": "NLH", "MI": "NLH", "MA": "NLH"},
    "4": {"AV": "PLAN", "PR": "HLN", "UI": "APN", "AC": "HL", "AT": "PN", "VC": "NLH", "VI": "NLH", "VA": "NLH",
          "SC": "NLH", "SI": "NLHS", "SA": "NLHS", "CR": "LMH", "IR": "LMH", "AR": "LMH", "E": "UPA"},
}
ND_EQUIV = {"2": {"E": "H", "RL": "U", "RC": "C"}, "3": {"E": "H", "RL": "U", "RC": "C", "CR": "M", "IR": "M", "AR": "M"}}
# slots that must be monotone: metric -> slots, per version
V3_IMPACT = {"C", "I", "A", "CR", "IR", "AR", "MC", "MI", "MA"}


def slots_for(ver, minor, m):
    if ver == "2":
        return [0, 1] if m in ("AV", "AC", "Au", "C", "I", "A") else [1]
    if ver == "4":
        return [0]
    V = VOCAB["3"]
    if m in V["mandatory"]:
        sl = [0, 1, 2]
    elif m in V["temporal"]:
        sl = [1, 2]
    else:
        sl = [2]
    if minor == "3.0" and m in V3_IMPACT and 2 in sl:
        sl = [x for x in sl if x != 2]
    return sl


def steps23(ver, a):
    """(metric, less severe assignment, more severe assignment) for every single step available in `a`"""
    nd = VOCAB[ver]["nd"]
    for m, order in ORDER[ver].items():
        cur = a.get(m, nd)
        if cur == nd:
            if m in ND_EQUIV[ver]:
                cur = ND_EQUIV[ver][m]
            elif m.startswith("M") and ver == "3":
                cur = a[m[1:]]
            else:
                continue
        order = list(order)
        i = order.index(cur)
        if i + 1 < len(order):
            b = dict(a)
            b[m] = order[i + 1]
            lo = dict(a)
            lo[m] = cur
            yield m, lo, b


SLOT = ["base", "temporal", "environmental"]


def run_history(ver, pre):
    """construct and drop the given vectors first (whatever the library remembers of them must not matter)"""
    for h in pre or ():
        try:
            core.impl().cls[ver](h)
        except Exception:  # noqa
            pass


def check_pair(ctx, ver, lo, hi, m, slots, pre=None):
    ctx.nontrivial((ver, lo, hi))
    run_history(ver, pre)
    o1, e1 = obs.construct(ver, lo)
    o2, e2 = obs.construct(ver, hi)
    rp = {"ver": ver, "lo": lo, "hi": hi, "metric": m, "slots": slots}
    if pre:
        rp["history"] = list(pre)
    if o1 is None or o2 is None:
        ctx.violation("v%s:valid-vector-rejected" % ver, "accepted vector rejected", [lo, hi], "accepted", e1 or e2, replay=rp)
        return
    try:
        s1, s2 = o1.scores(), o2.scores()
    except Exception as ex:  # noqa
        ctx.violation("v%s:scores-raised" % ver, "scores() raised", [lo, hi], None, repr(ex), replay=rp)
        return
    for i in slots:
        if s1[i] is not None and s2[i] is not None and s2[i] < s1[i]:
            minor = lo[5:8] if ver == "3" else ver
            ctx.violation("v%s:%s-score-decreases-with-more-severe-%s" % (minor, SLOT[i], m),
                          "a more severe %s lowers the %s score" % (m, SLOT[i]), {"less": lo, "more": hi}, ">= %r" % (s1[i],), s2[i], replay=rp)


def exemption_family(ctx, rng):
    """v3.1 exactly where v3.0 is exempt (Changed scope, high impacts: the region of `v30_env_not_monotone`), each pair after the
    CVSS:3.0 spellings of both vectors have been scored in this process"""
    import itertools as _it
    fam = []
    for pr in "LHN":
        base = {"AV": "N", "AC": "L", "PR": pr, "UI": "N", "S": "C", "C": "H", "I": "H", "A": "H"}
        for cr, ir, ar in _it.product("HML", repeat=3):
            for mc, mi, ma in _it.product("HLN", repeat=3):
                a = dict(base, CR=cr, IR=ir, AR=ar, MC=mc, MI=mi, MA=ma)
                for m, lo, hi in steps23("3", a):
                    if m in ("MC", "MI", "MA", "CR", "IR", "AR"):
                        fam.append((render("3", lo, prefix="CVSS:3.1/"), render("3", hi, prefix="CVSS:3.1/"), m))
    k = max(1, len(fam) // ctx.n(3000, 9000))
    fam = fam[rng.randrange(k):: k]
    for lo, hi, m in fam:
        check_pair(ctx, "3", lo, hi, m, [2], pre=["CVSS:3.0/" + lo[9:], "CVSS:3.0/" + hi[9:]])
    ctx.count(len(fam))
    ctx.extra["exemption_region_after_3_0_history"] = len(fam)


def run(ctx):
    rng = ctx.rng
    exemption_family(ctx, rng)      # first: before this process has scored anything else of its own
    pairs = []
    # v2, v3: all base assignments x every base step
    for ver in "23":
        for pfx in core.PREFIX[ver]:
            for a in enum.all_base(ver):
                for m, lo, hi in steps23(ver, a):
                    pairs.append((ver, render(ver, lo, prefix=pfx), render(ver, hi, prefix=pfx), m, slots_for(ver, pfx[5:8], m)))
    ctx.extra["exhaustive_part"] = "%d v2/v3 base-step pairs (all base assignments x every base step)" % len(pairs)
    for _ in range(ctx.n(6000, 400000)):
        ver = rng.choice("23")
        a = core.rand_assignment(ver, rng, p_absent=rng.choice([0.2, 0.6]), p_nd=0.15)
        pfx = rng.choice(core.PREFIX[ver])
        ks = None
        for m, lo, hi in steps23(ver, a):
            ks = [k for k in VOCAB[ver]["order"] if k in hi]
            rng.shuffle(ks)
            pairs.append((ver, render(ver, lo, prefix=pfx, order=[k for k in ks if k in lo]), render(ver, hi, prefix=pfx, order=ks), m,
                          slots_for(ver, pfx[5:8], m)))
    # v4: effective assignments, every step
    def v4_steps(e):
        for m, order in ORDER["4"].items():
            i = order.index(e[m])
            if i + 1 < len(order):
                f = dict(e)
                f[m] = order[i + 1]
                yield m, f
    import itertools
    k = ctx.n(2, 20)
    for g in c02.GROUPS:
        for combo in itertools.product(*[c02.EFF_DOM[m] for m in g]):
            for _ in range(k):
                e = c02.rand_eff(rng)
                e.update(dict(zip(g, combo)))
                for m, f in v4_steps(e):
                    if m in g:
                        pairs.append(("4", c02.spell(e, rng), c02.spell(f, rng), m, [0]))
    for _ in range(ctx.n(4000, 300000)):
        e = c02.rand_eff(rng)
        for m, f in v4_steps(e):
            pairs.append(("4", c02.spell(e, rng), c02.spell(f, rng), m, [0]))
    from .. import conc
    fl = []
    for p in pairs[:: max(1, len(pairs) // ctx.n(100, 1000))]:
        fl += [["S", p[0], p[1]], ["S", p[0], p[2]]]
    conc.flag_variants(ctx, [op for op in fl if core.sendable(op[2])], "monotonicity")
    ctx.count(len(pairs))
    ctx.sample({"less_severe": pairs[-1][1], "more_severe": pairs[-1][2], "metric": pairs[-1][3]})
    for ver in "234":
        flat = list(dict.fromkeys([(ver, p[1]) for p in pairs if p[0] == ver] + [(ver, p[2]) for p in pairs if p[0] == ver]))
        if ctx.model_available and flat:
            n, dis, _ = core.compare_construct(flat, "s", ctx.tally)
            for v, s, mo, io_ in dis:
                ctx.disagree("model-vs-code:v%s:scores" % v, s, mo, io_)
    for ver, lo, hi, m, slots in pairs:
        check_pair(ctx, ver, lo, hi, m, slots)


def replay(data):
    r = data["replay"]
    run_history(r["ver"], r.get("history"))
    o1, _ = obs.construct(r["ver"], r["lo"])
    o2, _ = obs.construct(r["ver"], r["hi"])
    if o1 is None:
        return obs.rejected_verdict(r["ver"], r["lo"], "rejected")
    if o2 is None:
        return obs.rejected_verdict(r["ver"], r["hi"], "rejected")
    s1, s2 = o1.scores(), o2.scores()
    ok = all(s1[i] is None or s2[i] is None or s2[i] >= s1[i] for i in r["slots"])
    return ok, "less severe %r -> %r; more severe %s in %r -> %r" % (r["lo"], s1, r["metric"], r["hi"], s2)
