"""C02 — CVSS v4.0 score equals the FIRST macrovector / interpolation algorithm."""
from __future__ import annotations

import itertools

from .. import core, spaces as enum, scoring
from ..core import VOCAB, render

RULE = ("valid v4.0 vectors: per scoring group (AV/PR/UI, AC/AT, VC/VI/VA/CR/IR/AR, SC/SI/SA incl. Safety, E) "
        "every group assignment in random contexts, plus random full vectors; effective values spelled "
        "through base metrics, Modified overrides, absent / explicit X, with supplemental noise; distinct = "
        "distinct set of defined fields; compared model-vs-code and Lean-specification-vs-code"
        " + special families (corner vectors, every metric spelled out, frozen rounding ties, v2 low-end and cap families, base + one optional metric); the same string constructed three times; scores read from as_json() under the four option sets; 4 warm threads (1 us switch interval); fresh processes whose first use of the package is concurrent")
ASSUMPTIONS = ["binary floating point modelled by exact rationals (v4_epsilon_robust: the exact value is never within 1e-5 below a rounding boundary)"]

GROUPS = [["AV", "PR", "UI"], ["AC", "AT"], ["VC", "VI", "VA", "CR", "IR", "AR"], ["SC", "SI", "SA"], ["E"]]
EFF_DOM = {"AV": "NALP", "PR": "NLH", "UI": "NPA", "AC": "LH", "AT": "NP", "VC": "HLN", "VI": "HLN", "VA": "HLN",
           "SC": "HLN", "SI": "SHLN", "SA": "SHLN", "CR": "HML", "IR": "HML", "AR": "HML", "E": "APU"}


def spell(eff, rng):
    """a v4 vector whose effective assignment is `eff` (metric -> effective value), random spelling"""
    V = VOCAB["4"]
    a = {}
    for m, e in eff.items():
        if m in ("CR", "IR", "AR"):
            if e == "H" and rng.random() < 0.6:
                if rng.random() < 0.5:
                    a[m] = "X"
            else:
                a[m] = e
        elif m == "E":
            if e == "A" and rng.random() < 0.6:
                if rng.random() < 0.5:
                    a[m] = "X"
            else:
                a[m] = e
        else:
            base_vals = V["legal"][m]
            if e not in base_vals or rng.random() < 0.35:  # through the Modified metric
                a[m] = rng.choice(base_vals)
                a["M" + m] = e
            else:
                a[m] = e
                x = rng.random()
                if x < 0.2:
                    a["M" + m] = "X"
                elif x < 0.3:
                    a["M" + m] = e
    for m in V["supplemental"]:
        if rng.random() < 0.3:
            a[m] = rng.choice(V["legal"][m])
    return render("4", a, rng)


def rand_eff(rng):
    return {m: rng.choice(d) for m, d in EFF_DOM.items()}


def run(ctx):
    rng = ctx.rng
    strings = []
    # every assignment of each group, in random contexts
    k = ctx.n(6, 60)
    for g in GROUPS:
        for combo in itertools.product(*[EFF_DOM[m] for m in g]):
            for _ in range(k):
                e = rand_eff(rng)
                e.update(dict(zip(g, combo)))
                strings.append(spell(e, rng))
    for _ in range(ctx.n(30000, 1500000)):
        strings.append(spell(rand_eff(rng), rng))
    strings += core.singletons("4", rng, ctx.n(400, 6000))
    strings += core.special("4", rng, ctx.n(5000, 100000))
    # all base-only vectors of a slice (thorough: all 104,976)
    if ctx.tier == "thorough":
        strings += [render("4", a) for a in enum.all_base("4")]
    else:
        strings += [render("4", a) for i, a in enumerate(enum.all_base("4")) if i % 23 == ctx.seed % 23]
    for i in range(0, len(strings), 200000):
        scoring.check_scores(ctx, "4", strings[i:i + 200000], "v4", slots=("base",))
    scoring.extra_probes(ctx, "4", strings, "v4")
    if ctx.tier == "thorough" and ctx.scale == 1:
        n = 0
        for chunk in quotient_chunks(rng):
            scoring.check_scores(ctx, "4", chunk, "v4-quotient", slots=("base",))
            n += len(chunk)
        ctx.extra["exhaustive_part"] = "the whole quotient: all %d effective assignments, one (random) spelling each" % n
        ctx.exhaustive = True


def quotient_chunks(rng, size=300000):
    """all 15,116,544 effective assignments (AV,PR,UI,AC,AT,VC,VI,VA,SC,SI,SA,CR,IR,AR,E)"""
    buf = []
    keys = list(EFF_DOM)
    for combo in itertools.product(*[EFF_DOM[m] for m in keys]):
        e = dict(zip(keys, combo))
        # cheap deterministic-ish spelling: Safety needs the Modified metric; otherwise base spelling, with an
        # occasional Modified override
        f = []
        for m, v in e.items():
            if m in ("SI", "SA") and v == "S":
                f.append("%s:N/M%s:S" % (m, m))
            else:
                f.append("%s:%s" % (m, v))
        buf.append("CVSS:4.0/" + "/".join(f))
        if len(buf) >= size:
            yield buf
            buf = []
    if buf:
        yield buf


replay = scoring.replay_scores
