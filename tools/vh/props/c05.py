"""C05 — outputs do not depend on field order or on spelling out Not Defined."""
from __future__ import annotations

import json

from .. import core, obs
from ..core import VOCAB

RULE = ("accepted vectors of every version x variants: random permutations of the fields, optional metrics added "
        "as explicit Not Defined, explicit Not Defined fields removed; all of scores, severities, clean vector, "
        "RH vector, sub-vectors, ==, hash compared between variants on the real code, and model-vs-code; "
        "distinct = distinct (version, variant string)"
        " + special families and systematic field orders (official, the library's own table orders, alphabetical, reversed, rotated groups); a quarter of the constructions preceded by the same string, a quarter (v3) by the other-minor twin")
ASSUMPTIONS = []
MASK = {"2": "svcrte", "3": "svcnrte", "4": "svcnr"}


def variants(ver, s, rng, k):
    V = VOCAB[ver]
    pfx, fields = obs.parse_fields(ver, s)
    out = []
    for i in range(k):
        f = list(fields)
        kind = i % 3
        if kind in (0, 2):
            rng.shuffle(f)
        if kind in (1, 2):
            present = {m for m, _ in f}
            # remove explicit ND
            f = [(m, v) for m, v in f if not (v == V["nd"] and m not in V["mandatory"] and rng.random() < 0.5)]
            # add explicit ND for absent optional metrics
            for m in V["order"]:
                if m not in present and V["nd"] in V["legal"][m] and rng.random() < 0.4:
                    f.insert(rng.randrange(len(f) + 1), (m, V["nd"]))
        out.append(pfx + "/".join("%s:%s" % mv for mv in f))
    return out


def systematic(ctx, rng):
    """base assignment x ONE defined optional metric value, against the same vector with every other optional
    metric spelled out as Not Defined (and shuffled): v2 all 729 bases, v3 / v4 a slice of the bases"""
    from .. import spaces
    out = []
    for ver, step in (("2", 1), ("3", 8 if ctx.tier == "quick" else 2), ("4", 300 if ctx.tier == "quick" else 40)):
        V = VOCAB[ver]
        opt = [m for m in V["order"] if m not in V["mandatory"]]
        off = rng.randrange(step)
        for i, a in enumerate(spaces.all_base(ver)):
            if i % step != off:
                continue
            pfx = rng.choice(core.PREFIX[ver])
            body = ["%s:%s" % (k, a[k]) for k in V["mandatory"]]
            for m in opt:
                for v in V["legal"][m]:
                    if v == V["nd"]:
                        continue
                    plain = pfx + "/".join(body + ["%s:%s" % (m, v)])
                    full = body + ["%s:%s" % (m, v)] + ["%s:%s" % (k, V["nd"]) for k in opt if k != m]
                    rng.shuffle(full)
                    out.append((ver, [plain, pfx + "/".join(full)]))
    return out


def run(ctx):
    rng = ctx.rng
    items = []
    groups = systematic(ctx, rng)
    ctx.extra["systematic_pairs"] = len(groups)
    for _ in range(ctx.n(5000, 120000)):
        ver = rng.choice("234")
        s = core.rand_vector(ver, rng, p_absent=rng.choice([0.2, 0.5, 0.8]))
        vs = [s] + variants(ver, s, rng, 4)
        groups.append((ver, vs))
    for ver in "234":
        for s in core.special(ver, rng, ctx.n(1200, 30000)):
            groups.append((ver, [s] + variants(ver, s, rng, 3)))
    # systematic field orders (official, the library's own table orders, alphabetical, reversed, rotated optional groups)
    for _ in range(ctx.n(500, 10000)):
        ver = rng.choice("234")
        a = core.rand_assignment(ver, rng, p_absent=rng.choice([0.0, 0.3, 0.7]), p_nd=rng.choice([0.0, 0.2]))
        vs = core.order_variants(ver, a, rng)
        pf = next((p for p in core.PREFIX[ver] if p and vs[0].startswith(p)), "")
        groups.append((ver, vs))
    ctx.sample({"vector": groups[0][1][0], "variants": groups[0][1][1:3]})
    for ver in "234":
        flat = [(ver, x) for v, vs in groups if v == ver for x in vs]
        ctx.count(len(flat))
        if ctx.model_available and flat:
            n, dis, _ = core.compare_construct(flat, MASK[ver], ctx.tally)
            for v, s, mo, io_ in dis:
                ctx.disagree("model-vs-code:v%s:observables" % v, s, mo[:300], io_[:300])
    from .. import conc
    pk = [(v, x) for v, vs in groups[:: max(1, len(groups) // 20)] for x in vs[:3]]
    conc.pickle_across(ctx, pk, "spellings")
    conc.flag_variants(ctx, [["C", v, x] for v, x in pk[:90]], "spellings")
    # the relation itself on the real code
    for ver, vs in groups:
        o0, e0 = obs.construct(ver, vs[0])
        if o0 is None:
            ctx.violation("v%s:valid-vector-rejected" % ver, "accepted vector rejected", vs[0], "accepted", e0,
                          replay={"ver": ver, "a": vs[0], "b": vs[0]})
            continue
        d0 = observe2(ver, o0)
        for x in vs[1:]:
            ctx.nontrivial((ver, x))
            o1, e1 = obs.construct(ver, x)
            if o1 is None:
                ctx.violation("v%s:variant-rejected:%s" % (ver, e1), "a permuted / ND-respelled variant of an accepted vector is rejected",
                              x, "accepted", e1, replay={"ver": ver, "a": vs[0], "b": x})
                continue
            d1 = observe2(ver, o1)
            for c in d0:
                if d0[c] != d1[c]:
                    nm = name_of(c)
                    ctx.violation("v%s:%s-depends-on-spelling" % (ver, name_of(c).split(" (")[0]),
                                  "%s differs between two spellings of the same vector" % nm,
                                  {"a": vs[0], "b": x}, d0[c], d1[c], replay={"ver": ver, "a": vs[0], "b": x})
            try:
                if not (o0 == o1) or not (o1 == o0) or hash(o0) != hash(o1) or (o0 != o1):
                    ctx.violation("v%s:eq-or-hash-depends-on-spelling" % ver, "two spellings of the same vector are not equal / hash differently",
                                  {"a": vs[0], "b": x}, "equal, same hash", "eq=%s hash_eq=%s" % (o0 == o1, hash(o0) == hash(o1)),
                                  replay={"ver": ver, "a": vs[0], "b": x})
            except Exception as e:  # noqa
                ctx.violation("v%s:eq-or-hash-raised" % ver, "== or hash raised", {"a": vs[0], "b": x}, None, repr(e),
                              replay={"ver": ver, "a": vs[0], "b": x})


def name_of(c):
    if c[0] == "j":
        return "as_json() without vectorString"
    return obs.NAMES[c[0]] + (" (asked again after every other accessor)" if len(c) > 1 else "")


def observe2(ver, o):
    """every observable in the fixed order, then every observable AGAIN in the reverse order: what an object shows must not
    depend on the spelling even after all its other accessors were called"""
    d = obs.observe(ver, o, MASK[ver])
    # the JSON accessors are part of "every other accessor": the full documents are compared without the echoed input string,
    # the minimal ones (whose group selection follows what the string mentions) are only called
    for so in (False, True):
        try:
            full = dict(o.as_json(sort=so, minimal=False))
            full.pop("vectorString", None)
            d["j" + ("S" if so else "U")] = json.dumps(full, sort_keys=True)
            o.as_json(sort=so, minimal=True)
        except Exception as e:  # noqa
            d["j" + ("S" if so else "U")] = "RAISED:%s" % type(e).__name__
    for c, v in obs.observe(ver, o, MASK[ver][::-1]).items():
        d[c + "2"] = v
    return d


def replay(data):
    r = data["replay"]
    ver = r["ver"]
    oa, ea = obs.construct(ver, r["a"])
    ob, eb = obs.construct(ver, r["b"])
    if oa is None or ob is None:
        return False, "construct: %r -> %s, %r -> %s" % (r["a"], ea or "ok", r["b"], eb or "ok")
    da, db = observe2(ver, oa), observe2(ver, ob)
    diff = {name_of(c): (da[c], db[c]) for c in da if da[c] != db[c]}
    ok = not diff and oa == ob and hash(oa) == hash(ob)
    return ok, "a=%r b=%r differing observables=%r eq=%s hash_eq=%s" % (r["a"], r["b"], diff, oa == ob, hash(oa) == hash(ob))
