"""C20 — identical behaviour on every supported Python (2.7 and 3.6 to 3.13)."""
from __future__ import annotations

import os
import sys

from .. import core, probes

RULE = ("one list of operations (constructors on valid / edited strings of every version, RH notation, text extraction, "
        "interactive scripts, command lines) executed by tools/vh/probe.py under each of the 9 interpreters in "
        "/root/.pyenv/versions and /venv's, PYTHONPATH=/repo; every result (acceptance, error class and message, scores, "
        "severities, vectors, sub-vectors, JSON items in order for the four option sets, extraction set, interactive and "
        "CLI stdout/exit) compared with the reference interpreter's; the reference is tied to the Lean model by the "
        "other checks; distinct = distinct (interpreter, operation)"
        " + argparse spellings (clustered, attached, long, abbreviated), near-miss RH score texts, extraction result ORDER")
ASSUMPTIONS = ["no theorem can quantify over interpreters: each interpreter is tied to the same model by correspondence"]
EXPLANATION = ("Each interpreter is compared on the same operations with the reference interpreter, which the other checks tie to the Lean "
               "model; two interpreters that both correspond to the model agree, and all theorems transfer to each of them.")

PYENV = "/root/.pyenv/versions"
WANT = ["2.7", "3.6", "3.7", "3.8", "3.9", "3.10", "3.11", "3.12", "3.13"]


def interpreters():
    out = {}
    if os.path.isdir(PYENV):
        for d in sorted(os.listdir(PYENV)):
            p = os.path.join(PYENV, d, "bin", "python")
            if os.path.exists(p):
                out[d] = p
    return out


def slot(kind, res_ref, res_x, op=None):
    """name of the first differing component, to identify a finding"""
    if kind == "R" and op is not None and "_" in op[2].split("/", 1)[0] and \
            (res_ref[0] != res_x[0] or res_ref[1] != res_x[1]):
        return "score-text-with-underscore"
    if kind == "L" and op is not None and any(ord(c) > 127 for a in op[1] for c in a) and res_ref[0] != res_x[0]:
        return "non-ascii-command-line-argument"
    if kind == "L" and res_ref[0] == res_x[0] and res_ref[1] != res_x[1]:
        a, b = res_ref[1].split("\n"), res_x[1].split("\n")
        if [x.rstrip() for x in a] == [x.rstrip() for x in b]:
            return "stdout-trailing-whitespace"
        if a[:1] != b[:1]:
            return "stdout-first-line(version-dispatch-or-error)"
        return "stdout"
    if res_ref[0] != res_x[0]:
        return "outcome"
    if kind in ("C", "R"):
        if res_ref[0] == "err":
            return "error-class" if res_ref[1] != res_x[1] else "error-message"
        for k in sorted(res_ref[1]):
            if res_ref[1].get(k) != res_x[1].get(k):
                if k.startswith("json"):
                    a, b = res_ref[1][k], res_x[1].get(k) or []
                    if sorted(map(str, a)) == sorted(map(str, b)):
                        return k + "-key-order"
                    return k + "-content"
                return k
    if kind in ("I", "L"):
        if res_ref[0] != res_x[0]:
            return "outcome"
        return "stdout" if res_ref[1] != res_x[1] else "stderr"
    return "result"


def run(ctx):
    rng = ctx.rng
    ops = probes.gen_ops(rng, ctx.n(700, 8000))
    # fixed probes for the version-sensitive spots
    ops += [["R", "3", "9_8/CVSS:3.1/AV:N/AC:L/PR:N/UI:N/S:U/C:H/I:H/A:H"], ["R", "2", "7.5/AV:N/AC:L/Au:N/C:P/I:P/A:P"],
            ["M"],
            ["L", ["-4", "-v", "CVSS:4.0/AV:N/AC:L/AT:N/PR:N/UI:N/VC:H/VI:H/VA:H/SC:H/SI:H/SA:H"], []],
            ["L", ["-2", "-j", "-v", "AV:N/AC:L/Au:N/C:P/I:P/A:P"], []], ["L", ["-j", "-v", "CVSS:3.1/AV:N/AC:L/PR:N/UI:N/S:U/C:H/I:H/A:H"], []],
            ["L", ["-3", "-n", "-a", "-v", "CVSS:3.0/AV:N/AC:L/PR:N/UI:N/S:U/C:H/I:H/A:H/E:F"], []],
            ["X", "CVSS:3.٣/AV:N/AC:L/Au:N/C:P/I:P/A:P and CVSS:3.1/AV:N/AC:L/PR:N/UI:N/S:U/C:H/I:H/A:H"],
            ["C", "3", "CVSS:3.1/AV:N/AC:L/PR:N/UI:N/S:U/C:H/I:H/A:H/é:1"]]
    # near-valid strings, systematically: every enclosure of a vector of every version, single edits
    for v in "234":
        ops += [["C", v, t] for t in core.structural_battery(v, rng) if isinstance(t, str)]
        ops += [["R", v, "5.0/" + t] for t in core.structural_battery(v, rng, 6)[:13] if isinstance(t, str)]
    # bulk score comparison: every scoring-group assignment of v4 in random contexts (covers every macrovector and
    # its neighbours), v2 low-end family, singleton spellings, random vectors
    import itertools
    from . import c02
    bulk = []
    for g in c02.GROUPS:
        for combo in itertools.product(*[c02.EFF_DOM[m] for m in g]):
            for _ in range(ctx.n(3, 12)):
                e = c02.rand_eff(rng)
                e.update(dict(zip(g, combo)))
                bulk.append(["S", "4", c02.spell(e, rng)])
    bulk += [["S", "2", s] for s in core.v2_low_family()[::3]]
    for v in "234":
        bulk += [["S", v, s] for s in core.singletons(v, rng, ctx.n(20, 200))]
        bulk += [["S", v, core.rand_vector(v, rng)] for _ in range(ctx.n(1500, 20000))]
    ops += bulk
    ctx.extra["bulk_score_operations"] = len(bulk)
    ctx.sample({"operation": ops[0]})
    ref = probes.run_probe("/venv/bin/python", ops)
    if "results" not in ref:
        ctx.violation("reference-probe-failed", "the probe fails under the reference interpreter", None, None, ref)
        return
    ints = interpreters()
    found = sorted(ints)
    ctx.extra["interpreters"] = found
    missing = [w for w in WANT if not any(f.startswith(w + ".") for f in found)]
    if missing:
        ctx.notes.append("interpreters not installed in this sandbox: %s" % missing)
    for name, py in ints.items():
        r = probes.run_probe(py, ops)
        ctx.count(len(ops))
        tag = ".".join(name.split(".")[:2])
        if "import_error" in r or "probe_failed" in r:
            ctx.violation("py%s:import-or-probe-failure" % tag, "the package does not import / the probe crashes under this interpreter", None, None, r,
                          replay={"python": py, "op": None})
            continue
        for i, (op, a, b) in enumerate(zip(ops, ref["results"], r["results"])):
            ctx.nontrivial((name, i))
            if a != b:
                sl = slot(op[0], a, b, op)
                ctx.violation("py%s:%s:%s-differs" % (tag, op[0], sl), "behaviour under Python %s differs from the reference interpreter" % tag,
                              op, _short(a), _short(b), replay={"python": py, "op": op})
        ctx.tally.add("interpreter:" + name, len(ops))


def _short(x):
    s = repr(x)
    return s if len(s) < 1500 else s[:1500] + "…"


def replay(data):
    r = data["replay"]
    if not r.get("op"):
        x = probes.run_probe(r["python"], [])
        return "results" in x, "probe under %s: %r" % (r["python"], x)
    a = probes.run_probe("/venv/bin/python", [r["op"]])
    b = probes.run_probe(r["python"], [r["op"]])
    return a.get("results") == b.get("results"), "op %r: reference %s; %s %s" % (r["op"], _short(a.get("results")), r["python"], _short(b.get("results") or b))
