"""C10 — JSON output validates against the official FIRST JSON schema."""
from __future__ import annotations

import json
import os

from .. import core, jschema, obs
from ..core import enc

RULE = ("accepted vectors of every version x {sort} x {minimal}: as_json() after a JSON round trip validated against "
        "the pinned official schema by an exact-arithmetic validator (failing schema locations identify a finding); "
        "JSON compared model-vs-code; distinct = distinct (version, vector, options)"
        " + special families; accepted edited strings (incl. enclosing pairs, case variants); a failing vectorString echo is classified by the Lean grammar")
ASSUMPTIONS = ["official schemas: pinned copies under tools/schemas", "multipleOf is evaluated exactly (a float is read as the decimal its repr shows)"]
SCHEMA = {"2": "2.0", "3.0": "3.0", "3.1": "3.1", "4": "4.0"}


def run(ctx):
    rng = ctx.rng
    items = []
    for _ in range(ctx.n(5000, 120000)):
        ver = rng.choice("234")
        items.append((ver, core.rand_vector(ver, rng, p_absent=rng.choice([0.0, 0.3, 0.6, 0.95]), p_nd=rng.choice([0.0, 0.2]))))
    # zero-score and edge vectors
    items += [("2", "AV:L/AC:H/Au:M/C:N/I:N/A:N"), ("2", "AV:L/AC:H/Au:M/C:N/I:N/A:N/E:U/TD:N"),
              ("3", "CVSS:3.1/AV:N/AC:L/PR:N/UI:N/S:U/C:N/I:N/A:N"), ("3", "CVSS:3.0/AV:N/AC:L/PR:N/UI:N/S:C/C:H/I:H/A:H"),
              ("4", "CVSS:4.0/AV:N/AC:L/AT:N/PR:N/UI:N/VC:N/VI:N/VA:N/SC:N/SI:N/SA:N"),
              ("4", "CVSS:4.0/AV:N/AC:L/AT:N/PR:N/UI:N/VC:H/VI:H/VA:H/SC:H/SI:H/SA:H")]
    items += [("2", s) for s in core.v2_low_family()[:: (1 if ctx.tier == "thorough" else 3)]]
    for v in "234":
        items += [(v, s) for s in core.singletons(v, rng, ctx.n(12, 200))]
        items += [(v, s) for s in core.special(v, rng, ctx.n(600, 12000))]
    # "every ACCEPTED vector": also whatever near-valid strings the constructors accept (none, on a tree whose
    # acceptance is exactly the grammar except through field order / spelling)
    extra = []
    for ver, s in items[: ctx.n(4000, 60000)]:
        for _ in range(2):
            t = core.edit(s, rng, ver)
            if t != s and obs.construct(ver, t)[0] is not None:
                extra.append((ver, t))
    ctx.extra["accepted_edited_strings"] = len(extra)
    items += extra
    from .. import conc
    conc.flag_variants(ctx, [["C", v, s] for v, s in items[:: max(1, len(items) // ctx.n(120, 1200))] if core.sendable(s)], "json")
    # grammar verdicts (Lean) for every input in one batch: used to tell 'valid vector echoed in another field order' from
    # 'accepted string that is not a vector at all' when the echoed vectorString fails the schema's pattern
    if ctx.model_available:
        todo = [(v, s) for v, s in dict.fromkeys(items) if core.sendable(s) and (v, s) not in _GRAMMAR]
        for (v, s), vd in zip(todo, core.run_driver(["S\tacc\t%s\t%s" % (v, enc(s)) for v, s in todo])):
            _GRAMMAR[(v, s)] = vd
    ctx.count(len(items) * 4)
    ctx.sample({"vector": items[0][1], "options": "sort x minimal"})
    for ver in "234":
        flat = [(v, s) for v, s in items if v == ver]
        if ctx.model_available and flat:
            n, dis, _ = core.compare_construct(flat, "jkJK", ctx.tally)
            for v, s, mo, io_ in dis:
                ctx.disagree("model-vs-code:v%s:as_json" % v, s, mo[:400], io_[:400])
    if ctx.model_available:
        lean_schema_tie(ctx, items)
    for ver, s in items:
        o, e = obs.construct(ver, s)
        if o is None:
            ctx.violation("v%s:valid-vector-rejected" % ver, "accepted vector rejected", s, "accepted", e, replay={"ver": ver, "s": s, "sort": False, "minimal": False})
            continue
        key = ver if ver != "3" else s[5:8]
        schema = jschema.load(SCHEMA[key])
        for sort in (False, True, False, True):       # every option set twice on the same object
            for minimal in (False, True):
                ctx.nontrivial((ver, s, sort, minimal))
                rp = {"ver": ver, "s": s, "sort": sort, "minimal": minimal}
                try:
                    raw = o.as_json(sort=sort, minimal=minimal)
                    d = json.loads(json.dumps(raw))
                    # the caller owns the returned dict and edits it; the next call must hand out a valid document again
                    for kk in list(raw.keys()):
                        raw[kk] = None
                    raw.pop("version", None)
                except Exception as ex:  # noqa
                    ctx.violation("v%s:as_json-raised" % ver, "as_json()/json round trip raised", s, None, repr(ex), replay=rp)
                    continue
                for loc in sorted(set(jschema.validate(schema, d))):
                    sig, val = refine(schema, d, s, loc)
                    ctx.violation("v%s:%s" % (key, sig), "as_json() output fails the official schema at " + loc,
                                  s, "valid", {"location": loc, "value": val}, replay=rp)


def lean_schema_tie(ctx, items):
    """the Lean schema semantics (frozen transcription) agrees with the exact Python validator on whether the
    model's / code's JSON validates; thorough: the Python validator agrees with the `jsonschema` package"""
    sel = [(v, s) for v, s in items if core.sendable(s)][: ctx.n(1500, 20000)]
    lines, keys = [], []
    for v, s in sel:
        for so in "01":
            for mi in "01":
                lines.append("S\tschema\t%s\t%s\t%s\t%s" % (v, so, mi, enc(s)))
                keys.append((v, s, so == "1", mi == "1"))
    out = core.run_driver(lines)
    for (v, s, so, mi), mo in zip(keys, out):
        o, _ = obs.construct(v, s)
        if o is None or not mo.startswith("ok"):
            if (o is None) != (not mo.startswith("ok")):
                ctx.disagree("lean-schema-vs-validator:acceptance", s, mo[:100], "accepted" if o is not None else "rejected")
            continue
        key = v if v != "3" else s[5:8]
        d = json.loads(json.dumps(o.as_json(sort=so, minimal=mi)))
        py_valid = not jschema.validate(jschema.load(SCHEMA.get(key, "3.1")), d)
        lean_valid = mo.rstrip("\t") == "ok"
        if py_valid != lean_valid:
            ctx.disagree("lean-schema-vs-validator:v%s" % key, s, mo[:200], "valid" if py_valid else "invalid")
    ctx.extra["lean_schema_evaluations"] = len(lines)
    if ctx.tier == "thorough":
        cross_check_jsonschema(ctx, sel[:3000])


def cross_check_jsonschema(ctx, sel):
    """second opinion on the validator itself: the `jsonschema` package of the tooling venv (v2 / v3 only: for v4 its float
    multipleOf differs from exact arithmetic, and v4 never validates anyway)"""
    import subprocess, tempfile
    docs = []
    for v, s in sel:
        if v == "4":
            continue
        o, _ = obs.construct(v, s)
        if o is None:
            continue
        key = v if v != "3" else s[5:8]
        d = json.loads(json.dumps(o.as_json()))
        docs.append([SCHEMA[key], d, not jschema.validate(jschema.load(SCHEMA[key]), d)])
    with tempfile.NamedTemporaryFile("w", suffix=".json", delete=False) as f:
        json.dump(docs, f)
        path = f.name
    code = ("import json,sys,jsonschema\nimport os\ndocs=json.load(open(sys.argv[1]))\nbad=[]\n"
            "for i,(ver,d,mine) in enumerate(docs):\n"
            "    sch=json.load(open(os.path.join(sys.argv[2],'cvss-v%s.json'%ver)))\n"
            "    try:\n        jsonschema.validate(d,sch); ok=True\n    except jsonschema.ValidationError: ok=False\n"
            "    if ok!=mine: bad.append(i)\nprint(json.dumps(bad))\n")
    try:
        p = subprocess.run(["python3-vt", "-c", code, path, jschema.SCHEMA_DIR], stdout=subprocess.PIPE, stderr=subprocess.PIPE, timeout=600)
        bad = json.loads(p.stdout.decode().strip().splitlines()[-1]) if p.returncode == 0 else None
    except Exception as e:  # noqa
        bad = None
        ctx.notes.append("jsonschema cross-check not run: %s" % e)
    finally:
        os.remove(path)
    if bad:
        for i in bad[:5]:
            ctx.disagree("validator-vs-jsonschema-package", docs[i][1].get("vectorString"), "mine=%s" % docs[i][2], "jsonschema=%s" % (not docs[i][2]))
    ctx.extra["jsonschema_package_cross_checked"] = len(docs) if bad is not None else 0


_GRAMMAR = {}


def refine(schema, d, s, loc):
    """make the failing location specific enough that a different failure is a different finding"""
    field = loc.split(":")[0].split(".")[-1] if loc.startswith("$.") else None
    val = d.get(field) if field else None
    if loc.endswith(":enum") or loc.endswith(":const"):
        return "%s=%s" % (loc, val), val
    if loc == "$.vectorString:pattern":
        import re as _re
        pat = schema["properties"]["vectorString"]["pattern"]
        if val == s and _re.search(pat, s) is None:
            # a VALID vector written in another field order (the schema's pattern fixes the order), or a string that is not a
            # vector of the version's grammar at all (decided by the Lean grammar) but was accepted and is echoed?
            ver = "2" if "2.0" in str(schema.get("$id", schema.get("title", ""))) or d.get("version") == "2.0" else \
                ("4" if str(d.get("version", "")).startswith("4") else "3")
            verdict = _GRAMMAR.get((ver, s))
            if verdict is None:
                try:
                    verdict = core.run_driver(["S\tacc\t%s\t%s" % (ver, enc(s))])[0] if core.sendable(s) else "unknown"
                except Exception:  # noqa
                    verdict = "unknown"
                _GRAMMAR[(ver, s)] = verdict
            if verdict == "ok" or verdict == "unknown":
                return loc + "(echo of an input that is itself not in the official field order)", val
            return loc + "(echo of an accepted string that is not a valid vector of the version)", val
        return loc, val
    if loc.endswith(":anyOf"):
        # which severity field, and would upper-casing it repair the band?
        for k in ("baseSeverity", "threatSeverity", "environmentalSeverity"):
            if k in d and isinstance(d[k], str) and d[k] != d[k].upper():
                d2 = dict(d)
                d2[k] = d[k].upper()
                if loc not in jschema.validate(schema, d2):
                    return "%s(%s is not upper case)" % (loc, k), d[k]
        return loc, [d.get("baseScore"), d.get("baseSeverity")]
    return loc, val


def replay(data):
    r = data["replay"]
    o, e = obs.construct(r["ver"], r["s"])
    if o is None:
        return obs.rejected_verdict(r["ver"], r["s"], e)
    key = r["ver"] if r["ver"] != "3" else r["s"][5:8]
    d = json.loads(json.dumps(o.as_json(sort=r["sort"], minimal=r["minimal"])))
    errs = sorted(set(jschema.validate(jschema.load(SCHEMA[key]), d)))
    return not errs, "as_json(sort=%s, minimal=%s) of %r fails the v%s schema at %r" % (r["sort"], r["minimal"], r["s"], SCHEMA[key], errs)
