"""C10 — JSON output validates against the official FIRST JSON schema."""
from __future__ import annotations

import json

from .. import core, jschema, obs
from ..core import enc

RULE = ("accepted vectors of every version x {sort} x {minimal}: as_json() after a JSON round trip validated against "
        "the pinned official schema by an exact-arithmetic validator (failing schema locations identify a finding); "
        "JSON compared model-vs-code; distinct = distinct (version, vector, options)")
ASSUMPTIONS = ["official schemas: pinned copies under tools/schemas", "multipleOf is evaluated exactly (a float is read as the decimal its repr shows)"]
SCHEMA = {"2": "2.0", "3.0": "3.0", "3.1": "3.1", "4": "4.0"}


def run(ctx):
    rng = ctx.rng
    items = []
    for _ in range(ctx.n(5000, 120000)):
        ver = rng.choice("234")
        items.append((ver, core.rand_vector(ver, rng, p_absent=rng.choice([0.0, 0.3, 0.6, 0.95]), p_nd=rng.choice([0.0, 0.2]))))
    # zero-score and edge vectors
    items += [("2", "AV:L/AC:H/Au:M/C:N/I:N/A:N"), ("2", "AV:L/AC:H/Au:M/C:N/I:N/A:N/E:U/TD:N"),
              ("3", "CVSS:3.1/AV:N/AC:L/PR:N/UI:N/S:U/C:N/I:N/A:N"), ("3", "CVSS:3.0/AV:N/AC:L/PR:N/UI:N/S:C/C:H/I:H/A:H"),
              ("4", "CVSS:4.0/AV:N/AC:L/AT:N/PR:N/UI:N/VC:N/VI:N/VA:N/SC:N/SI:N/SA:N"),
              ("4", "CVSS:4.0/AV:N/AC:L/AT:N/PR:N/UI:N/VC:H/VI:H/VA:H/SC:H/SI:H/SA:H")]
    items += [("2", s) for s in core.v2_low_family()[:: (1 if ctx.tier == "thorough" else 3)]]
    for v in "234":
        items += [(v, s) for s in core.singletons(v, rng, ctx.n(12, 200))]
    # "every ACCEPTED vector": also whatever near-valid strings the constructors accept (none, on a tree whose
    # acceptance is exactly the grammar except through field order / spelling)
    extra = []
    for ver, s in items[: ctx.n(4000, 60000)]:
        for _ in range(2):
            t = core.edit(s, rng, ver)
            if t != s and obs.construct(ver, t)[0] is not None:
                extra.append((ver, t))
    ctx.extra["accepted_edited_strings"] = len(extra)
    items += extra
    ctx.count(len(items) * 4)
    ctx.sample({"vector": items[0][1], "options": "sort x minimal"})
    for ver in "234":
        flat = [(v, s) for v, s in items if v == ver]
        if ctx.model_available and flat:
            n, dis, _ = core.compare_construct(flat, "jkJK", ctx.tally)
            for v, s, mo, io_ in dis:
                ctx.disagree("model-vs-code:v%s:as_json" % v, s, mo[:400], io_[:400])
    for ver, s in items:
        o, e = obs.construct(ver, s)
        if o is None:
            ctx.violation("v%s:valid-vector-rejected" % ver, "accepted vector rejected", s, "accepted", e, replay={"ver": ver, "s": s, "sort": False, "minimal": False})
            continue
        key = ver if ver != "3" else s[5:8]
        schema = jschema.load(SCHEMA[key])
        for sort in (False, True):
            for minimal in (False, True):
                ctx.nontrivial((ver, s, sort, minimal))
                rp = {"ver": ver, "s": s, "sort": sort, "minimal": minimal}
                try:
                    d = json.loads(json.dumps(o.as_json(sort=sort, minimal=minimal)))
                except Exception as ex:  # noqa
                    ctx.violation("v%s:as_json-raised" % ver, "as_json()/json round trip raised", s, None, repr(ex), replay=rp)
                    continue
                for loc in sorted(set(jschema.validate(schema, d))):
                    sig, val = refine(schema, d, s, loc)
                    ctx.violation("v%s:%s" % (key, sig), "as_json() output fails the official schema at " + loc,
                                  s, "valid", {"location": loc, "value": val}, replay=rp)


def refine(schema, d, s, loc):
    """make the failing location specific enough that a different failure is a different finding"""
    field = loc.split(":")[0].split(".")[-1] if loc.startswith("$.") else None
    val = d.get(field) if field else None
    if loc.endswith(":enum") or loc.endswith(":const"):
        return "%s=%s" % (loc, val), val
    if loc == "$.vectorString:pattern":
        import re as _re
        pat = schema["properties"]["vectorString"]["pattern"]
        if val == s and _re.search(pat, s) is None:
            return loc + "(echo of an input that is itself not in the official field order)", val
        return loc, val
    if loc.endswith(":anyOf"):
        # which severity field, and would upper-casing it repair the band?
        for k in ("baseSeverity", "threatSeverity", "environmentalSeverity"):
            if k in d and isinstance(d[k], str) and d[k] != d[k].upper():
                d2 = dict(d)
                d2[k] = d[k].upper()
                if loc not in jschema.validate(schema, d2):
                    return "%s(%s is not upper case)" % (loc, k), d[k]
        return loc, [d.get("baseScore"), d.get("baseSeverity")]
    return loc, val


def replay(data):
    r = data["replay"]
    o, e = obs.construct(r["ver"], r["s"])
    if o is None:
        return False, "rejected %s" % e
    key = r["ver"] if r["ver"] != "3" else r["s"][5:8]
    d = json.loads(json.dumps(o.as_json(sort=r["sort"], minimal=r["minimal"])))
    errs = sorted(set(jschema.validate(jschema.load(SCHEMA[key]), d)))
    return not errs, "as_json(sort=%s, minimal=%s) of %r fails the v%s schema at %r" % (r["sort"], r["minimal"], r["s"], SCHEMA[key], errs)
