"""C12 — Red Hat notation round-trips and rejects mismatching scores."""
from __future__ import annotations

import math

from .. import core, obs
from ..core import enc

RULE = ("accepted vectors: rh_vector() vs printed base score + '/' + clean vector, from_rh_vector(rh_vector()) == x; "
        "strings <score text>/<vector text>: every one-decimal score 0.0..10.0 and a stream of score spellings "
        "(padding, sign, exponent, underscores, long decimals, nan/inf, empty, no slash, non-ASCII digits) paired with "
        "valid and invalid vectors; outcome class vs 'number parses AND vector valid AND number == base score'; "
        "model-vs-code for ASCII score texts; distinct = distinct (version, string)"
        " + score texts a hair away from the score, with 40 digits, with 20-digit exponents")
ASSUMPTIONS = ["'parses as a number' is Python's float() grammar; the Lean model covers ASCII spellings"]

SPELL = ["{x}", " {x}", "{x} ", "\t{x}\n", "+{x}", "-{x}", "{x}0", "0{x}", "{x}00000000000000001", "{x}e0", "{x}E+0", "{x}e-0",
         "{t}e-1", "{t}E-1", "{t}e-01", "0.{t}e1", "{t}_0e-2", "{x}_", "_{x}", "{x}e", "{x}e1", "{x}f", "0x{t}", "{x}.", ".{x}",
         "{x}/", "nan", "NaN", "inf", "-inf", "Infinity", "", " ", "None", "{x}e400", "{x}e-400", "1e-400", "{x}L", "{x}j",
         "{x} {x}", "{lo}", "{hi}", "{x}0000000050", "{x}00000000050", "{x}000000000001", "{x}0000001", "0.0000000001", "1e-10",
         "{x}00000000000000000000000000000000000000001", "{x}e0000000000000000000000", "1e99999999999999999999", "1e-99999999999999999999", "７.５", "٧.٥", "{x} ", "{x}\x00", "1__0", "1_0", "١٠", "{x}e1_0"]


def expect(ver, text):
    """expected outcome class by the statement, using the implementation's own constructor/score"""
    if "/" not in text:
        return "err\tRHMalformedError", None
    sc, vec = text.split("/", 1)
    try:
        val = float(sc)
    except ValueError:
        return "err\tRHMalformedError", None
    o, e = obs.construct(ver, vec, warm=True)
    if o is None:
        return "err\t" + e, None
    if o.scores()[0] == val:
        return "ok", o
    return "err\tRHScoreDoesNotMatch", None


def run(ctx):
    rng = ctx.rng
    cases = []
    seeds = [("2", s) for s in core.v2_low_family()[::7]]
    for _ in range(ctx.n(4000, 80000)):
        ver = rng.choice("234")
        seeds.append((ver, core.rand_vector(ver, rng, p_absent=rng.choice([0.3, 0.8]))))
    for ver, s in seeds:
        o, e = obs.construct(ver, s, warm=True)
        if o is None:
            ctx.violation("v%s:valid-vector-rejected" % ver, "accepted vector rejected", s, "accepted", e, replay={"ver": ver, "text": "0.0/" + s})
            continue
        try:
            rh, base, clean = o.rh_vector(), o.scores()[0], o.clean_vector()
        except Exception as ex:  # noqa
            ctx.violation("v%s:accessor-raised" % ver, "accessor raised", s, None, repr(ex), replay={"ver": ver, "text": "0.0/" + s})
            continue
        ctx.count()
        t10 = int(round(abs(base) * 10))
        want_rh = "%d.%d/%s" % (t10 // 10, t10 % 10, clean)
        if rh != want_rh:
            ctx.violation("v%s:rh-format" % ver, "rh_vector() is not <base score with one decimal>/<clean vector>", s,
                          want_rh, rh, replay={"ver": ver, "text": rh, "roundtrip": s})
        try:
            back = core.impl().cls[ver].from_rh_vector(rh)
            if not (back == o) or back.scores() != o.scores():
                ctx.violation("v%s:rh-roundtrip-not-equal" % ver, "from_rh_vector(x.rh_vector()) != x", s, None, back.clean_vector(),
                              replay={"ver": ver, "text": rh, "roundtrip": s})
        except Exception as ex:  # noqa
            ctx.violation("v%s:rh-roundtrip-raises" % ver, "from_rh_vector(x.rh_vector()) raises", s, "equal object", repr(ex),
                          replay={"ver": ver, "text": rh, "roundtrip": s})
        t = int(round(base * 10))
        # all scores for a few vectors, a few scores for all
        ks = range(0, 101) if rng.random() < 0.02 else [t, rng.randrange(101), max(0, t - 1), min(100, t + 1)]
        for k in ks:
            cases.append((ver, "%d.%d/%s" % (k // 10, k % 10, s)))
        for _ in range(3):
            sp = rng.choice(SPELL)
            k = t if rng.random() < 0.7 else rng.randrange(101)
            x = "%d.%d" % (k // 10, k % 10)
            lo = repr(math.nextafter(k / 10, -1.0))
            hi = repr(math.nextafter(k / 10, 11.0))
            txt = sp.format(x=x, t=str(k), lo=lo, hi=hi)
            vec = s if rng.random() < 0.8 else core.edit(s, rng, ver)
            cases.append((ver, txt + "/" + vec))
        if rng.random() < 0.1:
            cases.append((ver, s))  # no score part at all
            cases.append((ver, rh.replace("/", "|", 1)))
            cases.append((rng.choice("234"), rh))  # other class
    cases = list(dict.fromkeys(cases))
    from .. import conc
    conc.flag_variants(ctx, [["R", v, t] for v, t in cases[:: max(1, len(cases) // ctx.n(200, 2000))] if core.sendable(t)], "rh")
    conc.pickle_across(ctx, [(v, s) for v, s in seeds[:: max(1, len(seeds) // 40)]], "rh")
    ctx.count(len(cases))
    ctx.sample({"from_rh_vector": cases[3][1], "class": "CVSS" + cases[3][0]})
    ascii_cases = [(v, t) for v, t in cases if core.sendable(t) and all(ord(c) < 128 for c in t.split("/", 1)[0])]
    if ctx.model_available:
        float_model_tie(ctx, rng)
        n, dis, _ = core.compare_construct(ascii_cases, "c", ctx.tally, rh=True)
        for v, s, mo, io_ in dis:
            ctx.disagree("model-vs-code:v%s:from_rh_vector" % v, s, mo, io_)
    for ver, text in cases:
        ctx.nontrivial((ver, text))
        want, o = expect(ver, text)
        got = core.impl_construct(ver, "", text, rh=True).rstrip("\t")
        if got != want:
            ctx.violation("v%s:from_rh:%s-expected-%s" % (ver, got.replace("err\t", ""), want.replace("err\t", "")),
                          "from_rh_vector outcome differs from 'number parses, vector valid, number == base score'",
                          text, want, got, replay={"ver": ver, "text": text})
    # the SAME string again (and once more): the outcome is a function of the string, not of the history of calls
    again = cases[:: max(1, len(cases) // ctx.n(1500, 15000))]
    for ver, text in again:
        want, o = expect(ver, text)
        for rep in (2, 3):
            got = core.impl_construct(ver, "", text, rh=True).rstrip("\t")
            if got != want:
                ctx.violation("v%s:from_rh:repeated-call:%s-expected-%s" % (ver, got.replace("err\t", ""), want.replace("err\t", "")),
                              "from_rh_vector on the same string a second / third time differs from 'number parses, vector "
                              "valid, number == base score'", text, want, got, replay={"ver": ver, "text": text, "repeat": rep})
                break
    ctx.count(2 * len(again))


def float_model_tie(ctx, rng):
    """direct tie of the Lean model of float(): literal grammar + binary64 rounding vs CPython on ASCII strings"""
    from fractions import Fraction
    import math
    def gen():
        k = rng.random()
        digs = lambda n: "".join(rng.choice("0123456789") for _ in range(n))  # noqa
        if k < 0.1:
            return rng.choice(["inf", "-inf", "+Infinity", "nan", "-NaN", "iNf", "infinit", "na", "in f", "Infinity "])
        s = rng.choice(["", "", "+", "-"])
        ip = digs(rng.choice([0, 1, 1, 2, 5, 20]))
        if ip and rng.random() < 0.15:
            i = rng.randrange(len(ip) + 1)
            ip = ip[:i] + "_" + ip[i:]
        s += ip
        if rng.random() < 0.7:
            s += "." + digs(rng.choice([0, 1, 2, 3, 17, 30]))
        if rng.random() < 0.35:
            s += rng.choice("eE") + rng.choice(["", "+", "-"]) + digs(rng.choice([0, 1, 2, 3]))
        if rng.random() < 0.15:
            s = rng.choice([" ", "\t", "\n", "\x0b", "\x1c"]) + s + rng.choice(["", " ", "\r\n"])
        if rng.random() < 0.1:
            i = rng.randrange(len(s) + 1)
            s = s[:i] + rng.choice("_.e+- x/") + s[i:]
        return s
    strs = list(dict.fromkeys([gen() for _ in range(ctx.n(6000, 200000))] +
                              ["%d.%d" % (k // 10, k % 10) for k in range(101)] +
                              ["1e-400", "1e400", "4.9e-324", "2.4e-324", "2.5e-324", "1.7976931348623157e308", "1.7976931348623159e308",
                               "0.1", "7.4999999999999999999", "7.450000000000000000001", "9007199254740993", "1_0", "1__0", "_1", "1_"]))
    out = core.run_driver(["F\t%s" % enc(s) for s in strs])
    ctx.count(len(strs))
    for s, mo in zip(strs, out):
        try:
            f = float(s)
            py = "nan" if math.isnan(f) else ("inf" if f == math.inf else "-inf" if f == -math.inf else None)
            if py is None:
                fr = Fraction(f)
                py = str(fr.numerator) if fr.denominator == 1 else "%d/%d" % (fr.numerator, fr.denominator)
        except ValueError:
            py = "err"
        if mo != py:
            ctx.disagree("model-vs-code:float()", s, mo, py)
    ctx.extra["float_literals_compared"] = len(strs)


def replay(data):
    r = data["replay"]
    want, _ = expect(r["ver"], r["text"])
    got = core.impl_construct(r["ver"], "", r["text"], rh=True).rstrip("\t")
    for _ in range(int(r.get("repeat", 1)) - 1):
        got = core.impl_construct(r["ver"], "", r["text"], rh=True).rstrip("\t")
    ok = want == got
    if r.get("roundtrip"):
        o, _ = obs.construct(r["ver"], r["roundtrip"], warm=True)
        rh = o.rh_vector()
        t10 = int(round(abs(o.scores()[0]) * 10))
        ok = ok and rh == "%d.%d/%s" % (t10 // 10, t10 % 10, o.clean_vector())
        try:
            ok = ok and core.impl().cls[r["ver"]].from_rh_vector(rh) == o
        except Exception:  # noqa
            ok = False
        return ok, "x=CVSS%s(%r): rh_vector()=%r, from_rh_vector round trip %s" % (r["ver"], r["roundtrip"], rh, "ok" if ok else "FAILS")
    return ok, "CVSS%s.from_rh_vector(%r): %s, expected %s" % (r["ver"], r["text"], got, want)
