"""C06 — only effective metric values influence the scores (non-interference)."""
from __future__ import annotations

from .. import core, obs
from ..core import VOCAB

RULE = ("accepted vectors x the five substitution families of the statement, each applied to a random subset of the "
        "eligible metrics: (a) ND Modified -> base value, (b) ND -> declared equivalent, (c) v4 supplemental "
        "add/change/remove, (d) change of a base metric overridden by a defined Modified metric, (e) "
        "temporal/environmental metrics vs base score, environmental vs temporal; scores compared on the real "
        "code and model-vs-code; distinct = distinct (version, family, variant string)"
        " + starting points also from the special families (corners, caps, low end, full spelling, rounding ties); look-alike constructions in between")
ASSUMPTIONS = []

EQUIV = {"2": {"E": "H", "RL": "U", "RC": "C", "CDP": "N", "TD": "H", "CR": "M", "IR": "M", "AR": "M"},
         "3": {"E": "H", "RL": "U", "RC": "C", "CR": "M", "IR": "M", "AR": "M"},
         "4": {"E": "A", "CR": "H", "IR": "H", "AR": "H"}}
MODIFIED = {"3": ["MAV", "MAC", "MPR", "MUI", "MS", "MC", "MI", "MA"],
            "4": ["MAV", "MAC", "MAT", "MPR", "MUI", "MVC", "MVI", "MVA", "MSC", "MSI", "MSA"]}


def to_str(ver, pfx, a, rng):
    ks = list(a)
    rng.shuffle(ks)
    return pfx + "/".join("%s:%s" % (k, a[k]) for k in ks)


def scores_of(ver, s):
    o, e = obs.construct(ver, s, warm=True)
    if o is None:
        return None, e
    try:
        return list(o.scores()), None
    except Exception as ex:  # noqa
        return None, "scores() raised %s" % type(ex).__name__


def variants(ver, a, rng):
    """yield (family, new assignment, slots that must be unchanged when defined)"""
    V = VOCAB[ver]
    nd = V["nd"]
    allslots = [0, 1, 2] if ver != "4" else [0]
    isnd = lambda m: a.get(m, nd) == nd  # noqa
    # (a)
    if ver in MODIFIED:
        el = [m for m in MODIFIED[ver] if isnd(m)]
        sub = [m for m in el if rng.random() < 0.5]
        if sub:
            b = dict(a)
            for m in sub:
                b[m] = a[m[1:]]
            yield "a", b, allslots
    # (b)
    el = [m for m in EQUIV[ver] if isnd(m)]
    sub = [m for m in el if rng.random() < 0.5]
    if sub:
        b = dict(a)
        for m in sub:
            b[m] = EQUIV[ver][m]
        yield "b", b, allslots
    # (c)
    if ver == "4":
        b = dict(a)
        for m in V["supplemental"]:
            x = rng.random()
            if x < 0.4:
                b[m] = rng.choice(V["legal"][m])
            elif x < 0.6:
                b.pop(m, None)
        if b != a:
            yield "c", b, allslots
    # (d)
    if ver in MODIFIED:
        el = [m for m in MODIFIED[ver] if not isnd(m)]
        sub = [m for m in el if rng.random() < 0.6]
        if sub:
            b = dict(a)
            for m in sub:
                b[m[1:]] = rng.choice(V["legal"][m[1:]])
            if b != a:
                yield "d", b, ([2] if ver == "3" else [0])
    # (e)
    if ver in "23":
        b = dict(a)
        for m in V["temporal"] + V["environmental"]:
            x = rng.random()
            if x < 0.4:
                b[m] = rng.choice(V["legal"][m])
            elif x < 0.6:
                b.pop(m, None)
        if b != a:
            yield "e-base", b, [0]
        b = dict(a)
        for m in V["environmental"]:
            x = rng.random()
            if x < 0.4:
                b[m] = rng.choice(V["legal"][m])
            elif x < 0.6:
                b.pop(m, None)
        if b != a:
            yield "e-temporal", b, [0, 1]


SLOT = ["base", "temporal", "environmental"]


def run(ctx):
    rng = ctx.rng
    cases = []
    for _ in range(ctx.n(9000, 250000)):
        ver = rng.choice("234")
        a = core.rand_assignment(ver, rng, p_absent=rng.choice([0.2, 0.5]), p_nd=0.2)
        pfx = rng.choice(core.PREFIX[ver])
        s = to_str(ver, pfx, a, rng)
        for fam, b, slots in variants(ver, a, rng):
            cases.append((ver, fam, s, to_str(ver, pfx, b, rng), slots))
    # the special families (corners, caps, low end, every metric spelled out, rounding ties) as starting points too
    fam_strings = [("2", s) for s in core.v2_low_family()[::2]]
    for ver in "234":
        fam_strings += [(ver, s) for s in core.special(ver, rng, ctx.n(1200, 25000))]
    for ver, s0 in fam_strings:
        pfx, fields = obs.parse_fields(ver, s0)
        a = dict(fields)
        for fam, b, slots in variants(ver, a, rng):
            cases.append((ver, fam, s0, to_str(ver, pfx, b, rng), slots))
    ctx.sample({"family": cases[0][1], "vector": cases[0][2], "variant": cases[0][3]})
    for ver in "234":
        flat = list(dict.fromkeys([(ver, c[2]) for c in cases if c[0] == ver] + [(ver, c[3]) for c in cases if c[0] == ver]))
        ctx.count(len(flat))
        if ctx.model_available and flat:
            n, dis, _ = core.compare_construct(flat, "s", ctx.tally)
            for v, s, mo, io_ in dis:
                ctx.disagree("model-vs-code:v%s:scores" % v, s, mo, io_)
    from .. import conc
    fl = []
    for ver, fam, s, t, slots in cases[:: max(1, len(cases) // ctx.n(120, 1200))]:
        fl += [["S", ver, s], ["S", ver, t]]
    conc.flag_variants(ctx, [op for op in fl if core.sendable(op[2])], "substitutions")
    for ver, fam, s, t, slots in cases:
        ctx.nontrivial((ver, fam, t))
        ctx.tally.add("family:" + fam)
        x, ex = scores_of(ver, s)
        y, ey = scores_of(ver, t)
        rp = {"ver": ver, "a": s, "b": t, "slots": slots, "family": fam}
        if x is None or y is None:
            ctx.violation("v%s:(%s):vector-rejected" % (ver, fam), "an accepted vector or its substitution variant is rejected",
                          {"a": s, "b": t}, "accepted", ex or ey, replay=rp)
            continue
        for i in slots:
            if x[i] is not None and x[i] != y[i]:
                ctx.violation("v%s:(%s):%s-score-changes" % (ver, fam[0], SLOT[i]),
                              "substitution (%s) changes the %s score" % (fam, SLOT[i]),
                              {"a": s, "b": t}, x, y, replay=rp)


def replay(data):
    r = data["replay"]
    x, ex = scores_of(r["ver"], r["a"])
    y, ey = scores_of(r["ver"], r["b"])
    if x is None:
        return obs.rejected_verdict(r["ver"], r["a"], ex)
    if y is None:
        return obs.rejected_verdict(r["ver"], r["b"], ey)
    ok = all(x[i] is None or x[i] == y[i] for i in r["slots"])
    return ok, "scores(%r)=%r scores(%r)=%r (slots %r must agree)" % (r["a"], x, r["b"], y, r["slots"])
