"""C07 — clean_vector() is a canonical form; equality and hash are consistent with it."""
from __future__ import annotations

from .. import core, obs
from ..core import VOCAB, enc

RULE = ("accepted vectors (every version, random spelling): clean vector vs the expected canonical listing of "
        "the defined metrics, re-parse round trip; pairs of vectors differing in 0 / 1 / several metrics, in "
        "spelling only, in minor version, in class: ==, !=, hash, set/dict membership vs 'same version and "
        "same defined metric values'; distinct = distinct objects + distinct pairs"
        " + special families, systematic field orders; the clean vector of every ACCEPTED edited string re-parses to an equal object and is a vector of the Lean grammar")
ASSUMPTIONS = ["the fixed metric order is read off the clean vector of a vector defining every metric"]


def defined(ver, a):
    nd = VOCAB[ver]["nd"]
    return {m: v for m, v in a.items() if v != nd}


def ref_order(ver):
    """the one fixed order: as the implementation lists a vector that defines every metric"""
    V = VOCAB[ver]
    a = {m: [v for v in vals if v != V["nd"]][0] for m, vals in V["vocab"]}
    o, e = obs.construct(ver, core.render(ver, a))
    if o is None:
        return None
    body = o.clean_vector()
    for p in core.PREFIX[ver]:
        if p and body.startswith(p):
            body = body[len(p):]
    order = [f.split(":")[0] for f in body.split("/")]
    return order if sorted(order) == sorted(V["order"]) else None


def check_single(ctx, ver, pfx, a, s, orders):
    """the single-object clauses of the statement; returns the object (or None if rejected)"""
    o, e = obs.construct(ver, s, warm=True)
    rp = {"kind": "single", "ver": ver, "s": s, "assignment": a, "prefix": pfx}
    if o is None:
        ctx.violation("v%s:valid-vector-rejected" % ver, "accepted vector rejected", s, "accepted", e, replay=rp)
        return None
    d = defined(ver, a)
    want_body = "/".join("%s:%s" % (m, d[m]) for m in orders[ver] if m in d)
    try:
        c = o.clean_vector()
        cn = c if ver == "2" else o.clean_vector(output_prefix=False)
    except Exception as ex:  # noqa
        ctx.violation("v%s:clean-raised" % ver, "clean_vector() raised", s, None, repr(ex), replay=rp)
        return o
    if c != pfx + want_body:
        ctx.violation("v%s:clean-not-canonical" % ver, "clean_vector() is not prefix + the defined metrics, once each, in the fixed order",
                      s, pfx + want_body, c, replay=rp)
    if cn != want_body:
        ctx.violation("v%s:clean-noprefix" % ver, "clean_vector(output_prefix=False) is not the clean vector without prefix",
                      s, want_body, cn, replay=rp)
    o2, e2 = obs.construct(ver, c, warm=True)
    if o2 is None:
        ctx.violation("v%s:clean-does-not-reparse" % ver, "re-parsing the clean vector fails", s, "accepted", e2, replay=rp)
    else:
        try:
            if not (o2 == o and o == o2) or o2.scores() != o.scores() or o2.clean_vector() != c or hash(o2) != hash(o) \
                    or o2.severities() != o.severities():
                ctx.violation("v%s:clean-roundtrip" % ver, "re-parsing the clean vector does not yield an equal object with the same scores/clean vector",
                              s, (o.scores(), c), (o2.scores(), o2.clean_vector(), o2 == o), replay=rp)
        except Exception as ex:  # noqa
            ctx.violation("v%s:roundtrip-raised" % ver, "accessor raised on the re-parsed object", s, None, repr(ex), replay=rp)
    return o


def run(ctx):
    rng = ctx.rng
    objs = []
    for _ in range(ctx.n(9000, 250000)):
        ver = rng.choice("234")
        a = core.rand_assignment(ver, rng, p_absent=rng.choice([0.2, 0.5, 0.8]))
        pfx = rng.choice(core.PREFIX[ver])
        objs.append((ver, pfx, a, core.render(ver, a, rng, prefix=pfx)))
    for ver in "234":
        for s in core.special(ver, rng, ctx.n(1200, 30000)):
            pfx, fields = obs.parse_fields(ver, s)
            objs.append((ver, pfx, dict(fields), s))
    for _ in range(ctx.n(400, 8000)):
        ver = rng.choice("234")
        a = core.rand_assignment(ver, rng, p_absent=rng.choice([0.0, 0.3, 0.7]), p_nd=rng.choice([0.0, 0.2]))
        for s in core.order_variants(ver, a, rng):
            pfx, fields = obs.parse_fields(ver, s)
            objs.append((ver, pfx, a, s))
    ctx.sample({"vector": objs[0][3]})
    orders = {v: ref_order(v) for v in "234"}
    for v in "234":
        if orders[v] is None:
            ctx.violation("v%s:full-vector-clean" % v, "the clean vector of a vector defining every metric does not list every metric once", None)
            return
    for ver in "234":
        flat = [(ver, s) for v, _, _, s in objs if v == ver]
        ctx.count(len(flat))
        if ctx.model_available and flat:
            n, dis, _ = core.compare_construct(flat, "csn" if ver != "2" else "cs", ctx.tally)
            for v, s, mo, io_ in dis:
                ctx.disagree("model-vs-code:v%s:clean" % v, s, mo[:300], io_[:300])
    built = []
    for ver, pfx, a, s in objs:
        ctx.nontrivial((ver, s))
        o = check_single(ctx, ver, pfx, a, s, orders)
        if o is not None:
            built.append((ver, pfx, a, s, o))
    # pairs
    pairs = []
    nb = len(built)
    for _ in range(ctx.n(16000, 500000)):
        x = built[rng.randrange(nb)]
        kind = rng.randrange(6)
        ver, pfx, a, s, o = x
        V = VOCAB[ver]
        if kind == 0:  # other spelling of the same vector
            b = dict(a)
            for m in V["order"]:
                if m not in b and V["nd"] in V["legal"][m] and rng.random() < 0.3:
                    b[m] = V["nd"]
            y = (ver, pfx, b, core.render(ver, b, rng, prefix=pfx))
        elif kind == 1:  # one metric changed
            b = dict(a)
            m = rng.choice(V["order"])
            b[m] = rng.choice(V["legal"][m])
            y = (ver, pfx, b, core.render(ver, b, rng, prefix=pfx))
        elif kind == 2:  # several
            b = dict(a)
            for _ in range(3):
                m = rng.choice(V["order"])
                b[m] = rng.choice(V["legal"][m])
            y = (ver, pfx, b, core.render(ver, b, rng, prefix=pfx))
        elif kind == 3:  # other minor version / same
            p2 = rng.choice(core.PREFIX[ver])
            y = (ver, p2, a, core.render(ver, a, rng, prefix=p2))
        elif kind == 4:  # another random object, maybe of another class
            z = built[rng.randrange(nb)]
            y = z[:4]
        else:  # identical string
            y = (ver, pfx, a, s)
        pairs.append((x, y))
    ctx.count(len(pairs))
    qlines = []
    for x, y in pairs:
        ctx.nontrivial(("pair", x[0], x[3], y[0], y[3]))
        ver, pfx, a, s, o = x
        v2_, p2, b, t = y
        p, e = obs.construct(v2_, t, warm=True)
        rp = {"kind": "pair", "a": [ver, s], "b": [v2_, t]}
        if p is None:
            ctx.violation("v%s:valid-vector-rejected" % v2_, "accepted vector rejected", t, "accepted", e, replay=rp)
            continue
        want = (ver == v2_) and (pfx == p2) and defined(ver, a) == defined(v2_, b)
        try:
            eq1, eq2, ne = (o == p), (p == o), (o != p)
            h = hash(o) == hash(p)
            inset = p in {o}
            indict = {o: 1}.get(p) == 1
        except Exception as ex:  # noqa
            ctx.violation("v%s:eq-raised" % ver, "==/hash raised", rp, None, repr(ex), replay=rp)
            continue
        if eq1 != want or eq2 != want or ne == want:
            ctx.violation("eq-differs-from-same-version-and-defined-metrics:%s" % ("should-be-equal" if want else "should-differ"),
                          "a == b disagrees with 'same version and same defined metric values'", rp, want, (eq1, eq2, ne), replay=rp)
        if want and not h:
            ctx.violation("equal-objects-hash-differently", "equal objects have different hashes", rp, True, h, replay=rp)
        if inset != want or indict != want:
            ctx.violation("set-or-dict-membership", "set/dict membership disagrees with equality", rp, want, (inset, indict), replay=rp)
        if want:
            try:
                if o.scores() != p.scores() or o.severities() != p.severities() or o.clean_vector() != p.clean_vector():
                    ctx.violation("equal-objects-differ-in-observables", "equal objects differ in scores/ratings/clean vector", rp, None, None, replay=rp)
            except Exception as ex:  # noqa
                ctx.violation("v%s:accessor-raised" % ver, "accessor raised", rp, None, repr(ex), replay=rp)
        if ver == v2_ and core.sendable(s + t):
            qlines.append((ver, s, t, eq1, h))
    # model-vs-code on equality / hash key
    if ctx.model_available and qlines:
        res = core.run_driver(["Q\t%s\t%s\t%s" % (v, enc(s), enc(t)) for v, s, t, _, _ in qlines])
        for (v, s, t, eq1, h), mo in zip(qlines, res):
            parts = mo.split("\t")
            if parts[0] != "ok" or (parts[1] == "1") != eq1 or (parts[1] == "1" and not h):
                ctx.disagree("model-vs-code:v%s:eq" % v, [s, t], mo, "eq=%s hash_eq=%s" % (eq1, h))
    # whatever near-valid strings the constructors ACCEPT: their clean vector must be a vector of the version's grammar
    # (Lean specification), re-parse to an equal object, and be a fixed point
    acc = []
    for ver, pfx, a, s, o in built[: ctx.n(6000, 80000)]:
        for _ in range(2):
            t = core.edit(s, rng, ver)
            if t == s:
                continue
            p, _ = obs.construct(ver, t)
            if p is None:
                continue
            ctx.count()
            rp = {"kind": "accepted", "ver": ver, "s": t}
            try:
                c = p.clean_vector()
                q, e = obs.construct(ver, c)
                if q is None or not (q == p) or hash(q) != hash(p) or q.clean_vector() != c or q.scores() != p.scores():
                    ctx.violation("v%s:clean-roundtrip-of-accepted-string" % ver, "the clean vector of an accepted string does not re-parse to an equal object",
                                  t, c, None if q is None else (q.clean_vector(), q == p), replay=rp)
                acc.append((ver, t, c))
            except Exception as ex:  # noqa
                ctx.violation("v%s:clean-raised" % ver, "clean_vector() raised", t, None, repr(ex), replay=rp)
    ctx.extra["accepted_edited_strings"] = len(acc)
    if ctx.model_available and acc:
        sel = [(v, t, c) for v, t, c in acc if core.sendable(c)]
        verdict = core.run_driver(["S\tacc\t%s\t%s" % (v, enc(c)) for v, t, c in sel])
        for (v, t, c), vd in zip(sel, verdict):
            if vd != "ok":
                ctx.violation("v%s:clean-vector-not-in-grammar" % v, "the clean vector of an accepted string is not a valid vector of the version's grammar",
                              t, "a valid v%s vector" % v, c, replay={"kind": "accepted", "ver": v, "s": t})
    from .. import conc
    conc.pickle_across(ctx, [(ver, s) for ver, pfx, a, s, o in built[:: max(1, len(built) // 80)]], "canonical-form")
    conc.flag_variants(ctx, [["C", ver, s] for ver, pfx, a, s, o in built[:: max(1, len(built) // 100)]], "canonical-form")
    # the output_prefix flag is a truth value: any truthy / falsy argument behaves like True / False
    for ver, pfx, a, s, o in built[:: max(1, len(built) // 300)]:
        if ver == "2":
            continue
        for flag in (0, None, "", [], (), 0.0, 1, 2, "yes", (0,), [0], -1, 1.5):
            try:
                got = o.clean_vector(output_prefix=flag)
                want = o.clean_vector(output_prefix=bool(flag))
            except Exception as ex:  # noqa
                got, want = "raised %r" % ex, "the result for %r" % bool(flag)
            ctx.count()
            if got != want:
                ctx.violation("v%s:clean_vector-flag-not-a-truth-value" % ver, "clean_vector(output_prefix=%r) differs from output_prefix=%r" % (flag, bool(flag)),
                              s, want, got, replay={"kind": "single", "ver": ver, "s": s, "assignment": a, "prefix": pfx})
                break
    # other types
    for ver, pfx, a, s, o in built[:200]:
        for other in (s, None, 0, o.clean_vector(), (s,), object()):
            try:
                if o == other or not (o != other):
                    ctx.violation("equals-foreign-type", "an object equals a value of another type", [s, repr(other)], False, True,
                                  replay={"kind": "single", "ver": ver, "s": s, "assignment": a, "prefix": pfx})
            except Exception as ex:  # noqa
                ctx.violation("eq-foreign-raised", "== with a foreign value raised", [s, repr(other)], None, repr(ex))


class _Collect:
    def __init__(self):
        self.v = []

    def violation(self, sig, what, *a, **k):
        self.v.append(sig)

    def nontrivial(self, *a):
        pass


def replay(data):
    r = data["replay"]
    c = _Collect()
    if r.get("kind") == "accepted":
        p, e = obs.construct(r["ver"], r["s"])
        if p is None:
            return True, "CVSS%s(%r) is rejected (%s)" % (r["ver"], r["s"], e)
        cv = p.clean_vector()
        q, e2 = obs.construct(r["ver"], cv)
        ok = q is not None and q == p and hash(q) == hash(p) and q.clean_vector() == cv
        vd = core.run_driver(["S\tacc\t%s\t%s" % (r["ver"], enc(cv))])[0] if core.sendable(cv) else "ok"
        return ok and vd == "ok", "CVSS%s(%r) accepted; clean vector %r: re-parses to an equal object: %s; grammar verdict: %s" % (
            r["ver"], r["s"], cv, ok, vd)
    if r["kind"] == "pair":
        (va, a), (vb, b) = r["a"], r["b"]
        oa, _ = obs.construct(va, a, warm=True)
        ob, _ = obs.construct(vb, b, warm=True)
        if oa is None:
            return obs.rejected_verdict(va, a, "rejected")
        if ob is None:
            return obs.rejected_verdict(vb, b, "rejected")
        exp = data.get("expected")
        msg = "a=%s(%r) b=%s(%r): a==b %s, hash equal %s, clean %r / %r; expected equal=%r" % (
            va, a, vb, b, oa == ob, hash(oa) == hash(ob), oa.clean_vector(), ob.clean_vector(), exp)
        if isinstance(exp, bool):
            ok = (oa == ob) == exp and (ob == oa) == exp and (not exp or hash(oa) == hash(ob)) and ((ob in {oa}) == exp)
        else:
            ok = True
        return ok, msg
    orders = {v: ref_order(v) for v in "234"}
    check_single(c, r["ver"], r["prefix"], r["assignment"], r["s"], orders)
    sig = data.get("signature")
    ok = (sig not in c.v) if sig else not c.v
    return ok, "CVSS%s(%r): failing clauses now: %r" % (r["ver"], r["s"], c.v)
