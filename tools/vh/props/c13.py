"""C13 — text extraction is total, sound, complete for delimited vectors, duplicate-free."""
from __future__ import annotations

import importlib

import zlib

from .. import core, obs
from ..core import enc

RULE = ("texts assembled from filler (words, digits, punctuation, new lines, non-ASCII, Unicode digits) and vector-like "
        "pieces: valid v2/v3/v4 vectors (delimited or glued to class characters), near-valid edits, repeated vectors, "
        "other spellings of the same vector, 25/26-character runs, bogus CVSS:3.x prefixes; oracle: no exception, "
        "every result built from a substring valid for its class, every delimited valid v2/v3 vector returned, no two "
        "results equal; model-vs-code on the result set; distinct = distinct texts"
        " + runs of optional-only fields (no base metric); LONG texts (4 KiB .. 256 KiB) with a full-length v3 vector at every offset around a power of two; the ORDER of the result (first occurrence) as auxiliary tie")
ASSUMPTIONS = ["C13 itself says nothing about the order of the result: the primary tie compares sets, the order (first occurrence since repo fix 9402f24, required by C19/C20) is tied as auxiliary correspondence"]

CLASS = set("ABCDEFGHIJKLMNOPQRSTUVWXYZabcdefghijklmnopqrstuvwxyz:/")
FILLER = ["the", "score", "is", "CVE-2024-1234", "(", ")", ",", ".", " ", "\n", "  ", "7.5", "CVSS", "v3", "base:", "vector=", "see",
          "été", "٣", "3.1", "-", "\"", "'", ";", "=", "[", "]", "CVSS:", "AV:N", "10", "\t", "CVSS:3.1/", "CVSS:3.٣/"]


def make_text(rng):
    """returns (text, [(ver, vector)] that occur delimited and are valid)"""
    parts = []
    must = []
    n = rng.randrange(1, 7)
    seen = []
    for _ in range(n):
        for _ in range(rng.randrange(0, 4)):
            parts.append(rng.choice(FILLER))
        kind = rng.random()
        ver = rng.choice("2233334")
        if seen and kind < 0.15:
            ver, s = rng.choice(seen)  # repeated / respelled
            if rng.random() < 0.5:
                pfx, f = obs.parse_fields(ver, s)
                rng.shuffle(f)
                s = pfx + "/".join("%s:%s" % mv for mv in f)
        else:
            s = core.rand_vector(ver, rng, p_absent=rng.choice([0.3, 0.7, 1.0]))
        seen.append((ver, s))
        piece = s
        valid = True
        r = rng.random()
        if r < 0.2:
            piece = core.edit(s, rng, ver)
            valid = None  # unknown
        # delimiters
        left = rng.choice([" ", "\n", "(", "\"", "=", "", "x", ":", "/", "1", ".", "é", "٣", "\ud800", "x\udfff", "\u00a0", "\u200b", "\x00", "\U0001f600", "_", "-"])
        right = rng.choice([" ", "\n", ")", "\"", ",", "", "x", ":", "/", "1", ".", "é", "\udc00", "\ud83dx", "\u00a0", "\u200b", "\x00", "_", "-"])
        parts.append(left + piece + right)
        parts.append(("__END__", valid, ver, piece))
    # assemble and decide delimitation on the final text
    text = ""
    marks = []
    for p in parts:
        if isinstance(p, tuple):
            _, valid, ver, piece = p
            marks.append((valid, ver, piece, len(text)))
        else:
            text += p
    for valid, ver, piece, end in marks:
        if valid is not True or ver == "4":
            continue
        # locate: the piece ends 'len(right)' before end; search backwards
        idx = text.rfind(piece, 0, end)
        if idx < 0:
            continue
        before = text[idx - 1] if idx > 0 else None
        after = text[idx + len(piece)] if idx + len(piece) < len(text) else None
        if (before is None or before not in CLASS) and (after is None or after not in CLASS):
            must.append((ver, piece))
    return text, must


RETURNED = []   # (class, source substring, text) of every object returned in this run: validity is decided by the Lean grammar


def extract(text):
    parser = importlib.import_module("cvss.parser")
    return parser.parse_cvss_from_text(text)


def oracle(ctx, text, must):
    rp = {"text": text, "must": must}
    try:
        res = extract(text)
    except BaseException as ex:  # noqa
        ctx.violation("raises:%s" % type(ex).__name__, "parse_cvss_from_text raises", text, "a list", repr(ex), replay=rp)
        return None
    im = core.impl()
    out = []
    for o in res:
        ver = "2" if isinstance(o, im.cls["2"]) else "3" if isinstance(o, im.cls["3"]) else "4" if isinstance(o, im.cls["4"]) else "?"
        vec = getattr(o, "vector", None)
        if ver == "?" or not isinstance(vec, str) or vec not in text:
            ctx.violation("unsound:not-a-substring", "a returned object was not built from a substring of the text", text, None, repr(vec), replay=rp)
            continue
        o2, e2 = obs.construct(ver, vec)
        if o2 is None or not (o2 == o):
            ctx.violation("unsound:substring-not-valid-for-class", "a returned object's source substring is not a valid vector of its class",
                          text, None, [ver, vec, e2], replay=rp)
        out.append((ver, o.clean_vector()))
        RETURNED.append((ver, vec, text))
    for i in range(len(res)):
        for j in range(i + 1, len(res)):
            if res[i] == res[j]:
                ctx.violation("duplicates", "two returned objects are equal", text, None, [res[i].vector, res[j].vector], replay=rp)
    for ver, piece in must:
        o, _ = obs.construct(ver, piece)
        if o is not None and not any(o == r for r in res):
            ctx.violation("incomplete:v%s-delimited-vector-missed" % ver, "a valid delimited vector in the text is not returned",
                          text, piece, [r.vector for r in res], replay=rp)
    ORDERED[text] = ["%s=%s" % x for x in out]
    return sorted(set("%s=%s" % x for x in out))


ORDERED = {}      # text -> result in the order returned (auxiliary tie: first-occurrence order, which C19/C20 rely on)

FIXED = ["", "AV:N/AC:L/Au:N/C:P/I:P/A:P", "xAV:N/AC:L/Au:N/C:P/I:P/A:P", "CVSS:3.1/AV:N/AC:L/PR:N/UI:N/S:U/C:H/I:H/A:H",
         "(CVSS:3.0/AV:N/AC:L/PR:N/UI:N/S:U/C:H/I:H/A:H)", "CVSS:3.1/AV:N/AC:L/PR:N/UI:N/S:U/C:H/I:H/A:H AV:N/AC:L/Au:N/C:P/I:P/A:P",
         "CVSS:3.1/AV:N/AC:L/PR:N/UI:N/S:U/C:H/I:H/A:H\nCVSS:3.1/AC:L/AV:N/PR:N/UI:N/S:U/C:H/I:H/A:H",
         "CVSS:3.٣/AV:N/AC:L/Au:N/C:P/I:P/A:P", "CVSS:3.1/AV:N/AC:L/Au:N/C:P/I:P/A:P", "CVSS:3.1/x", "A" * 26, "A" * 25 + " AV:N/AC:L/Au:N/C:P/I:P/A:P",
         "CVSS:4.0/AV:N/AC:L/AT:N/PR:N/UI:N/VC:H/VI:H/VA:H/SC:H/SI:H/SA:H", "CVSS:3.1/AV:N/AC:L/PR:N/UI:N/S:U/C:H/I:H/A:H/",
         "7.5/CVSS:3.1/AV:N/AC:L/PR:N/UI:N/S:U/C:H/I:H/A:H", "CVSS:3.1/CVSS:3.1/AV:N/AC:L/PR:N/UI:N/S:U/C:H/I:H/A:H"]


def fragment_text(rng):
    """a text containing a run of >= 26 class characters made of OPTIONAL fields only (no base metric at all):
    a candidate the scanner hands to a constructor, which must reject it with an error of the hierarchy"""
    ver = rng.choice("23")
    frag = ""
    while len(frag) < 26:
        frag = core.optional_only(ver, rng, 1)[0]
    if rng.random() < 0.3:
        frag = frag.split("/", 1)[1] if frag.startswith("CVSS") else frag
    text, must = make_text(rng)
    return rng.choice([frag, text + " " + frag, frag + "\n" + text, text + "(" + frag + ")" + text]), []


def long_text(rng, boundary, delta):
    """a LONG text (around `boundary` characters, a power of two) with a full-length valid v3 vector that starts `delta`
    characters before the boundary and a short v2 vector just after it: sizes at which chunked / windowed scanning,
    buffers or recursion limits would start to matter"""
    full = core.rand_vector("3", rng, p_absent=0.0, p_nd=0.0)
    short = core.rand_vector("2", rng, p_absent=1.0)
    filler = "".join(rng.choice(FILLER) for _ in range(40)) or "lorem ipsum "
    head_len = max(0, boundary - delta)
    head = (filler * (head_len // max(1, len(filler)) + 1))[:head_len]
    if head and head[-1] in CLASS:
        head = head[:-1] + " "
    tail = " " + short + " " + (filler * 3)[: rng.randrange(0, 300)]
    if rng.random() < 0.5:
        tail += (filler * (boundary // max(1, len(filler)) + 1))[: boundary // 2] + " " + full + "."
    return head + full + tail, [("3", full), ("2", short)]


def run(ctx):
    rng = ctx.rng
    texts = [(t, []) for t in FIXED]
    for _ in range(ctx.n(6000, 150000)):
        texts.append(make_text(rng))
    for _ in range(ctx.n(300, 6000)):
        texts.append(fragment_text(rng))
    for boundary in ([4096, 65536] if ctx.tier == "quick" else [1024, 4096, 8192, 16384, 32768, 65536, 131072, 262144]):
        for delta in list(range(0, 14)) + [rng.randrange(14, 140) for _ in range(4)] + [-1, -5]:
            texts.append(long_text(rng, boundary, delta))
    # megabyte sizes: fewer offsets, but spread over a whole vector length (a window overlap shorter than a vector)
    for boundary in ([1 << 20] if ctx.tier == "quick" else [1 << 20, 1 << 21, 1 << 22, 3 << 20]):
        for delta in ([3, 40, 70, 100] if ctx.tier == "quick" else list(range(2, 130, 9))):
            texts.append(long_text(rng, boundary, delta))
    ctx.extra["longest_text"] = max(len(t) for t, _ in texts)
    from .. import conc
    conc.flag_variants(ctx, [["X", t] for t, _ in texts[:: max(1, len(texts) // ctx.n(80, 800))] if len(t) < 3000 and core.sendable(t)], "extraction")
    ctx.count(len(texts))
    ctx.sample({"text": texts[len(FIXED) + 1][0], "must_contain": texts[len(FIXED) + 1][1]})
    impl_sets = []
    from cvss.parser import parse_cvss_from_text as _parse
    for text, must in texts:
        ctx.nontrivial(text)
        impl_sets.append(oracle(ctx, text, must))
        if len(text) < 5000 and zlib.crc32(text.encode("utf-8", "replace")) % 5 == 0:
            # the returned list belongs to the caller: emptying / stuffing it must not change what the next call on the SAME
            # text returns
            try:
                r1 = _parse(text)
                del r1[:]
                r1.append("junk")
                r2 = _parse(text)
                r2.extend(r2[:])
            except Exception:  # noqa  (reported by the oracle)
                pass
            again = oracle(ctx, text, must)
            ctx.count()
            if again != impl_sets[-1]:
                ctx.violation("result-changes-after-the-caller-edited-an-earlier-result", "parse_cvss_from_text(text) returns something else after an earlier result list was edited",
                              text, impl_sets[-1], again, replay={"text": text, "must": [list(x) for x in must], "edited": True})
        ctx.tally.add("results:%d" % (len(impl_sets[-1]) if impl_sets[-1] is not None else -1))
    if ctx.model_available and RETURNED:
        ret = list(dict.fromkeys((v, vec) for v, vec, _ in RETURNED if core.sendable(vec)))
        verdict = core.run_driver(["S\tacc\t%s\t%s" % (v, enc(vec)) for v, vec in ret])
        badset = {(v, vec) for (v, vec), vd in zip(ret, verdict) if vd != "ok"}
        for v, vec, text in RETURNED:
            if (v, vec) in badset:
                ctx.violation("unsound:substring-not-in-grammar-v%s" % v, "a returned object was built from a substring that is not a valid vector of its version's grammar",
                              text, "valid v%s vector" % v, vec, replay={"text": text, "must": [], "grammar": [v, vec]})
        del RETURNED[:]
    if ctx.model_available:
        # direct tie of the scanner model to Python's re on the (pinned copy of the) library's pattern
        import re as _re
        pat = _re.compile(r"(?:CVSS:3\.\d/)?[A-Za-z:/]{26,}")
        sel0 = [t for t, _ in texts if core.sendable(t)]
        raw = core.run_driver(["XF\t%s" % enc(t) for t in sel0])
        for t, mo in zip(sel0, raw):
            want = "ok\t" + "\x01".join(core.esc(m) for m in pat.findall(t))
            if mo != want:
                ctx.disagree("scanner-model-vs-python-re", t, mo[:300], want[:300])
        sel = [(i, t) for i, (t, _) in enumerate(texts) if core.sendable(t)]
        out = core.run_driver(["X\t%s" % enc(t) for _, t in sel])
        for (i, t), mo in zip(sel, out):
            if mo.startswith("ok"):
                body = mo.split("\t", 1)[1] if "\t" in mo else ""
                ms = sorted(set("=".join(x.split("=")[:2]) for x in body.split(";") if x))
            else:
                ms = None
            if ms != impl_sets[i]:
                ctx.disagree("model-vs-code:parse_cvss_from_text", t, mo[:300], repr(impl_sets[i])[:300])
            elif ms is not None and t in ORDERED:
                mo_ord = ["=".join(x.split("=")[:2]) for x in body.split(";") if x]
                if mo_ord != ORDERED[t]:
                    ctx.aux("model-vs-code:parse_cvss_from_text:order-of-first-occurrence", t, repr(mo_ord)[:300], repr(ORDERED[t])[:300])
        ORDERED.clear()


def replay(data):
    r = data["replay"]

    class C:
        v = []

        def violation(self, sig, what, *a, **k):
            self.v.append(sig + ": " + what)
    c = C()
    res = oracle(c, r["text"], [tuple(x) for x in r["must"]])
    if r.get("edited"):
        from cvss.parser import parse_cvss_from_text as _parse
        try:
            r1 = _parse(r["text"])
            del r1[:]
            r1.append("junk")
            r2 = _parse(r["text"])
            r2.extend(r2[:])
        except Exception:  # noqa
            pass
        again = oracle(c, r["text"], [tuple(x) for x in r["must"]])
        if again != res:
            c.v.append("after the caller edited earlier result lists the same text gives %r instead of %r" % (again, res))
    if r.get("grammar"):
        v, vec = r["grammar"]
        still = any(rv == v and rvec == vec for rv, rvec, _ in RETURNED)
        del RETURNED[:]
        if still and core.run_driver(["S\tacc\t%s\t%s" % (v, enc(vec))])[0] != "ok":
            c.v.append("returned object built from %r, which is not in the v%s grammar" % (vec, v))
    return not c.v, "parse_cvss_from_text(%r) -> %r; %s" % (r["text"], res, "; ".join(c.v) or "ok")
