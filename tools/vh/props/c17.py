"""C17 — the command-line calculator reports what the library computes and never crashes."""
from __future__ import annotations

import json
import subprocess
import sys

from .. import core, inter, obs
from ..core import enc

RULE = ("cvss_calculator.main() in-process with patched argv/stdin/stdout/stderr: all subsets of {-2,-3,-4,-a,-n,-j} x "
        "{-v valid / invalid / other-version / empty vector, no -v with scripted answers incl. premature end of input}; "
        "oracle: exit status 0, no exception, empty stderr, stdout = what the API reports (scores with ratings, clean and "
        "RH vector, json.dumps(as_json(sort=True, minimal=True), indent=2)) or the library's error message, EOF = newline; "
        "report part compared with the Lean CLI model; thorough: also a real subprocess; distinct = distinct command lines"
        " + every prefix variant (other-script / superscript / circled digits); clustered illegal-answer runs in interactive sessions; report compared by VALUES in the API's order (layout-tolerant), exact layout auxiliary")
ASSUMPTIONS = ["VECTOR arguments do not start with '-' (argparse would read them as options)",
               "with several of -2/-3/-4 the selected version is only compared model-vs-code, not against the statement"]

VFLAGS = {"2": "2", "3": "3.0", "4": "4"}


def selected(flags):
    vs = [f for f in "234" if f in flags]
    if not vs:
        return "3.1", True
    return VFLAGS[vs[0]], len(vs) == 1


def expected_report(iver, vec, as_json):
    """stdout the statement demands once the vector string is known, from the API"""
    ver = iver[0]
    im = core.impl()
    try:
        o = im.cls[ver](vec)
    except im.CVSSError as e:
        return str(e) + "\n"
    lines = ["CVSS" + ver]
    sc = o.scores()
    sev = o.severities() if ver != "2" else None
    for i, name in enumerate(["Base Score", "Temporal Score", "Environmental Score"]):
        if i < len(sc):
            pad = " " * (24 - len(name) - 2)
            if ver == "2":
                lines.append("%s:%s%s" % (name, pad, sc[i]))
            else:
                lines.append("%s:%s%s (%s)" % (name, pad, sc[i], sev[i]))
    # every item from a FRESH object: what the API reports, independent of the order in which main() calls it
    lines.append("Cleaned vector:        " + im.cls[ver](vec).clean_vector())
    lines.append("Red Hat vector:        " + im.cls[ver](vec).rh_vector())
    if as_json:
        lines.append("CVSS vector in JSON:")
        lines.append(json.dumps(im.cls[ver](vec).as_json(sort=True, minimal=True), indent=2))
    return "\n".join(lines) + "\n"


import re as _re

_NUM = _re.compile(r"^\d+(\.\d+)?$")
_RATING = _re.compile(r"^\(?(None|Low|Medium|High|Critical)\)?$")
_VEC = _re.compile(r"^(\d+(\.\d+)?/)?(CVSS:\d\.\d/)?[A-Za-z]+:[A-Za-z]+(/[A-Za-z]+:[A-Za-z]+)*$")


def _split_json(report):
    m = _re.search(r"^\{", report, _re.M)
    if not m:
        return report, None
    try:
        from collections import OrderedDict
        return report[:m.start()], list(json.loads(report[m.start():], object_pairs_hook=OrderedDict).items())
    except ValueError:
        return report[:m.start()], "unparsable"


def report_tokens(report):
    """The VALUES a scores report carries, in order, whatever its layout (labels, padding, heading are not constrained by
    C17): score texts, ratings, vectors, and the JSON document (parsed, with its key order)."""
    text, doc = _split_json(report)
    toks = []
    for t in text.split():
        if _NUM.match(t) or _VEC.match(t):
            toks.append(t)
        elif _RATING.match(t):
            toks.append(t.strip("()"))
    return toks, doc


def same_content(report, want, ver):
    """(agrees, exactly): exact text, or - layout-tolerant - every value the API reports (score texts, ratings, clean and
    Red Hat vector) occurs in the report, in the API's order, and the JSON document is the same with the same key order"""
    if report == want:
        return True, True
    if not want.startswith("CVSS%s\n" % ver):        # an error message: it must be printed, whatever surrounds it
        return (want.strip() != "" and want.strip() in report and len(_full_vectors(report)) < 2), False
    wt, wdoc = report_tokens(want)
    text, doc = _split_json(report)
    words = iter(w.strip("()") if _RATING.match(w) else w for w in text.split())
    return all(any(w == t for w in words) for t in wt) and doc == wdoc, False


def _full_vectors(report):
    """tokens that look like complete emitted vectors (at least five fields), as the report's clean / Red Hat lines carry"""
    return [t for t in report_tokens(report)[0] if _VEC.match(t) and t.count("/") >= 5]


def shows_scores(report, ver):
    """does the calculator treat VECTOR as valid (prints a scores report)?  The frozen heading, or - whatever the layout -
    a score text together with the clean and the Red Hat vector"""
    toks = report_tokens(report)[0]
    return report.startswith("CVSS%s\n" % ver) or (len(_full_vectors(report)) >= 2 and any(_NUM.match(t) for t in toks))


def argv_of(flags, vec):
    argv = []
    for f in flags:
        argv.append("-" + f)
    if vec is not None:
        argv += ["-v", vec]
    return argv


def check(ctx, flags, vec, answers):
    argv = argv_of(flags, vec)
    rp = {"argv": argv, "stdin": answers}
    res = inter.run_main(argv, answers)
    iver, single = selected(flags)
    sig_v = "v" + iver
    if res["raised"] or res["exit"] != 0 or res["stderr"]:
        ctx.violation("%s:crash-or-nonzero-exit" % sig_v, "the calculator raises / exits non-zero / writes to stderr",
                      rp, "exit 0, empty stderr", {"exit": res["exit"], "raised": res["raised"], "stderr": res["stderr"][-300:]}, replay=rp)
        return res, None
    report = None
    if vec:
        dialogue = ""
        want_vec = vec
    else:
        a = inter.ask(iver, "a" in flags, answers, no_colors=("n" in flags))
        dialogue = a["stdout"]
        want_vec = a["vector"] if a["outcome"] == "result" else None
        # the vector the answers spell out, by the statement (independent simulation of C16), in the order asked
        from . import c16
        V = core.VOCAB[iver[0]]
        expected_set = V["order"] if "a" in flags else V["mandatory"]
        order = list(dict.fromkeys(m for m in c16.order_asked(iver, "a" in flags, a) if m in expected_set))
        sim = c16.simulate(iver, "a" in flags, answers, order + [m for m in expected_set if m not in order])
        if single and a["outcome"] == "result" and sim[0] == "result" and sim[1] != a["vector"]:
            ctx.violation("%s:interactive-vector-differs-from-answers" % sig_v, "the vector built interactively is not the one the answers spell out",
                          rp, sim[1], a["vector"], replay=rp)
            want_vec = sim[1]
    if not res["stdout"].startswith(dialogue):
        ctx.violation("%s:interactive-dialogue-differs" % sig_v, "the dialogue printed by the CLI differs from ask_interactively's", rp, dialogue[-200:], res["stdout"][:300], replay=rp)
        return res, None
    report = res["stdout"][len(dialogue):]
    if single:
        if want_vec is None:
            if report != "\n":
                ctx.violation("%s:eof-not-clean" % sig_v, "end of input during interactive entry does not end with a bare newline", rp, "\n", report, replay=rp)
        else:
            want = expected_report(iver, want_vec, "j" in flags)
            agrees, exactly = same_content(report, want, iver[0])
            if agrees and not exactly:
                ctx.aux("cli-report-layout-differs-from-the-frozen-layout", rp, want[:300], report[:300])
            if not agrees:
                kind = "error-message" if not want.startswith("CVSS%s\n" % iver[0]) else "report"
                ctx.violation("%s:%s-differs-from-api" % (sig_v, kind), "the calculator's output differs from what the library API reports", rp, want, report, replay=rp)
    return res, report


def run(ctx):
    rng = ctx.rng
    import itertools
    combos = []
    for r in range(0, 7):
        for c in itertools.combinations("234anj", r):
            combos.append("".join(c))
    cases = []
    for flags in combos:
        iver, _ = selected(flags)
        ver = iver[0]
        good = core.rand_vector(ver, rng, p_absent=rng.choice([0.3, 0.9]))
        if ver == "3":
            good = good.replace("CVSS:3.0/", "CVSS:%s/" % (iver if iver != "3" else "3.0")) if rng.random() < 0.5 else good
        other = core.rand_vector(rng.choice([v for v in "234" if v != ver]), rng, p_absent=0.8)
        bad = core.edit(good, rng, ver)
        for vec in (good, other, bad, "", "garbage", "AV:N"):
            if vec.startswith("-"):
                continue
            cases.append((flags, vec, inter.rand_answers(iver, "a" in flags, rng) if vec == "" else []))
        for _ in range(ctx.n(2, 12)):
            cases.append((flags, None, inter.rand_answers(iver, "a" in flags, rng, p_eof=0.3)))
    for _ in range(ctx.n(1500, 40000)):
        flags = rng.choice(combos)
        iver, _ = selected(flags)
        ver = iver[0]
        s = core.rand_vector(ver, rng, p_absent=rng.choice([0.2, 0.6, 0.95]))
        if rng.random() < 0.3:
            s = core.edit(s, rng, ver)
        if s.startswith("-"):
            continue
        cases.append((flags, s, []))
    # every prefix variant in front of a valid body ("never crashes": characters for which isdigit()/int()/float() disagree)
    for ver, flag in (("2", "2"), ("3", "3"), ("3", ""), ("4", "4")):
        body = core.render(ver, core.rand_assignment(ver, rng, p_absent=0.8), prefix="")
        for pe in core.PREFIX_EDITS:
            if not (pe + body).startswith("-") and (pe + body) != "":
                cases.append((flag + rng.choice(["", "j", "n"]), pe + body, []))
    # LONG runs of illegal answers to one question of an interactive session
    from . import c16
    for flags in ("2", "3", "4a", "", "4n"):
        iver, _ = selected(flags)
        order = c16.learned_order(iver, "a" in flags) or inter.question_order(iver[0], "a" in flags)
        k = rng.randrange(len(order))
        ans = []
        for j, m in enumerate(order):
            if j == k:
                ans += [rng.choice(["?", "ZZ", "0", "no"]) for _ in range(ctx.n(1300, 6000))]
            ans.append(rng.choice(core.VOCAB[iver[0]]["legal"][m]))
        cases.append((flags, None, ans))
    from .. import conc, probes as _probes
    small = [c for c in cases if len(c[2]) < 100 and core.sendable(c[1] or "") and all(core.sendable(x) for x in c[2])]
    conc.flag_variants(ctx, [["L", argv_of(f, v), a] for f, v, a in small[:: max(1, len(small) // ctx.n(80, 800))]], "cli")
    # the real command under terminal widths / TERM / colour conventions / locales and with stdout on a pseudo-terminal
    zero = [("3", "CVSS:3.1/AV:N/AC:L/PR:N/UI:N/S:U/C:N/I:N/A:N", []), ("4", "CVSS:4.0/AV:N/AC:L/AT:N/PR:N/UI:N/VC:N/VI:N/VA:N/SC:N/SI:N/SA:N", []),
            ("", "CVSS:3.0/AV:N/AC:L/PR:N/UI:N/S:U/C:H/I:H/A:H/MC:N/MI:N/MA:N", []), ("2j", "AV:L/AC:H/Au:M/C:N/I:N/A:N", [])]
    inter_cases = [c for c in small if not c[1] and c[2]][: ctx.n(6, 40)]
    conc.cli_environments(ctx, [(argv_of(f, v), a) for f, v, a in zero + inter_cases + small[:: max(1, len(small) // ctx.n(6, 60))]], "cli")
    ctx.count(len(cases))
    ctx.sample({"argv": argv_of(cases[7][0], cases[7][1]), "stdin": cases[7][2]})
    reports = []
    hist = []       # earlier interactive sessions of this process (a later report must not depend on them)
    hist_at = []
    for flags, vec, ans in cases:
        ctx.nontrivial((flags, vec, tuple(ans)))
        hist_at.append(len(hist))
        res, report = check(ctx, flags, vec, ans)
        reports.append(report)
        if not vec:
            hist.append([argv_of(flags, vec), ans])
        ctx.tally.add("flags:%d" % len(flags))
    # validity is decided by the version's grammar (Lean specification), not by the library itself
    if ctx.model_available:
        sel = [i for i, (f, v, a) in enumerate(cases) if v and reports[i] is not None and selected(f)[1] and core.sendable(v)]
        acc = core.run_driver(["S\tacc\t%s\t%s" % (selected(cases[i][0])[0][0], enc(cases[i][1])) for i in sel])
        for i, verdict in zip(sel, acc):
            f, v, a = cases[i]
            ver = selected(f)[0][0]
            if (verdict == "ok") != shows_scores(reports[i], ver):
                ctx.violation("v%s:%s" % (selected(f)[0], "valid-vector-reported-as-error" if verdict == "ok" else "invalid-vector-scored"),
                              "the calculator's verdict on VECTOR differs from the version's grammar (possibly after earlier sessions in the process)",
                              {"argv": argv_of(f, v), "earlier_interactive_sessions": len(hist[:hist_at[i]])}, verdict, reports[i][:200],
                              replay={"argv": argv_of(f, v), "stdin": a, "history": hist[max(0, hist_at[i] - 60):hist_at[i]]})
    # model-vs-code on the report part
    if ctx.model_available:
        sel = [i for i, (f, v, a) in enumerate(cases) if reports[i] is not None and core.sendable(v or "")
               and all(core.sendable(x) and all(ord(c) < 128 for c in x) for x in a)]
        lines = []
        for i in sel:
            f, v, a = cases[i]
            lines.append("L\t%s\t%s" % (f or "-", "none" if v is None else enc(v)) + "".join("\t" + enc(x) for x in a))
        out = core.run_driver(lines)
        for i, mo in zip(sel, out):
            f, v, a = cases[i]
            rep = reports[i]
            one_line = False
            if mo == "eof":
                want = "\n"
            elif mo.startswith("lines\t"):
                body = mo[6:].split("\t")
                want = "\n".join(_unesc(x) for x in body) + "\n"
                one_line = len(body) == 1      # one LOGICAL line (a message may itself echo a newline of the vector)
            else:
                want = mo
            ok = rep == want   # the model includes the library's message texts (Model/Messages.lean)
            if not ok and one_line and not want.startswith("CVSS"):
                # the model says "one error line": only the WORDING of the message may differ (no property fixes it);
                # what C17 demands is that the line is the library's own message for the selected version
                iver, _ = selected(f)
                vec_ = v if v else (inter.ask(iver, "a" in f, a, no_colors=True)["vector"] or "")
                api = expected_report(iver, vec_, "j" in f)
                if rep == api and not api.startswith("CVSS" + iver[0] + "\n"):
                    ok = True
                    ctx.aux("model-vs-code:message-text:cli", {"argv": argv_of(f, v)}, want[:200], rep[:200])
            if not ok and want.startswith("CVSS%s\n" % selected(f)[0][0]) and same_content(rep, want, selected(f)[0][0])[0]:
                ok = True      # same values in the same order, another layout: no property constrains the layout
                ctx.aux("model-vs-code:cli-report-layout", {"argv": argv_of(f, v)}, want[:200], rep[:200])
            if not ok:
                ctx.disagree("model-vs-code:cli-report", {"argv": argv_of(f, v), "stdin": a}, want[:300], rep[:300])
    # the COMPLETE stdout (interactive dialogue incl. colours + report + message texts): model vs code
    if ctx.model_available:
        sel2 = [i for i, (f, v, a) in enumerate(cases) if core.sendable(v or "") and not (v or "").startswith("-")
                and all(core.sendable(x) and all(ord(c) < 128 for c in x) for x in a)][: ctx.n(1500, 30000)]
        lines2 = ["LS\t%s\t%s" % (cases[i][0] or "-", "none" if cases[i][1] is None else enc(cases[i][1])) +
                  "".join("\t" + enc(x) for x in cases[i][2]) for i in sel2]
        out2 = core.run_driver(lines2)
        for i, mo in zip(sel2, out2):
            f, v, a = cases[i]
            res = inter.run_main(argv_of(f, v), a)
            want = "out\t" + core.esc(res["stdout"]) if not res["raised"] and res["exit"] == 0 else "crash"
            ctx.count()
            if mo != want:
                ctx.aux("model-vs-code:cli-stdout", {"argv": argv_of(f, v), "stdin": a}, mo[-300:], want[-300:])
    # message texts: the model of str(exception) vs the library, for constructors and from_rh_vector
    if ctx.model_available:
        probes_ = []
        for _ in range(ctx.n(2500, 60000)):
            ver = rng.choice("234")
            s = core.rand_vector(ver, rng, p_absent=rng.choice([0.3, 0.8]))
            for _ in range(rng.choice([1, 1, 2])):
                s = core.edit(s, rng, ver)
            if core.sendable(s):
                probes_.append(("M", rng.choice([ver, ver, rng.choice("234")]), s))
            if rng.random() < 0.3:
                sc = rng.choice(["7.5", "0.0", "10.0", "x", "", "7.50", " 9.8", "1e1", "9_8", "nan"])
                t_ = sc + "/" + s if rng.random() < 0.8 else s.replace("/", "|")
                if core.sendable(t_) and all(ord(c) < 128 for c in t_.split("/", 1)[0]):
                    probes_.append(("MR", ver, t_))
        out = core.run_driver(["%s\t%s\t%s" % (k, v, enc(s)) for k, v, s in probes_])
        im = core.impl()
        for (k, v, s), mo in zip(probes_, out):
            try:
                (im.cls[v].from_rh_vector if k == "MR" else im.cls[v])(s)
                want = "-"
            except im.CVSSError as e:
                want = "msg\t" + core.esc(str(e))
            except Exception as e:  # noqa
                want = "foreign:%s" % type(e).__name__
            ctx.count()
            if mo != want:
                ctx.aux("model-vs-code:message-text:%s" % k, [v, s], mo[:300], want[:300])
        ctx.extra["message_texts_compared"] = len(probes_)
    # thorough: a real subprocess for a sample
    if ctx.tier == "thorough":
        for flags, vec, ans in cases[:: max(1, len(cases) // 150)]:
            argv = argv_of(flags, vec)
            p = subprocess.run([sys.executable, "-m", "cvss.cvss_calculator"] + argv, input="".join(a + "\n" for a in ans).encode(),
                               stdout=subprocess.PIPE, stderr=subprocess.PIPE, cwd=core.REPO, timeout=60)
            ctx.count()
            if p.returncode != 0 or b"Traceback" in p.stderr:
                ctx.violation("subprocess:crash-or-nonzero-exit", "python -m cvss.cvss_calculator exits non-zero / prints a traceback",
                              {"argv": argv, "stdin": ans}, 0, {"exit": p.returncode, "stderr": p.stderr.decode()[-300:]},
                              replay={"argv": argv, "stdin": ans})


def _unesc(x):
    out, i = [], 0
    while i < len(x):
        if x[i] == "\\" and i + 1 < len(x):
            out.append({"t": "\t", "n": "\n", "r": "\r", "\\": "\\"}.get(x[i + 1], x[i + 1]))
            i += 2
        else:
            out.append(x[i])
            i += 1
    return "".join(out)


def replay(data):
    r = data["replay"]
    argv = r["argv"]
    flags = "".join(a[1] for a in argv if a in ("-2", "-3", "-4", "-a", "-n", "-j"))
    vec = argv[argv.index("-v") + 1] if "-v" in argv else None

    class C:
        v = []

        def violation(self, sig, what, *a, **k):
            self.v.append(sig + ": " + what)

        def aux(self, *a, **k):
            pass
    c = C()
    for hargv, hstdin in r.get("history") or []:
        inter.run_main(hargv, hstdin)
    res, report = check(c, flags, vec, r["stdin"])
    if r.get("history") is not None and vec and core.sendable(vec):
        iver, _ = selected(flags)
        verdict = core.run_driver(["S\tacc\t%s\t%s" % (iver[0], enc(vec))])[0]
        if (verdict == "ok") != shows_scores(report or "", iver[0]):
            c.v.append("after %d earlier interactive sessions the calculator's verdict (%r) differs from the grammar (%s)" % (
                len(r["history"]), (report or "")[:80], verdict))
    return not c.v, "cvss_calculator %r stdin=%r -> exit %s, stdout %r; %s" % (argv, r["stdin"], res["exit"], res["stdout"][-400:], "; ".join(c.v) or "as the API reports")
