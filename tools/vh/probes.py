"""Generation of probe operations and running tools/vh/probe.py under an interpreter."""
from __future__ import annotations

import json
import os
import subprocess
import tempfile

from . import core, inter

PROBE = os.path.join(os.path.dirname(os.path.dirname(os.path.abspath(__file__))), "probe", "probe.py")


def respell_argv(flags, vec, rng):
    """the same command line in another of argparse's spellings: clustered short options, attached values, long options,
    unambiguous abbreviations of long options, repeated flags"""
    k = rng.random()
    if k < 0.5:
        return flags + ["-v", vec]
    long_ = {"-a": "--all", "-n": "--no-colors", "-j": "--json"}
    if k < 0.62:      # clustered short flags, value separate
        cl = "".join(f[1] for f in flags)
        return (["-" + cl] if cl else []) + ["-v", vec]
    if k < 0.72:      # clustered with -v last and the value attached / separate
        cl = "".join(f[1] for f in flags)
        return ["-" + cl + "v" + vec] if rng.random() < 0.5 else ["-" + cl + "v", vec]
    if k < 0.82:      # long options
        return [long_.get(f, f) for f in flags] + (["--vector", vec] if rng.random() < 0.5 else ["--vector=" + vec])
    if k < 0.92:      # abbreviated long options
        ab = {"-a": rng.choice(["--al", "--a"]), "-n": rng.choice(["--no", "--no-c", "--n"]), "-j": rng.choice(["--js", "--j"])}
        return [ab.get(f, f) for f in flags] + [rng.choice(["--vec", "--v", "--vect"]), vec]
    return flags + flags[:1] + ["-v", vec]      # a flag given twice


def gen_ops(rng, n, cli=True):
    ops = []
    for _ in range(n):
        k = rng.random()
        ver = rng.choice("234")
        s = core.rand_vector(ver, rng, p_absent=rng.choice([0.2, 0.6, 0.9]))
        if k < 0.45:
            ops.append(["C", ver, s])
        elif k < 0.6:
            ops.append(["C", rng.choice("234"), core.edit(s, rng, ver)])
        elif k < 0.7:
            o = core.impl().cls[ver](s)
            b = o.scores()[0]
            txt = rng.choice([o.rh_vector(), "9.9/" + s, "x/" + s, s, " %.1f /%s" % (b, s), "%.2f/%s" % (b, s),
                              # near misses and extreme spellings of the score text (tolerances, Decimal vs float, huge exponents)
                              "%.1f0000000050/%s" % (b, s), "%.1f00000000050/%s" % (b, s), "%.1f000000001/%s" % (b, s), "%r/%s" % (b + 1e-9, s),
                              "%r/%s" % (b * (1 + 5e-10) if b else 1e-10, s), "%.1f000000000000000000000001/%s" % (b, s),
                              "1e-400/" + s, "1e99999999999999999999/" + s, "%.1fe0000000000000000000000/%s" % (b, s), "%de-1/%s" % (int(round(b * 10)), s)])
            ops.append(["R", ver, txt])
        elif k < 0.8:
            from .props import c13
            ops.append(["X", c13.make_text(rng)[0]])
        elif k < 0.9:
            iver = rng.choice(["2", "3.0", "3.1", "4"])
            allm = rng.random() < 0.5
            ops.append(["I", iver, allm, inter.rand_answers(iver, allm, rng)])
        elif cli:
            flags = [f for f in ["-2", "-3", "-4", "-a", "-n", "-j"] if rng.random() < 0.3]
            if rng.random() < 0.7:
                vs = [f for f in "234" if "-" + f in flags]
                v = vs[0] if vs else "3"
                vec = core.rand_vector(v, rng, p_absent=0.7)
                if rng.random() < 0.25:
                    vec = core.edit(vec, rng, v)
                if vec.startswith("-"):
                    vec = "x" + vec
                ops.append(["L", respell_argv(flags, vec, rng), []])
            else:
                vs = [f for f in "234" if "-" + f in flags]
                iver = {"2": "2", "3": "3.0", "4": "4"}[vs[0]] if vs else "3.1"
                ops.append(["L", flags, inter.rand_answers(iver, "-a" in flags, rng, p_eof=0.2)])
        else:
            ops.append(["C", ver, s])
    return ops


def run_probe(python, ops, env_extra=None, timeout=600, pyflags=()):
    """returns parsed JSON output of the probe, or {'probe_failed': ...}"""
    fd, path = tempfile.mkstemp(suffix=".json", prefix="cvss_ops_")
    os.close(fd)
    try:
        with open(path, "w") as f:
            json.dump(ops, f, ensure_ascii=True)
        env = dict(os.environ)
        env["PYTHONPATH"] = core.REPO
        env["PYTHONDONTWRITEBYTECODE"] = "1"
        env["PYTHONIOENCODING"] = "utf-8"
        env.pop("PYTHONHASHSEED", None)
        if env_extra:
            env.update(env_extra)
        p = subprocess.run([python] + list(pyflags) + [PROBE, path], stdout=subprocess.PIPE, stderr=subprocess.PIPE, env=env, timeout=timeout,
                           cwd=tempfile.gettempdir())
        if p.returncode != 0:
            return {"probe_failed": "exit %d: %s" % (p.returncode, p.stderr.decode("utf-8", "replace")[-600:])}
        try:
            return json.loads(p.stdout.decode("utf-8").strip().splitlines()[-1])
        except Exception as e:  # noqa
            return {"probe_failed": "unparsable output: %r %r" % (p.stdout[-300:], p.stderr[-300:])}
    finally:
        os.remove(path)
