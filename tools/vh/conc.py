"""Concurrency probes on the real code (search for failing schedules; never a proof):
  * warm, in-process: several threads construct / query at once with a 1 us switch interval;
  * shared object: several threads call the accessors of ONE fresh object at the same moment;
  * cold start: a fresh interpreter whose very first use of the package is concurrent (lazy module-level tables).
Every result is compared with the single-threaded result for the same input."""
from __future__ import annotations

import sys
import threading

from . import core, probes


def warm_threads(ctx, items, fn, label, nthreads=4, replay_of=None):
    """items: list of inputs; fn(item) -> canonical result (called from every thread, each in its own order)"""
    ref = [fn(x) for x in items]
    out = [[None] * len(items) for _ in range(nthreads)]
    gate = threading.Event()

    def work(t):
        order = list(range(len(items)))
        core_rng = __import__("random").Random(1000 + t)
        core_rng.shuffle(order)
        gate.wait()
        for i in order:
            try:
                out[t][i] = fn(items[i])
            except Exception as e:  # noqa
                out[t][i] = "raised:%s" % type(e).__name__
    old = sys.getswitchinterval()
    sys.setswitchinterval(1e-6)
    try:
        ths = [threading.Thread(target=work, args=(t,)) for t in range(nthreads)]
        for th in ths:
            th.start()
        gate.set()
        for th in ths:
            th.join()
    finally:
        sys.setswitchinterval(old)
    ctx.count(len(items) * nthreads)
    for t in range(nthreads):
        for i, x in enumerate(items):
            if out[t][i] != ref[i]:
                ctx.violation("%s:result-differs-under-concurrency" % label,
                              "a result differs when several threads use the library at the same time", x, str(ref[i])[:200], str(out[t][i])[:200],
                              replay=(replay_of(x) if replay_of else None))
                return False
    return True


def shared_objects(ctx, make, query, expect, inputs, label, nthreads=4, replay_of=None):
    """for each input: o = make(input); `nthreads` threads call query(o) simultaneously on that ONE fresh object; every
    answer must equal expect(o) computed afterwards by the main thread"""
    state = {"o": None, "stop": False}
    res = [None] * nthreads
    start = threading.Barrier(nthreads + 1)
    done = threading.Barrier(nthreads + 1)

    def work(t):
        while True:
            start.wait()
            if state["stop"]:
                return
            try:
                res[t] = query(state["o"])
            except Exception as e:  # noqa
                res[t] = "raised:%s" % type(e).__name__
            done.wait()
    old = sys.getswitchinterval()
    sys.setswitchinterval(1e-6)
    ths = [threading.Thread(target=work, args=(t,)) for t in range(nthreads)]
    for th in ths:
        th.daemon = True
        th.start()
    ok = True
    try:
        for x in inputs:
            o = make(x)
            if o is None:
                continue
            state["o"] = o
            start.wait()
            done.wait()
            want = expect(make(x))
            ctx.count(nthreads)
            bad = [r for r in res if r != want]
            if bad:
                ctx.violation("%s:shared-object-concurrent-accessor" % label,
                              "an accessor called from several threads on one fresh object returns a wrong result", x, str(want)[:200], str(bad[0])[:200],
                              replay=(replay_of(x) if replay_of else None))
                ok = False
                break
    finally:
        state["stop"] = True
        try:
            start.wait(timeout=5)
        except Exception:  # noqa
            pass
        sys.setswitchinterval(old)
    return ok


def cold_start(ctx, ops, label, runs=3, nthreads=4):
    """ops: probe operations (C / R / S / X).  Reference: one fresh sequential process.  Then `runs` fresh processes in which
    the operations are the FIRST use of the package and are executed by `nthreads` threads released together."""
    ref = probes.run_probe(sys.executable, ops)
    if "results" not in ref:
        return True
    vers = sorted({op[1] for op in ops if len(op) > 2 and op[1] in ("2", "3", "4")}, reverse=True) or [None]
    for r in range(runs):
        # the operations of ONE version first (rotating), so that every thread's first call hits the same lazily built state
        first = vers[r % len(vers)]
        idx = [i for i, op in enumerate(ops) if first is None or (len(op) > 2 and op[1] == first)]
        k = (r // len(vers)) * 5 % max(1, len(idx))
        idx = idx[k:] + idx[:k] + [i for i, op in enumerate(ops) if not (first is None or (len(op) > 2 and op[1] == first))]
        rot = [ops[i] for i in idx]
        want = [ref["results"][i] for i in idx]
        got = probes.run_probe(sys.executable, {"threads": nthreads, "switch": 1e-6, "ops": rot})
        ctx.count(len(ops))
        if "results" not in got:
            ctx.violation("%s:cold-start-concurrency-crash" % label, "a fresh process whose first use of the package is concurrent fails",
                          None, "results", str(got)[:300], replay={"kind": "cold", "ops": rot[:40], "threads": nthreads})
            return False
        for op, a, b in zip(rot, want, got["results"]):
            if a != b:
                ctx.violation("%s:result-differs-under-cold-start-concurrency" % label,
                              "a result differs when the first use of the package in a process happens from several threads at once",
                              op, str(a)[:200], str(b)[:200], replay={"kind": "cold", "ops": rot, "threads": nthreads, "expected": want})
                return False
    return True


def replay_cold(r):
    """re-run a recorded cold-start case a few times; (ok, text)"""
    for _ in range(6):
        got = probes.run_probe(sys.executable, {"threads": r.get("threads", 4), "switch": 1e-6, "ops": r["ops"]})
        if "results" not in got:
            return False, "cold-start concurrent process failed: %s" % str(got)[:300]
        if r.get("expected") is not None:
            for op, a, b in zip(r["ops"], r["expected"], got["results"]):
                if a != b:
                    return False, "cold-start concurrency: %r gives %r, sequentially %r" % (op, b, a)
    return True, "cold-start concurrent results equal the sequential ones"
