"""Concurrency probes on the real code (search for failing schedules; never a proof):
  * warm, in-process: several threads construct / query at once with a 1 us switch interval;
  * shared object: several threads call the accessors of ONE fresh object at the same moment;
  * cold start: a fresh interpreter whose very first use of the package is concurrent (lazy module-level tables).
Every result is compared with the single-threaded result for the same input."""
from __future__ import annotations

import sys
import threading

from . import core, probes


def warm_threads(ctx, items, fn, label, nthreads=4, replay_of=None):
    """items: list of inputs; fn(item) -> canonical result (called from every thread, each in its own order)"""
    ref = [fn(x) for x in items]
    out = [[None] * len(items) for _ in range(nthreads)]
    gate = threading.Event()

    def work(t):
        order = list(range(len(items)))
        core_rng = __import__("random").Random(1000 + t)
        core_rng.shuffle(order)
        gate.wait()
        for i in order:
            try:
                out[t][i] = fn(items[i])
            except Exception as e:  # noqa
                out[t][i] = "raised:%s" % type(e).__name__
    old = sys.getswitchinterval()
    sys.setswitchinterval(1e-6)
    try:
        ths = [threading.Thread(target=work, args=(t,)) for t in range(nthreads)]
        for th in ths:
            th.start()
        gate.set()
        for th in ths:
            th.join()
    finally:
        sys.setswitchinterval(old)
    ctx.count(len(items) * nthreads)
    for t in range(nthreads):
        for i, x in enumerate(items):
            if out[t][i] != ref[i]:
                ctx.violation("%s:result-differs-under-concurrency" % label,
                              "a result differs when several threads use the library at the same time", x, str(ref[i])[:200], str(out[t][i])[:200],
                              replay=(replay_of(x) if replay_of else None))
                return False
    return True


def shared_objects(ctx, make, query, expect, inputs, label, nthreads=4, replay_of=None):
    """for each input: o = make(input); `nthreads` threads call query(o) simultaneously on that ONE fresh object; every
    answer must equal expect(o) computed afterwards by the main thread"""
    state = {"o": None, "stop": False}
    res = [None] * nthreads
    start = threading.Barrier(nthreads + 1)
    done = threading.Barrier(nthreads + 1)

    def work(t):
        while True:
            start.wait()
            if state["stop"]:
                return
            try:
                res[t] = query(state["o"])
            except Exception as e:  # noqa
                res[t] = "raised:%s" % type(e).__name__
            done.wait()
    old = sys.getswitchinterval()
    sys.setswitchinterval(1e-6)
    ths = [threading.Thread(target=work, args=(t,)) for t in range(nthreads)]
    for th in ths:
        th.daemon = True
        th.start()
    ok = True
    try:
        for x in inputs:
            o = make(x)
            if o is None:
                continue
            state["o"] = o
            start.wait()
            done.wait()
            want = expect(make(x))
            ctx.count(nthreads)
            bad = [r for r in res if r != want]
            if bad:
                ctx.violation("%s:shared-object-concurrent-accessor" % label,
                              "an accessor called from several threads on one fresh object returns a wrong result", x, str(want)[:200], str(bad[0])[:200],
                              replay=(replay_of(x) if replay_of else None))
                ok = False
                break
    finally:
        state["stop"] = True
        try:
            start.wait(timeout=5)
        except Exception:  # noqa
            pass
        sys.setswitchinterval(old)
    return ok


def cold_start(ctx, ops, label, runs=3, nthreads=4):
    """ops: probe operations (C / R / S / X).  Reference: one fresh sequential process.  Then `runs` fresh processes in which
    the operations are the FIRST use of the package and are executed by `nthreads` threads released together."""
    ref = probes.run_probe(sys.executable, ops)
    if "results" not in ref:
        return True
    vers = sorted({op[1] for op in ops if len(op) > 2 and op[1] in ("2", "3", "4")}, reverse=True) or [None]
    for r in range(runs):
        # the operations of ONE version first (rotating), so that every thread's first call hits the same lazily built state
        first = vers[r % len(vers)]
        idx = [i for i, op in enumerate(ops) if first is None or (len(op) > 2 and op[1] == first)]
        k = (r // len(vers)) * 5 % max(1, len(idx))
        idx = idx[k:] + idx[:k] + [i for i, op in enumerate(ops) if not (first is None or (len(op) > 2 and op[1] == first))]
        rot = [ops[i] for i in idx]
        want = [ref["results"][i] for i in idx]
        got = probes.run_probe(sys.executable, {"threads": nthreads, "switch": 1e-6, "ops": rot})
        ctx.count(len(ops))
        if "results" not in got:
            ctx.violation("%s:cold-start-concurrency-crash" % label, "a fresh process whose first use of the package is concurrent fails",
                          None, "results", str(got)[:300], replay={"kind": "cold", "ops": rot[:40], "threads": nthreads})
            return False
        for op, a, b in zip(rot, want, got["results"]):
            if a != b:
                ctx.violation("%s:result-differs-under-cold-start-concurrency" % label,
                              "a result differs when the first use of the package in a process happens from several threads at once",
                              op, str(a)[:200], str(b)[:200], replay={"kind": "cold", "ops": rot, "threads": nthreads, "expected": want})
                return False
    return True


def replay_cold(r):
    """re-run a recorded cold-start case a few times; (ok, text)"""
    for _ in range(6):
        got = probes.run_probe(sys.executable, {"threads": r.get("threads", 4), "switch": 1e-6, "ops": r["ops"]})
        if "results" not in got:
            return False, "cold-start concurrent process failed: %s" % str(got)[:300]
        if r.get("expected") is not None:
            for op, a, b in zip(r["ops"], r["expected"], got["results"]):
                if a != b:
                    return False, "cold-start concurrency: %r gives %r, sequentially %r" % (op, b, a)
    return True, "cold-start concurrent results equal the sequential ones"


def flag_variants(ctx, ops, label, flags=(("-O",), ("-OO",)), env_variants=({"PYTHONOPTIMIZE": "1"},)):
    """the same operations in fresh processes started with interpreter options that must not change results (-O / -OO strip
    assert statements and docstrings; PYTHONOPTIMIZE is the environment form): every result equals the plain run's"""
    ref = probes.run_probe(sys.executable, ops)
    if "results" not in ref:
        return True
    runs = [(list(f), None) for f in flags] + [([], dict(e)) for e in env_variants]
    for fl, env in runs:
        got = probes.run_probe(sys.executable, ops, env_extra=env, pyflags=fl)
        name = " ".join(fl) or ",".join("%s=%s" % kv for kv in (env or {}).items())
        ctx.count(len(ops))
        if "results" not in got:
            ctx.violation("%s:fails-under-interpreter-option" % label, "the package fails in an interpreter started with %s" % name, None, "results", str(got)[:300],
                          replay={"kind": "flags", "ops": ops[:30], "flags": fl, "env": env})
            return False
        for op, a, b in zip(ops, ref["results"], got["results"]):
            if a != b:
                ctx.violation("%s:result-differs-under-interpreter-option" % label, "a result differs in an interpreter started with %s" % name,
                              op, str(a)[:250], str(b)[:250], replay={"kind": "flags", "ops": [op], "flags": fl, "env": env})
                return False
    return True


def replay_flags(r):
    ref = probes.run_probe(sys.executable, r["ops"])
    got = probes.run_probe(sys.executable, r["ops"], env_extra=r.get("env"), pyflags=r.get("flags") or [])
    ok = "results" in got and got.get("results") == ref.get("results")
    return ok, "interpreter option %s %s: %s" % (r.get("flags"), r.get("env"), "same results as the plain interpreter" if ok else
                                                 "results differ: plain %s, with the option %s" % (str(ref.get("results", ref))[:300], str(got.get("results", got))[:300]))


def pickle_across(ctx, items, label, seeds=("101", "202")):
    """objects built, used and pickled in one process, un-pickled in ANOTHER process with a different hash seed (multiprocessing
    spawn, job queues, on-disk caches): the loaded object must be indistinguishable from a locally built one (==, hash, set and
    dict membership, RH round trip, every observable)"""
    items = [(v, s) for v, s in items if core.sendable(s)]
    d = probes.run_probe(sys.executable, [["PD", v, s] for v, s in items], {"PYTHONHASHSEED": seeds[0]})
    if "results" not in d:
        return True
    ops = [["PL", v, s, r[1]] for (v, s), r in zip(items, d["results"]) if r and r[0] == "ok"]
    for seed in seeds[::-1]:       # other seed first, then the same seed (control)
        got = probes.run_probe(sys.executable, ops, {"PYTHONHASHSEED": seed})
        ctx.count(len(ops))
        if "results" not in got:
            ctx.violation("%s:unpickling-fails" % label, "objects pickled in one process cannot be loaded in another", None, "results", str(got)[:300],
                          replay={"kind": "pickle", "items": items[:20], "seeds": list(seeds)})
            return False
        for op, r in zip(ops, got["results"]):
            bad = None
            if not r or r[0] != "ok":
                bad = str(r)[:200]
            else:
                flat = {k: v for k, v in r[1].items() if v is not True and not (isinstance(v, list) and all(x is True for x in v))}
                if flat:
                    bad = str(flat)
            if bad:
                ctx.violation("%s:unpickled-object-differs-from-a-locally-built-one" % label,
                              "an object pickled in one process and loaded in another (hash seeds %s -> %s) is not the same value" % (seeds[0], seed),
                              op[:3], "equal in every respect", bad, replay={"kind": "pickle", "items": [[op[1], op[2]]], "seeds": [seeds[0], seed]})
                return False
    return True


def replay_pickle(r):
    class C:
        v = []

        def violation(self, sig, what, *a, **k):
            self.v.append(sig + ": " + what + " " + str(a[1:3]))

        def count(self, *a):
            pass
    c = C()
    pickle_across(c, [tuple(x) for x in r["items"]], "replay", tuple(r["seeds"]))
    return not c.v, "; ".join(c.v) or "unpickled objects are the same values"


def run_cli(argv, stdin_text, env_extra=None, use_pty=False, timeout=60):
    """the real command `python -m cvss.cvss_calculator` in a subprocess; with use_pty its stdout (and stderr) is a terminal.
    returns (exit status, stdout text with CRLF normalised, stderr text)"""
    import os
    import subprocess
    env = dict(os.environ)
    env["PYTHONPATH"] = core.REPO
    env["PYTHONDONTWRITEBYTECODE"] = "1"
    env["PYTHONIOENCODING"] = "utf-8"
    for k in ("COLUMNS", "LINES", "NO_COLOR", "FORCE_COLOR", "TERM", "PYTHONOPTIMIZE"):
        env.pop(k, None)
    env.update(env_extra or {})
    cmd = [sys.executable, "-m", "cvss.cvss_calculator"] + list(argv)
    if not use_pty:
        p = subprocess.run(cmd, input=stdin_text.encode("utf-8"), stdout=subprocess.PIPE, stderr=subprocess.PIPE, env=env, timeout=timeout, cwd="/tmp")
        return p.returncode, p.stdout.decode("utf-8", "replace"), p.stderr.decode("utf-8", "replace")
    import pty
    import select
    m, sl = pty.openpty()
    p = subprocess.Popen(cmd, stdin=subprocess.PIPE, stdout=sl, stderr=sl, env=env, cwd="/tmp", close_fds=True)
    os.close(sl)
    try:
        p.stdin.write(stdin_text.encode("utf-8"))
        p.stdin.close()
    except Exception:  # noqa
        pass
    chunks = []
    import time
    t0 = time.time()
    while time.time() - t0 < timeout:
        r, _, _ = select.select([m], [], [], 0.2)
        if r:
            try:
                b = os.read(m, 65536)
            except OSError:
                break
            if not b:
                break
            chunks.append(b)
        elif p.poll() is not None:
            break
    try:
        p.wait(timeout=5)
    except Exception:  # noqa
        p.kill()
    os.close(m)
    return p.returncode, b"".join(chunks).decode("utf-8", "replace").replace("\r\n", "\n"), ""


ENVS = [{"COLUMNS": "20"}, {"COLUMNS": "1", "LINES": "1"}, {"COLUMNS": "0"}, {"COLUMNS": "-3"}, {"COLUMNS": "abc"}, {"COLUMNS": "100000"},
        {"TERM": "dumb"}, {"TERM": "xterm-256color", "COLUMNS": "40"}, {"NO_COLOR": "1"}, {"FORCE_COLOR": "1"}, {"LANG": "C", "LC_ALL": "C"},
        {"LC_ALL": "tr_TR.UTF-8", "LANG": "tr_TR.UTF-8"}, {"PYTHONOPTIMIZE": "1"}, {"PYTHONOPTIMIZE": "2"}, {"TZ": "Pacific/Kiritimati"},
        {"HOME": "/nonexistent"}, {"PYTHONWARNINGS": "default"}]


_ANSI = __import__("re").compile(r"\x1b\[[0-9;]*[A-Za-z]")


def _words(text):
    """what the output SAYS, whatever its layout: colour codes removed, white space (wrapping, padding) collapsed"""
    return _ANSI.sub("", text).replace("(", "").replace(")", "").split()


def cli_environments(ctx, cases, label):
    """cases: (argv, stdin lines).  The real command under environment variables a terminal session may have (terminal
    width / height, TERM, colour conventions, locale, optimisation) and with stdout on a pseudo-terminal: exit status 0 and
    the output of the plain piped run (compared by what it says: colour codes and wrapping / padding may follow the terminal)."""
    for i, (argv, lines) in enumerate(cases):
        text = "".join(x + "\n" for x in lines)
        rc0, out0, err0 = run_cli(argv, text)
        ctx.count()
        variants = [(ENVS[(i * 3 + j) % len(ENVS)], False) for j in range(3)] + [(None, True), (ENVS[(i * 5 + 1) % len(ENVS)], True)]
        for env, tty in variants:
            rc, out, err = run_cli(argv, text, env, tty)
            ctx.count()
            same = rc == rc0 and _words(out) == _words(out0) and (tty or _words(err) == _words(err0))
            if same and out != out0 and hasattr(ctx, "aux"):
                ctx.aux("cli-layout-depends-on-terminal-or-environment", {"argv": argv, "env": env, "tty": tty}, out0[-200:], out[-200:])
            if not same:
                ctx.violation("%s:cli-depends-on-terminal-or-environment" % label,
                              "the calculator's exit status / output differs %s%s" % ("with stdout on a terminal " if tty else "", ("under %s" % env) if env else ""),
                              {"argv": argv, "stdin": lines}, [rc0, out0[-300:]], [rc, out[-300:], err[-300:]],
                              replay={"kind": "env", "argv": argv, "stdin": lines, "env": env, "tty": tty})
                return False
    return True


def replay_env(r):
    text = "".join(x + "\n" for x in r["stdin"])
    rc0, out0, err0 = run_cli(r["argv"], text)
    rc, out, err = run_cli(r["argv"], text, r.get("env"), r.get("tty"))
    ok = rc == rc0 and _words(out) == _words(out0)
    return ok, "cvss_calculator %r under env %r, tty=%r: exit %r (plain run %r), output %s" % (
        r["argv"], r.get("env"), r.get("tty"), rc, rc0, "says the same as the plain run" if ok else "DIFFERS: %r vs plain %r" % (out[-300:], out0[-300:]))
