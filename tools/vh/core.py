"""
Core of the correspondence harness: driver process, line protocol, implementation-side observers,
generators, shrinking, replay/evidence writing.

Runs under /venv/bin/python with /repo first on sys.path (the *current working tree* is imported).
Every random choice derives from one `random.Random(seed)`.
"""
from __future__ import annotations

import io
import json
import os
import random
import subprocess
import sys
import tempfile
import time
from concurrent.futures import ThreadPoolExecutor

VERIF = os.path.dirname(os.path.dirname(os.path.dirname(os.path.abspath(__file__))))
REPO = os.environ.get("CVSS_REPO", "/repo")
LEAN_DIR = os.path.join(VERIF, "lean")
DRIVER = os.path.join(LEAN_DIR, ".lake", "build", "bin", "driver")

if REPO not in sys.path:
    sys.path.insert(0, REPO)
sys.dont_write_bytecode = True

VOCAB = json.load(open(os.path.join(VERIF, "tools", "vocab.json")))
for _v in VOCAB.values():
    _v["vocab"] = [(k, list(vs)) for k, vs in _v["vocab"]]
    _v["legal"] = dict(_v["vocab"])
    _v["order"] = [k for k, _ in _v["vocab"]]

PREFIX = {"2": [""], "3": ["CVSS:3.0/", "CVSS:3.1/"], "4": ["CVSS:4.0/"]}


# ----------------------------------------------------------------------------------------------
# implementation access
# ----------------------------------------------------------------------------------------------
class Impl:
    """Lazy import of the library from the current tree; import failure is itself an observation."""

    def __init__(self):
        self.error = None
        try:
            import cvss  # noqa
            from cvss import CVSS2, CVSS3, CVSS4
            from cvss import exceptions as exc

            self.cvss = cvss
            self.cls = {"2": CVSS2, "3": CVSS3, "4": CVSS4}
            self.exc = exc
            self.CVSSError = exc.CVSSError
        except BaseException as e:  # noqa
            self.error = "%s: %s" % (type(e).__name__, e)


_IMPL = None


def impl():
    global _IMPL
    if _IMPL is None:
        _IMPL = Impl()
    return _IMPL


def enc(s):
    """str -> protocol encoding (decimal code points; lone surrogates cannot be sent)."""
    if s == "":
        return "e"
    return ",".join(str(ord(c)) for c in s)


def sendable(s):
    return not any(0xD800 <= ord(c) <= 0xDFFF for c in s)


def esc(s):
    return s.replace("\\", "\\\\").replace("\t", "\\t").replace("\n", "\\n").replace("\r", "\\r")


def fmt_score(x):
    if x is None:
        return "None"
    if isinstance(x, float):
        return repr(x)
    return "?%r" % (x,)


def err_name(ver, e):
    """canonical name of an exception: library classes by their suffix, checked against the
    hierarchy the property demands; everything else FOREIGN."""
    im = impl()
    n = type(e).__name__
    want_prefix = "CVSS" + ver
    if isinstance(e, im.CVSSError) and n.startswith(want_prefix):
        base = getattr(im.exc, want_prefix + "Error", None)
        if base is not None and isinstance(e, base):
            return n[len(want_prefix):]
    return "FOREIGN"


def fmt_json(d):
    """as_json() result after a JSON round trip, in iteration order."""
    pairs = json.loads(json.dumps(d), object_pairs_hook=list)
    out = []
    for k, v in pairs:
        if isinstance(v, str):
            out.append(esc(k) + ':"' + esc(v) + '"')
        elif isinstance(v, float):
            out.append(esc(k) + ":" + repr(v))
        else:
            out.append(esc(k) + ":?" + repr(v))
    return ",".join(out)


def canon_unsorted(field):
    """unsorted JSON is compared as a set of key:value pairs"""
    return ",".join(sorted(field.split(",")))


def obs_field(ver, o, c):
    if c == "s":
        return " ".join(fmt_score(x) for x in o.scores())
    if c == "v":
        return "|".join(esc(x) for x in o.severities())
    if c == "c":
        return esc(o.clean_vector())
    if c == "n":
        return esc(o.clean_vector() if ver == "2" else o.clean_vector(output_prefix=False))
    if c == "r":
        return esc(o.rh_vector())
    if c == "t":
        return "-" if ver == "4" else esc(o.temporal_vector())
    if c == "e":
        return "-" if ver == "4" else esc(o.environmental_vector())
    if c in "jkJK":
        d = o.as_json(sort=c in "JK", minimal=c in "kK")
        text = fmt_json(d)
        # the returned dict belongs to the caller, and this caller ALWAYS scribbles on it after reading it: whatever the
        # library hands out must be private to the call
        try:
            for k in list(d.keys()):
                d[k] = "edited by the caller"
            d.pop("vectorString", None)
            d["baseScore"] = 61
            d["added by the caller"] = []
        except Exception:  # noqa
            pass
        return text
    if c == "w":
        # the public zero-argument compute_* steps run again (in definition order): recomputation is idempotent
        names = sorted((n for n in dir(type(o)) if n.startswith("compute_") and callable(getattr(o, n, None))),
                       key=lambda n: getattr(getattr(type(o), n), "__code__", None).co_firstlineno if hasattr(getattr(type(o), n), "__code__") else 0)
        for n in names:
            f = getattr(o, n)
            try:
                if f.__code__.co_argcount == 1:
                    f()
            except AttributeError:
                pass
        return "-"
    if c == "m":
        return str(o.minor_version) if ver == "3" else "-"
    return "?"


class StrSub(str):
    """a plain user subclass of str (tagged / 'safe' strings of frameworks)"""


_ENUMS = {}
_SUBCLS = {}
N_VARIANTS = 16


def variant_of(s):
    """which way of supplying the argument / obtaining the object is used for this string (deterministic, so that a replay
    reproduces it): 0 plain; 1 str subclass; 2 str-Enum member; 3 a trivial user subclass of the class; 4 copy.copy taken
    BEFORE anything was asked, the original asked first; 5 copy.deepcopy; 6 pickle round trip (protocol 2); 7 pickle round
    trip (highest protocol) after the object was hashed and asked"""
    import zlib
    k = (zlib.crc32(s.encode("utf-8", "replace")) >> 3) % N_VARIANTS
    return k if k < 8 else 0


def build(ver, s, rh=False, variant=None):
    """the object the library builds for `s` (constructor or from_rh_vector), obtained the way `variant_of(s)` says.  Every
    way must be indistinguishable from the plain one: the argument IS the same string, a trivial subclass adds nothing, a copy
    or an unpickled object is the same value."""
    im = impl()
    k = variant_of(s) if variant is None else variant
    cls = im.cls[ver]
    arg = s
    if k == 1:
        arg = StrSub(s)
    elif k == 2:
        import enum
        key = s
        if key not in _ENUMS:
            if len(_ENUMS) > 20000:
                _ENUMS.clear()
            try:
                _ENUMS[key] = enum.Enum("Known", {"VECTOR": s}, type=str).VECTOR
            except Exception:  # noqa
                _ENUMS[key] = s
        arg = _ENUMS[key]
    elif k == 3:
        if ver not in _SUBCLS:
            _SUBCLS[ver] = type(str("Audited" + cls.__name__), (cls,), {"__doc__": "a trivial user subclass"})
        cls = _SUBCLS[ver]
    o = cls.from_rh_vector(arg) if rh else cls(arg)
    if k == 4:
        import copy
        c = copy.copy(o)
        try:
            o.scores(), o.severities(), o.clean_vector()
        except Exception:  # noqa
            pass
        return c
    if k == 5:
        import copy
        return copy.deepcopy(o)
    if k == 6:
        import pickle
        return pickle.loads(pickle.dumps(o, 2))
    if k == 7:
        import pickle
        try:
            hash(o), o.scores(), o.as_json(minimal=True)
        except Exception:  # noqa
            pass
        return pickle.loads(pickle.dumps(o, pickle.HIGHEST_PROTOCOL))
    return o


def impl_construct(ver, mask, s, rh=False):
    """the implementation's answer to a `C`/`R` request, in the driver's output format"""
    im = impl()
    try:
        o = build(ver, s, rh=rh)
    except Exception as e:  # noqa
        n = err_name(ver, e)
        return "err\t" + n
    try:
        return "ok\t" + "\t".join(obs_field(ver, o, c) for c in mask)
    except Exception as e:  # noqa  (an accessor raised)
        return "accessor-raised\t%s" % type(e).__name__


def canon_out(mask, line):
    """canonicalise a response (either side) for comparison"""
    parts = line.split("\t")
    if parts[0] != "ok":
        return line
    fields = parts[1:]
    if len(fields) != len(mask):
        return line
    out = []
    for c, f in zip(mask, fields):
        out.append(canon_unsorted(f) if c in "jk" else f)
    return "ok\t" + "\t".join(out)


# ----------------------------------------------------------------------------------------------
# driver
# ----------------------------------------------------------------------------------------------
class DriverError(Exception):
    pass


def run_driver(lines, nproc=8):
    """send request lines to the compiled Lean driver (in parallel chunks); returns response lines"""
    if not os.path.exists(DRIVER):
        raise DriverError("driver executable missing: " + DRIVER)
    n = len(lines)
    if n == 0:
        return []
    nproc = max(1, min(nproc, (n + 1999) // 2000))
    size = (n + nproc - 1) // nproc
    chunks = [lines[i : i + size] for i in range(0, n, size)]

    def one(chunk):
        data = ("\n".join(chunk) + "\n").encode("utf-8")
        p = subprocess.run([DRIVER], input=data, stdout=subprocess.PIPE, stderr=subprocess.PIPE)
        if p.returncode != 0:
            raise DriverError("driver exit %d: %s" % (p.returncode, p.stderr.decode()[-500:]))
        out = p.stdout.decode("utf-8").split("\n")
        if out and out[-1] == "":
            out.pop()
        if len(out) != len(chunk):
            raise DriverError("driver returned %d lines for %d requests" % (len(out), len(chunk)))
        return out

    if len(chunks) == 1:
        return one(chunks[0])
    with ThreadPoolExecutor(len(chunks)) as ex:
        res = list(ex.map(one, chunks))
    return [x for r in res for x in r]


# ----------------------------------------------------------------------------------------------
# generators (vocabulary = the frozen specification copy, NOT the tree's tables)
# ----------------------------------------------------------------------------------------------
def rand_assignment(ver, rng, p_absent=0.45, p_nd=0.15, optional=True):
    """metric -> token for a random accepted vector; optional metrics absent / explicit ND / defined"""
    V = VOCAB[ver]
    a = {}
    for m, vals in V["vocab"]:
        if m in V["mandatory"]:
            a[m] = rng.choice(vals)
        elif optional:
            x = rng.random()
            if x < p_absent:
                continue
            if x < p_absent + p_nd and V["nd"] in vals:
                a[m] = V["nd"]
            else:
                a[m] = rng.choice(vals)
    return a


def render(ver, a, rng=None, prefix=None, order=None):
    """vector string for an assignment; random field order when `rng` given and no explicit order"""
    V = VOCAB[ver]
    ks = [k for k in V["order"] if k in a]
    if order is not None:
        ks = order
    elif rng is not None:
        rng.shuffle(ks)
    if prefix is None:
        prefix = PREFIX[ver][-1] if rng is None else rng.choice(PREFIX[ver])
    return prefix + "/".join("%s:%s" % (k, a[k]) for k in ks)


def rand_vector(ver, rng, **kw):
    return render(ver, rand_assignment(ver, rng, **kw), rng)


def v2_low_family():
    """v2 vectors at the low end of the equations (minimal exploitability, at most Partial impacts, low
    requirements): where the un-clamped base / adjusted-base equation is negative or zero, so the
    'never negative' clamps and the f(Impact)=0 case are exercised"""
    import itertools
    out = []
    for c, i, a in itertools.product("NP", repeat=3):
        for cr, ir, ar in itertools.product(["L", None], repeat=3):
            for cdp in ("N", None, "L"):
                for td in (None, "H", "L", "N"):
                    for e in (None, "U"):
                        f = ["AV:L", "AC:H", "Au:M", "C:" + c, "I:" + i, "A:" + a]
                        for k, v in (("CR", cr), ("IR", ir), ("AR", ar), ("CDP", cdp), ("TD", td), ("E", e)):
                            if v is not None:
                                f.append("%s:%s" % (k, v))
                        out.append("/".join(f))
    return out


def singletons(ver, rng, nbases):
    """base assignment + exactly ONE optional metric with a defined value (and nothing else): the spelling in which a
    metric is the sole member of its group; `nbases` random base assignments (all of them if there are fewer)"""
    import itertools
    V = VOCAB[ver]
    doms = [V["legal"][m] for m in V["mandatory"]]
    total = 1
    for d in doms:
        total *= len(d)
    if total <= nbases:
        bases = [dict(zip(V["mandatory"], c)) for c in itertools.product(*doms)]
    else:
        bases = [{m: rng.choice(V["legal"][m]) for m in V["mandatory"]} for _ in range(nbases)]
    opt = [m for m in V["order"] if m not in V["mandatory"]]
    out = []
    for a in bases:
        pfx = rng.choice(PREFIX[ver])
        body = "/".join("%s:%s" % (k, a[k]) for k in V["mandatory"])
        for m in opt:
            for v in V["legal"][m]:
                if v != V["nd"]:
                    out.append("%s%s/%s:%s" % (pfx, body, m, v))
    return out


def corners(ver, rng, n):
    """'corner' vectors: every metric takes the FIRST or the LAST value of its legal list (the extremes of the
    specification's scales; 10% any value), each optional metric is absent / Not Defined / an extreme.  Concentrates the
    sample where caps, clamps and rounding boundaries of the equations bind (e.g. v2 C:C/I:C/A:C, v3 0.915 cap)."""
    V = VOCAB[ver]
    out = []
    for _ in range(n):
        a = {}
        p_abs = rng.choice([0.2, 0.5, 0.8])
        for m, vals in V["vocab"]:
            ext = [v for v in (vals[0], vals[-1], vals[-2] if len(vals) > 2 else vals[0]) if v != V["nd"]] or vals
            v = rng.choice(vals) if rng.random() < 0.1 else rng.choice(ext)
            if m in V["mandatory"]:
                a[m] = v
            else:
                x = rng.random()
                if x < p_abs:
                    continue
                a[m] = V["nd"] if (x < p_abs + 0.1 and V["nd"] in vals) else v
        out.append(render(ver, a, rng))
    return out


def v2_cap_family(rng, n_per_base=60):
    """v2 vectors with Complete C/I/A impact (the adjusted impact exceeds 10 and `min(10, .)` binds) for all 27
    exploitability combinations, with random temporal / environmental metrics and the requirement metrics mostly
    OMITTED or spelled ND (the spellings for which an implementation is tempted to skip the adjusted equations)"""
    import itertools
    V = VOCAB["2"]
    out = []
    for av, ac, au in itertools.product(V["legal"]["AV"], V["legal"]["AC"], V["legal"]["Au"]):
        for _ in range(n_per_base):
            f = ["AV:" + av, "AC:" + ac, "Au:" + au, "C:C", "I:C", "A:C"]
            for m in ("E", "RL", "RC", "CDP", "TD"):
                if rng.random() < 0.6:
                    f.append("%s:%s" % (m, rng.choice(V["legal"][m])))
            mode = rng.random()
            for m in ("CR", "IR", "AR"):
                if mode < 0.5:
                    continue
                if mode < 0.7:
                    f.append(m + ":ND")
                elif rng.random() < 0.7:
                    f.append("%s:%s" % (m, rng.choice(V["legal"][m])))
            out.append("/".join(f))
    return out


_TABLE_ORDERS = {}


def table_orders(ver):
    """orders of the metric abbreviations that exist somewhere in the library's own constants module (lists / dict keys that
    enumerate metrics): the orders in which an implementation might believe a vector to be 'already in order'"""
    if ver in _TABLE_ORDERS:
        return _TABLE_ORDERS[ver]
    V = VOCAB[ver]
    want = set(V["order"])
    found = []
    try:
        import importlib
        c = importlib.import_module("cvss.constants" + ver)
        for name in sorted(vars(c)):
            obj = getattr(c, name)
            ks = list(obj.keys()) if isinstance(obj, dict) else (list(obj) if isinstance(obj, (list, tuple)) else None)
            if ks and all(isinstance(k, str) for k in ks) and len(set(ks) & want) >= len(V["mandatory"]) and set(ks) <= want | set(ks):
                order = [k for k in ks if k in want]
                if len(order) == len(set(order)) and order not in found:
                    found.append(order)
    except Exception:  # noqa
        pass
    _TABLE_ORDERS[ver] = found
    return found


def order_variants(ver, a, rng):
    """the assignment rendered in SYSTEMATIC field orders: the official order, each order found in the library's tables,
    alphabetical, reversed, base metrics in place with the optional groups rotated"""
    V = VOCAB[ver]
    present = [k for k in V["order"] if k in a]
    orders = [present, sorted(present), list(reversed(present))]
    for t in table_orders(ver):
        orders.append([k for k in t if k in a] + [k for k in present if k not in t])
    base = [k for k in present if k in V["mandatory"]]
    opt = [k for k in present if k not in V["mandatory"]]
    if len(opt) > 1:
        r = rng.randrange(1, len(opt))
        orders.append(base + opt[r:] + opt[:r])
        orders.append(opt + base)
    out = []
    pfx = rng.choice(PREFIX[ver])
    for o in orders:
        s = render(ver, a, prefix=pfx, order=o)
        if s not in out:
            out.append(s)
    return out


_TIES = None


def ties(ver):
    """frozen INPUTS (tools/freeze_ties.py): vectors whose exact value lies on a rounding tie, found with the Lean
    specification; rating-boundary ties first"""
    global _TIES
    if _TIES is None:
        try:
            _TIES = json.load(open(os.path.join(os.path.dirname(os.path.dirname(os.path.abspath(__file__))), "ties.json")))
        except Exception:  # noqa
            _TIES = {}
    return list(_TIES.get(ver, []))


def full_spelling(ver, rng, n):
    """EVERY metric of the version spelled out (optional ones Not Defined with probability 0.4), random field order"""
    V = VOCAB[ver]
    out = []
    for _ in range(n):
        a = {}
        for m, vals in V["vocab"]:
            if m not in V["mandatory"] and V["nd"] in vals and rng.random() < 0.4:
                a[m] = V["nd"]
            else:
                a[m] = rng.choice(vals)
        out.append(render(ver, a, rng))
    return out


def special(ver, rng, n):
    """the special families of a version beyond singletons: corners, every-metric-spelled-out vectors, frozen rounding
    ties (+ the v2 cap family)"""
    out = corners(ver, rng, n) + full_spelling(ver, rng, max(20, n // 10)) + ties(ver)
    if ver == "2":
        out += v2_cap_family(rng, max(8, n // 40))
    return out


def optional_only(ver, rng, n):
    """strings made of optional metrics only (no base metric at all), e.g. what temporal_vector() /
    environmental_vector() print: well-formed, but every mandatory metric is missing"""
    V = VOCAB[ver]
    opt = [m for m in V["order"] if m not in V["mandatory"]]
    out = []
    for _ in range(n):
        k = rng.randrange(1, len(opt) + 1)
        ms = rng.sample(opt, k) if rng.random() < 0.5 else [m for m in opt if rng.random() < 0.7] or opt[:1]
        body = "/".join("%s:%s" % (m, rng.choice(V["legal"][m])) for m in ms)
        out.append(rng.choice(PREFIX[ver]) + body)
    return out


# prefixes tried in place of the right one (other versions, near misses, digits of other scripts / superscripts / circled
# digits - characters for which str.isdigit() / int() / float() / \\d disagree)
PREFIX_EDITS = ["CVSS:3.0/", "CVSS:3.1/", "CVSS:4.0/", "CVSS:3.2/", "CVSS:2.0/", "cvss:3.1/",
                "CVSS:3.1", "CVSS:4.0", "CVSS:3.10/", "", "CVSS:4.1/", "CVSS:3.0/CVSS:3.1/", "CVSS:3.01/", "CVSS:3.+1/",
                "CVSS:3. 1/", "CVSS:03.1/", "CVSS:3.1\n/", "CVSS:4.00/", "CVSS:4.+0/", "CVSS:4/", "CVSS:3/", "CVSS:\uff13.1/",
                "CVSS:3.\u0661/", "cVSS:3.1/", "CVSS:3,1/", "CVSS:3.1//", "CVSS:3.\u00b9/", "CVSS:3.\u00b2/", "CVSS:3.\u2460/", "CVSS:3.\u2070/",
                "CVSS:3.\u09e7/", "CVSS:4.\u0660/", "CVSS:4.\u2070/", "CVSS:3.\u00bd/", "CVSS:3.\u2081/", "CVSS:3.1\u0000/", "CVSS:3.-1/",
                "CVSS:3.1e0/", "CVSS:3._1/", "CVSS:3.1_/", "CVSS:0x3.1/", "CVSS:3.1 /", " CVSS:3.1/", "CVSS:3.9/", "CVSS:5.0/", "CVSS:1.0/"]

ALPHABET = "AVCNLHPXSEMRUITDOFWY:/.0123456789 acnlx_-\t"


ENCLOSURES = [("(", ")"), ("[", "]"), ('"', '"'), ("'", "'"), ("<", ">"), ("{", "}"), ("`", "`"), ("( ", " )"), ("\u201c", "\u201d")]


def structural_battery(ver, rng, n_edits=40):
    """a deterministic battery of near-valid strings: one vector in every enclosure (the way prose, feeds and shells quote it),
    with and without optional metrics, plus `n_edits` random single edits"""
    out = []
    for p_absent in (1.0, 0.3):
        s = rand_vector(ver, rng, p_absent=p_absent)
        out += [l + s + r for l, r in ENCLOSURES] + [l + s for l, _ in ENCLOSURES[:4]] + [s + r for _, r in ENCLOSURES[:4]]
        out += [edit(s, rng, ver) for _ in range(n_edits // 2)]
    return out


def edit(s, rng, ver):
    """one edit of the kinds named in C04"""
    kind = rng.randrange(21)
    fields = s.split("/")
    if kind == 0 and s:  # delete a character
        i = rng.randrange(len(s))
        return s[:i] + s[i + 1 :]
    if kind == 1:  # insert a character
        i = rng.randrange(len(s) + 1)
        return s[:i] + rng.choice(ALPHABET) + s[i:]
    if kind == 2 and s:  # replace a character
        i = rng.randrange(len(s))
        return s[:i] + rng.choice(ALPHABET) + s[i + 1 :]
    if kind == 3 and len(fields) > 1:  # drop a field
        i = rng.randrange(len(fields))
        return "/".join(fields[:i] + fields[i + 1 :])
    if kind == 4:  # duplicate a field
        i = rng.randrange(len(fields))
        j = rng.randrange(len(fields) + 1)
        return "/".join(fields[:j] + [fields[i]] + fields[j:])
    if kind == 5 and len(fields) > 1:  # swap two fields
        i, j = rng.randrange(len(fields)), rng.randrange(len(fields))
        fields[i], fields[j] = fields[j], fields[i]
        return "/".join(fields)
    if kind == 6:  # transplant a field from another version / a metric with a foreign value
        ov = rng.choice(["2", "3", "4"])
        m, vals = rng.choice(VOCAB[ov]["vocab"])
        i = rng.randrange(len(fields) + 1)
        return "/".join(fields[:i] + ["%s:%s" % (m, rng.choice(vals))] + fields[i:])
    if kind == 7 and s:  # case change
        i = rng.randrange(len(s))
        return s[:i] + s[i].swapcase() + s[i + 1 :]
    if kind == 8:  # padding
        return rng.choice([" " + s, s + " ", s + "/", "/" + s, s + "\n", "\t" + s, s + "//", s + "\r", s + "\r\n", "\x0b" + s,
                           s + "\x0c", "\u00a0" + s, s + "\u2003", "\ufeff" + s, s + "\x1c", "\x1f" + s, s + "\x00", s + "\u200b"])
    if kind == 9:  # wrong / other prefix
        body = s
        for p in sum(PREFIX.values(), []):
            if p and s.startswith(p):
                body = s[len(p) :]
        return rng.choice(PREFIX_EDITS) + body
    if kind == 10 and len(fields) > 1:  # empty a field / break the separator of a field
        i = rng.randrange(len(fields))
        fields[i] = rng.choice(["", fields[i].replace(":", ""), fields[i] + ":", ":" + fields[i],
                                fields[i].replace(":", "::"), fields[i].split(":")[0] + ":"])
        return "/".join(fields)
    if kind == 11 and len(fields) > 1:  # replace a value with another metric's value
        i = rng.randrange(len(fields))
        m = fields[i].split(":")[0]
        _, vals = rng.choice(VOCAB[ver]["vocab"])
        fields[i] = m + ":" + rng.choice(vals)
        return "/".join(fields)
    if kind == 12:  # non-ASCII / exotic character
        i = rng.randrange(len(s) + 1)
        return s[:i] + rng.choice(["\u00e9", "\u0661", "\uff21", "\u2028", "\x00", "\x85", "\U0001f600", "\u00b2", "\u2460", "\u09e9", "\u0130", "\u212a"]) + s[i:]
    if kind == 13 and len(fields) > 1:  # explicit Not Defined on a mandatory metric
        i = rng.randrange(len(fields))
        fields[i] = fields[i].split(":")[0] + ":" + VOCAB[ver]["nd"]
        return "/".join(fields)
    if kind == 14 and fields:  # the same metric again with ANOTHER of its legal values (conflicting duplicate)
        i = rng.randrange(len(fields))
        m = fields[i].split(":")[0]
        vals = dict(VOCAB[ver]["vocab"]).get(m)
        if vals:
            j = rng.randrange(len(fields) + 1)
            return "/".join(fields[:j] + ["%s:%s" % (m, rng.choice(vals))] + fields[j:])
    if kind == 15 and len(fields) > 1:  # white space around a separator, inside a field
        i = rng.randrange(len(fields))
        w = rng.choice([" ", "\t", "\n", "\u00a0"])
        fields[i] = rng.choice([fields[i].replace(":", ":" + w), fields[i].replace(":", w + ":"), fields[i] + w, w + fields[i]])
        return "/".join(fields)
    if kind == 16:  # the whole vector twice / a second prefix / other separators
        return rng.choice([s + "/" + s, s + s, s.replace("/", "\\"), s.replace("/", " "), s.replace("/", ","), s.replace(":", "="),
                           s.replace("/", "/", 1).replace("/", "//", 1), s.lower(), s.upper(), s.replace("/", ";")])
    if kind == 17 and len(fields) > 1:  # an unknown metric with a plausible value / a metric of this version with an unknown value
        i = rng.randrange(len(fields) + 1)
        m, vals = rng.choice(VOCAB[ver]["vocab"])
        f = rng.choice([m + "X:" + rng.choice(vals), "Z" + m + ":" + rng.choice(vals), m + ":" + rng.choice(vals) + "X",
                        m + ":", m, m.lower() + ":" + rng.choice(vals), m + ":" + rng.choice(vals).lower()])
        return "/".join(fields[:i] + [f] + fields[i:])
    if kind == 20:  # the vector enclosed the way prose, feeds and shells quote it
        l, r = rng.choice(ENCLOSURES)
        return l + s + r
    if kind == 18 and fields:  # another letter case of a whole metric or value token of the vector itself
        i = rng.randrange(len(fields))
        if ":" in fields[i]:
            m, v = fields[i].split(":", 1)
            fields[i] = rng.choice([m + ":" + v.upper(), m + ":" + v.lower(), m + ":" + v.capitalize(), m.lower() + ":" + v,
                                    m.upper() + ":" + v, m.capitalize() + ":" + v, m.lower() + ":" + v.lower()])
            return "/".join(fields)
    if kind == 19:  # value tokens whose case variants exist in the vocabulary (e.g. v4 U:Clear/Green/Amber/Red)
        mixed = [(m, v) for m, vals in VOCAB[ver]["vocab"] for v in vals if v != v.upper()]
        if mixed:
            m, v = rng.choice(mixed)
            body = [f for f in fields if not f.startswith(m + ":")]
            return "/".join(body + ["%s:%s" % (m, rng.choice([v.upper(), v.lower(), v.swapcase(), v]))])
    return s + rng.choice(ALPHABET)


# ----------------------------------------------------------------------------------------------
# correspondence runs
# ----------------------------------------------------------------------------------------------
class Tally:
    """distribution bookkeeping for the evidence file"""

    def __init__(self):
        self.counts = {}

    def add(self, key, n=1):
        self.counts[key] = self.counts.get(key, 0) + n

    def as_dict(self):
        return dict(sorted(self.counts.items()))


_POOL = None


def _impl_chunk(args):
    mask, rh, chunk = args
    return [impl_construct(v, mask, s, rh=rh) for v, s in chunk]


def par_impl(items, mask, rh=False, workers=14, chunk=5000):
    """implementation outputs for many items, using a fork pool when the list is long"""
    global _POOL
    if len(items) < 40000:
        return [impl_construct(v, mask, s, rh=rh) for v, s in items]
    impl()
    import multiprocessing as mp
    if _POOL is None:
        _POOL = mp.get_context("fork").Pool(workers)
    parts = [(mask, rh, items[i:i + chunk]) for i in range(0, len(items), chunk)]
    out = []
    for r in _POOL.imap(_impl_chunk, parts):
        out.extend(r)
    return out


def compare_construct(items, mask, tally=None, rh=False, nproc=8):
    """items: list of (ver, string).  Runs model and implementation, returns
    (n_compared, disagreements[(ver, s, model, impl)], impl_outputs)"""
    op = "R" if rh else "C"
    lines = ["%s\t%s\t%s\t%s" % (op, v, mask, enc(s)) for v, s in items]
    model = run_driver(lines, nproc)
    dis = []
    outs = []
    impl_all = par_impl(items, mask, rh=rh)
    for (v, s), mo, io_ in zip(items, model, impl_all):
        outs.append(io_)
        if tally is not None:
            tally.add("v%s:%s" % (v, io_.split("\t")[1] if io_.startswith("err") else io_.split("\t")[0]))
        if canon_out(mask, mo) != canon_out(mask, io_):
            dis.append((v, s, mo, io_))
    return len(items), dis, outs


def now():
    return time.time()
