"""Enumerations of the finite quotients named in the properties' quantifiers."""
from __future__ import annotations

import itertools

from .core import VOCAB


def product_assignments(ver, metrics, nd_ok=False):
    """all assignments of the given metrics (their legal values; Not Defined excluded unless nd_ok)"""
    V = VOCAB[ver]
    doms = []
    for m in metrics:
        vals = [v for v in V["legal"][m] if nd_ok or v != V["nd"] or m in V["mandatory"]]
        doms.append(vals)
    for combo in itertools.product(*doms):
        yield dict(zip(metrics, combo))


def all_base(ver):
    return product_assignments(ver, VOCAB[ver]["mandatory"])
