#!/usr/bin/env python3
"""
Evaluate one BENIGN change (a change under which every property still holds): confirm the 34 tests still pass in a
scratch worktree, apply it to /repo, run ALL registered quick checks, undo it straight afterwards.  Any exit code other
than 0 is a false alarm of the machinery (or shows the change is not benign after all) and is recorded with the replay.
Writes /verif/benign/<id>/{patch.diff, meta.json}.  Evidence of these runs goes to /tmp, never to evidence/.

usage: benign_eval.py <id> <patch> [--checks C01,C05,...] [--jobs N] [--note "..."]
"""
import argparse
import json
import os
os.environ["VERIF_EVIDENCE_DIR"] = "/tmp/verif_seed_evidence"
import re
import shutil
import subprocess
import sys
import time
from concurrent.futures import ThreadPoolExecutor

VERIF = os.path.dirname(os.path.dirname(os.path.abspath(__file__)))
REPO = "/repo"
PY = "/venv/bin/python"


def sh(cmd, cwd=None, env=None, timeout=3600):
    p = subprocess.run(cmd, cwd=cwd, env=env, stdout=subprocess.PIPE, stderr=subprocess.STDOUT, timeout=timeout)
    return p.returncode, p.stdout.decode("utf-8", "replace")


def tests(wt):
    rc, out = sh([PY, "-m", "pytest", "-q", "-p", "no:cacheprovider", "-rA", "tests"], cwd=wt)
    return sorted(set(re.findall(r"^PASSED (\S+)", out, re.M)))


def one(c):
    t0 = time.time()
    rc, out = sh([os.path.join(VERIF, "check"), c, "--tier", "quick"], cwd=VERIF, timeout=3000)
    lines = [l for l in out.splitlines() if l.startswith(("VIOLATION", "KNOWN-FINDING", "PASS", "FAIL", "TIMEOUT", "NOTE"))]
    sig = []
    for l in lines:
        m = re.match(r"VIOLATION property=(\S+) replay=(\S+)(.*)", l)
        if m:
            try:
                d = json.load(open(os.path.join(VERIF, m.group(2))))
                sig.append(d.get("signature") or ("no-failing-input-found: " + "; ".join(
                    str(x)[:300] for x in d.get("no_longer_checks", [])[:3])))
            except Exception:  # noqa
                sig.append(m.group(3).strip())
    return c, {"exit": rc, "signatures": sig, "notes": [l[:300] for l in lines if l.startswith("NOTE")][:5],
               "wall_s": round(time.time() - t0, 1)}


def main():
    ap = argparse.ArgumentParser()
    ap.add_argument("id")
    ap.add_argument("patch")
    ap.add_argument("--checks", default="")
    ap.add_argument("--jobs", type=int, default=4)
    ap.add_argument("--note", default="")
    args = ap.parse_args()
    meta = {"id": args.id, "kind": "benign", "note": args.note}
    wt = "/tmp/benigncheck_%s" % args.id
    sh(["git", "-C", REPO, "worktree", "remove", "--force", wt])
    sh(["git", "-C", REPO, "worktree", "add", "--detach", wt, "HEAD"])
    try:
        base_pass = tests(wt)
        rc, out = sh(["git", "-C", wt, "apply", os.path.abspath(args.patch)])
        if rc != 0:
            print("patch does not apply:", out)
            return 2
        mut_pass = tests(wt)
        meta["tests_pass_before"], meta["tests_pass_after"] = len(base_pass), len(mut_pass)
        ok = base_pass == mut_pass and len(base_pass) >= 34
    finally:
        sh(["git", "-C", REPO, "worktree", "remove", "--force", wt])
    if not ok:
        print("tests differ; not a benign change", len(base_pass), len(mut_pass))
        return 3
    checks = ["C%02d" % i for i in range(1, 21)] if not args.checks else args.checks.split(",")
    rc, st = sh(["git", "-C", REPO, "status", "--porcelain"])
    if st.strip():
        print("/repo is not clean; refusing:", st)
        return 2
    sh(["git", "-C", REPO, "apply", os.path.abspath(args.patch)])
    results = {}
    try:
        # first one alone so that the translator + build happen once, then the rest in parallel
        c, r = one(checks[0])
        results[c] = r
        print(c, r["exit"], r["signatures"][:2], flush=True)
        with ThreadPoolExecutor(args.jobs) as ex:
            for c, r in ex.map(one, checks[1:]):
                results[c] = r
                print(c, r["exit"], r["signatures"][:2], r["notes"][:1], flush=True)
    finally:
        sh(["git", "-C", REPO, "checkout", "--", "."])
        sh(["git", "-C", REPO, "clean", "-fdq", "cvss"])       # files a patch created
        sh([PY, os.path.join(VERIF, "tools", "gen_tables.py")])
    meta["checks"] = results
    meta["alarms"] = [c for c, r in results.items() if r["exit"] != 0]
    d = os.path.join(VERIF, "benign", args.id)
    os.makedirs(d, exist_ok=True)
    shutil.copy(args.patch, os.path.join(d, "patch.diff"))
    json.dump(meta, open(os.path.join(d, "meta.json"), "w"), indent=1)
    print("alarms:", meta["alarms"])
    return 0


if __name__ == "__main__":
    sys.exit(main())
