#!/usr/bin/env python3
"""
Evaluate one seeded change: confirm it in a scratch worktree (tests unchanged, demo passes without / fails with
the change), then apply it to /repo, run the registered quick checks, and undo it straight afterwards.
Writes /verif/seeded/<id>/{patch.diff, demo.py, meta.json}.

usage: seed_eval.py <id> <property> <patch> <demo> [--needs "..."] [--checks C01,C05,...|all]
"""
import argparse
import json
import os
os.environ["VERIF_EVIDENCE_DIR"] = "/tmp/verif_seed_evidence"
import re
import shutil
import subprocess
import sys
import time

VERIF = os.path.dirname(os.path.dirname(os.path.abspath(__file__)))
REPO = "/repo"
PY = "/venv/bin/python"


def sh(cmd, cwd=None, env=None, timeout=3600):
    p = subprocess.run(cmd, cwd=cwd, env=env, stdout=subprocess.PIPE, stderr=subprocess.STDOUT, timeout=timeout)
    return p.returncode, p.stdout.decode("utf-8", "replace")


def tests(wt):
    rc, out = sh([PY, "-m", "pytest", "-q", "-p", "no:cacheprovider", "-rA", "tests"], cwd=wt)
    passed = sorted(set(re.findall(r"^PASSED (\S+)", out, re.M)))
    return passed


def main():
    ap = argparse.ArgumentParser()
    ap.add_argument("id")
    ap.add_argument("property")
    ap.add_argument("patch")
    ap.add_argument("demo")
    ap.add_argument("--needs", default="")
    ap.add_argument("--checks", default="")
    ap.add_argument("--scratch", action="store_true",
                    help="run the checks on scratch copies (tools/par_eval.py: patched worktree + copy of the machinery, "
                         "CVSS_REPO) instead of applying the patch to /repo; several seeds can then be evaluated at once")
    args = ap.parse_args()
    meta = {"id": args.id, "property": args.property, "needs_to_manifest": args.needs, "ran": []}
    wt = "/tmp/seedcheck_%s" % args.id
    sh(["git", "-C", REPO, "worktree", "remove", "--force", wt])
    rc, out = sh(["git", "-C", REPO, "worktree", "add", "--detach", wt, "HEAD"])
    try:
        env = dict(os.environ, PYTHONPATH=wt, PYTHONDONTWRITEBYTECODE="1")
        base_pass = tests(wt)
        rc0, out0 = sh([PY, os.path.abspath(args.demo)], cwd="/tmp", env=env)
        rc, out = sh(["git", "-C", wt, "apply", os.path.abspath(args.patch)])
        if rc != 0:
            print("patch does not apply:", out)
            return 2
        mut_pass = tests(wt)
        rc1, out1 = sh([PY, os.path.abspath(args.demo)], cwd="/tmp", env=env)
        meta["confirmation"] = {"tests_pass_before": len(base_pass), "tests_pass_after": len(mut_pass),
                                "same_tests_pass": base_pass == mut_pass, "demo_exit_without_change": rc0,
                                "demo_exit_with_change": rc1, "demo_output_with_change": out1[-1500:]}
        meta["ran"] += ["pytest -q tests (before/after)", "demo (before/after)"]
        confirmed = base_pass == mut_pass and len(base_pass) >= 34 and rc0 == 0 and rc1 != 0
        meta["confirmed"] = confirmed
    finally:
        sh(["git", "-C", REPO, "worktree", "remove", "--force", wt])
    print("confirmation:", json.dumps(meta["confirmation"])[:600])
    if not meta.get("confirmed"):
        print("NOT CONFIRMED; not kept")
        return 3
    checks = [args.property] if not args.checks else (
        ["C%02d" % i for i in range(1, 21)] if args.checks == "all" else args.checks.split(","))
    results = {}
    if args.scratch:
        out_dir = "/tmp/seed_scratch_out"
        rc, out = sh([PY, os.path.join(VERIF, "tools", "par_eval.py"), args.id, os.path.abspath(args.patch), "--checks",
                      ",".join(checks), "--kind", "seed", "--out", out_dir, "--jobs", "2"], timeout=6000)
        print(out[-1500:])
        pm = json.load(open(os.path.join(out_dir, args.id, "meta.json")))
        for c, r in pm["checks"].items():
            results[c] = {"exit": r["exit"], "violation_lines": r["violation_lines"], "signatures": r["signatures"],
                          "wall_s": r["wall_s"],
                          "no_failing_input": any("no-failing-input-found" in x for x in r["signatures"])}
        meta["checks"] = results
        meta["detected_by"] = [c for c, r in results.items() if r["exit"] == 1]
        meta["ran"].append("tools/par_eval.py: patch applied to a scratch worktree, ./check <prop> --tier quick of a copy of the "
                           "machinery with CVSS_REPO pointing at it")
        d = os.path.join(VERIF, "seeded", args.id)
        os.makedirs(d, exist_ok=True)
        shutil.copy(args.patch, os.path.join(d, "patch.diff"))
        shutil.copy(args.demo, os.path.join(d, "demo.py"))
        json.dump(meta, open(os.path.join(d, "meta.json"), "w"), indent=1)
        print("detected by:", meta["detected_by"])
        return 0
    rc, st = sh(["git", "-C", REPO, "status", "--porcelain"])
    if st.strip():
        print("/repo is not clean; refusing:", st)
        return 2
    rc, out = sh(["git", "-C", REPO, "apply", os.path.abspath(args.patch)])
    try:
        for c in checks:
            t0 = time.time()
            rc, out = sh([os.path.join(VERIF, "check"), c, "--tier", "quick"], cwd=VERIF, timeout=3000)
            lines = [l for l in out.splitlines() if l.startswith(("VIOLATION", "KNOWN-FINDING", "PASS", "FAIL", "TIMEOUT"))]
            sig = []
            for l in lines:
                m = re.match(r"VIOLATION property=(\S+) replay=(\S+)(.*)", l)
                if m:
                    try:
                        d = json.load(open(os.path.join(VERIF, m.group(2))))
                        sig.append(d.get("signature") or ("no-failing-input-found: " + "; ".join(str(x)[:150] for x in d.get("no_longer_checks", [])[:2])))
                    except Exception:  # noqa
                        sig.append(m.group(3).strip())
            results[c] = {"exit": rc, "violation_lines": sum(1 for l in lines if l.startswith("VIOLATION")),
                          "signatures": sig, "wall_s": round(time.time() - t0, 1),
                          "no_failing_input": any("no-failing-input-found" in l for l in lines)}
            print(c, "exit", rc, sig[:4])
    finally:
        sh(["git", "-C", REPO, "checkout", "--", "."])
        sh(["git", "-C", REPO, "clean", "-fdq", "cvss"])       # files a patch created
        sh([PY, os.path.join(VERIF, "tools", "gen_tables.py")])
    meta["checks"] = results
    meta["detected_by"] = [c for c, r in results.items() if r["exit"] == 1]
    meta["ran"].append("git -C /repo apply; ./check <prop> --tier quick; git -C /repo checkout -- .")
    d = os.path.join(VERIF, "seeded", args.id)
    os.makedirs(d, exist_ok=True)
    shutil.copy(args.patch, os.path.join(d, "patch.diff"))
    shutil.copy(args.demo, os.path.join(d, "demo.py"))
    json.dump(meta, open(os.path.join(d, "meta.json"), "w"), indent=1)
    print("detected by:", meta["detected_by"])
    return 0


if __name__ == "__main__":
    sys.exit(main())
