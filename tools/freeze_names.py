#!/usr/bin/env python3
"""One-off: freeze the JSON key of each metric and the JSON name of each (metric, value) — the
independent metric-name table of C11 — into tools/names.json (COMMITTED, FROZEN)."""
import json, sys
sys.path.insert(0, "/repo")
from cvss import constants2, constants3, constants4

def us(text, adj):
    if adj and text == "Adjacent":
        return "ADJACENT_NETWORK"
    return text.upper().replace("-", "_").replace(" ", "_")

out = {}
for ver, c, adj in (("2", constants2, False), ("3", constants3, True), ("4", constants4, True)):
    out[ver] = {"keys": dict(c.METRICS_ABBREVIATIONS_JSON),
                "names": {m: {t: us(n, adj) for t, n in d.items()} for m, d in c.METRICS_VALUE_NAMES.items()}}
json.dump(out, open("/verif/tools/names.json", "w"), indent=1, sort_keys=True)
