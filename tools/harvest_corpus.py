#!/usr/bin/env python3
"""
Harvest a regression corpus from the seeded changes: apply each seeded patch to /repo, run its property's quick
check, keep the replay files it writes (the concrete failing inputs) as corpus/<pid>.jsonl entries, undo the patch.
Run by hand after new seeded changes were added; never run by a check.
"""
import glob, json, os, subprocess, sys
os.environ["VERIF_EVIDENCE_DIR"] = "/tmp/verif_seed_evidence"
VERIF = os.path.dirname(os.path.dirname(os.path.abspath(__file__)))
def sh(cmd, **kw):
    return subprocess.run(cmd, stdout=subprocess.PIPE, stderr=subprocess.STDOUT, **kw)
st = sh(["git", "-C", "/repo", "status", "--porcelain"]).stdout.decode().strip()
assert not st, "/repo not clean"
only = sys.argv[1:]
for d in sorted(glob.glob(os.path.join(VERIF, "seeded", "*"))):
    sid = os.path.basename(d)
    if only and sid not in only:
        continue
    meta = json.load(open(os.path.join(d, "meta.json")))
    pid = meta["property"]
    sh(["git", "-C", "/repo", "apply", os.path.join(d, "patch.diff")])
    try:
        sh([os.path.join(VERIF, "check"), pid, "--tier", "quick"], cwd=VERIF)
        path = os.path.join(VERIF, "corpus", pid + ".jsonl")
        have = set(open(path).read().splitlines()) if os.path.exists(path) else set()
        new = 0
        for f in sorted(glob.glob(os.path.join(VERIF, "replays", "%s-quick-0-*.json" % pid))):
            r = json.load(open(f))
            if r.get("replay") is None or "signature" not in r:
                continue
            e = json.dumps({"from": sid, "signature": r["signature"], "what": r["what"], "input": r.get("input"),
                            "expected": r.get("expected"), "replay": r["replay"]}, sort_keys=True, default=repr)
            if e not in have and len(e) < 20000:
                have.add(e); new += 1
        with open(path, "w") as fo:
            fo.write("\n".join(sorted(have)) + "\n")
        print(sid, pid, "+%d" % new)
    finally:
        sh(["git", "-C", "/repo", "checkout", "--", "."])
        sh(["git", "-C", "/repo", "clean", "-fdq", "cvss"])       # files a patch created
sh(["/venv/bin/python", os.path.join(VERIF, "tools", "gen_tables.py")])
