#!/usr/bin/env python3
"""
One-off: transcribe the vectorString patterns of the pinned FIRST schemas (tools/schemas) into Lean
`Re` terms, using CPython's own regex parser.  Output lean/Cvss/Spec/RegexPatterns.lean is COMMITTED
and FROZEN.  The patterns are anchored `^…$`; the Lean term is the body between the anchors.
"""
import json, os, sys
try:
    import re._parser as sre_parse
    import re._constants as C
except ImportError:
    import sre_parse
    import sre_constants as C

HERE = os.path.dirname(os.path.abspath(__file__))

def ch(c):
    c = chr(c)
    if c == "'": return "'\\''"
    if c == "\\": return "'\\\\'"
    return "'%s'" % c

def conv_seq(items):
    parts = [conv(op, av) for op, av in items]
    if not parts: return "Re.eps"
    return "(Re.seqs [%s])" % ", ".join(parts)

def conv(op, av):
    if op is C.LITERAL:
        return "(Re.chr %s)" % ch(av)
    if op is C.IN:
        cs = []
        for o, a in av:
            if o is C.LITERAL: cs.append(ch(a))
            elif o is C.RANGE: cs += [ch(x) for x in range(a[0], a[1] + 1)]
            else: raise ValueError(o)
        return "(Re.cls [%s])" % ", ".join(cs)
    if op is C.ANY:
        return "Re.any"
    if op is C.SUBPATTERN:
        return conv_seq(av[3])
    if op is C.BRANCH:
        return "(Re.alts [%s])" % ", ".join(conv_seq(b) for b in av[1])
    if op in (C.MAX_REPEAT,):
        lo, hi, body = av
        b = conv_seq(body)
        if (lo, hi) == (0, 1): return "(Re.opt %s)" % b
        if lo == 0 and hi == C.MAXREPEAT: return "(Re.star %s)" % b
        raise ValueError((lo, hi))
    raise ValueError(op)

out = ["""/-
  FROZEN transcription of the `vectorString` patterns of FIRST's JSON schemas (pinned copies in
  tools/schemas), produced once by tools/freeze_spec_regex.py with CPython's regex parser.
  Each term is the pattern body between the anchors `^` and `$`.
-/
import Cvss.Spec.Regex
namespace Cvss.Spec.Regex
set_option maxRecDepth 100000
"""]
for ver, name in [("2.0", "pattern20"), ("3.0", "pattern30"), ("3.1", "pattern31"), ("4.0", "pattern40")]:
    pat = json.load(open(os.path.join(HERE, "schemas", "cvss-v%s.json" % ver)))["properties"]["vectorString"]["pattern"]
    p = list(sre_parse.parse(pat))
    assert p[0][0] is C.AT and p[-1][0] is C.AT, pat
    out.append("/-- %s -/" % pat.replace("-/", "- /"))
    out.append("def %s : Re := %s\n" % (name, conv_seq(p[1:-1])))
out.append("end Cvss.Spec.Regex\n")
open(os.path.join(HERE, "..", "lean", "Cvss", "Spec", "RegexPatterns.lean"), "w").write("\n".join(out))
