#!/usr/bin/env python3
"""
Cross-check of the FROZEN specification copies (lean/Cvss/Spec/*) against the official-calculator / cvsslib expectations
that ship with the repository (tests/vectors_*): every line `vector - (scores)` is evaluated by the Lean SPECIFICATION
(driver op `S score`) and compared with the expected scores of the file.  Labelled as a test of the specification copies,
not a proof.  usage: spec_crosscheck.py   (exit 0 if all agree)
"""
import ast, glob, os, sys
HERE = os.path.dirname(os.path.abspath(__file__))
sys.path.insert(0, HERE)
from vh import core

def parse_line(line):
    vec, exp = line.rstrip("\n").split(" - ")
    exp = exp.strip()
    try:
        val = ast.literal_eval(exp)
    except Exception:
        val = ast.literal_eval(exp.replace("(", "").replace(")", ""))
    if not isinstance(val, tuple):
        val = (val,)
    return vec, val

def fmt(x):
    return "None" if x is None else repr(float(x) + 0.0)  # the files print a numerically zero score as -0.0

total = bad = 0
for path in sorted(glob.glob(os.path.join(core.REPO, "tests", "vectors_*"))):
    name = os.path.basename(path)
    ver = "4" if name.endswith("4") else "2" if name.endswith("2") else "3"
    rows = [parse_line(l) for l in open(path) if " - " in l]
    if not rows:
        continue
    out = core.run_driver(["S\tscore\t%s\t%s" % (ver, core.enc(v)) for v, _ in rows])
    nb = 0
    for (v, exp), mo in zip(rows, out):
        want = "ok\t" + " ".join(fmt(x) for x in exp)
        if mo != want:
            nb += 1
            if nb <= 3:
                print("  MISMATCH", name, v, "file:", want, "spec:", mo)
    print("%-24s %5d vectors, %d mismatches" % (name, len(rows), nb))
    total += len(rows); bad += nb
print("TOTAL %d vectors, %d mismatches" % (total, bad))
sys.exit(1 if bad else 0)
