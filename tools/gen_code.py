#!/usr/bin/env python3
"""
Source translator: the TEXT of /repo's cvss/cvss2.py, cvss3.py, cvss4.py  ->  Lean definitions
lean/Cvss/Gen/Code2.lean, Code3.lean, Code4.lean (shallow embedding into `Py.M = Except Py.Exc`, semantics of
the Python fragments in lean/Cvss/Py.lean).

Where gen_tables.py ties the DATA of the model to the code, this ties the LOGIC: the three classes' constructors
(`__init__`, `parse_vector`, `check_mandatory`, ..., every scoring method incl. CVSS4.compute_base_score) and
accessors (`clean_vector`, `severities`, `scores`, sub-vectors, `as_json`, `rh_vector`, `from_rh_vector`, `__eq__`,
`__hash__`) are re-translated from the current source on every run and `Cvss/Props/CodeTie*.lean` proves the
hand-written model equal to the translation, so a changed constant, operator, rounding mode, branch, look-up or
exception class breaks a kernel-checked equality instead of having to be hit by a sampled input.  The compiled
`codedriver` executes the translation and tools/vh/codetie.py compares it with CPython on every run.

The translator accepts a small, explicitly listed subset of Python (DESIGN.md section 16).  A method outside the
subset is reported as `untranslated` (the tie for that class is then not in force and the check says so); it is
never translated approximately.  Two call-site rules are shape-checked: `get_eq_maxes` / `extract_value_metric`
of CVSS4 are abstracted to the (metric, value) lists gen_tables.py extracts with the library's own function.

usage: gen_code.py [--repo /repo] [--out lean/Cvss/Gen]
"""
from __future__ import annotations

import argparse
import ast
import json
import os
import re
import sys
from decimal import Decimal
from fractions import Fraction

sys.path.insert(0, os.path.dirname(os.path.abspath(__file__)))
from gen_tables import s as lean_str, write_if_changed  # noqa: E402


class Unsupported(Exception):
    pass


# the only shape of CVSS4.get_eq_maxes the translation rule for its call sites is valid for
GET_EQ_MAXES_DUMP = ast.dump(ast.parse(
    'def get_eq_maxes(self, lookup, eq):\n    return MAX_COMPOSED["eq" + str(eq)][str(lookup[eq - 1])]\n').body[0])


def rat_of(text):
    f = Fraction(Decimal(text))
    return "(mkRat (%d) %d)" % (f.numerator, f.denominator)


LEAN_RESERVED = {"from", "at", "end", "open", "macro", "by", "do", "then", "else", "fun", "let", "have", "show",
                 "match", "with", "in", "if", "at", "Type", "Prop", "instance", "local", "prefix", "step", "value",
                 "max", "min", "id", "some", "none", "pure"}


def mangle(name):
    return name + "_" if name in LEAN_RESERVED else name


ROUNDINGS = {"ROUND_CEILING": "ceiling", "ROUND_FLOOR": "floor", "ROUND_HALF_UP": "halfUp",
             "ROUND_HALF_EVEN": "halfEven", "ROUND_HALF_DOWN": "halfDown", "ROUND_DOWN": "down", "ROUND_UP": "up"}

# type tags: Dec ODec S OS B Int OInt Map OMap NoneT Unit, ("Dict", T), ("List", T)
LEAN_TYPE = {"Dec": "Rat", "ODec": "Option Rat", "S": "Str", "OS": "Option Str", "B": "Bool", "Int": "Int",
             "OInt": "Option Int", "Map": "List (Str × Str)", "OMap": "Option (List (Str × Str))", "Unit": "Unit",
             "J": "Py.J", "F": "Option Rat", "FV": "Py.FVal", "Self": "Self"}


def lean_type(t):
    if isinstance(t, tuple) and t[0] == "Maybe":
        return "Option %s" % paren(lean_type(t[1]))
    if isinstance(t, tuple) and t[0] == "IDict":
        return "List (Nat × Nat)"
    if isinstance(t, tuple) and t[0] == "IIDict":
        return "List ((Nat × Nat) × Nat)"
    if isinstance(t, tuple):
        if t[0] == "Dict":
            return "List (Str × %s)" % paren(lean_type(t[1]))
        if t[0] == "List":
            return "List %s" % paren(lean_type(t[1]))
    return LEAN_TYPE[t]


def paren(x):
    return "(%s)" % x if " " in x and not x.startswith("(") else x


class ClassTranslator:
    def __init__(self, tree, cls_name, gen_ns, consts, param_types, wanted, func_wanted):
        self.tree = tree
        self.cls = next(n for n in tree.body if isinstance(n, ast.ClassDef) and n.name == cls_name)
        self.gen_ns = gen_ns
        self.consts = consts            # module constant -> (lean term, type)
        self.param_types = param_types  # parameter name -> type
        self.wanted = wanted
        self.func_wanted = func_wanted
        self.methods = {n.name: n for n in self.cls.body if isinstance(n, ast.FunctionDef)}
        self.funcs = {n.name: n for n in tree.body if isinstance(n, ast.FunctionDef)}
        self.tmp = 0
        self.raw_consts = set(consts)
        self.placeholders = {}
        self.closure_mut = {}
        self.attr_types = {}
        self.sigs = {}      # method -> dict(mutates, ret, params)
        self.fsigs = {}
        self.infer_attrs()
        self.infer_sigs()

    # ---------------------------------------------------------------- attribute types
    def shallow(self, node, depth=0):
        if isinstance(node, ast.Constant):
            if node.value is None:
                return "none"
            if isinstance(node.value, bool):
                return "bool"
            if isinstance(node.value, int):
                return "int"
            if isinstance(node.value, float):
                return "num"
            if isinstance(node.value, str):
                return "str"
        if isinstance(node, ast.Dict):
            return "map"
        if isinstance(node, ast.List):
            return "list"
        if isinstance(node, ast.Name):
            return {"S": "str"}.get(self.param_types.get(node.id), "unknown")
        if isinstance(node, ast.Attribute) and isinstance(node.value, ast.Name) and node.value.id == "self":
            return "attr:" + node.attr
        if isinstance(node, ast.Subscript):
            if is_self_attr(node.value, "metrics"):
                return "str"
            return "unknown"
        if isinstance(node, ast.Call):
            f = node.func
            if isinstance(f, ast.Name) and f.id in ("D", "min", "max", "round_up", "round_to_1_decimal", "final_rounding",
                                                    "round"):
                return "num"
            if isinstance(f, ast.Attribute) and f.attr == "get" and is_self_attr(f.value, "metrics"):
                if len(node.args) == 2 and isinstance(node.args[1], ast.Constant) and isinstance(node.args[1].value, str):
                    return "str"
                return "ostr"
            if isinstance(f, ast.Attribute) and f.attr == "copy":
                return self.shallow(node.args[0]) if node.args else "unknown"
            if isinstance(f, ast.Attribute) and is_self(f.value) and f.attr in self.methods and depth < 4:
                kinds = {self.shallow(r.value, depth + 1) for r in ast.walk(self.methods[f.attr])
                         if isinstance(r, ast.Return) and r.value is not None}
                if len(kinds) == 1:
                    return kinds.pop()
                if kinds == {"num", "none"}:
                    return "onum"
            if isinstance(f, ast.Attribute) and f.attr == "quantize":
                return "num"
            return "unknown"
        if isinstance(node, (ast.BinOp,)):
            return "num"
        return "unknown"

    def infer_attrs(self):
        rhs = {}
        for m in self.methods.values():
            for n in ast.walk(m):
                if isinstance(n, ast.Assign) and len(n.targets) == 1 and is_self_attr(n.targets[0]):
                    rhs.setdefault(n.targets[0].attr, []).append(self.shallow(n.value))
        kinds = {}
        for _ in range(4):
            for a, ks in rhs.items():
                res = set()
                for k in ks:
                    if k.startswith("attr:"):
                        res |= kinds.get(k[5:], set())
                    else:
                        res.add(k)
                kinds[a] = res
        for a, ks in kinds.items():
            opt = "none" in ks or "ostr" in ks or "onum" in ks
            core = {("num" if k == "onum" else k) for k in ks} - {"none"}
            if core <= {"num"} and core:
                t = "ODec" if opt else "Dec"
            elif core <= {"str", "ostr"} and core:
                t = "OS" if opt else "S"
            elif core <= {"int"} and core:
                t = "OInt" if opt else "Int"
            elif core <= {"map"} and core:
                t = "OMap" if opt else "Map"
            elif core <= {"list"} and core:
                t = "Skip"
            elif core <= {"bool"} and core:
                t = "B"
            else:
                t = "Unknown"
            self.attr_types[a] = t
        # numeric attributes only ever initialised to None but assigned numerics through unknown calls stay Unknown

    # ---------------------------------------------------------------- signatures
    def mutates(self, fn, seen=()):
        for n in ast.walk(fn):
            if isinstance(n, (ast.Assign, ast.AugAssign)):
                tg = n.targets if isinstance(n, ast.Assign) else [n.target]
                for t in tg:
                    if is_self_attr(t) or (isinstance(t, ast.Subscript) and is_self_attr(t.value)):
                        return True
            if isinstance(n, ast.Call) and isinstance(n.func, ast.Attribute) and is_self(n.func.value):
                callee = n.func.attr
                if callee in self.methods and callee not in seen and callee != fn.name:
                    if self.mutates(self.methods[callee], seen + (fn.name,)):
                        return True
        return False

    def infer_sigs(self):
        for name, fn in self.methods.items():
            params = []
            args = fn.args.args[1:]
            defaults = [None] * (len(args) - len(fn.args.defaults)) + list(fn.args.defaults)
            for a, d in zip(args, defaults):
                t = self.param_types.get(a.arg)
                if t is None and isinstance(d, ast.Constant) and isinstance(d.value, bool):
                    t = "B"
                params.append((a.arg, t, d))
            self.sigs[name] = {"mutates": self.mutates(fn), "params": params, "ret": None}
        for name, fn in self.funcs.items():
            params = [(a.arg, self.param_types.get(a.arg), None) for a in fn.args.args]
            self.fsigs[name] = {"params": params, "ret": None}

    # ---------------------------------------------------------------- expressions
    def fresh(self, base="t"):
        self.tmp += 1
        return "%s%d" % (base, self.tmp)

    def num(self, pre, term, ty):
        """coerce to Dec"""
        if ty == "Dec":
            return term
        if ty == "ODec":
            v = self.fresh("v")
            pre.append("let %s ← Py.req %s" % (v, paren(term)))
            return v
        if ty == "Int":
            return "((%s : Int) : Rat)" % term
        raise Unsupported("numeric operand of type %s" % (ty,))

    def fnum(self, term, ty):
        """coerce a finite number to a float that may be NaN (`Option Rat`, `none` = nan)"""
        if ty == "F":
            return term
        if ty == "Dec":
            return "(some %s)" % paren(term)
        if ty == "Int":
            return "(some ((%s : Int) : Rat))" % term
        raise Unsupported("float operand of type %s" % (ty,))

    def coerce(self, term, ty, target):
        if ty == target:
            return term
        if isinstance(target, tuple) and target[0] == "Maybe":
            if ty == target[1]:
                return "(some %s)" % paren(term)
            return "(some %s)" % paren(self.coerce(term, ty, target[1]))
        if target == "F" and ty in ("Dec", "Int"):
            return self.fnum(term, ty)
        if target == "Dec" and ty == "Int":
            return "((%s : Int) : Rat)" % term
        if target == "J":
            if ty == "S":
                return "(Py.J.str %s)" % paren(term)
            if ty == "Dec":
                return "(Py.J.num %s)" % paren(term)
            if ty == "OS":
                return "(match %s with | some x => Py.J.str x | none => Py.J.null)" % term
            if ty == "ODec":
                return "(match %s with | some x => Py.J.num x | none => Py.J.null)" % term
            if ty == "NoneT":
                return "Py.J.null"
        if target == "ODec" and ty == "Dec":
            return "(some %s)" % paren(term)
        if target == "OS" and ty == "S":
            return "(some %s)" % paren(term)
        if target == "OInt" and ty == "Int":
            return "(some %s)" % paren(term)
        if target == "OMap" and ty == "Map":
            return "(some %s)" % paren(term)
        if ty == "NoneT" and target in ("ODec", "OS", "OInt", "OMap"):
            return "none"
        raise Unsupported("cannot store %s into %s" % (ty, target))

    def ex(self, node, env):
        """-> (pre lines, pure term, type)"""
        pre = []
        if isinstance(node, ast.Constant):
            v = node.value
            if v is None:
                return pre, "none", "NoneT"
            if isinstance(v, bool):
                return pre, ("true" if v else "false"), "B"
            if isinstance(v, int):
                return pre, "(%d : Int)" % v, "Int"
            if isinstance(v, float):
                return pre, rat_of(repr(v)), "Dec"
            if isinstance(v, str):
                return pre, lean_str(v), "S"
            raise Unsupported("constant %r" % (v,))
        if isinstance(node, ast.Name):
            if node.id in env and isinstance(env[node.id], tuple) and env[node.id][0] == "Maybe":
                v = self.fresh("u")
                pre.append("let %s ← Py.bound %s" % (v, mangle(node.id)))
                return pre, v, env[node.id][1]
            if node.id in env:
                return pre, mangle(node.id), env[node.id]
            if node.id in self.consts:
                return pre, self.consts[node.id][0], self.consts[node.id][1]
            raise Unsupported("name %s" % node.id)
        if isinstance(node, ast.Attribute):
            if is_self(node.value):
                t = self.attr_types.get(node.attr)
                if t in (None, "Skip", "Unknown"):
                    raise Unsupported("attribute self.%s" % node.attr)
                return pre, "self.%s" % mangle(node.attr), t
            raise Unsupported("attribute %s" % ast.dump(node)[:60])
        if isinstance(node, ast.Dict):
            items = []
            vts = set()
            for k, v in zip(node.keys, node.values):
                if not (isinstance(k, ast.Constant) and isinstance(k.value, str)):
                    raise Unsupported("dict key")
                p, t, ty = self.ex(v, env)
                if p:
                    raise Unsupported("effectful dict value")
                items.append((lean_str(k.value), t, ty))
                vts.add(ty)
            if vts <= {"Dec", "Int"}:
                vt = "Dec"
                body = ", ".join("(%s, %s)" % (k, t if ty == "Dec" else "((%s : Int) : Rat)" % t) for k, t, ty in items)
            elif vts <= {"Dec", "NoneT", "ODec"}:
                vt = "ODec"
                body = ", ".join("(%s, %s)" % (k, self.coerce(t, ty, "ODec")) for k, t, ty in items)
            elif vts <= {"S"}:
                vt = "S"
                body = ", ".join("(%s, %s)" % (k, t) for k, t, ty in items)
            else:
                raise Unsupported("dict literal value types %s" % (vts,))
            return pre, "([%s] : %s)" % (body, lean_type(("Dict", vt))), ("Dict", vt)
        if isinstance(node, (ast.ListComp, ast.GeneratorExp)):
            if len(node.generators) != 1 or node.generators[0].ifs or not isinstance(node.generators[0].target, ast.Name):
                raise Unsupported("comprehension shape")
            pi, ti, yi = self.ex(node.generators[0].iter, env)
            pre += pi
            if not (isinstance(yi, tuple) and yi[0] == "List"):
                raise Unsupported("comprehension over %s" % (yi,))
            var = node.generators[0].target.id
            env2 = dict(env)
            env2[var] = yi[1]
            pe, te, ye = self.ex(node.elt, env2)
            if ye == "P":
                te, ye = "(decide %s)" % te, "B"
            if pe:
                v = self.fresh("l")
                pre.append("let %s ← List.mapM (fun (%s : %s) => (do\n%s)) %s" % (
                    v, mangle(var), lean_type(yi[1]), ind(pe + ["pure %s" % te], 2), paren(ti)))
                return pre, v, ("List", ye)
            return pre, "(List.map (fun %s => %s) %s)" % (mangle(var), te, paren(ti)), ("List", ye)
        if isinstance(node, (ast.List, ast.Tuple)):
            elts = [self.ex(e, env) for e in node.elts]
            for p_, _, _ in elts:
                pre += p_           # elements are evaluated left to right
            tys = {ty for _, _, ty in elts}
            if len(tys) != 1:
                raise Unsupported("list literal types %s" % (tys,))
            ty = tys.pop()
            return pre, "([%s] : List %s)" % (", ".join(t for _, t, _ in elts), paren(lean_type(ty))), ("List", ty)
        if isinstance(node, ast.BinOp):
            pl, tl, yl = self.ex(node.left, env)
            pre += pl
            if isinstance(node.op, ast.Pow):
                n = None
                r = node.right
                if isinstance(r, ast.Call) and isinstance(r.func, ast.Name) and r.func.id == "D":
                    f = Fraction(Decimal(r.args[0].value))
                    if f.denominator == 1 and f >= 0:
                        n = int(f)
                elif isinstance(r, ast.Constant) and isinstance(r.value, int) and r.value >= 0:
                    n = r.value
                if n is None:
                    raise Unsupported("exponent")
                a = self.num(pre, tl, yl)
                return pre, "(%s ^ %d)" % (a, n), "Dec"
            pr, tr, yr = self.ex(node.right, env)
            if isinstance(node.op, ast.Add) and yl == "S" and yr == "S":
                pre += pr
                return pre, "(%s ++ %s)" % (tl, tr), "S"
            if isinstance(node.op, ast.Add) and yl == "Map" and yr == "Map":
                pre += pr
                return pre, "(%s ++ %s)" % (tl, tr), "Map"
            if yl == "Int" and yr == "Int" and isinstance(node.op, (ast.Add, ast.Sub, ast.Mult)):
                pre += pr
                op = {ast.Add: "+", ast.Sub: "-", ast.Mult: "*"}[type(node.op)]
                return pre, "(%s %s %s)" % (tl, op, tr), "Int"
            if "F" in (yl, yr) and isinstance(node.op, (ast.Add, ast.Sub, ast.Mult)):
                pre += pr
                fn = {ast.Add: "fadd", ast.Sub: "fsub", ast.Mult: "fmul"}[type(node.op)]
                return pre, "(Py.%s %s %s)" % (fn, self.fnum(tl, yl), self.fnum(tr, yr)), "F"
            if isinstance(node.op, ast.Div):
                pre += pr
                v = self.fresh()
                if "F" in (yl, yr):
                    pre.append("let %s ← Py.fdiv %s %s" % (v, self.fnum(tl, yl), self.fnum(tr, yr)))
                    return pre, v, "F"
                a = self.num(pre, tl, yl)
                b = self.num(pre, tr, yr)
                pre.append("let %s ← Py.div %s %s" % (v, paren(a), paren(b)))
                return pre, v, "Dec"
            a = self.num(pre, tl, yl)
            pre += pr
            b = self.num(pre, tr, yr)
            ops = {ast.Add: "+", ast.Sub: "-", ast.Mult: "*"}
            if type(node.op) not in ops:
                raise Unsupported("operator %s" % type(node.op).__name__)
            return pre, "(%s %s %s)" % (a, ops[type(node.op)], b), "Dec"
        if isinstance(node, ast.UnaryOp):
            p, t, ty = self.ex(node.operand, env)
            pre += p
            if isinstance(node.op, ast.Not):
                return pre, "(¬ %s)" % self.as_prop(t, ty), "P"
            if isinstance(node.op, ast.USub):
                return pre, "(-%s)" % self.num(pre, t, ty), "Dec"
            raise Unsupported("unary")
        if isinstance(node, ast.BoolOp):
            parts = []
            effect = False
            for v in node.values:
                p, t, ty = self.ex(v, env)
                parts.append((p, self.as_prop(t, ty)))
                effect = effect or bool(p)
            if not effect:
                op = " ∧ " if isinstance(node.op, ast.And) else " ∨ "
                return pre, "(" + op.join(t for _, t in parts) + ")", "P"
            # short-circuit evaluation: later operands are evaluated only when needed
            p0, t0 = parts[-1]
            cur = p0 + ["pure (decide %s)" % t0]
            for p, t in reversed(parts[:-1]):
                if isinstance(node.op, ast.And):
                    cur = p + ["if %s then (do\n%s) else pure false" % (t, ind(cur, 2))]
                else:
                    cur = p + ["if %s then pure true else (do\n%s)" % (t, ind(cur, 2))]
            v = self.fresh("b")
            pre.append("let %s ← (do\n%s)" % (v, ind(cur, 2)))
            return pre, v, "B"
        if isinstance(node, ast.Compare):
            if len(node.ops) != 1:
                raise Unsupported("chained comparison")
            return self.compare(node.left, node.ops[0], node.comparators[0], env)
        if isinstance(node, ast.IfExp):
            pc, tc, yc = self.ex(node.test, env)
            pre += pc
            pa, ta, ya = self.ex(node.body, env)
            pb, tb, yb = self.ex(node.orelse, env)
            if ya != yb:
                u = unify([ya, yb])         # numeric widening (int / Decimal / float-with-nan), T / None
                ta, tb, ya, yb = self.coerce(ta, ya, u), self.coerce(tb, yb, u), u, u
            if not pa and not pb:
                return pre, "(if %s then %s else %s)" % (self.as_prop(tc, yc), ta, tb), ya
            v = self.fresh()
            pre.append("let %s ← (if %s then (do\n%s) else (do\n%s))" % (
                v, self.as_prop(tc, yc), ind(pa + ["pure %s" % ta], 2), ind(pb + ["pure %s" % tb], 2)))
            return pre, v, ya
        if isinstance(node, ast.Subscript):
            if isinstance(node.slice, ast.Slice):
                sl = node.slice
                p, t, ty = self.ex(node.value, env)
                pre += p
                if (ty == "S" or (isinstance(ty, tuple) and ty[0] == "List")) and sl.upper is None and sl.step is None \
                        and isinstance(sl.lower, ast.Constant) and isinstance(sl.lower.value, int) and sl.lower.value >= 0:
                    return pre, "(List.drop %d %s)" % (sl.lower.value, t), ty
                raise Unsupported("slice")
            # MAX_SEVERITY["eqK"][i] and MAX_SEVERITY["eq3eq6"][i][j]
            ms = self.max_severity(node, env)
            if ms is not None:
                return ms
            # self.get_eq_maxes(mv, 3)[mv[5]]
            v0 = node.value
            if isinstance(v0, ast.Call) and isinstance(v0.func, ast.Attribute) and is_self(v0.func.value) \
                    and v0.func.attr == "get_eq_maxes" and len(v0.args) == 2 and isinstance(v0.args[1], ast.Constant) \
                    and v0.args[1].value == 3:
                self.check_shape("get_eq_maxes", GET_EQ_MAXES_DUMP)
                p, t, ty = self.ex(v0.args[0], env)
                pre += p
                pk, tk, yk = self.ex(node.slice, env)
                pre += pk
                if ty != "S" or yk != "S":
                    raise Unsupported("eq3/eq6 max-vector look-up types")
                c = self.fresh()
                pre.append("let %s ← Py.charAt %s 2" % (c, paren(t)))
                v = self.fresh()
                pre.append("let %s ← Py.getitem (%s ++ %s) Gen.V4.maxEq36" % (v, c, tk))
                return pre, v, ("List", "Map")
            p, t, ty = self.ex(node.value, env)
            pre += p
            pk, tk, yk = self.ex(node.slice, env)
            pre += pk
            if isinstance(ty, tuple) and ty[0] == "List" and yk == "Int" and isinstance(node.slice, ast.Constant) \
                    and node.slice.value >= 0:
                v = self.fresh()
                pre.append("let %s ← Py.listAt %s %d" % (v, paren(t), node.slice.value))
                return pre, v, ty[1]
            if ty == "S" and yk == "Int":
                v = self.fresh()
                if isinstance(node.slice, ast.Constant) and node.slice.value >= 0:
                    pre.append("let %s ← Py.charAt %s %d" % (v, paren(t), node.slice.value))
                    return pre, v, "S"
                raise Unsupported("string index")
            if isinstance(ty, tuple) and ty[0] == "Dict" and yk == "OS":
                v = self.fresh()
                pre.append("let %s ← Py.getitemO %s %s" % (v, paren(tk), paren(t)))
                return pre, v, ty[1]
            if ty == "OMap":
                m = self.fresh("d")
                pre.append("let %s ← Py.req %s" % (m, t))
                t, ty = m, "Map"
            if ty == "Map":
                ty = ("Dict", "S")
            if isinstance(ty, tuple) and ty[0] == "Dict" and yk == "S":
                v = self.fresh()
                pre.append("let %s ← Py.getitem %s %s" % (v, paren(tk), paren(t)))
                return pre, v, ty[1]
            raise Unsupported("subscript of %s by %s" % (ty, yk))
        if isinstance(node, ast.Call):
            return self.call(node, env)
        raise Unsupported("expression %s" % type(node).__name__)

    def effectful(self, elt, env, comp):
        """does the element of a comprehension raise / read through a method (needs `mapM`)?"""
        try:
            var = comp.generators[0].target.id
            _, _, yi = self.ex(comp.generators[0].iter, env)
            env2 = dict(env)
            env2[var] = yi[1]
            save = self.tmp
            pe, _, _ = self.ex(elt, env2)
            self.tmp = save
            if pe and all(l.startswith("let ") and "← Py.req self." in l for l in pe):
                return False
            return bool(pe)
        except Unsupported:
            return False
        except Exception:  # noqa
            return False

    def append_type(self, var, fn, env):
        """element type of a list that starts empty: strings, unless its appends add up max-vector pieces"""
        if fn is not None:
            for n in ast.walk(fn):
                if isinstance(n, ast.Call) and isinstance(n.func, ast.Attribute) and n.func.attr == "append" \
                        and isinstance(n.func.value, ast.Name) and n.func.value.id == var and n.args:
                    a = n.args[0]
                    names = {x.id for x in ast.walk(a) if isinstance(x, ast.Name)}
                    if isinstance(a, ast.BinOp) and names and all(x.endswith("_max") or x.endswith("max") for x in names):
                        return "Map"
        return "S"

    def check_shape(self, name, dump):
        if ast.dump(self.methods[name]) != dump:
            raise Unsupported("%s no longer has the shape its translation rule assumes" % name)

    def max_severity(self, node, env):
        chain = []
        n = node
        while isinstance(n, ast.Subscript):
            chain.append(n.slice)
            n = n.value
        if not (isinstance(n, ast.Name) and n.id == "MAX_SEVERITY" and "MAX_SEVERITY" in self.raw_consts):
            return None
        chain.reverse()
        if not (isinstance(chain[0], ast.Constant) and isinstance(chain[0].value, str)):
            raise Unsupported("MAX_SEVERITY key")
        key = chain[0].value
        pre = []
        idx = []
        for c in chain[1:]:
            p, t, ty = self.ex(c, env)
            pre += p
            if ty != "Int":
                raise Unsupported("MAX_SEVERITY index type")
            idx.append(t)
        tbl = {"eq1": ("Gen.V4.maxSeverityEq1", 1), "eq2": ("Gen.V4.maxSeverityEq2", 1), "eq4": ("Gen.V4.maxSeverityEq4", 1),
               "eq5": ("Gen.V4.maxSeverityEq5", 1), "eq3eq6": ("Gen.V4.maxSeverityEq36", 2)}.get(key)
        if tbl is None or len(idx) != tbl[1]:
            raise Unsupported("MAX_SEVERITY[%r] with %d indices" % (key, len(idx)))
        v = self.fresh()
        if tbl[1] == 1:
            pre.append("let %s ← Py.getitemN %s %s" % (v, paren(idx[0]), tbl[0]))
        else:
            pre.append("let %s ← Py.getitemNN %s %s %s" % (v, paren(idx[0]), paren(idx[1]), tbl[0]))
        return pre, v, "Int"

    def as_prop(self, term, ty):
        if ty == "P":
            return term
        if ty == "B":
            return "(%s = true)" % term
        if isinstance(ty, tuple) and ty[0] == "List":
            return "(%s ≠ [])" % term
        if ty == "ODec":
            return "(%s ≠ none ∧ %s ≠ some 0)" % (term, term)
        if ty == "Dec":
            return "(%s ≠ 0)" % term
        if ty == "S":
            return "(%s ≠ [])" % term
        raise Unsupported("truth value of type %s" % (ty,))

    def compare(self, left, op, right, env):
        pre = []
        if isinstance(op, ast.In) and isinstance(left, ast.Call) and isinstance(left.func, ast.Name) and left.func.id == "type" \
                and len(left.args) == 1 and isinstance(right, ast.Tuple) \
                and all(isinstance(e, ast.Name) and e.id in ("float", "int") for e in right.elts) \
                and {e.id for e in right.elts} == {"float", "int"}:
            p, t, ty = self.ex(left.args[0], env)
            if ty in ("F", "Dec", "Int") and ty != "Dec" or ty == "F":
                return p, "True", "P"        # a float (possibly nan) or an int: statically known
            raise Unsupported("type() test on %s" % (ty,))
        pl, tl, yl = self.ex(left, env)
        pre += pl
        if isinstance(op, (ast.In, ast.NotIn)):
            neg = isinstance(op, ast.NotIn)
            if isinstance(right, ast.List):
                alts = []
                for e in right.elts:
                    _, t, _ = self.compare(left, ast.Eq(), e, env)
                    alts.append(t)
                t = "(" + " ∨ ".join(alts) + ")"
            elif isinstance(right, ast.Tuple):
                alts = []
                for e in right.elts:
                    _, t, _ = self.compare(left, ast.Eq(), e, env)
                    alts.append(t)
                t = "(" + " ∨ ".join(alts) + ")"
            else:
                pr, tr, yr = self.ex(right, env)
                pre += pr
                if yr == "OMap":
                    m = self.fresh("d")
                    pre.append("let %s ← Py.req %s" % (m, tr))
                    tr, yr = m, "Map"
                if (yr == "Map" or (isinstance(yr, tuple) and yr[0] == "Dict")) and yl == "S":
                    t = "(Py.contains %s %s = true)" % (paren(tl), paren(tr))
                elif isinstance(yr, tuple) and yr[0] == "List" and yr[1] == yl:
                    t = "(%s ∈ %s)" % (tl, tr)
                else:
                    raise Unsupported("membership %s in %s" % (yl, yr))
            return pre, ("(¬ %s)" % t if neg else t), "P"
        pr, tr, yr = self.ex(right, env)
        if isinstance(op, (ast.Eq, ast.NotEq)):
            pre += pr
            pairs = {("S", "S"), ("Dec", "Dec"), ("OS", "OS"), ("Int", "Int"), ("B", "B")}
            if (yl, yr) in pairs:
                a, b = tl, tr
            elif yl in ("OS", "OInt", "ODec") and yr in ("S", "Int", "Dec") and yl[1:] == {"S": "S", "Int": "Int", "Dec": "Dec"}[yr]:
                a, b = tl, "some %s" % paren(tr)
            elif yr in ("OS", "OInt", "ODec") and yl in ("S", "Int", "Dec") and yr[1:] == yl:
                a, b = "some %s" % paren(tl), tr
            elif yl in ("OS", "OInt", "ODec", "OMap") and yr == "NoneT":
                a, b = tl, "none"
            elif yl == "ODec" and yr == "ODec":
                a, b = tl, tr
            elif yl in ("Dec", "ODec") and yr == "FV":
                # float(Decimal score) == float(text): binary64 equality of a one-decimal score with a parsed literal
                t = "(Py.scoreEq %s %s = true)" % (self.coerce(tl, yl, "ODec") if yl == "Dec" else tl, tr)
                return pre, ("(¬ %s)" % t if isinstance(op, ast.NotEq) else t), "P"
            else:
                raise Unsupported("== between %s and %s" % (yl, yr))
            t = "(%s = %s)" % (a, b)
            return pre, ("(¬ %s)" % t if isinstance(op, ast.NotEq) else t), "P"
        ops = {ast.Lt: "<", ast.LtE: "≤", ast.Gt: ">", ast.GtE: "≥"}
        if type(op) in ops and "F" in (yl, yr):
            pre += pr
            fn = {ast.Lt: "flt", ast.LtE: "fle", ast.Gt: "fgt", ast.GtE: "fge"}[type(op)]
            return pre, "(Py.%s %s %s = true)" % (fn, self.fnum(tl, yl), self.fnum(tr, yr)), "P"
        if type(op) in ops:
            a = self.num(pre, tl, yl)
            pre += pr
            b = self.num(pre, tr, yr)
            return pre, "(%s %s %s)" % (a, ops[type(op)], b), "P"
        if isinstance(op, (ast.Is, ast.IsNot)) and yr == "NoneT" and yl in ("OS", "OInt", "ODec", "OMap"):
            pre += pr
            t = "(%s = none)" % tl
            return pre, ("(¬ %s)" % t if isinstance(op, ast.IsNot) else t), "P"
        raise Unsupported("comparison %s" % type(op).__name__)

    def call(self, node, env):
        pre = []
        f = node.func
        if isinstance(f, ast.Name):
            if f.id == "D":
                if len(node.args) == 1 and isinstance(node.args[0], ast.Constant) and isinstance(node.args[0].value, (str, int)):
                    return pre, rat_of(str(node.args[0].value)), "Dec"
                if len(node.args) == 1:
                    # Decimal(float) is exact; a NaN float makes the following quantize raise
                    p, t, ty = self.ex(node.args[0], env)
                    pre += p
                    if ty == "F":
                        v = self.fresh("v")
                        pre.append("let %s ← Py.finite %s" % (v, t))
                        return pre, v, "Dec"
                    if ty == "Dec":
                        return pre, t, "Dec"
                raise Unsupported("D(non-literal)")
            if f.id == "float" and len(node.args) == 1 and isinstance(node.args[0], ast.Constant) and node.args[0].value == "nan":
                return pre, "(none : Option Rat)", "F"
            if f.id == "float" and len(node.args) == 1 and not node.keywords:
                p0, t0, y0 = self.ex(node.args[0], env)
                if y0 == "S":
                    pre += p0
                    v = self.fresh()
                    pre.append("let %s ← Py.float %s" % (v, paren(t0)))      # the literal grammar of float(): ValueError otherwise
                    return pre, v, "FV"
            if f.id == "cls" and env.get("cls") == "Cls" and len(node.args) == 1 and not node.keywords:
                p0, t0, y0 = self.ex(node.args[0], env)
                pre += p0
                if y0 != "S" or not ctx_has_construct(self):
                    raise Unsupported("cls(%s)" % (y0,))
                v = self.fresh("o")
                pre.append("let %s ← construct %s" % (v, paren(t0)))
                return pre, v, "Self"
            if f.id == "int" and len(node.args) == 1 and not node.keywords:
                p, t, ty = self.ex(node.args[0], env)
                pre += p
                if ty != "S":
                    raise Unsupported("int(%s)" % (ty,))
                v = self.fresh()
                pre.append("let %s ← Py.int %s" % (v, paren(t)))
                return pre, v, "Int"
            if f.id in ("min", "max") and len(node.args) == 2 and not node.keywords:
                pa, ta, ya = self.ex(node.args[0], env)
                pre += pa
                save_tmp = self.tmp
                pb0, tb0, yb0 = self.ex(node.args[1], env)
                if "F" not in (ya, yb0):
                    self.tmp = save_tmp
                if "F" in (ya, yb0):
                    pre += pb0
                    return pre, "(Py.%s %s %s)" % ("fmin" if f.id == "min" else "fmax", self.fnum(ta, ya), self.fnum(tb0, yb0)), "F"
                a = self.num(pre, ta, ya)
                pb, tb, yb = self.ex(node.args[1], env)
                pre += pb
                b = self.num(pre, tb, yb)
                return pre, "(%s %s %s)" % ("pyMin" if f.id == "min" else "pyMax", paren(a), paren(b)), "Dec"
            if f.id in ("all", "any") and len(node.args) == 1 and isinstance(node.args[0], (ast.GeneratorExp, ast.ListComp)) \
                    and self.effectful(node.args[0].elt, env, node.args[0]):
                p, t, ty = self.ex(node.args[0], env)
                pre += p
                if ty != ("List", "B"):
                    raise Unsupported("%s over %s" % (f.id, ty))
                return pre, "(List.%s %s (fun b => b))" % (f.id, paren(t)), "B"
            if f.id in ("all", "any") and len(node.args) == 1 and isinstance(node.args[0], (ast.GeneratorExp, ast.ListComp)):
                g = node.args[0]
                if len(g.generators) != 1 or g.generators[0].ifs or not isinstance(g.generators[0].target, ast.Name):
                    raise Unsupported("comprehension shape")
                pi, ti, yi = self.ex(g.generators[0].iter, env)
                pre += pi
                if not (isinstance(yi, tuple) and yi[0] == "List"):
                    raise Unsupported("comprehension over %s" % (yi,))
                var = g.generators[0].target.id
                env2 = dict(env)
                env2[var] = yi[1]
                pe, te, ye = self.ex(g.elt, env2)
                if pe and all(l.startswith("let ") and "← Py.req self." in l and not re.search(r"(?<![\w.])%s(?![\w])" % re.escape(mangle(var)), l.split("←")[1]) for l in pe):
                    pre += pe       # the attribute is read once; it does not depend on the loop variable
                    pe = []
                if pe:
                    raise Unsupported("effectful comprehension element")
                return pre, "(List.%s %s (fun %s => decide %s))" % (f.id, paren(ti), mangle(var), self.as_prop(te, ye)), "B"
            if f.id == "float" and len(node.args) == 1 and not node.keywords:
                # float(Decimal): the scores are one-decimal values, for which the conversion is exact (C09 / C19)
                p, t, ty = self.ex(node.args[0], env)
                pre += p
                if ty not in ("Dec", "ODec"):
                    raise Unsupported("float(%s)" % (ty,))
                return pre, self.num(pre, t, ty), "Dec"
            if f.id == "str" and len(node.args) == 1 and not node.keywords:
                p, t, ty = self.ex(node.args[0], env)
                pre += p
                if ty == "OInt":
                    return pre, "(Py.strOInt %s)" % t, "S"
                if ty == "Int":
                    return pre, "(Py.strOInt (some %s))" % t, "S"
                if ty == "S":
                    return pre, t, "S"
                if ty in ("Dec", "ODec"):
                    # str(float): the scores are one-decimal values (C09), printed as "7.5" / "10.0"; None prints "None"
                    return pre, "(Py.strScore %s)" % (self.coerce(t, ty, "ODec") if ty == "Dec" else t), "S"
                raise Unsupported("str(%s)" % (ty,))
            if f.id == "float" and len(node.args) == 1 and not node.keywords and False:
                pass
            if f.id == "OrderedDict" and len(node.args) == 1 and not node.keywords:
                a = node.args[0]
                if isinstance(a, ast.List) and all(isinstance(e, ast.Tuple) and len(e.elts) == 2 for e in a.elts):
                    items = []
                    for e in a.elts:
                        pk, tk, yk = self.ex(e.elts[0], env)
                        pv, tv, yv = self.ex(e.elts[1], env)
                        pre += pk + pv
                        if yk != "S":
                            raise Unsupported("OrderedDict key type")
                        items.append("(%s, %s)" % (tk, self.coerce(tv, yv, "J")))
                    return pre, "([%s] : List (Str × Py.J))" % ", ".join(items), ("Dict", "J")
                if isinstance(a, ast.Call) and isinstance(a.func, ast.Name) and a.func.id == "sorted" and len(a.args) == 1 \
                        and isinstance(a.args[0], ast.Call) and isinstance(a.args[0].func, ast.Attribute) \
                        and a.args[0].func.attr == "items" and not a.args[0].args:
                    p, t, ty = self.ex(a.args[0].func.value, env)
                    pre += p
                    if ty != ("Dict", "J"):
                        raise Unsupported("sorted items of %s" % (ty,))
                    return pre, "(Py.sortedItems %s)" % t, ty
                raise Unsupported("OrderedDict(...) form")
            if f.id in env and isinstance(env[f.id], tuple) and env[f.id][0] == "Fn":
                _, kind, ptypes, ret = env[f.id]
                if kind != "pure":
                    raise Unsupported("closure %s used as an expression" % f.id)
                args = []
                for a, pt in zip(node.args, ptypes):
                    p, t, ty = self.ex(a, env)
                    pre += p
                    if ty != pt:
                        raise Unsupported("argument type %s for local function %s" % (ty, f.id))
                    args.append(paren(t))
                v = self.fresh()
                pre.append("let %s ← %s %s" % (v, mangle(f.id), " ".join(args)))
                return pre, v, ret
            if f.id == "isinstance" and len(node.args) == 2 and isinstance(node.args[0], ast.Name) \
                    and env.get(node.args[0].id) == "Self" and isinstance(node.args[1], ast.Name) and node.args[1].id == self.cls.name:
                return pre, "True", "P"       # the other operand is modelled as an object of this class (other classes: not equal)
            if f.id == "hash" and len(node.args) == 1 and not node.keywords:
                p, t, ty = self.ex(node.args[0], env)
                pre += p
                if ty != "S":
                    raise Unsupported("hash(%s)" % (ty,))
                return pre, "(Py.hashKey %s)" % t, "S"       # the key whose hash is taken (the hash function itself is opaque)
            if f.id == "tuple" and len(node.args) == 1 and not node.keywords:
                p, t, ty = self.ex(node.args[0], env)
                if not (isinstance(ty, tuple) and ty[0] == "List"):
                    raise Unsupported("tuple(%s)" % (ty,))
                return p, t, ty
            if f.id in self.funcs:
                sig = self.fsigs[f.id]
                args = []
                for a, (pn, pt, _) in zip(node.args, sig["params"]):
                    p, t, ty = self.ex(a, env)
                    pre += p
                    if pt == "Dec":
                        t = self.num(pre, t, ty)
                    elif pt != ty:
                        raise Unsupported("argument type %s for %s" % (ty, pn))
                    args.append(paren(t))
                if sig["ret"] is None:
                    raise Unsupported("function %s not translated" % f.id)
                v = self.fresh()
                pre.append("let %s ← %s %s" % (v, mangle(f.id), " ".join(args)))
                return pre, v, sig["ret"]
            raise Unsupported("call of %s" % f.id)
        if isinstance(f, ast.Attribute):
            if is_self(f.value) and f.attr == "get_eq_maxes" and "get_eq_maxes" in self.methods and len(node.args) == 2 \
                    and isinstance(node.args[1], ast.Constant) and node.args[1].value in (1, 2, 4, 5):
                # MAX_COMPOSED["eq" + str(eq)][str(lookup[eq - 1])]; the max-vector strings are the (metric, value) lists that
                # gen_tables extracted with the library's own extract_value_metric
                self.check_shape("get_eq_maxes", GET_EQ_MAXES_DUMP)
                k = node.args[1].value
                p, t, ty = self.ex(node.args[0], env)
                pre += p
                if ty != "S":
                    raise Unsupported("get_eq_maxes of %s" % (ty,))
                c = self.fresh()
                pre.append("let %s ← Py.charAt %s %d" % (c, paren(t), k - 1))
                v = self.fresh()
                pre.append("let %s ← Py.getitem %s Gen.V4.maxEq%d" % (v, c, k))
                return pre, v, ("List", "Map")
            if is_self(f.value) and f.attr == "extract_value_metric" and len(node.args) == 2 \
                    and isinstance(node.args[0], ast.Constant) and isinstance(node.args[0].value, str):
                p, t, ty = self.ex(node.args[1], env)
                pre += p
                if ty != "Map":
                    raise Unsupported("extract_value_metric from %s" % (ty,))
                v = self.fresh()
                pre.append("let %s ← Py.getitem %s %s" % (v, lean_str(node.args[0].value), paren(t)))
                return pre, v, "S"
            if is_self(f.value) and f.attr in self.methods:
                sig = self.sigs[f.attr]
                if sig["mutates"]:
                    raise Unsupported("mutating method %s used as expression" % f.attr)
                if sig["ret"] is None:
                    raise Unsupported("method %s not translated" % f.attr)
                args = self.bind_args(node, sig, env, pre)
                v = self.fresh()
                pre.append("let %s ← %s self %s" % (v, mangle(f.attr), " ".join(args)))
                return pre, v, sig["ret"]
            if f.attr == "get" and 1 <= len(node.args) <= 2:
                p, t, ty = self.ex(f.value, env)
                pre += p
                if ty == "OMap":
                    m = self.fresh("d")
                    pre.append("let %s ← Py.req %s" % (m, t))
                    t, ty = m, "Map"
                vt = "S" if ty == "Map" else (ty[1] if isinstance(ty, tuple) and ty[0] == "Dict" else None)
                if vt is None:
                    raise Unsupported(".get on %s" % (ty,))
                pk, tk, yk = self.ex(node.args[0], env)
                pre += pk
                if yk != "S":
                    raise Unsupported(".get key type %s at line %s" % (yk, getattr(node, "lineno", "?")))
                if len(node.args) == 2:
                    pd, td, yd = self.ex(node.args[1], env)
                    pre += pd
                    if vt == "Dec" and yd == "F" and td.startswith("(none"):
                        return pre, "(Py.get? %s %s)" % (paren(tk), paren(t)), "F"
                    if yd == vt:
                        return pre, "(Py.getD %s %s %s)" % (paren(tk), paren(t), paren(td)), vt
                    if yd != "NoneT":
                        raise Unsupported(".get default type")
                ot = {"S": "OS", "Dec": "ODec"}.get(vt)
                if ot is None:
                    raise Unsupported(".get without default on %s" % (vt,))
                return pre, "(Py.get? %s %s)" % (paren(tk), paren(t)), ot
            if f.attr == "upper" and not node.args:
                p, t, ty = self.ex(f.value, env)
                pre += p
                if ty != "S":
                    raise Unsupported("upper of %s" % (ty,))
                return pre, "(Py.upper %s)" % t, "S"
            if f.attr == "replace" and len(node.args) == 2 and all(
                    isinstance(a, ast.Constant) and isinstance(a.value, str) and len(a.value) == 1 for a in node.args):
                p, t, ty = self.ex(f.value, env)
                pre += p
                if ty != "S":
                    raise Unsupported("replace on %s" % (ty,))
                return pre, "(replaceChar %s %s %s)" % (lean_char(node.args[0].value), lean_char(node.args[1].value), t), "S"
            if f.attr == "split" and len(node.args) == 2 and not node.keywords and isinstance(node.args[0], ast.Constant) \
                    and isinstance(node.args[0].value, str) and len(node.args[0].value) == 1 \
                    and isinstance(node.args[1], ast.Constant) and node.args[1].value == 1:
                p, t, ty = self.ex(f.value, env)
                pre += p
                if ty != "S":
                    raise Unsupported("split on %s" % (ty,))
                return pre, "(Py.split1 %s %s)" % (lean_char(node.args[0].value), paren(t)), ("List", "S")
            if isinstance(f.value, ast.Name) and env.get(f.value.id) == "Self" and f.attr in self.methods:
                # a method of another object of this class (the object `from_rh_vector` has just built)
                sig = self.sigs[f.attr]
                if sig["mutates"] or sig["ret"] is None:
                    raise Unsupported("method %s on another object" % f.attr)
                args = self.bind_args(node, sig, env, pre)
                v = self.fresh()
                pre.append(("let %s ← %s %s %s" % (v, mangle(f.attr), mangle(f.value.id), " ".join(args))).rstrip())
                return pre, v, sig["ret"]
            if f.attr in ("startswith", "endswith", "split") and len(node.args) == 1 and not node.keywords \
                    and isinstance(node.args[0], ast.Constant) and isinstance(node.args[0].value, str) and node.args[0].value:
                p, t, ty = self.ex(f.value, env)
                pre += p
                if ty != "S":
                    raise Unsupported("%s on %s" % (f.attr, ty))
                lit = node.args[0].value
                if f.attr == "startswith":
                    return pre, "(startsWith %s %s = true)" % (lean_str(lit), paren(t)), "P"
                if f.attr == "endswith":
                    if len(lit) == 1:
                        return pre, "(endsWithChar %s %s = true)" % (lean_char(lit), paren(t)), "P"
                    return pre, "(Py.endsWith %s %s = true)" % (lean_str(lit), paren(t)), "P"
                if len(lit) != 1:
                    raise Unsupported("split on a longer separator")
                return pre, "(splitOn %s %s)" % (lean_char(lit), paren(t)), ("List", "S")
            if f.attr == "copy" and isinstance(f.value, ast.Name) and f.value.id == "copy" and len(node.args) == 1:
                return self.ex(node.args[0], env)
            if f.attr == "quantize":
                if len(node.args) == 1 and len(node.keywords) == 1 and node.keywords[0].arg == "rounding":
                    e = node.args[0]
                    if not (isinstance(e, ast.Call) and isinstance(e.func, ast.Name) and e.func.id == "D"
                            and Decimal(e.args[0].value).as_tuple() == Decimal("0.1").as_tuple()):
                        raise Unsupported("quantize exponent")
                    rm = node.keywords[0].value
                    if not (isinstance(rm, ast.Name) and rm.id in ROUNDINGS):
                        raise Unsupported("rounding mode")
                    p, t, ty = self.ex(f.value, env)
                    pre += p
                    a = self.num(pre, t, ty)
                    return pre, "(Py.quantize1 .%s %s)" % (ROUNDINGS[rm.id], paren(a)), "Dec"
                raise Unsupported("quantize form")
            if f.attr == "join" and isinstance(f.value, ast.Constant) and f.value.value == "" and len(node.args) == 1:
                p, t, ty = self.ex(node.args[0], env)
                pre += p
                if ty != ("List", "S"):
                    raise Unsupported("join of %s" % (ty,))
                return pre, "(List.flatten %s)" % paren(t), "S"
            if f.attr == "join" and isinstance(f.value, ast.Constant) and isinstance(f.value.value, str) \
                    and len(f.value.value) == 1 and len(node.args) == 1:
                p, t, ty = self.ex(node.args[0], env)
                pre += p
                if ty != ("List", "S"):
                    raise Unsupported("join of %s" % (ty,))
                return pre, "(join %s %s)" % (lean_char(f.value.value), paren(t)), "S"
            if f.attr == "format" and isinstance(f.value, ast.Constant) and isinstance(f.value.value, str) and not node.keywords:
                args = []
                for a in node.args:
                    p, t, ty = self.ex(a, env)
                    pre += p
                    if ty == "OInt":
                        t, ty = "(Py.strOInt %s)" % t, "S"
                    elif ty == "Int":
                        t, ty = "(Py.strOInt (some %s))" % t, "S"
                    if ty != "S":
                        raise Unsupported("format argument of type %s" % (ty,))
                    args.append(t)
                return pre, "(Py.format %s [%s])" % (lean_str(f.value.value), ", ".join(args)), "S"
        raise Unsupported("call %s" % ast.dump(node.func)[:80])

    def bind_args(self, node, sig, env, pre):
        given = {}
        for a, (pn, pt, _) in zip(node.args, sig["params"]):
            given[pn] = a
        for kw in node.keywords:
            given[kw.arg] = kw.value
        out = []
        for pn, pt, d in sig["params"]:
            a = given.get(pn, d)
            if a is None:
                raise Unsupported("missing argument %s" % pn)
            p, t, ty = self.ex(a, env)
            pre += p
            if pt != ty:
                raise Unsupported("argument %s: %s for %s" % (pn, ty, pt))
            out.append(paren(t))
        return out

    # ---------------------------------------------------------------- statements
    def assigned(self, stmts):
        """local names and 'self' assigned anywhere in stmts (in first-assignment order)"""
        out = []

        def add(x):
            if x not in out:
                out.append(x)

        for st in stmts:
            for n in ast.walk(st):
                if isinstance(n, ast.Assign):
                    for t in n.targets:
                        if isinstance(t, ast.Name):
                            add(t.id)
                        elif isinstance(t, ast.Subscript) and isinstance(t.value, ast.Name):
                            add(t.value.id)
                        elif isinstance(t, ast.Tuple) and all(isinstance(x, ast.Name) for x in t.elts):
                            for x in t.elts:
                                add(x.id)
                        elif is_self_attr(t) or (isinstance(t, ast.Subscript) and is_self_attr(t.value)):
                            add("self")
                        else:
                            raise Unsupported("assignment target")
                elif isinstance(n, ast.AugAssign):
                    if isinstance(n.target, ast.Name):
                        add(n.target.id)
                    else:
                        raise Unsupported("augmented assignment target")
                elif isinstance(n, ast.Call) and isinstance(n.func, ast.Name) and n.func.id in self.closure_mut:
                    add(self.closure_mut[n.func.id])
                elif isinstance(n, ast.Call) and isinstance(n.func, ast.Attribute) and n.func.attr == "append" \
                        and isinstance(n.func.value, ast.Name):
                    add(n.func.value.id)
                elif isinstance(n, ast.Call) and isinstance(n.func, ast.Attribute) and is_self(n.func.value) \
                        and n.func.attr in self.sigs and self.sigs[n.func.attr]["mutates"]:
                    add("self")
        return out

    def blk(self, stmts, env, ctx):
        """-> (lines of a do-block for `stmts`, environment at its end, terminated?)
        ctx: dict(mut=bool, rets=list collecting return types, want=declared return type or None)"""
        lines = []
        env = dict(env)
        for i, st in enumerate(stmts):
            rest = stmts[i + 1:]
            if isinstance(st, ast.Expr) and isinstance(st.value, ast.Constant) and isinstance(st.value.value, str):
                continue
            if isinstance(st, ast.Pass):
                continue
            if isinstance(st, ast.Return):
                if st.value is None:
                    if ctx.get("proc"):
                        lines.append("pure ()")
                        return lines, env, True
                    if not ctx["mut"]:
                        raise Unsupported("bare return in a value method")
                    lines.append("pure self")
                else:
                    if ctx["mut"]:
                        raise Unsupported("value returned from a mutating method")
                    self.materialize_fns(st.value, env, lines, ctx)
                    p, t, ty = self.ex(st.value, env)
                    lines += p
                    if ty == "P":
                        t, ty = "(decide %s)" % t, "B"
                    ctx["rets"].append(ty)
                    want = ctx.get("want")
                    if want and want != ty:
                        t = self.coerce(t, ty, want)
                    lines.append("pure %s" % t)
                return lines, env, True
            if isinstance(st, ast.Raise):
                lines.append("Py.raise .%s" % exc_of(st.exc))
                return lines, env, True
            if isinstance(st, ast.Assert):
                p, t, ty = self.ex(st.test, env)
                lines += p
                lines.append("let _ ← Py.assert %s" % self.as_prop(t, ty))
                continue
            if isinstance(st, ast.FunctionDef):
                # a nested function: emitted at its first use (when the variables it closes over are typed)
                env[st.name] = ("FnDef", st)
                for m in ast.walk(st):
                    if isinstance(m, ast.Assign):
                        for t in m.targets:
                            if isinstance(t, ast.Subscript) and isinstance(t.value, ast.Name):
                                self.closure_mut[st.name] = t.value.id
                continue
            if isinstance(st, ast.Assign) and len(st.targets) == 1 and isinstance(st.targets[0], ast.Subscript) \
                    and isinstance(st.targets[0].value, ast.Name) and st.targets[0].value.id in env \
                    and env[st.targets[0].value.id] == ("Dict", "J"):
                d = st.targets[0].value.id
                pk, tk, yk = self.ex(st.targets[0].slice, env)
                lines += pk
                self.materialize_fns(st.value, env, lines, ctx)
                pv, tv, yv = self.ex(st.value, env)
                lines += pv
                if yk != "S":
                    raise Unsupported("JSON key type")
                lines.append("let %s : List (Str × Py.J) := Py.setitem %s %s %s" % (mangle(d), paren(tk), self.coerce(tv, yv, "J"), mangle(d)))
                continue
            if isinstance(st, ast.Expr) and isinstance(st.value, ast.Call) and isinstance(st.value.func, ast.Name) \
                    and st.value.func.id in env and isinstance(env[st.value.func.id], tuple) \
                    and env[st.value.func.id][0] in ("FnDef", "Fn"):
                self.materialize_fns(st.value, env, lines, ctx)
                _, kind, ptypes, ret = env[st.value.func.id]
                if kind == "pure":
                    raise Unsupported("pure local function called as a statement")
                args = []
                for a, pt in zip(st.value.args, ptypes):
                    p, t, ty = self.ex(a, env)
                    lines += p
                    if ty != pt:
                        raise Unsupported("argument type for closure")
                    args.append(paren(t))
                lines.append("let %s ← %s %s %s" % (mangle(kind), mangle(st.value.func.id), mangle(kind), " ".join(args)))
                continue
            if isinstance(st, ast.Try):
                if len(st.handlers) != 1 or st.orelse or st.finalbody or has_return(st) \
                        or not isinstance(st.handlers[0].type, ast.Name) or st.handlers[0].name:
                    raise Unsupported("try-statement shape")
                cls = PY_EXC.get(st.handlers[0].type.id)
                if cls is None:
                    raise Unsupported("except %s" % st.handlers[0].type.id)
                vs = self.assigned(st.body + st.handlers[0].body)
                used_later = {n.id for r in rest for n in ast.walk(r) if isinstance(n, ast.Name)} | set(ctx.get("later", ()))
                save = self.tmp
                _, eb, tb = self.blk(st.body, env, ctx)
                _, eh, th = self.blk(st.handlers[0].body, env, ctx)
                self.tmp = save
                keep = []
                for v in vs:
                    if v == "self":
                        keep.append(v)
                        continue
                    tys = [e[v] for e, term in ((eb, tb), (eh, th)) if not term and v in e]
                    n_live = len([1 for term in (tb, th) if not term])
                    if len(tys) != n_live:
                        if v in env:
                            tys.append(env[v])
                        elif v not in used_later:
                            continue
                        else:
                            raise Unsupported("variable %s is not assigned on every path of the try" % v)
                    if len(set(tys)) > 1:
                        raise Unsupported("try gives %s several types" % v)
                    if tys:
                        keep.append(v)
                outs = []
                for body in (st.body, st.handlers[0].body):
                    ls, e, term = self.blk(body, env, ctx)
                    if not term:
                        ls = ls + ["pure %s" % tuple_pat([mangle(v) for v in keep])]
                    outs.append(ls)
                for v in keep:
                    if v != "self":
                        env[v] = eb.get(v, eh.get(v, env.get(v)))
                lines.append("let %s ← Py.tryExcept (do\n%s) .%s (do\n%s)" % (
                    tuple_pat([mangle(v) for v in keep]), ind(outs[0], 2), cls, ind(outs[1], 2)))
                continue
            if isinstance(st, ast.Assign) and len(st.targets) == 1 and isinstance(st.targets[0], ast.Tuple):
                names = st.targets[0].elts
                if len(names) not in (2, 3) or not all(isinstance(n, ast.Name) for n in names):
                    raise Unsupported("unpacking shape")
                p, t, ty = self.ex(st.value, env)
                lines += p
                if not (isinstance(ty, tuple) and ty[0] == "List"):
                    raise Unsupported("unpacking of %s" % (ty,))
                lines.append("let (%s) ← Py.unpack%d %s" % (", ".join(mangle(n.id) for n in names), len(names), paren(t)))
                for n in names:
                    env[n.id] = ty[1]
                continue
            if isinstance(st, ast.AugAssign) and isinstance(st.target, ast.Name) and isinstance(st.op, (ast.Add, ast.Sub, ast.Mult)):
                st = ast.copy_location(ast.Assign(targets=[ast.Name(id=st.target.id, ctx=ast.Store())],
                                                  value=ast.BinOp(left=ast.Name(id=st.target.id, ctx=ast.Load()), op=st.op,
                                                                  right=st.value)), st)
            if isinstance(st, ast.Assign):
                if len(st.targets) != 1:
                    raise Unsupported("multiple targets")
                tg = st.targets[0]
                if is_self_attr(tg) and self.attr_types.get(tg.attr) == "Skip":
                    continue
                if is_self_attr(tg) and self.attr_types.get(tg.attr) in ("Map", "OMap") and isinstance(st.value, ast.Dict) \
                        and not st.value.keys:
                    lines.append("let self : Self := { self with %s := %s }" % (
                        mangle(tg.attr), "[]" if self.attr_types[tg.attr] == "Map" else "(some [])"))
                    continue
                if isinstance(tg, ast.Name) and isinstance(st.value, ast.List) and not st.value.elts:
                    et = self.append_type(tg.id, ctx.get("fn"), env)
                    lines.append("let %s : List %s := []" % (mangle(tg.id), paren(lean_type(et))))
                    env[tg.id] = ("List", et)
                    continue
                self.materialize_fns(st.value, env, lines, ctx)
                p, t, ty = self.ex(st.value, env)
                lines += p
                if isinstance(tg, ast.Name):
                    if ty == "NoneT":
                        raise Unsupported("local = None")
                    if ty == "P":
                        t, ty = "(decide %s)" % t, "B"
                    old = env.get(tg.id)
                    if isinstance(old, tuple) and old[0] == "Maybe":
                        lines.append("let %s : %s := %s" % (mangle(tg.id), lean_type(old), self.coerce(t, ty, old)))
                        continue
                    lines.append("let %s : %s := %s" % (mangle(tg.id), lean_type(ty), t))
                    env[tg.id] = ty
                elif is_self_attr(tg):
                    at = self.attr_types.get(tg.attr)
                    if at == "Skip":
                        continue
                    if at in ("Map", "OMap") and isinstance(st.value, ast.Dict) and not st.value.keys:
                        lines.append("let self : Self := { self with %s := %s }" % (mangle(tg.attr), "[]" if at == "Map" else "(some [])"))
                        continue
                    if at in (None, "Unknown"):
                        raise Unsupported("attribute self.%s of unknown type" % tg.attr)
                    lines.append("let self : Self := { self with %s := %s }" % (mangle(tg.attr), self.coerce(t, ty, at)))
                elif isinstance(tg, ast.Subscript) and is_self_attr(tg.value, "metrics"):
                    pk, tk, yk = self.ex(tg.slice, env)
                    lines += pk
                    if yk != "S" or ty != "S":
                        raise Unsupported("metrics[...] assignment types")
                    lines.append("let self : Self := { self with metrics := Py.setitem %s %s self.metrics }" % (paren(tk), paren(t)))
                else:
                    raise Unsupported("assignment target")
                continue
            if isinstance(st, ast.Expr) and isinstance(st.value, ast.Call) and isinstance(st.value.func, ast.Attribute) \
                    and st.value.func.attr == "append" and isinstance(st.value.func.value, ast.Name) \
                    and len(st.value.args) == 1:
                x = st.value.func.value.id
                if x not in env or not (isinstance(env[x], tuple) and env[x][0] == "List"):
                    raise Unsupported("append to %s" % x)
                p, t, ty = self.ex(st.value.args[0], env)
                lines += p
                if env[x][1] != ty:
                    raise Unsupported("append of %s to list of %s" % (ty, env[x][1]))
                lines.append("let %s : %s := %s ++ [%s]" % (mangle(x), lean_type(env[x]), mangle(x), t))
                continue
            if isinstance(st, ast.Expr) and isinstance(st.value, ast.Call):
                c = st.value
                if isinstance(c.func, ast.Attribute) and is_self(c.func.value) and c.func.attr in self.sigs:
                    sig = self.sigs[c.func.attr]
                    if sig["ret"] is None:
                        raise Unsupported("method %s not translated" % c.func.attr)
                    if not sig["mutates"]:
                        args = self.bind_args(c, sig, env, lines)
                        lines.append(("let _ ← %s self %s" % (mangle(c.func.attr), " ".join(args))).rstrip())
                        continue
                    args = self.bind_args(c, sig, env, lines)
                    lines.append(("let self ← %s self %s" % (mangle(c.func.attr), " ".join(args))).rstrip())
                    continue
                raise Unsupported("expression statement")
            if isinstance(st, ast.If):
                p, t, ty = self.ex(st.test, env)
                lines += p
                cond = self.as_prop(t, ty)
                if has_return(st):
                    a, _, ta = self.blk(st.body + rest, env, ctx)
                    b, _, tb = self.blk(st.orelse + rest, env, ctx)
                    if not ta:
                        a = self.finish(a, ctx)
                    if not tb:
                        b = self.finish(b, ctx)
                    lines.append("if %s then (do\n%s) else (do\n%s)" % (cond, ind(a, 2), ind(b, 2)))
                    return lines, env, True
                vs = self.assigned([st])
                used_later = {n.id for r in rest for n in ast.walk(r) if isinstance(n, ast.Name)} | set(ctx.get("later", ()))
                ctx_if = dict(ctx, later=used_later)
                save = self.tmp
                _, ea, ta = self.blk(st.body, env, ctx_if)
                _, eb, tb = self.blk(st.orelse, env, ctx_if)
                self.tmp = save
                uni = {}
                for v in list(vs):
                    if v == "self":
                        continue
                    tys = [e[v] for e, term in ((ea, ta), (eb, tb)) if not term and v in e]
                    maybe = False
                    if len([1 for term in (ta, tb) if not term]) != len(tys):
                        if v in env:
                            tys.append(env[v])
                        elif v not in used_later:
                            vs.remove(v)        # local to one branch, dead afterwards
                            continue
                        else:
                            maybe = True        # unbound on some path: reading it there is a NameError
                    base = [t[1] if isinstance(t, tuple) and t[0] == "Maybe" else t for t in tys]
                    if any(isinstance(t, tuple) and t[0] == "Maybe" for t in tys):
                        maybe = True
                    u = unify(base)
                    uni[v] = ("Maybe", u) if maybe else u
                    if v in env and env[v] != uni[v] and not (env[v] in ("Int", "Dec") and uni[v] in ("Dec", "F")):
                        raise Unsupported("variable %s changes type" % v)
                outs = []
                for body in (st.body, st.orelse):
                    ls, e, term = self.blk(body, env, ctx_if)
                    if not term:
                        vals = []
                        for v in vs:
                            if v == "self":
                                vals.append("self")
                            elif v not in e and v not in env:
                                vals.append("(none : %s)" % lean_type(uni[v]))
                            else:
                                vals.append(self.coerce(mangle(v), e.get(v, env.get(v)), uni[v]))
                        ls = ls + ["pure %s" % tuple_pat(vals)]
                    outs.append(ls)
                for v in vs:
                    if v != "self":
                        env[v] = uni[v]
                pat = tuple_pat([mangle(v) for v in vs])
                lines.append("let %s ← (if %s then (do\n%s) else (do\n%s))" % (pat, cond, ind(outs[0], 2), ind(outs[1], 2)))
                continue
            if isinstance(st, ast.For):
                brk = None
                body_stmts = st.body
                if has_break(st):
                    # the one supported shape:  ...; if C: continue; break      ("stop at the first element without C")
                    if len(body_stmts) >= 2 and isinstance(body_stmts[-1], ast.Break) and isinstance(body_stmts[-2], ast.If) \
                            and len(body_stmts[-2].body) == 1 and isinstance(body_stmts[-2].body[0], ast.Continue) \
                            and not body_stmts[-2].orelse and not has_break(ast.Module(body=body_stmts[:-2], type_ignores=[])):
                        brk = body_stmts[-2].test
                        body_stmts = body_stmts[:-2]
                    else:
                        raise Unsupported("break / continue shape")
                if st.orelse or not isinstance(st.target, ast.Name) or has_return(st):
                    raise Unsupported("for-loop shape")
                p, t, ty = self.ex(st.iter, env)
                lines += p
                if ty in ("Map", "OMap") or (isinstance(ty, tuple) and ty[0] == "Dict"):
                    if ty == "OMap":
                        d = self.fresh("d")
                        lines.append("let %s ← Py.req %s" % (d, t))
                        t = d
                    t, ty = "(keys %s)" % t, ("List", "S")      # iterating a dict yields its keys in order
                if not (isinstance(ty, tuple) and ty[0] == "List"):
                    raise Unsupported("for over %s" % (ty,))
                env2 = dict(env)
                env2[st.target.id] = ty[1]
                used_later = {n.id for r in rest for n in ast.walk(r) if isinstance(n, ast.Name)} | set(ctx.get("later", ()))
                # loop state: self (when mutated) and the locals that live across iterations (defined before the loop)
                body_names = {n.id for b in st.body for n in ast.walk(b) if isinstance(n, ast.Name)}
                assigned_in = self.assigned(body_stmts)
                vs = [v for v in assigned_in if v == "self" or v in env]
                leak = [v for v in assigned_in if v not in vs and v in used_later]
                if leak:
                    # assigned in the body, read after the loop: unbound if the loop never ran
                    save = self.tmp
                    _, e_dry, _ = self.blk(body_stmts, env2, dict(ctx, mut=("self" in vs), later=used_later))
                    self.tmp = save
                    for v in leak:
                        if v not in e_dry or isinstance(e_dry[v], tuple):
                            raise Unsupported("loop variable %s is used after the loop" % v)
                        env[v] = ("Maybe", e_dry[v])
                        env2[v] = env[v]
                        lines.append("let %s : %s := none" % (mangle(v), lean_type(env[v])))
                        vs.append(v)
                if not vs and brk is None:
                    raise Unsupported("for-loop without state")
                body, e2, term = self.blk(body_stmts, env2, dict(ctx, mut=("self" in vs), later=used_later))
                for v in vs:
                    if v != "self" and e2.get(v) != env[v]:
                        raise Unsupported("loop changes the type of %s" % v)
                names = [mangle(v) for v in vs]
                stys = ["Self" if v == "self" else paren(lean_type(env[v])) for v in vs]
                if brk is not None:
                    flag = self.fresh("stopped")
                    pc, tc, yc = self.ex(brk, e2)
                    if term:
                        raise Unsupported("loop body ends before its break test")
                    body = body + pc + ["pure %s" % tuple_pat(names + ["(decide (¬ %s))" % self.as_prop(tc, yc)])]
                    pat = tuple_pat(names + [flag])
                    sty = " × ".join(stys + ["Bool"])
                    lines.append("let %s : Bool := false" % flag)
                    lines.append("let %s ← List.foldlM (fun (st : %s) (%s : %s) => (do\n  let %s := st\n  if %s = true then pure st else (do\n%s))) %s %s" % (
                        pat, sty, mangle(st.target.id), lean_type(ty[1]), pat, flag, ind(body, 2), pat, paren(t)))
                    continue
                pat = tuple_pat(names)
                sty = " × ".join(stys)
                if not term:
                    body = body + ["pure %s" % pat]
                lines.append("let %s ← List.foldlM (fun (st : %s) (%s : %s) => (do\n  let %s := st\n%s)) %s %s" % (
                    pat, sty, mangle(st.target.id), lean_type(ty[1]), pat, ind(body, 1), pat, paren(t)))
                continue
            raise Unsupported("statement %s" % type(st).__name__)
        return lines, env, False

    def materialize_fns(self, node, env, lines, ctx):
        """emit the nested functions `node` calls that have not been emitted yet (and, first, the ones THEY call)"""
        for n in ast.walk(node):
            if isinstance(n, ast.Call) and isinstance(n.func, ast.Name) and isinstance(env.get(n.func.id), tuple) \
                    and env[n.func.id][0] == "FnDef":
                fn = env[n.func.id][1]
                for b in fn.body:
                    self.materialize_fns(b, env, lines, ctx)
                ptypes = []
                fenv = dict(env)
                for a in fn.args.args:
                    pt = self.param_types.get(a.arg)
                    if pt is None:
                        raise Unsupported("parameter %s of nested function %s" % (a.arg, fn.name))
                    ptypes.append(pt)
                    fenv[a.arg] = pt
                # which outer local does it assign into (by subscript)?  at most one, of JSON-dict type
                muts = []
                for m in ast.walk(fn):
                    if isinstance(m, ast.Assign):
                        for t in m.targets:
                            if isinstance(t, ast.Subscript) and isinstance(t.value, ast.Name) and t.value.id not in muts:
                                muts.append(t.value.id)
                            elif isinstance(t, ast.Name) and t.id in env and not isinstance(env[t.id], tuple):
                                pass
                params = " ".join("(%s : %s)" % (mangle(a.arg), lean_type(pt)) for a, pt in zip(fn.args.args, ptypes))
                save = self.tmp
                if not muts:
                    c2 = {"mut": False, "rets": []}
                    body, _, term = self.blk(fn.body, fenv, c2)
                    if not term or len(set(c2["rets"])) != 1:
                        raise Unsupported("nested function %s: returns %s" % (fn.name, set(c2["rets"])))
                    ret = c2["rets"][0]
                    lines.append("let %s : %s → Py.M %s := fun %s => (do\n%s)" % (
                        mangle(fn.name), " → ".join(paren(lean_type(pt)) for pt in ptypes), paren(lean_type(ret)),
                        " ".join(mangle(a.arg) for a in fn.args.args), ind(body, 2)))
                    env[fn.name] = ("Fn", "pure", ptypes, ret)
                elif len(muts) == 1 and env.get(muts[0]) == ("Dict", "J"):
                    d = muts[0]
                    c2 = {"mut": False, "rets": [], "proc": True}
                    body, _, term = self.blk(fn.body, fenv, c2)
                    if term:
                        raise Unsupported("closure %s returns" % fn.name)
                    lines.append("let %s : List (Str × Py.J) → %s → Py.M (List (Str × Py.J)) := fun %s %s => (do\n%s)" % (
                        mangle(fn.name), " → ".join(paren(lean_type(pt)) for pt in ptypes), mangle(d),
                        " ".join(mangle(a.arg) for a in fn.args.args), ind(body + ["pure %s" % mangle(d)], 2)))
                    env[fn.name] = ("Fn", d, ptypes, "Unit")
                else:
                    raise Unsupported("nested function %s assigns into %s" % (fn.name, muts))

    def finish(self, lines, ctx):
        if ctx["mut"]:
            return lines + ["pure self"]
        if ctx.get("proc"):
            return lines + ["pure ()"]
        raise Unsupported("value method may fall off its end")

    # ---------------------------------------------------------------- definitions
    def emit_func(self, name):
        fn = self.funcs[name]
        sig = self.fsigs[name]
        env = {}
        for pn, pt, _ in sig["params"]:
            if pt is None:
                raise Unsupported("parameter %s of unknown type" % pn)
            env[pn] = pt
        ctx = {"mut": False, "rets": []}
        self.tmp = 0
        lines, _, term = self.blk(fn.body, env, ctx)
        if not term:
            lines = self.finish(lines, ctx)
        tys = set(ctx["rets"])
        if len(tys) != 1:
            raise Unsupported("return types %s" % (tys,))
        ret = tys.pop()
        sig["ret"] = ret
        params = " ".join("(%s : %s)" % (mangle(pn), lean_type(pt)) for pn, pt, _ in sig["params"])
        return "def %s %s : Py.M %s := do\n%s\n" % (mangle(name), params, paren(lean_type(ret)), ind(lines, 1))

    def emit_method(self, name, body=None, lean_name=None):
        fn = self.methods[name]
        sig = self.sigs[name]
        env = {}
        for pn, pt, _ in sig["params"]:
            if pt is None:
                raise Unsupported("parameter %s of unknown type" % pn)
            env[pn] = pt
        ctx = {"mut": sig["mutates"], "rets": [], "fn": fn}
        self.tmp = 0
        stmts = fn.body if body is None else body
        if not sig["mutates"] and not any(isinstance(n, ast.Return) and n.value is not None for n in ast.walk(fn)):
            # a procedure: reads the object, may raise, returns nothing
            ctx["proc"] = True
            lines, _, term = self.blk(stmts, env, ctx)
            if not term:
                lines = self.finish(lines, ctx)
            ret = "Unit"
            rt = "Py.M Unit"
        elif not sig["mutates"]:
            # a value method whose returns mix T and None gets the optional type
            kinds = set()
            for n in ast.walk(fn):
                if isinstance(n, ast.Return) and n.value is not None:
                    kinds.add(self.shallow(n.value))
            probe = {"mut": False, "rets": []}
            _, _, term = self.blk(stmts, env, probe)
            if not term:
                raise Unsupported("value method may fall off its end")
            tys = set(probe["rets"])
            want = None
            if tys == {"S", "OS"} or tys == {"S", "NoneT"} or tys == {"S", "OS", "NoneT"}:
                want = "OS"
            elif tys == {"Dec", "NoneT"} or tys == {"Dec", "ODec"} or tys == {"Dec", "ODec", "NoneT"}:
                want = "ODec"
            elif len(tys) == 1:
                want = next(iter(tys))
            else:
                raise Unsupported("return types %s" % (tys,))
            ctx["want"] = want
            self.tmp = 0
            lines, _, _ = self.blk(stmts, env, ctx)
            ret = want
            rt = "Py.M %s" % paren(lean_type(ret))
        else:
            lines, _, term = self.blk(stmts, env, ctx)
            if not term:
                lines = self.finish(lines, ctx)
            ret = "Self"
            rt = "Py.M Self"
        if body is None:
            sig["ret"] = ret
        params = " ".join("(%s : %s)" % (mangle(pn), lean_type(pt)) for pn, pt, _ in sig["params"])
        return "def %s (self : Self) %s: %s := do\n%s\n" % (mangle(lean_name or name), params + (" " if params else ""), rt, ind(lines, 1))

    def emit_classmethod(self, name):
        """a classmethod that builds an object (`cls(...)`) and returns it: no receiver, result type Self"""
        fn = self.methods[name]
        if not (fn.decorator_list and isinstance(fn.decorator_list[0], ast.Name) and fn.decorator_list[0].id == "classmethod"):
            raise Unsupported("%s is not a classmethod" % name)
        env = {"cls": "Cls"}
        params = []
        for a in fn.args.args[1:]:
            pt = self.param_types.get(a.arg)
            if pt is None:
                raise Unsupported("parameter %s of unknown type" % a.arg)
            env[a.arg] = pt
            params.append("(%s : %s)" % (mangle(a.arg), lean_type(pt)))
        ctx = {"mut": False, "rets": [], "fn": fn}
        self.tmp = 0
        lines, _, term = self.blk(fn.body, env, ctx)
        if not term or set(ctx["rets"]) != {"Self"}:
            raise Unsupported("classmethod %s returns %s" % (name, set(ctx["rets"])))
        return "def %s %s : Py.M Self := do\n%s\n" % (mangle(name), " ".join(params), ind(lines, 1))

    def self_structure(self):
        fields = []
        for a, t in self.attr_types.items():
            if t in ("Skip", "Unknown"):
                continue
            fields.append("  %s : %s" % (mangle(a), lean_type(t)))
        return "structure Self where\n" + "\n".join(fields) + "\n  deriving Inhabited\n"

    def init_self(self):
        """an object as `__init__` leaves it before `parse_vector()`, with the parsed metric dict put in"""
        dfl = dict(self.init_defaults())
        zero = {"Dec": "0", "ODec": "none", "S": "[]", "OS": "none", "B": "false", "Int": "0", "OInt": "none",
                "Map": "[]", "OMap": "none"}
        fs = []
        for a, t in self.attr_types.items():
            if t in ("Skip", "Unknown"):
                continue
            if a == "vector":
                v = "vector"
            elif a == "metrics":
                v = "metrics"
            elif dfl.get(a) == "none":
                v = "none"
            else:
                v = zero[t]
            fs.append("%s := %s" % (mangle(a), v))
        return ("/-- the attributes as `__init__` sets them before parsing, with the parsed metric dict put in -/\n"
                "def initSelf (vector : Str) (metrics : List (Str × Str)) : Self :=\n  { %s }\n" % ", ".join(fs))

    def init_tail(self, after="check_mandatory"):
        """the statements of __init__ after the call of `after` (all must be method calls)"""
        body = self.methods["__init__"].body
        idx = None
        for i, st in enumerate(body):
            if isinstance(st, ast.Expr) and isinstance(st.value, ast.Call) and isinstance(st.value.func, ast.Attribute) \
                    and is_self(st.value.func.value) and st.value.func.attr == after:
                idx = i
        if idx is None:
            raise Unsupported("__init__ does not call %s" % after)
        return body[idx + 1:]

    def init_defaults(self):
        """attribute := constant assignments at the head of __init__ (None / literals), as a list (attr, lean term)"""
        out = []
        for st in self.methods["__init__"].body:
            if isinstance(st, ast.Assign) and len(st.targets) == 1 and is_self_attr(st.targets[0]):
                a = st.targets[0].attr
                at = self.attr_types.get(a)
                if at in ("Skip", "Unknown", None):
                    continue
                if isinstance(st.value, ast.Constant) and st.value.value is None:
                    out.append((a, "none"))
                elif isinstance(st.value, ast.Dict) and not st.value.keys and at == "Map":
                    out.append((a, "[]"))
        return out


EXC_SUFFIX = [("RHMalformedError", "rhMalformed"), ("RHScoreDoesNotMatch", "rhMismatch"), ("MalformedError", "malformed"),
              ("MandatoryError", "mandatory")]
PY_EXC = {"KeyError": "keyError", "TypeError": "typeError", "ValueError": "valueError", "IndexError": "indexError",
          "AssertionError": "assertionError"}


def exc_of(node):
    """constructor of `Py.Exc` for the class a `raise` names (arguments - message texts - are not modelled)"""
    if isinstance(node, ast.Call):
        node = node.func
    if isinstance(node, ast.Name):
        for suf, c in EXC_SUFFIX:
            if node.id.startswith("CVSS") and node.id.endswith(suf):
                return c
        return PY_EXC.get(node.id, "other")
    if node is None:
        raise Unsupported("bare raise")
    return "other"


def ctx_has_construct(tr):
    return getattr(tr, "have_construct", False)


def is_self(n):
    return isinstance(n, ast.Name) and n.id == "self"


def is_self_attr(n, name=None):
    return isinstance(n, ast.Attribute) and is_self(n.value) and (name is None or n.attr == name)


def has_return(st):
    return any(isinstance(n, ast.Return) for n in ast.walk(st))


def has_break(st):
    return any(isinstance(n, (ast.Break, ast.Continue)) for n in ast.walk(st))


def unify(tys):
    ts = set(tys)
    if not ts:
        raise Unsupported("a variable without a type")
    if len(ts) == 1:
        return ts.pop()
    if ts <= {"Int", "Dec"}:
        return "Dec"
    if ts <= {"Int", "Dec", "F"}:
        return "F"
    if ts <= {"Dec", "ODec", "NoneT"}:
        return "ODec"
    if ts <= {"S", "OS", "NoneT"}:
        return "OS"
    raise Unsupported("branches give a variable the types %s" % (ts,))


def lean_char(c):
    if c == "'":
        return "'\\''"
    if c == "\\":
        return "'\\\\'"
    if 32 <= ord(c) < 127:
        return "'%s'" % c
    return "(Char.ofNat %d)" % ord(c)


def tuple_pat(vs):
    if not vs:
        return "()"
    if len(vs) == 1:
        return vs[0]
    return "(" + ", ".join(vs) + ")"


def ind(lines, n):
    out = []
    for ln in lines:
        for sub in ln.split("\n"):
            out.append("  " * n + sub)
    return "\n".join(out)


HEADER = """-- GENERATED by tools/gen_code.py from the SOURCE TEXT of /repo's cvss/%s. DO NOT EDIT.
import Cvss.Basic
import Cvss.Py
import Cvss.Gen.%s
set_option maxRecDepth 100000
set_option linter.unusedVariables false
namespace Cvss.Gen.%s
open Cvss
"""


def translate(repo, pyfile, cls, tables_ns, out_ns, consts, param_types, func_names, method_names, tail_after, extra=None,
              whole_init=False):
    src = open(os.path.join(repo, "cvss", pyfile), encoding="utf-8").read()
    tree = ast.parse(src)
    tr = ClassTranslator(tree, cls, tables_ns, consts, param_types, method_names, func_names)
    parts = [HEADER % (pyfile, tables_ns, out_ns), tr.self_structure(), tr.init_self()]
    done, failed = [], []
    for fnm in func_names:
        try:
            if fnm not in tr.funcs:
                raise Unsupported("no module-level function %s" % fnm)
            parts.append(tr.emit_func(fnm))
            done.append(fnm)
        except (Unsupported, KeyError, AttributeError, IndexError, TypeError, ValueError) as ex:
            failed.append({"name": fnm, "error": "%s: %s" % (type(ex).__name__, ex)})
    for m in method_names:
        try:
            if m not in tr.methods:
                raise Unsupported("no method %s" % m)
            parts.append(tr.emit_method(m))
            done.append(m)
        except (Unsupported, KeyError, AttributeError, IndexError, TypeError, ValueError) as ex:
            failed.append({"name": m, "error": "%s: %s" % (type(ex).__name__, ex)})
    if tail_after:
        try:
            tail = tr.init_tail(tail_after)
            parts.append("/-- the statements of `__init__` after `self.%s()` -/\n" % tail_after
                         + tr.emit_method("__init__", body=tail, lean_name="init_tail"))
            dfl = tr.init_defaults()
            parts.append("/-- attributes `__init__` sets to a constant before anything is computed -/\n"
                         "def initDefaults : List (String × String) := [%s]\n" % ", ".join('("%s", "%s")' % x for x in dfl))
            done.append("init_tail")
        except (Unsupported, KeyError, AttributeError, IndexError, TypeError, ValueError) as ex:
            failed.append({"name": "init_tail", "error": "%s: %s" % (type(ex).__name__, ex)})
    if whole_init:
        try:
            parts.append("/-- `__init__` as written -/\n" + tr.emit_method("__init__", body=tr.methods["__init__"].body, lean_name="init"))
            parts.append("/-- `CVSSn(vector)`: a fresh object run through `__init__` -/\n"
                         "def construct (vector : Str) : Py.M Self := init default vector\n")
            done.append("__init__")
            tr.have_construct = True
        except (Unsupported, KeyError, AttributeError, IndexError, TypeError, ValueError) as ex:
            failed.append({"name": "__init__", "error": "%s: %s" % (type(ex).__name__, ex)})
        for cm in ("from_rh_vector",):
            try:
                parts.append(tr.emit_classmethod(cm))
                done.append(cm)
            except (Unsupported, KeyError, AttributeError, IndexError, TypeError, ValueError) as ex:
                failed.append({"name": cm, "error": "%s: %s" % (type(ex).__name__, ex)})
    if extra:
        for nm, fn in extra:
            try:
                parts.append(fn(tr))
                done.append(nm)
            except (Unsupported, KeyError, AttributeError, IndexError, TypeError, ValueError, StopIteration) as ex:
                failed.append({"name": nm, "error": "%s: %s" % (type(ex).__name__, ex)})
    parts.append("end Cvss.Gen.%s\n" % out_ns)
    return "\n".join(parts), done, failed


def v4_levels(tr):
    """the literal `*_levels` dicts and `step` of CVSS4.compute_base_score"""
    fn = tr.methods["compute_base_score"]
    rows = []
    step = None
    for st in fn.body:
        if isinstance(st, ast.Assign) and isinstance(st.targets[0], ast.Name):
            nm = st.targets[0].id
            if nm.endswith("_levels") and isinstance(st.value, ast.Dict):
                _, t, ty = tr.ex(st.value, {})
                if ty != ("Dict", "Dec"):
                    raise Unsupported("levels table %s of type %s" % (nm, ty))
                rows.append("(%s, %s)" % (lean_str(nm[:-7]), t))
            if nm == "step" and isinstance(st.value, ast.Constant):
                step = rat_of(repr(st.value.value))
    if not rows or step is None:
        raise Unsupported("no *_levels tables / step in compute_base_score")
    # which table each severity distance reads: `X_levels[self.m("X")] - X_levels[self.extract_value_metric("X", max_vector)]`
    dist = []
    for n in ast.walk(fn):
        if isinstance(n, ast.Assign) and isinstance(n.targets[0], ast.Name) and n.targets[0].id.startswith("severity_distance_"):
            v = n.value
            ok = (isinstance(v, ast.BinOp) and isinstance(v.op, ast.Sub)
                  and all(isinstance(x, ast.Subscript) and isinstance(x.value, ast.Name) for x in (v.left, v.right)))
            if not ok:
                raise Unsupported("severity distance shape")
            k = n.targets[0].id[len("severity_distance_"):]
            l, r = v.left, v.right
            if not (l.value.id == r.value.id == k + "_levels"
                    and isinstance(l.slice, ast.Call) and l.slice.func.attr == "m" and l.slice.args[0].value == k
                    and isinstance(r.slice, ast.Call) and r.slice.func.attr == "extract_value_metric"
                    and r.slice.args[0].value == k and isinstance(r.slice.args[1], ast.Name)):
                raise Unsupported("severity distance of %s reads other tables" % k)
            dist.append(lean_str(k))
    return ("/-- the literal `*_levels` dicts of `compute_base_score` -/\n"
            "def levels : List (Str × List (Str × Rat)) := [\n    %s\n  ]\n"
            "/-- `step` -/\ndef step : Rat := %s\n"
            "/-- the metrics whose `severity_distance_*` is computed as `X_levels[m(X)] - X_levels[max vector's X]`, in source order -/\n"
            "def distMetrics : List Str := [%s]\n" % (",\n    ".join(rows), step, ", ".join(dist)))


def gen_all(repo, out):
    results = {}
    D2 = ("Dict", ("Dict", "ODec"))
    N2 = ("Dict", ("Dict", "S"))
    LS = ("List", "S")
    jobs = [
        ("Code3", "cvss3.py", "CVSS3", "V3",
         {"METRICS_VALUES": ("Gen.V3.values", D2), "METRICS_VALUE_NAMES": ("Gen.V3.valueNames", N2),
          "METRICS_ABBREVIATIONS": ("Gen.V3.abbrs", ("Dict", "S")), "METRICS_ABBREVIATIONS_JSON": ("Gen.V3.jsonKeys", ("Dict", "S")),
          "TEMPORAL_METRICS": ("Gen.V3.temporal", LS), "ENVIRONMENTAL_METRICS": ("Gen.V3.environmental", LS),
          "METRICS_MANDATORY": ("Gen.V3.mandatory", LS)},
         {"abbreviation": "S", "value": "Dec", "vector": "S", "output_prefix": "B", "text": "S", "metric": "S", "sort": "B",
          "minimal": "B", "o": "Self"},
         ["round_up"],
         ["parse_vector", "check_mandatory", "handle_scope", "add_missing_optional", "get_value", "get_value_description", "compute_isc_base", "compute_isc",
          "compute_esc", "compute_base_score", "compute_temporal_score", "compute_modified_isc_base",
          "compute_modified_isc_30", "compute_modified_isc", "compute_modified_esc", "compute_environmental_score",
          "clean_vector", "severities", "temporal_vector", "environmental_vector", "as_json", "scores", "rh_vector", "__eq__", "__hash__"],
         "check_mandatory", None),
        ("Code2", "cvss2.py", "CVSS2", "V2",
         {"METRICS_VALUES": ("Gen.V2.values", D2), "METRICS_VALUE_NAMES": ("Gen.V2.valueNames", N2),
          "METRICS_ABBREVIATIONS": ("Gen.V2.abbrs", ("Dict", "S")), "METRICS_ABBREVIATIONS_JSON": ("Gen.V2.jsonKeys", ("Dict", "S")),
          "TEMPORAL_METRICS": ("Gen.V2.temporal", LS), "ENVIRONMENTAL_METRICS": ("Gen.V2.environmental", LS),
          "METRICS_MANDATORY": ("Gen.V2.mandatory", LS)},
         {"abbreviation": "S", "value": "Dec", "vector": "S", "text": "S", "metric": "S", "sort": "B", "minimal": "B", "o": "Self"},
         ["round_to_1_decimal"],
         ["parse_vector", "check_mandatory", "get_value", "get_value_description", "impact_equation", "adjusted_impact_equation", "base_score_equation",
          "compute_base_score", "temporal_score_equation", "compute_temporal_score", "compute_environmental_score",
          "clean_vector", "severities", "temporal_vector", "environmental_vector", "as_json", "scores", "rh_vector", "__eq__", "__hash__"],
         "check_mandatory", None),
        ("Code4", "cvss4.py", "CVSS4", "V4",
         {"METRICS_VALUE_NAMES": ("Gen.V4.valueNames", N2), "METRICS_MANDATORY": ("Gen.V4.mandatory", LS),
          "METRICS_ABBREVIATIONS": ("Gen.V4.abbrs", ("Dict", "S")), "METRICS_ABBREVIATIONS_JSON": ("Gen.V4.jsonKeys", ("Dict", "S")),
          "METRICS": ("Gen.V4.metricsOrder", LS), "CVSS_LOOKUP_GLOBAL": ("Gen.V4.lookupTable", ("Dict", "Dec")),
          "EPSILON": ("Gen.V4.epsilon", "Dec"), "MAX_SEVERITY": ("Gen.V4.maxSeverityEq1", ("IDict", "Int"))},
         {"metric": "S", "vector": "S", "abbreviation": "S", "output_prefix": "B", "text": "S", "sort": "B", "minimal": "B",
          "x": "F", "o": "Self"},
         ["final_rounding"],
         ["parse_vector", "check_mandatory", "add_missing_optional", "m", "macroVector", "get_value_description", "clean_vector",
          "compute_base_score", "compute_severity", "as_json", "scores", "severities", "rh_vector", "__eq__", "__hash__"],
         None, [("levels", v4_levels)]),
    ]
    changed = []
    for out_ns, pyfile, cls, tns, consts, ptypes, funcs, methods, tail, extra in jobs:
        try:
            text, done, failed = translate(repo, pyfile, cls, tns, out_ns, consts, ptypes, funcs, methods, tail, extra,
                                           whole_init=True)
        except Exception as ex:  # the file cannot be read / parsed at all
            text, done, failed = None, [], [{"name": "*", "error": "%s: %s" % (type(ex).__name__, ex)}]
        results[out_ns] = {"translated": done, "untranslated": failed}
        if text is not None and not failed:
            if write_if_changed(os.path.join(out, out_ns + ".lean"), text):
                changed.append(out_ns)
        elif text is not None:
            # keep what could be translated next to the real file for inspection; the tie is not in force
            with open(os.path.join(out, out_ns + ".partial.txt"), "w", encoding="utf-8") as f:
                f.write(text)
    return {"changed": changed, "classes": results}


def main():
    ap = argparse.ArgumentParser()
    ap.add_argument("--repo", default="/repo")
    ap.add_argument("--out", default=os.path.join(os.path.dirname(os.path.abspath(__file__)), "..", "lean", "Cvss", "Gen"))
    args = ap.parse_args()
    res = gen_all(args.repo, args.out)
    print(json.dumps(res))
    return 0


if __name__ == "__main__":
    sys.exit(main())
