# -*- coding: utf-8 -*-
"""
Probe executed by every interpreter (Python 2.7 and 3.6-3.13 common subset, stdlib only):
reads a JSON list of operations, runs them against the `cvss` package found on sys.path, prints a
JSON list of canonical results.  Used by C19 (fresh process / hash seeds) and C20 (interpreters).
"""
from __future__ import print_function, unicode_literals

import io
import json
import sys


class Writer(object):
    def __init__(self):
        self.parts = []

    def write(self, x):
        if isinstance(x, bytes):
            x = x.decode("utf-8", "replace")
        self.parts.append(x)

    def flush(self):
        pass

    def getvalue(self):
        return "".join(self.parts)

    def tell(self):
        return len(self.getvalue())


def fmt(x):
    if x is None:
        return "None"
    if isinstance(x, float):
        return repr(x)
    return "?" + repr(x)


def errname(e):
    return type(e).__name__


def items_of(d):
    out = []
    for k in d:
        v = d[k]
        out.append([k, repr(v) if isinstance(v, float) else v])
    return out


def global_state():
    """process-global state a library must leave alone, as comparable text (taken before the import and after use)"""
    import decimal
    import locale
    import logging
    import os
    import threading
    import warnings
    st = {}

    def ctx(c):
        return repr((c.prec, c.rounding, c.Emin, c.Emax, c.capitals, getattr(c, "clamp", None),
                     sorted(str(k) for k, v in c.traps.items() if v)))
    st["decimal.DefaultContext"] = ctx(decimal.DefaultContext)
    st["decimal.BasicContext"] = ctx(decimal.BasicContext)
    st["decimal.ExtendedContext"] = ctx(decimal.ExtendedContext)
    st["decimal.getcontext"] = ctx(decimal.getcontext())
    box = []
    t = threading.Thread(target=lambda: box.append((ctx(decimal.getcontext()),
                                                    str(decimal.Decimal("0.25").quantize(decimal.Decimal("0.1"))),
                                                    str(decimal.Decimal(1) / decimal.Decimal(3)))))
    t.start()
    t.join()
    st["fresh-thread decimal context / arithmetic"] = repr(box)
    st["sys.path"] = repr(list(sys.path))
    st["warnings.filters"] = repr([(f[0], str(f[2]), f[4]) for f in warnings.filters])
    st["locale"] = repr(locale.setlocale(locale.LC_ALL))
    st["recursionlimit"] = repr(sys.getrecursionlimit())
    st["logging.root"] = repr((logging.root.level, len(logging.root.handlers), logging.raiseExceptions))
    st["os.environ"] = repr(sorted(os.environ.items()))
    st["cwd"] = os.getcwd()
    st["stdio"] = repr((sys.stdout is sys.__stdout__, sys.stderr is sys.__stderr__, sys.stdin is sys.__stdin__))
    st["excepthook"] = repr((sys.excepthook is sys.__excepthook__, getattr(threading, "excepthook", None) is getattr(threading, "__excepthook__", None)))
    st["json defaults"] = repr((json.JSONEncoder.item_separator, json.JSONEncoder.key_separator))
    try:
        import signal
        st["signals"] = repr([(n, str(signal.getsignal(getattr(signal, n)))) for n in ("SIGINT", "SIGTERM") if hasattr(signal, n)])
    except Exception:  # noqa
        pass
    try:
        st["switchinterval"] = repr(sys.getswitchinterval())
    except AttributeError:
        pass
    st["float repr / str mode"] = repr((repr(0.1 + 0.2), "%.1f" % 0.25))
    return st


def main():
    ops = json.load(io.open(sys.argv[1], encoding="utf-8"))
    results = []
    want_globals = isinstance(ops, dict) and ops.get("globals")
    if want_globals:
        before = global_state()
        ops = ops["ops"]
    try:
        import cvss
        from cvss import CVSS2, CVSS3, CVSS4
        from cvss.parser import parse_cvss_from_text
        import cvss.interactive as inter
        import cvss.cvss_calculator as calc
    except BaseException as e:  # noqa
        print(json.dumps({"import_error": "%s: %s" % (type(e).__name__, e)}))
        return
    cls = {"2": CVSS2, "3": CVSS3, "4": CVSS4}
    if isinstance(ops, dict):
        # COLD-START CONCURRENCY: {"threads": n, "switch": seconds, "ops": [...]} - the operations (C / R / S / X only) are
        # dealt round-robin to n threads released together by a barrier, as the very first use of the package in this process
        import threading
        n = int(ops.get("threads", 4))
        lst = ops["ops"]
        try:
            sys.setswitchinterval(float(ops.get("switch", 1e-6)))
        except AttributeError:
            sys.setcheckinterval(1)
        out = [None] * len(lst)
        gate = threading.Event()

        def work(t):
            gate.wait()
            for i in range(t, len(lst), n):
                sub = []
                run_ops([lst[i]], sub, cls, parse_cvss_from_text, inter, calc)
                out[i] = sub[0] if sub else ["no-result"]
        ths = [threading.Thread(target=work, args=(t,)) for t in range(n)]
        for th in ths:
            th.start()
        gate.set()
        for th in ths:
            th.join()
        print(json.dumps({"results": out, "version": list(sys.version_info[:3])}))
        return
    run_ops(ops, results, cls, parse_cvss_from_text, inter, calc)
    out = {"results": results, "version": list(sys.version_info[:3])}
    if want_globals:
        after = global_state()
        out["globals_changed"] = sorted([k, before.get(k), after.get(k)] for k in set(before) | set(after) if before.get(k) != after.get(k))
    print(json.dumps(out))


def run_ops(ops, results, cls, parse_cvss_from_text, inter, calc):
    for op in ops:
        kind = op[0]
        try:
            if kind == "C" or kind == "R":
                ver, s = op[1], op[2]
                try:
                    o = cls[ver].from_rh_vector(s) if kind == "R" else cls[ver](s)
                except Exception as e:  # noqa
                    results.append(["err", errname(e), "%s" % e])
                    continue
                r = {"scores": [fmt(x) for x in o.scores()], "sev": list(o.severities()), "clean": o.clean_vector(),
                     "rh": o.rh_vector()}
                if ver != "4":
                    r["tv"] = o.temporal_vector()
                    r["ev"] = o.environmental_vector()
                for so in (False, True):
                    for mi in (False, True):
                        r["json%d%d" % (so, mi)] = items_of(o.as_json(sort=so, minimal=mi))
                # the container itself: its type and what == between differently ordered results says
                r["json-container"] = [type(o.as_json(sort=so)).__name__ for so in (False, True)] + \
                    [o.as_json(sort=True) == o.as_json(sort=False), o.as_json(sort=True, minimal=True) == o.as_json(sort=False, minimal=True)]
                results.append(["ok", r])
            elif kind == "S":   # scores / severities only, for bulk comparison
                ver, s = op[1], op[2]
                try:
                    o = cls[ver](s)
                except Exception as e:  # noqa
                    results.append(["err", errname(e)])
                    continue
                results.append(["ok", [fmt(x) for x in o.scores()], list(o.severities())])
            elif kind == "PD":   # build, USE (hash, set member, scores, JSON), pickle -> base64 text
                import base64
                import pickle
                o = cls[op[1]](op[2])
                hash(o)
                set([o])
                o.scores()
                o.as_json(minimal=True)
                results.append(["ok", base64.b64encode(pickle.dumps(o, 2)).decode("ascii")])
            elif kind == "PL":   # load a pickle made in ANOTHER process and compare with a locally built object
                import base64
                import pickle
                p = pickle.loads(base64.b64decode(op[3]))
                f = cls[op[1]](op[2])
                back = cls[op[1]].from_rh_vector(p.rh_vector())
                results.append(["ok", {"eq": [p == f, f == p, not (p != f)], "hash": hash(p) == hash(f), "set": [p in set([f]), f in set([p]), len(set([p, f])) == 1],
                                       "dict": {f: 1}.get(p) == 1, "rh-roundtrip": back == p and p == back,
                                       "scores": [fmt(x) for x in p.scores()] == [fmt(x) for x in f.scores()], "sev": list(p.severities()) == list(f.severities()),
                                       "clean": p.clean_vector() == f.clean_vector(), "rh": p.rh_vector() == f.rh_vector(),
                                       "json": [items_of(p.as_json(sort=so, minimal=mi)) == items_of(f.as_json(sort=so, minimal=mi))
                                                for so in (False, True) for mi in (False, True)]}])
            elif kind == "M":    # the other import forms
                out = []
                for stmt in ("from cvss import *", "import cvss.parser, cvss.interactive, cvss.exceptions, cvss.cvss_calculator",
                             "import cvss.constants2, cvss.constants3, cvss.constants4, cvss.cvss2, cvss.cvss3, cvss.cvss4",
                             "from cvss.exceptions import *", "from cvss.parser import *", "from cvss.cvss3 import *", "from cvss.constants4 import *"):
                    ns = {}
                    try:
                        exec(stmt, ns)
                        out.append([stmt, "ok", sorted(n for n in ns if n in ("CVSS2", "CVSS3", "CVSS4", "CVSSError", "parse_cvss_from_text",
                                                                              "ask_interactively", "CVSS3Error", "METRICS_MANDATORY"))])
                    except BaseException as e:  # noqa
                        out.append([stmt, "raised", errname(e)])
                results.append(["ok", out])
            elif kind == "X":
                res = parse_cvss_from_text(op[1])
                results.append(["ok", [[type(o).__name__, o.clean_vector()] for o in res]])
            elif kind == "I" or kind == "L":
                answers = list(op[-1])
                w = Writer()
                state = {"i": 0}

                def fake(*a):
                    if a and a[0]:
                        sys.stdout.write(a[0])      # like input(prompt)
                    if state["i"] >= len(answers):
                        state["i"] += 1
                        raise EOFError()
                    x = answers[state["i"]]
                    state["i"] += 1
                    return x

                class FakeStdin(object):       # for code that calls input() / sys.stdin.readline() directly
                    def readline(self, *a):
                        try:
                            return fake() + "\n"
                        except EOFError:
                            return ""
                old_in, old_out, old_err, old_argv = getattr(inter, "string_input", None), sys.stdout, sys.stderr, sys.argv
                old_stdin = sys.stdin
                if old_in is not None:
                    inter.string_input = fake
                sys.stdin = FakeStdin()
                sys.stdout = w
                errw = Writer()
                sys.stderr = errw
                outcome = None
                try:
                    try:
                        if kind == "I":
                            v = {"2": 2, "3.0": 3.0, "3.1": 3.1, "4": 4.0}[op[1]]
                            outcome = ["result", inter.ask_interactively(v, op[2], True)]
                        else:
                            argv = ["cvss_calculator"] + list(op[1])
                            if sys.version_info[0] == 2:  # a real Python 2 process receives bytes
                                argv = [a.encode("utf-8") for a in argv]
                            sys.argv = argv
                            calc.main()
                            outcome = ["exit", 0]
                    except EOFError:
                        outcome = ["eof"]
                    except SystemExit as e:
                        outcome = ["exit", e.code]
                    except Exception as e:  # noqa
                        outcome = ["raised", errname(e)]
                finally:
                    sys.stdout, sys.stderr, sys.argv, sys.stdin = old_out, old_err, old_argv, old_stdin
                    if old_in is not None:
                        inter.string_input = old_in
                results.append([outcome, w.getvalue(), errw.getvalue()])
            else:
                results.append(["bad-op"])
        except BaseException as e:  # noqa
            results.append(["probe-raised", errname(e), "%s" % e])


if __name__ == "__main__":
    main()
