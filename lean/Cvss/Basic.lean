/-
  Basic string / association-list vocabulary of the model.  Import-free (core Lean only), so that
  the driver executable links without Mathlib.

  Python `str` is modelled as `List Char` (sequences of Unicode scalar values).
-/
namespace Cvss

abbrev Str := List Char

/- `c!"AV"` is the character-list literal `['A', 'V']` (expanded at elaboration time, so the
   kernel never has to decode a `String`). -/
open Lean in
macro:max "c!" s:str : term => do
  let cs := s.getString.toList
  let elems := cs.map (fun c => (⟨Syntax.mkCharLit c⟩ : TSyntax `term))
  `(([$(elems.toArray),*] : List Char))

/-- worker for `splitOn`: (first field, remaining fields) -/
def splitAux (sep : Char) : Str → Str × List Str
  | [] => ([], [])
  | c :: cs =>
    let r := splitAux sep cs
    if c = sep then ([], r.1 :: r.2) else (c :: r.1, r.2)

/-- Python `s.split(sep)` for a one-character separator; the result is never empty. -/
def splitOn (sep : Char) (s : Str) : List Str :=
  (splitAux sep s).1 :: (splitAux sep s).2

/-- Python `sep.join(fields)` for a one-character separator. -/
def join (sep : Char) : List Str → Str
  | [] => []
  | [f] => f
  | f :: g :: fs => f ++ sep :: join sep (g :: fs)

/-- Python `s.split(sep, 1)` unpacked into exactly two names: `none` ⇔ ValueError (no separator). -/
def splitFirst (sep : Char) : Str → Option (Str × Str)
  | [] => none
  | c :: cs =>
    if c = sep then some ([], cs)
    else match splitFirst sep cs with
      | none => none
      | some (a, b) => some (c :: a, b)

/-- `s.startswith(p)` -/
def startsWith (p s : Str) : Bool := p.isPrefixOf s

/-- `s.endswith("/")`-style test for a single character -/
def endsWithChar (c : Char) (s : Str) : Bool :=
  match s.getLast? with
  | some d => d == c
  | none => false

/-- association-list look-up (Python dict `d.get(k)`) -/
def lookup {α β : Type} [DecidableEq α] (k : α) : List (α × β) → Option β
  | [] => none
  | (a, b) :: r => if k = a then some b else lookup k r

def hasKey {α β : Type} [DecidableEq α] (k : α) (l : List (α × β)) : Bool :=
  (lookup k l).isSome

/-- dict assignment `d[k] = v` (order of first insertion is kept, as in Python ≥ 3.7) -/
def insert {α β : Type} [DecidableEq α] (k : α) (v : β) : List (α × β) → List (α × β)
  | [] => [(k, v)]
  | (a, b) :: r => if k = a then (a, v) :: r else (a, b) :: insert k v r

def keys {α β : Type} (l : List (α × β)) : List α := l.map (·.1)

/-- decimal digit character of a small number -/
def digitChar (n : Nat) : Char := Char.ofNat (48 + n)

def natToStr (n : Nat) : Str := Nat.toDigits 10 n

/-- ASCII upper-casing (Python `str.upper()` restricted to ASCII letters) -/
def upperAscii (c : Char) : Char :=
  if 'a'.val ≤ c.val ∧ c.val ≤ 'z'.val then Char.ofNat (c.toNat - 32) else c

def upper (s : Str) : Str := s.map upperAscii

def replaceChar (a b : Char) (s : Str) : Str := s.map (fun c => if c = a then b else c)

/-- exception classes as far as the properties distinguish them -/
inductive Err
  | malformed      -- CVSSnMalformedError
  | mandatory      -- CVSSnMandatoryError
  | rhMalformed    -- CVSSnRHMalformedError
  | rhMismatch     -- CVSSnRHScoreDoesNotMatch
  | foreign        -- anything outside the CVSSError hierarchy (KeyError, TypeError, …)
  deriving DecidableEq, Repr, Inhabited

def Err.name : Err → String
  | .malformed => "MalformedError"
  | .mandatory => "MandatoryError"
  | .rhMalformed => "RHMalformedError"
  | .rhMismatch => "RHScoreDoesNotMatch"
  | .foreign => "FOREIGN"

/-- ROUND_HALF_UP to one decimal (ties away from zero), result in the same unit -/
def roundHalfUp1 (x : Rat) : Rat :=
  if 0 ≤ x then ((x * 10 + 1 / 2).floor : Rat) / 10
  else -(((-x) * 10 + 1 / 2).floor : Rat) / 10

/-- ROUND_CEILING to one decimal -/
def roundUp1 (x : Rat) : Rat := ((x * 10).ceil : Rat) / 10

/-- Python builtin `max(a, b)`/`min(a, b)` on ordered values (first argument wins ties) -/
def pyMax (a b : Rat) : Rat := if b > a then b else a
def pyMin (a b : Rat) : Rat := if b < a then b else a

end Cvss
