/-
  Semantics of the Python fragments that `tools/gen_code.py` translates from /repo's SOURCE TEXT
  (`Cvss/Gen/Code*.lean`).  Import-free.  Conventions of the translation:

  * a Python expression or statement list that may raise becomes a computation in `M = Except Exc`
    (`Exc` = the exception class: the library's own classes, KeyError, TypeError on `None` arithmetic, ValueError on
    unpacking, AssertionError, anything else);
  * `Decimal` values are exact rationals (justified by the robustness / exactness theorems of C19),
    `str` is `List Char`, a dict with string keys is an association list in insertion order;
  * an attribute that can hold `None` is an `Option`.
-/
import Cvss.Basic
import Cvss.Model.Float
namespace Cvss.Py
open Cvss

/-- `decimal` rounding modes that can appear as `rounding=` in `quantize` -/
inductive Rounding
  | ceiling | floor | halfUp | halfEven | halfDown | down | up
  deriving DecidableEq, Repr

/-- `x.quantize(Decimal("0.1"), rounding=mode)` on exact values, result in the same unit -/
def quantize1 : Rounding → Rat → Rat
  | .ceiling, x => roundUp1 x
  | .halfUp, x => roundHalfUp1 x
  | .floor, x => ((x * 10).floor : Rat) / 10
  | .down, x => if 0 ≤ x then ((x * 10).floor : Rat) / 10 else ((x * 10).ceil : Rat) / 10
  | .up, x => if 0 ≤ x then ((x * 10).ceil : Rat) / 10 else ((x * 10).floor : Rat) / 10
  | .halfDown, x =>
    if 0 ≤ x then ((x * 10 - 1 / 2).ceil : Rat) / 10 else -((((-x) * 10 - 1 / 2).ceil : Rat)) / 10
  | .halfEven, x =>
    let f := (x * 10).floor
    let d := x * 10 - f
    if d < 1 / 2 then (f : Rat) / 10
    else if d > 1 / 2 then ((f + 1 : Int) : Rat) / 10
    else if f % 2 = 0 then (f : Rat) / 10 else ((f + 1 : Int) : Rat) / 10

/-- the exception classes the translated fragments can raise; message texts are not modelled -/
inductive Exc
  | malformed | mandatory | rhMalformed | rhMismatch          -- the library's own hierarchy (per version)
  | keyError | typeError | valueError | indexError | assertionError | nameError | zeroDivision | other
  deriving DecidableEq, Repr, Inhabited

/-- the model's view of an exception: its class inside the CVSSError hierarchy, or "foreign" -/
def Exc.toErr : Exc → Err
  | .malformed => .malformed
  | .mandatory => .mandatory
  | .rhMalformed => .rhMalformed
  | .rhMismatch => .rhMismatch
  | _ => .foreign

/-- a Python computation that may raise -/
abbrev M := Except Exc

def raise {α : Type} (e : Exc) : M α := .error e

/-- `d[k]` on a dict literal or table: KeyError when absent -/
def getitem {β : Type} (k : Str) (d : List (Str × β)) : M β :=
  match lookup k d with
  | some v => .ok v
  | none => .error .keyError

/-- a value that must not be `None` where it is used (arithmetic, ordering, iteration): TypeError -/
def req {α : Type} : Option α → M α
  | some x => .ok x
  | none => .error .typeError

/-- `a, b = xs`: ValueError unless there are exactly two items -/
def unpack2 {α : Type} : List α → M (α × α)
  | [a, b] => .ok (a, b)
  | _ => .error .valueError

def unpack3 {α : Type} : List α → M (α × α × α)
  | [a, b, c] => .ok (a, b, c)
  | _ => .error .valueError

/-- `assert c` -/
def assert (c : Prop) [Decidable c] : M Unit := if c then .ok () else .error .assertionError

/-- `try: x  except cls: h` -/
def tryExcept {α : Type} (x : M α) (cls : Exc) (h : M α) : M α :=
  match x with
  | .error e => if e = cls then h else .error e
  | .ok v => .ok v

/-- reading a local variable that some path leaves unassigned: NameError (UnboundLocalError) -/
def bound {α : Type} : Option α → M α
  | some x => .ok x
  | none => .error .nameError

/-- `s[i]` on a string: IndexError past the end -/
def charAt (s : Str) (i : Nat) : M Str :=
  match s[i]? with
  | some c => .ok [c]
  | none => .error .indexError

/-- `int(s)` on the strings the library converts (runs of ASCII digits): ValueError otherwise -/
def int (s : Str) : M Int :=
  if s ≠ [] ∧ s.all (fun c => '0' ≤ c ∧ c ≤ '9') then
    .ok (Int.ofNat (s.foldl (fun n c => n * 10 + (c.toNat - 48)) 0))
  else .error .valueError

/-- `d[k]` where the key may be `None` (never a key of these tables) -/
def getitemO {β : Type} (k : Option Str) (d : List (Str × β)) : M β :=
  match k with
  | some k => getitem k d
  | none => .error .keyError

/-- `d[i]` on a dict with small non-negative integer keys -/
def getitemN (i : Int) (d : List (Nat × Nat)) : M Int :=
  if i < 0 then .error .keyError
  else match lookup i.toNat d with
    | some v => .ok (Int.ofNat v)
    | none => .error .keyError

/-- `d[i][j]` on a dict of dicts with small non-negative integer keys -/
def getitemNN (i j : Int) (d : List ((Nat × Nat) × Nat)) : M Int :=
  if i < 0 ∨ j < 0 then .error .keyError
  else match lookup (i.toNat, j.toNat) d with
    | some v => .ok (Int.ofNat v)
    | none => .error .keyError

/-! binary floats that may be NaN: `Option Rat`, `none` = nan; finite values are modelled exactly
    (C02 `roundHalfUp_epsilon_robust` shows the perturbation of real float arithmetic cannot change a score) -/

def fadd : Option Rat → Option Rat → Option Rat
  | some a, some b => some (a + b)
  | _, _ => none
def fsub : Option Rat → Option Rat → Option Rat
  | some a, some b => some (a - b)
  | _, _ => none
def fmul : Option Rat → Option Rat → Option Rat
  | some a, some b => some (a * b)
  | _, _ => none
/-- `a / b`: ZeroDivisionError for a zero divisor (checked before NaN propagates) -/
def fdiv : Option Rat → Option Rat → M (Option Rat)
  | _, some 0 => .error .zeroDivision
  | some a, some b => .ok (some (a / b))
  | _, _ => .ok none
def div (a b : Rat) : M Rat := if b = 0 then .error .zeroDivision else .ok (a / b)
/-- comparisons involving NaN are false -/
def flt : Option Rat → Option Rat → Bool
  | some a, some b => decide (a < b)
  | _, _ => false
def fle : Option Rat → Option Rat → Bool
  | some a, some b => decide (a ≤ b)
  | _, _ => false
def fgt (a b : Option Rat) : Bool := flt b a
def fge (a b : Option Rat) : Bool := fle b a
/-- builtin `max(a, b)` / `min(a, b)`: the first argument unless the second compares greater / smaller -/
def fmax (a b : Option Rat) : Option Rat := if fgt b a then b else a
def fmin (a b : Option Rat) : Option Rat := if flt b a then b else a
/-- `Decimal(x).quantize(...)` needs a finite `x` (InvalidOperation on NaN) -/
def finite : Option Rat → M Rat
  | some x => .ok x
  | none => .error .other

/-- `s.split(sep, 1)`: at most two pieces -/
def split1 (sep : Char) (s : Str) : List Str :=
  match splitFirst sep s with
  | some (a, b) => [a, b]
  | none => [s]

/-- `xs[i]` for a constant index: IndexError past the end -/
def listAt {α : Type} (xs : List α) (i : Nat) : M α :=
  match xs[i]? with
  | some x => .ok x
  | none => .error .indexError

/-- a Python `float` obtained from text (the literal grammar of `float()` and IEEE binary64 are modelled in
    `Cvss/Model/Float.lean`; these are the semantics of a BUILTIN, tied to CPython by C12's literal correspondence) -/
abbrev FVal := Cvss.Model.Float.FVal

/-- `float(text)`: ValueError unless the text is a float literal -/
def float (s : Str) : M FVal :=
  match Cvss.Model.Float.parseFloat s with
  | some v => .ok v
  | none => .error .valueError

/-- `float(score) == x` for a one-decimal score (`None == x` is False) -/
def scoreEq (score : Option Rat) (x : FVal) : Bool :=
  match score with
  | some q => Cvss.Model.Float.eqScore q x
  | none => false

/-- `str(float(score))` of a one-decimal score in [0, 10]: "7.5", "10.0"; `str(None)` -/
def strScore : Option Rat → Str
  | none => c!"None"
  | some q =>
    let t := (q * 10).floor.toNat
    natToStr (t / 10) ++ '.' :: natToStr (t % 10)

/-- `hash(x)`: the hash function itself is opaque (it depends on the interpreter and the hash seed); what the library
    decides is WHICH key is hashed -/
abbrev hashKey (x : Str) : Str := x

/-- `s.endswith(p)` -/
def endsWith (p s : Str) : Bool := p.reverse.isPrefixOf s.reverse

/-- `d.get(k, default)` -/
abbrev getD {β : Type} (k : Str) (d : List (Str × β)) (dflt : β) : β := (lookup k d).getD dflt

/-- `d.get(k)` / `d.get(k, None)` -/
abbrev get? {β : Type} (k : Str) (d : List (Str × β)) : Option β := lookup k d

/-- `k in d` -/
abbrev contains {β : Type} (k : Str) (d : List (Str × β)) : Bool := hasKey k d

/-- `d[k] = v` -/
abbrev setitem {β : Type} (k : Str) (v : β) (d : List (Str × β)) : List (Str × β) := insert k v d

/-- `"{0}:{1}".format(a, b)`-style templates: literal text and `{n}` fields -/
def fmtField (args : List Str) (digits : Str) : Str :=
  args.getD (digits.foldl (fun n c => n * 10 + (c.toNat - 48)) 0) []

def formatAux (args : List Str) : Str → Option Str → Str
  | [], _ => []
  | '{' :: cs, none => formatAux args cs (some [])
  | '}' :: cs, some ds => fmtField args ds ++ formatAux args cs none
  | c :: cs, some ds => formatAux args cs (some (ds ++ [c]))
  | c :: cs, none => c :: formatAux args cs none

def format (template : Str) (args : List Str) : Str := formatAux args template none

/-- `str(x)` / `"{0}".format(x)` of an attribute holding an `int` or `None` -/
def strOInt : Option Int → Str
  | none => c!"None"
  | some (Int.ofNat n) => natToStr n
  | some (Int.negSucc n) => '-' :: natToStr (n + 1)

/-- `s.upper()` on the strings the library upper-cases (ASCII value names) -/
abbrev upper (s : Str) : Str := Cvss.upper s

/-- a JSON value as `as_json()` produces it -/
inductive J
  | null
  | str (s : Str)
  | num (x : Rat)
  deriving DecidableEq, Repr

/-- `a < b` on `str` (code point order) -/
def strLt : Str → Str → Bool
  | [], [] => false
  | [], _ :: _ => true
  | _ :: _, [] => false
  | a :: as, b :: bs => if a.toNat < b.toNat then true else if b.toNat < a.toNat then false else strLt as bs

def insertSorted {β : Type} (kv : Str × β) : List (Str × β) → List (Str × β)
  | [] => [kv]
  | x :: xs => if strLt kv.1 x.1 then kv :: x :: xs else x :: insertSorted kv xs

/-- `OrderedDict(sorted(d.items()))` for distinct string keys (stable insertion sort by key) -/
def sortedItems {β : Type} (d : List (Str × β)) : List (Str × β) :=
  d.foldl (fun acc kv => insertSorted kv acc) []

/-- `str(n)` of a small non-negative integer -/
abbrev strNat (n : Nat) : Str := natToStr n

end Cvss.Py
