/-
  Semantics of the Python fragments that `tools/gen_code.py` translates from /repo's SOURCE TEXT
  (`Cvss/Gen/Code*.lean`).  Import-free.  Conventions of the translation:

  * a Python expression or statement list that may raise becomes a computation in `Option`
    (`none` ⇔ some exception: KeyError, TypeError on `None` arithmetic, RuntimeError, AssertionError);
  * `Decimal` values are exact rationals (justified by the robustness / exactness theorems of C19),
    `str` is `List Char`, a dict with string keys is an association list in insertion order;
  * an attribute that can hold `None` is an `Option`.
-/
import Cvss.Basic
namespace Cvss.Py
open Cvss

/-- `decimal` rounding modes that can appear as `rounding=` in `quantize` -/
inductive Rounding
  | ceiling | floor | halfUp | halfEven | halfDown | down | up
  deriving DecidableEq, Repr

/-- `x.quantize(Decimal("0.1"), rounding=mode)` on exact values, result in the same unit -/
def quantize1 : Rounding → Rat → Rat
  | .ceiling, x => roundUp1 x
  | .halfUp, x => roundHalfUp1 x
  | .floor, x => ((x * 10).floor : Rat) / 10
  | .down, x => if 0 ≤ x then ((x * 10).floor : Rat) / 10 else ((x * 10).ceil : Rat) / 10
  | .up, x => if 0 ≤ x then ((x * 10).ceil : Rat) / 10 else ((x * 10).floor : Rat) / 10
  | .halfDown, x =>
    if 0 ≤ x then ((x * 10 - 1 / 2).ceil : Rat) / 10 else -((((-x) * 10 - 1 / 2).ceil : Rat)) / 10
  | .halfEven, x =>
    let f := (x * 10).floor
    let d := x * 10 - f
    if d < 1 / 2 then (f : Rat) / 10
    else if d > 1 / 2 then ((f + 1 : Int) : Rat) / 10
    else if f % 2 = 0 then (f : Rat) / 10 else ((f + 1 : Int) : Rat) / 10

/-- `d[k]` on a dict literal or table: `none` ⇔ KeyError -/
abbrev getitem {β : Type} (k : Str) (d : List (Str × β)) : Option β := lookup k d

/-- `d.get(k, default)` -/
abbrev getD {β : Type} (k : Str) (d : List (Str × β)) (dflt : β) : β := (lookup k d).getD dflt

/-- `d.get(k)` / `d.get(k, None)` -/
abbrev get? {β : Type} (k : Str) (d : List (Str × β)) : Option β := lookup k d

/-- `k in d` -/
abbrev contains {β : Type} (k : Str) (d : List (Str × β)) : Bool := hasKey k d

/-- `d[k] = v` -/
abbrev setitem {β : Type} (k : Str) (v : β) (d : List (Str × β)) : List (Str × β) := insert k v d

/-- a value that must not be `None` where it is used (arithmetic, ordering): `none` ⇔ TypeError -/
abbrev req {α : Type} (x : Option α) : Option α := x

/-- `"{0}:{1}".format(a, b)`-style templates: literal text and `{n}` fields -/
def fmtField (args : List Str) (digits : Str) : Str :=
  args.getD (digits.foldl (fun n c => n * 10 + (c.toNat - 48)) 0) []

def formatAux (args : List Str) : Str → Option Str → Str
  | [], _ => []
  | '{' :: cs, none => formatAux args cs (some [])
  | '}' :: cs, some ds => fmtField args ds ++ formatAux args cs none
  | c :: cs, some ds => formatAux args cs (some (ds ++ [c]))
  | c :: cs, none => c :: formatAux args cs none

def format (template : Str) (args : List Str) : Str := formatAux args template none

/-- `str(x)` / `"{0}".format(x)` of an attribute holding an `int` or `None` -/
def strOInt : Option Int → Str
  | none => c!"None"
  | some (Int.ofNat n) => natToStr n
  | some (Int.negSucc n) => '-' :: natToStr (n + 1)

/-- `str(n)` of a small non-negative integer -/
abbrev strNat (n : Nat) : Str := natToStr n

end Cvss.Py
