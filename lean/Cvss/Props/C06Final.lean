/-
  C06 — v4, constructor level.
-/
import Cvss.Props.C06
import Cvss.Lemmas.Construct
namespace Cvss.Props.C06
open Cvss Cvss.Model Cvss.Lemmas.Construct

theorem v4_score_of_assignment (s : Str) (o : V4.Obj) (h : V4.construct s = .ok o) :
    Spec.V4.score (assignment V4.X o.orig) = some o.base :=
  (v4_construct_spec h).2.2.1

/-- (c), constructor level: two accepted v4 vectors that state the same 26 scoring metrics have the same
    score, whatever their supplemental metrics -/
theorem v4_supplemental_noninterference (s s' : Str) (o o' : V4.Obj) (h : V4.construct s = .ok o)
    (h' : V4.construct s' = .ok o')
    (hb : ∀ k ∈ scoring4, assignment V4.X o.orig k = assignment V4.X o'.orig k) : o.base = o'.base := by
  have h1 := v4_score_of_assignment s o h
  have h2 := v4_score_of_assignment s' o' h'
  rw [v4_frame _ _ hb, h2] at h1
  exact (Option.some.inj h1).symm

end Cvss.Props.C06
