/-
  C14 — a more severe metric value never lowers a score (where the standard is monotone).
-/
import Cvss.Model.Any
import Cvss.Spec.V2
import Cvss.Spec.V3
import Cvss.Lemmas.Mono
import Cvss.Props.C14Tables2
import Cvss.Props.C14Tables3
import Cvss.Props.C14Tables3a
import Cvss.Props.C14Tables3b
import Cvss.Props.C14Tables3c
namespace Cvss.Props.C14
open Cvss Cvss.Model

/-- weights are non-decreasing along each metric's severity order (least → most severe) -/
def monotoneRow (tbl : List (Str × List (Str × Option Rat))) (m : Str) (order : List Str) : Bool :=
  match lookup m tbl with
  | none => false
  | some row =>
    let ws := order.map (fun v => match lookup v row with | some (some w) => some w | _ => none)
    ws.all Option.isSome &&
    (ws.zip (ws.drop 1)).all (fun (a, b) => match a, b with | some x, some y => decide (x ≤ y) | _, _ => false)

theorem v2_weights_monotone :
    ([(c!"AV", [c!"L", c!"A", c!"N"]), (c!"AC", [c!"H", c!"M", c!"L"]), (c!"Au", [c!"M", c!"S", c!"N"]),
      (c!"C", [c!"N", c!"P", c!"C"]), (c!"I", [c!"N", c!"P", c!"C"]), (c!"A", [c!"N", c!"P", c!"C"]),
      (c!"E", [c!"U", c!"POC", c!"F", c!"H"]), (c!"RL", [c!"OF", c!"TF", c!"W", c!"U"]),
      (c!"RC", [c!"UC", c!"UR", c!"C"])].all fun (m, o) => monotoneRow Gen.V2.values m o) = true := by
  decide +kernel

theorem v3_weights_monotone :
    ([(c!"AV", [c!"P", c!"L", c!"A", c!"N"]), (c!"AC", [c!"H", c!"L"]), (c!"PR", [c!"H", c!"L", c!"N"]),
      (c!"UI", [c!"R", c!"N"]), (c!"C", [c!"N", c!"L", c!"H"]), (c!"I", [c!"N", c!"L", c!"H"]),
      (c!"A", [c!"N", c!"L", c!"H"]), (c!"E", [c!"U", c!"P", c!"F", c!"H"]),
      (c!"RL", [c!"O", c!"T", c!"W", c!"U"]), (c!"RC", [c!"U", c!"R", c!"C"]),
      (c!"CR", [c!"L", c!"M", c!"H"]), (c!"IR", [c!"L", c!"M", c!"H"]), (c!"AR", [c!"L", c!"M", c!"H"]),
      (c!"MAV", [c!"P", c!"L", c!"A", c!"N"]), (c!"MAC", [c!"H", c!"L"]), (c!"MPR", [c!"H", c!"L", c!"N"]),
      (c!"MUI", [c!"R", c!"N"]), (c!"MC", [c!"N", c!"L", c!"H"]), (c!"MI", [c!"N", c!"L", c!"H"]),
      (c!"MA", [c!"N", c!"L", c!"H"])].all fun (m, o) => monotoneRow Gen.V3.values m o) = true := by
  decide +kernel

/-! ### monotonicity of the specification's equations (the constructed objects' scores ARE these
    functions of the assignment read off the input: C01, C03) -/

/-- the assignment `a` with metric `k` set to `v` -/
def upd (a : Str → Str) (k v : Str) : Str → Str := fun j => if j = k then v else a j

/-- legal v2 assignment: every metric carries a token of its row of the guide's table -/
def Legal2 (a : Str → Str) : Prop := ∀ p ∈ Spec.V2.weights, (lookup (a p.1) p.2).isSome

/-- single severity steps of the v2 base metrics, least → most severe -/
def steps2base : List (Str × Str × Str) :=
  [(c!"AV", c!"L", c!"A"), (c!"AV", c!"A", c!"N"), (c!"AC", c!"H", c!"M"), (c!"AC", c!"M", c!"L"),
   (c!"Au", c!"M", c!"S"), (c!"Au", c!"S", c!"N"), (c!"C", c!"N", c!"P"), (c!"C", c!"P", c!"C"),
   (c!"I", c!"N", c!"P"), (c!"I", c!"P", c!"C"), (c!"A", c!"N", c!"P"), (c!"A", c!"P", c!"C")]

/-- … of the v2 temporal metrics; ND counts as its equivalent (E:H, RL:U, RC:C), so ND is at the top -/
def steps2temporal : List (Str × Str × Str) :=
  [(c!"E", c!"U", c!"POC"), (c!"E", c!"POC", c!"F"), (c!"E", c!"F", c!"H"), (c!"E", c!"F", c!"ND"),
   (c!"RL", c!"OF", c!"TF"), (c!"RL", c!"TF", c!"W"), (c!"RL", c!"W", c!"U"), (c!"RL", c!"W", c!"ND"),
   (c!"RC", c!"UC", c!"UR"), (c!"RC", c!"UR", c!"C"), (c!"RC", c!"UR", c!"ND")]

/-- order on optional scores used for "never lowers a score": compared only when both are defined -/
def leOpt (x y : Option Rat) : Prop := ∀ u v, x = some u → y = some v → u ≤ v

/-! helper facts for v2 (the general lemmas are in `Lemmas/Mono.lean`; `upd` is `Lemmas.Mono.upd`) -/

open Cvss.Lemmas.Mono in
theorem v2_w_nonneg (m v : Str) : 0 ≤ Spec.V2.w m v := by
  unfold Spec.V2.w
  cases hrow : lookup m Spec.V2.weights with
  | none => exact le_refl _
  | some row =>
    simp only
    cases hv : lookup v row with
    | none => simp
    | some x =>
      simp only [Option.getD_some]
      have h : Spec.V2.weights.all (fun p => p.2.all (fun q => decide (0 ≤ q.2))) = true := by
        decide +kernel
      have h1 := List.all_eq_true.mp h _ (Cvss.Lemmas.V2.lookup_mem hrow)
      have h2 := List.all_eq_true.mp h1 _ (Cvss.Lemmas.V2.lookup_mem hv)
      simpa using h2

open Cvss.Lemmas.Mono in
theorem v2_tf_upd_of_not_mem (a : Str → Str) {k : Str} (v : Str)
    (h : k ∉ [c!"E", c!"RL", c!"RC"]) :
    Spec.V2.temporalFactor (upd a k v) = Spec.V2.temporalFactor a := by
  have h1 : c!"E" ≠ k := fun e => h (e ▸ by decide)
  have h2 : c!"RL" ≠ k := fun e => h (e ▸ by decide)
  have h3 : c!"RC" ≠ k := fun e => h (e ▸ by decide)
  unfold Spec.V2.temporalFactor Spec.V2.wa
  change Spec.V2.w _ (Lemmas.Mono.upd a k v _) * Spec.V2.w _ (Lemmas.Mono.upd a k v _)
    * Spec.V2.w _ (Lemmas.Mono.upd a k v _) = _
  rw [upd_ne a v h1, upd_ne a v h2, upd_ne a v h3]

open Cvss.Lemmas.Mono in
theorem v2_tf_step {a : Str → Str} {k lo hi : Str} (hs : (k, lo, hi) ∈ steps2temporal)
    (hk : a k = lo) : Spec.V2.temporalFactor a ≤ Spec.V2.temporalFactor (upd a k hi) := by
  simp only [steps2temporal, List.mem_cons, Prod.mk.injEq, List.mem_nil_iff, or_false] at hs
  change _ ≤ Spec.V2.temporalFactor (Lemmas.Mono.upd a k hi)
  rcases hs with ⟨rfl, rfl, rfl⟩ | ⟨rfl, rfl, rfl⟩ | ⟨rfl, rfl, rfl⟩ | ⟨rfl, rfl, rfl⟩ |
    ⟨rfl, rfl, rfl⟩ | ⟨rfl, rfl, rfl⟩ | ⟨rfl, rfl, rfl⟩ | ⟨rfl, rfl, rfl⟩ |
    ⟨rfl, rfl, rfl⟩ | ⟨rfl, rfl, rfl⟩ | ⟨rfl, rfl, rfl⟩
  all_goals
    unfold Spec.V2.temporalFactor Spec.V2.wa
    simp (disch := decide) only [upd_ne, upd_self]
    rw [hk]
    first
    | exact mul_le_mul_of_nonneg_right (mul_le_mul_of_nonneg_right (by decide +kernel)
        (v2_w_nonneg _ _)) (v2_w_nonneg _ _)
    | exact mul_le_mul_of_nonneg_right (mul_le_mul_of_nonneg_left (by decide +kernel)
        (v2_w_nonneg _ _)) (v2_w_nonneg _ _)
    | exact mul_le_mul_of_nonneg_left (by decide +kernel)
        (mul_nonneg (v2_w_nonneg _ _) (v2_w_nonneg _ _))

/-- v2: a more severe base metric never lowers the base score nor the temporal score -/
theorem v2_base_step_mono (a : Str → Str) (ha : Legal2 a) (k lo hi : Str) (hs : (k, lo, hi) ∈ steps2base) (hk : a k = lo) :
    Spec.V2.baseScore a ≤ Spec.V2.baseScore (upd a k hi) ∧
    leOpt (Spec.V2.temporalScore a) (Spec.V2.temporalScore (upd a k hi)) := by
  have hkeys : k ∈ Lemmas.Mono.V2.keys ∧ k ∉ [c!"E", c!"RL", c!"RC"] :=
    of_decide_eq_true (List.all_eq_true.mp (by decide : steps2base.all
      (fun s => decide (s.1 ∈ Lemmas.Mono.V2.keys ∧ s.1 ∉ [c!"E", c!"RL", c!"RC"])) = true) _ hs)
  have hb : Spec.V2.baseScore a ≤ Spec.V2.baseScore (upd a k hi) := by
    rw [Lemmas.Mono.V2.baseScore_eq, Lemmas.Mono.V2.baseScore_eq]
    exact Lemmas.Mono.stepChk_spec C14Tables2.base_steps (by decide) a
      (Lemmas.Mono.V2.legal_rows ha) hs hkeys.1 hk
  refine ⟨hb, ?_⟩
  intro u v hu hv
  refine Lemmas.Mono.V2.temporal_le_of ?_ u v hu hv
  rw [v2_tf_upd_of_not_mem a hi hkeys.2]
  exact mul_le_mul_of_nonneg_right hb (Lemmas.V2.temporalFactor_bounds ha).1

set_option linter.unusedVariables false in
/-- v2: a more severe temporal metric never lowers the temporal score (and leaves the base score alone) -/
theorem v2_temporal_step_mono (a : Str → Str) (ha : Legal2 a) (k lo hi : Str) (hs : (k, lo, hi) ∈ steps2temporal)
    (hk : a k = lo) :
    Spec.V2.baseScore (upd a k hi) = Spec.V2.baseScore a ∧
    leOpt (Spec.V2.temporalScore a) (Spec.V2.temporalScore (upd a k hi)) := by
  have hkeys : k ∉ Lemmas.Mono.V2.keys :=
    of_decide_eq_true (List.all_eq_true.mp (by decide : steps2temporal.all
      (fun s => decide (s.1 ∉ Lemmas.Mono.V2.keys)) = true) _ hs)
  have hb : Spec.V2.baseScore (upd a k hi) = Spec.V2.baseScore a :=
    Lemmas.Mono.V2.baseScore_upd_of_not_mem a hi hkeys
  refine ⟨hb, ?_⟩
  intro u v hu hv
  refine Lemmas.Mono.V2.temporal_le_of ?_ u v hu hv
  rw [hb]
  exact mul_le_mul_of_nonneg_left (v2_tf_step hs hk) (Lemmas.Mono.V2.baseScore_nonneg a)

/-- legal v3 assignment -/
def Legal3 (a : Str → Str) : Prop :=
  (∀ p ∈ Spec.V3.weights, (lookup (a p.1) p.2).isSome) ∧
  (a c!"PR" = c!"N" ∨ a c!"PR" = c!"L" ∨ a c!"PR" = c!"H") ∧ (a c!"S" = c!"U" ∨ a c!"S" = c!"C") ∧
  (∀ M ∈ [c!"MAV", c!"MAC", c!"MUI", c!"MC", c!"MI", c!"MA"],
      a M = c!"X" ∨ (lookup (a M) ((lookup (M.drop 1) Spec.V3.weights).getD [])).isSome) ∧
  (a c!"MPR" = c!"X" ∨ a c!"MPR" = c!"N" ∨ a c!"MPR" = c!"L" ∨ a c!"MPR" = c!"H") ∧
  (a c!"MS" = c!"X" ∨ a c!"MS" = c!"U" ∨ a c!"MS" = c!"C")

def steps3base : List (Str × Str × Str) :=
  [(c!"AV", c!"P", c!"L"), (c!"AV", c!"L", c!"A"), (c!"AV", c!"A", c!"N"), (c!"AC", c!"H", c!"L"),
   (c!"PR", c!"H", c!"L"), (c!"PR", c!"L", c!"N"), (c!"UI", c!"R", c!"N"), (c!"S", c!"U", c!"C"),
   (c!"C", c!"N", c!"L"), (c!"C", c!"L", c!"H"), (c!"I", c!"N", c!"L"), (c!"I", c!"L", c!"H"),
   (c!"A", c!"N", c!"L"), (c!"A", c!"L", c!"H")]

/-- X counts as its equivalent (E:H, RL:U, RC:C): X is at the top -/
def steps3temporal : List (Str × Str × Str) :=
  [(c!"E", c!"U", c!"P"), (c!"E", c!"P", c!"F"), (c!"E", c!"F", c!"H"), (c!"E", c!"F", c!"X"),
   (c!"RL", c!"O", c!"T"), (c!"RL", c!"T", c!"W"), (c!"RL", c!"W", c!"U"), (c!"RL", c!"W", c!"X"),
   (c!"RC", c!"U", c!"R"), (c!"RC", c!"R", c!"C"), (c!"RC", c!"R", c!"X")]

/-- requirement steps; X counts as Medium -/
def steps3req : List (Str × Str × Str) :=
  [(c!"CR", c!"L", c!"M"), (c!"CR", c!"M", c!"H"), (c!"CR", c!"L", c!"X"), (c!"CR", c!"X", c!"H"),
   (c!"IR", c!"L", c!"M"), (c!"IR", c!"M", c!"H"), (c!"IR", c!"L", c!"X"), (c!"IR", c!"X", c!"H"),
   (c!"AR", c!"L", c!"M"), (c!"AR", c!"M", c!"H"), (c!"AR", c!"L", c!"X"), (c!"AR", c!"X", c!"H")]

/-- steps of the Modified metrics, on their EFFECTIVE value (an undefined Modified metric counts as
    its base metric's value): exploitability and scope … -/
def steps3modExpl : List (Str × Str × Str) :=
  [(c!"MAV", c!"P", c!"L"), (c!"MAV", c!"L", c!"A"), (c!"MAV", c!"A", c!"N"), (c!"MAC", c!"H", c!"L"),
   (c!"MPR", c!"H", c!"L"), (c!"MPR", c!"L", c!"N"), (c!"MUI", c!"R", c!"N"), (c!"MS", c!"U", c!"C")]
/-- … and impact -/
def steps3modImpact : List (Str × Str × Str) :=
  [(c!"MC", c!"N", c!"L"), (c!"MC", c!"L", c!"H"), (c!"MI", c!"N", c!"L"), (c!"MI", c!"L", c!"H"),
   (c!"MA", c!"N", c!"L"), (c!"MA", c!"L", c!"H")]

/-- v3 (both minor versions): a more severe base metric never lowers the base or the temporal score -/
theorem v3_base_step_mono (a : Str → Str) (ha : Legal3 a) (k lo hi : Str) (hs : (k, lo, hi) ∈ steps3base) (hk : a k = lo) :
    Spec.V3.baseScore a ≤ Spec.V3.baseScore (upd a k hi) ∧
    Spec.V3.temporalScore a ≤ Spec.V3.temporalScore (upd a k hi) := by
  have hkeys : k ∈ Lemmas.Mono.V3.keys ∧ k ∉ [c!"E", c!"RL", c!"RC"] :=
    of_decide_eq_true (List.all_eq_true.mp (by decide : steps3base.all
      (fun s => decide (s.1 ∈ Lemmas.Mono.V3.keys ∧ s.1 ∉ [c!"E", c!"RL", c!"RC"])) = true) _ hs)
  have hb : Spec.V3.baseScore a ≤ Spec.V3.baseScore (upd a k hi) := by
    rw [Lemmas.Mono.V3.baseScore_eq, Lemmas.Mono.V3.baseScore_eq]
    exact Lemmas.Mono.stepChk_spec C14Tables3.base_steps (by decide) a
      (Lemmas.Mono.V3.legal_rows ha) hs hkeys.1 hk
  refine ⟨hb, ?_⟩
  unfold Spec.V3.temporalScore
  apply Lemmas.Mono.roundup_mono
  have htf : Spec.V3.temporalFactor (upd a k hi) = Spec.V3.temporalFactor a :=
    Lemmas.Mono.V3.temporalFactor_upd_of_not_mem a hi hkeys.2
  rw [htf]
  exact mul_le_mul_of_nonneg_right hb (Lemmas.Mono.V3.temporalFactor_nonneg a)

set_option linter.unusedVariables false in
/-- v3: a more severe temporal metric never lowers the temporal score nor the environmental score
    (either minor version) -/
theorem v3_temporal_step_mono (minor : Nat) (a : Str → Str) (ha : Legal3 a) (k lo hi : Str)
    (hs : (k, lo, hi) ∈ steps3temporal) (hk : a k = lo) :
    Spec.V3.temporalScore a ≤ Spec.V3.temporalScore (upd a k hi) ∧
    Spec.V3.environmentalScore minor a ≤ Spec.V3.environmentalScore minor (upd a k hi) := by
  have hkeys : k ∈ Lemmas.Mono.V3.otherKeys ∧ k ∉ Lemmas.Mono.V3.keys :=
    Lemmas.Mono.V3.stepsTemporal_key hs
  constructor
  · unfold Spec.V3.temporalScore
    apply Lemmas.Mono.roundup_mono
    have hb : Spec.V3.baseScore (upd a k hi) = Spec.V3.baseScore a :=
      Lemmas.Mono.V3.baseScore_upd_of_not_mem a hi hkeys.2
    rw [hb]
    exact mul_le_mul_of_nonneg_left (Lemmas.Mono.V3.tf_step hs hk)
      (Lemmas.Mono.V3.baseScore_nonneg a)
  · rw [Lemmas.Mono.V3.env_eq, Lemmas.Mono.V3.env_eq]
    have e : Lemmas.Mono.V3.E (upd a k hi) = Lemmas.Mono.upd (Lemmas.Mono.V3.E a) k hi :=
      Lemmas.Mono.V3.E_upd_other hi hkeys.1
    rw [e]
    exact Lemmas.Mono.V3.envE_step_temporal minor _ hs
      ((Lemmas.Mono.V3.E_other hkeys.1).trans hk)

/-- v3.1: the environmental score never decreases under a more severe base metric (which reaches it
    through undefined Modified metrics), requirement, or Modified metric (step on the effective value) -/
theorem v31_env_base_step_mono (minor : Nat) (hm : minor ≠ 0) (a : Str → Str) (ha : Legal3 a) (k lo hi : Str)
    (hs : (k, lo, hi) ∈ steps3base) (hk : a k = lo) :
    Spec.V3.environmentalScore minor a ≤ Spec.V3.environmentalScore minor (upd a k hi) := by
  have hkeys : k ∈ Lemmas.Mono.V3.keys :=
    of_decide_eq_true (List.all_eq_true.mp (by decide : steps3base.all
      (fun s => decide (s.1 ∈ Lemmas.Mono.V3.keys)) = true) _ hs)
  rw [Lemmas.Mono.V3.env_eq, Lemmas.Mono.V3.env_eq]
  by_cases hX : a ('M' :: k) = Spec.V3.X
  · have e : Lemmas.Mono.V3.E (upd a k hi) = Lemmas.Mono.upd (Lemmas.Mono.V3.E a) k hi :=
      Lemmas.Mono.V3.E_upd_base_X hi hkeys hX
    rw [e]
    have hk' : Lemmas.Mono.V3.E a k = lo := by
      rw [Lemmas.Mono.V3.E_base hkeys]; unfold Spec.V3.eff; rw [if_pos hX, hk]
    exact Lemmas.Mono.V3.envE_step31 hm C14Tables3a.prodChk C14Tables3a.missChk
      C14Tables3a.impactChk C14Tables3c.scopeChk1 (Lemmas.Mono.V3.legalE_of_legal ha)
      (List.mem_append_left _ hs) hk'
  · have e : Lemmas.Mono.V3.E (upd a k hi) = Lemmas.Mono.V3.E a :=
      Lemmas.Mono.V3.E_upd_base_nX hi hkeys hX
    rw [e]

theorem v31_env_req_step_mono (minor : Nat) (hm : minor ≠ 0) (a : Str → Str) (ha : Legal3 a) (k lo hi : Str)
    (hs : (k, lo, hi) ∈ steps3req) (hk : a k = lo) :
    Spec.V3.environmentalScore minor a ≤ Spec.V3.environmentalScore minor (upd a k hi) := by
  have hkeys : k ∈ Lemmas.Mono.V3.otherKeys :=
    of_decide_eq_true (List.all_eq_true.mp (by decide : steps3req.all
      (fun s => decide (s.1 ∈ Lemmas.Mono.V3.otherKeys)) = true) _ hs)
  rw [Lemmas.Mono.V3.env_eq, Lemmas.Mono.V3.env_eq]
  have e : Lemmas.Mono.V3.E (upd a k hi) = Lemmas.Mono.upd (Lemmas.Mono.V3.E a) k hi :=
    Lemmas.Mono.V3.E_upd_other hi hkeys
  rw [e]
  exact Lemmas.Mono.V3.envE_step31 hm C14Tables3a.prodChk C14Tables3a.missChk
    C14Tables3a.impactChk C14Tables3c.scopeChk1 (Lemmas.Mono.V3.legalE_of_legal ha)
    (List.mem_append_right _ hs) ((Lemmas.Mono.V3.E_other hkeys).trans hk)

theorem v31_env_modified_step_mono (minor : Nat) (hm : minor ≠ 0) (a : Str → Str) (ha : Legal3 a) (M lo hi : Str)
    (hs : (M, lo, hi) ∈ steps3modExpl ++ steps3modImpact) (hk : Spec.V3.eff a M (M.drop 1) = lo) :
    Spec.V3.environmentalScore minor a ≤ Spec.V3.environmentalScore minor (upd a M hi) := by
  obtain ⟨hM, hkeys, hhi, hs'⟩ : M = 'M' :: M.drop 1 ∧ M.drop 1 ∈ Lemmas.Mono.V3.keys ∧
      hi ≠ Spec.V3.X ∧ (M.drop 1, lo, hi) ∈ steps3base :=
    of_decide_eq_true (List.all_eq_true.mp (by decide : (steps3modExpl ++ steps3modImpact).all
      (fun s => decide (s.1 = 'M' :: s.1.drop 1 ∧ s.1.drop 1 ∈ Lemmas.Mono.V3.keys ∧
        s.2.2 ≠ Spec.V3.X ∧ (s.1.drop 1, s.2.1, s.2.2) ∈ steps3base)) = true) _ hs)
  generalize M.drop 1 = k at *
  subst hM
  rw [Lemmas.Mono.V3.env_eq, Lemmas.Mono.V3.env_eq]
  have e : Lemmas.Mono.V3.E (upd a ('M' :: k) hi) = Lemmas.Mono.upd (Lemmas.Mono.V3.E a) k hi :=
    Lemmas.Mono.V3.E_upd_mod hkeys hhi
  rw [e]
  exact Lemmas.Mono.V3.envE_step31 hm C14Tables3a.prodChk C14Tables3a.missChk
    C14Tables3a.impactChk C14Tables3c.scopeChk1 (Lemmas.Mono.V3.legalE_of_legal ha)
    (List.mem_append_left _ hs') ((Lemmas.Mono.V3.E_base hkeys).trans hk)

/-- v3.0: the environmental score is monotone in the exploitability and scope metrics (base ones reaching it
    through undefined Modified metrics, and Modified ones); it is EXEMPT for the impact and requirement
    metrics, where the 3.0 standard itself is not monotone (see `v30_env_not_monotone`) -/
theorem v30_env_expl_step_mono (a : Str → Str) (ha : Legal3 a) (k lo hi : Str)
    (hs : (k, lo, hi) ∈ steps3base.take 8) (hk : a k = lo) :
    Spec.V3.environmentalScore 0 a ≤ Spec.V3.environmentalScore 0 (upd a k hi) := by
  have hkeys : k ∈ Lemmas.Mono.V3.keys :=
    of_decide_eq_true (List.all_eq_true.mp (by decide : (steps3base.take 8).all
      (fun s => decide (s.1 ∈ Lemmas.Mono.V3.keys)) = true) _ hs)
  rw [Lemmas.Mono.V3.env_eq, Lemmas.Mono.V3.env_eq]
  by_cases hX : a ('M' :: k) = Spec.V3.X
  · have e : Lemmas.Mono.V3.E (upd a k hi) = Lemmas.Mono.upd (Lemmas.Mono.V3.E a) k hi :=
      Lemmas.Mono.V3.E_upd_base_X hi hkeys hX
    rw [e]
    have hk' : Lemmas.Mono.V3.E a k = lo := by
      rw [Lemmas.Mono.V3.E_base hkeys]; unfold Spec.V3.eff; rw [if_pos hX, hk]
    exact Lemmas.Mono.V3.envE_step30 C14Tables3a.prodChk C14Tables3a.missChk
      C14Tables3b.scopeChk0 (Lemmas.Mono.V3.legalE_of_legal ha) hs hk'
  · have e : Lemmas.Mono.V3.E (upd a k hi) = Lemmas.Mono.V3.E a :=
      Lemmas.Mono.V3.E_upd_base_nX hi hkeys hX
    rw [e]

theorem v30_env_modified_step_mono (a : Str → Str) (ha : Legal3 a) (M lo hi : Str)
    (hs : (M, lo, hi) ∈ steps3modExpl) (hk : Spec.V3.eff a M (M.drop 1) = lo) :
    Spec.V3.environmentalScore 0 a ≤ Spec.V3.environmentalScore 0 (upd a M hi) := by
  obtain ⟨hM, hkeys, hhi, hs'⟩ : M = 'M' :: M.drop 1 ∧ M.drop 1 ∈ Lemmas.Mono.V3.keys ∧
      hi ≠ Spec.V3.X ∧ (M.drop 1, lo, hi) ∈ steps3base.take 8 :=
    of_decide_eq_true (List.all_eq_true.mp (by decide : steps3modExpl.all
      (fun s => decide (s.1 = 'M' :: s.1.drop 1 ∧ s.1.drop 1 ∈ Lemmas.Mono.V3.keys ∧
        s.2.2 ≠ Spec.V3.X ∧ (s.1.drop 1, s.2.1, s.2.2) ∈ steps3base.take 8)) = true) _ hs)
  generalize M.drop 1 = k at *
  subst hM
  rw [Lemmas.Mono.V3.env_eq, Lemmas.Mono.V3.env_eq]
  have e : Lemmas.Mono.V3.E (upd a ('M' :: k) hi) = Lemmas.Mono.upd (Lemmas.Mono.V3.E a) k hi :=
    Lemmas.Mono.V3.E_upd_mod hkeys hhi
  rw [e]
  exact Lemmas.Mono.V3.envE_step30 C14Tables3a.prodChk C14Tables3a.missChk
    C14Tables3b.scopeChk0 (Lemmas.Mono.V3.legalE_of_legal ha) hs'
    ((Lemmas.Mono.V3.E_base hkeys).trans hk)

/-- the witness: CVSS:3.0/AV:P/AC:H/PR:H/UI:R/S:C/C:N/I:L/A:H/CR:L/IR:H/AR:H, everything else X
    (environmental score 6.9; with C:L instead of C:N it is 6.8) -/
def witness30 : Str → Str := fun k =>
  if k = c!"AV" then c!"P" else if k = c!"AC" then c!"H" else if k = c!"PR" then c!"H"
  else if k = c!"UI" then c!"R" else if k = c!"S" then c!"C" else if k = c!"C" then c!"N"
  else if k = c!"I" then c!"L" else if k = c!"A" then c!"H" else if k = c!"CR" then c!"L"
  else if k = c!"IR" then c!"H" else if k = c!"AR" then c!"H" else c!"X"

/-- witness of the exemption: in v3.0 a more severe requirement can LOWER the environmental score -/
theorem v30_env_not_monotone :
    ∃ a : Str → Str, Legal3 a ∧ ∃ k lo hi, (k, lo, hi) ∈ steps3req ++ steps3modImpact ++ steps3base.drop 8 ∧ a k = lo ∧
      Spec.V3.environmentalScore 0 (upd a k hi) < Spec.V3.environmentalScore 0 a := by
  refine ⟨witness30, ?_, c!"C", c!"N", c!"L", by decide, by decide, by decide +kernel⟩
  unfold Legal3
  decide +kernel

end Cvss.Props.C14
