/-
  C14 — a more severe metric value never lowers a score (where the standard is monotone).
-/
import Cvss.Model.Any
namespace Cvss.Props.C14
open Cvss Cvss.Model

/-- weights are non-decreasing along each metric's severity order (least → most severe) -/
def monotoneRow (tbl : List (Str × List (Str × Option Rat))) (m : Str) (order : List Str) : Bool :=
  match lookup m tbl with
  | none => false
  | some row =>
    let ws := order.map (fun v => match lookup v row with | some (some w) => some w | _ => none)
    ws.all Option.isSome &&
    (ws.zip (ws.drop 1)).all (fun (a, b) => match a, b with | some x, some y => decide (x ≤ y) | _, _ => false)

theorem v2_weights_monotone :
    ([(c!"AV", [c!"L", c!"A", c!"N"]), (c!"AC", [c!"H", c!"M", c!"L"]), (c!"Au", [c!"M", c!"S", c!"N"]),
      (c!"C", [c!"N", c!"P", c!"C"]), (c!"I", [c!"N", c!"P", c!"C"]), (c!"A", [c!"N", c!"P", c!"C"]),
      (c!"E", [c!"U", c!"POC", c!"F", c!"H"]), (c!"RL", [c!"OF", c!"TF", c!"W", c!"U"]),
      (c!"RC", [c!"UC", c!"UR", c!"C"])].all fun (m, o) => monotoneRow Gen.V2.values m o) = true := by
  decide +kernel

theorem v3_weights_monotone :
    ([(c!"AV", [c!"P", c!"L", c!"A", c!"N"]), (c!"AC", [c!"H", c!"L"]), (c!"PR", [c!"H", c!"L", c!"N"]),
      (c!"UI", [c!"R", c!"N"]), (c!"C", [c!"N", c!"L", c!"H"]), (c!"I", [c!"N", c!"L", c!"H"]),
      (c!"A", [c!"N", c!"L", c!"H"]), (c!"E", [c!"U", c!"P", c!"F", c!"H"]),
      (c!"RL", [c!"O", c!"T", c!"W", c!"U"]), (c!"RC", [c!"U", c!"R", c!"C"]),
      (c!"CR", [c!"L", c!"M", c!"H"]), (c!"IR", [c!"L", c!"M", c!"H"]), (c!"AR", [c!"L", c!"M", c!"H"]),
      (c!"MAV", [c!"P", c!"L", c!"A", c!"N"]), (c!"MAC", [c!"H", c!"L"]), (c!"MPR", [c!"H", c!"L", c!"N"]),
      (c!"MUI", [c!"R", c!"N"]), (c!"MC", [c!"N", c!"L", c!"H"]), (c!"MI", [c!"N", c!"L", c!"H"]),
      (c!"MA", [c!"N", c!"L", c!"H"])].all fun (m, o) => monotoneRow Gen.V3.values m o) = true := by
  decide +kernel

end Cvss.Props.C14
