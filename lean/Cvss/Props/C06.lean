/-
  C06 — only effective metric values influence the scores (non-interference).
-/
import Cvss.Model.Any
import Cvss.Spec.V2
import Cvss.Spec.V3
import Cvss.Spec.V4
import Cvss.Lemmas.Construct
import Cvss.Lemmas.Frame
namespace Cvss.Props.C06
open Cvss Cvss.Model Cvss.Lemmas

def wt (tbl : List (Str × List (Str × Option Rat))) (m v : Str) : Option (Option Rat) :=
  (lookup m tbl).bind (lookup v)

/-- (b) v2: the weight of Not Defined equals the weight of the value the guide declares equivalent -/
theorem v2_nd_equivalent :
    ([(c!"E", c!"H"), (c!"RL", c!"U"), (c!"RC", c!"C"), (c!"CDP", c!"N"), (c!"TD", c!"H"),
      (c!"CR", c!"M"), (c!"IR", c!"M"), (c!"AR", c!"M")].all fun (m, v) =>
        (wt Gen.V2.values m c!"ND").isSome && wt Gen.V2.values m c!"ND" == wt Gen.V2.values m v) = true := by
  decide +kernel

/-- (b) v3: likewise for X -/
theorem v3_nd_equivalent :
    ([(c!"E", c!"H"), (c!"RL", c!"U"), (c!"RC", c!"C"), (c!"CR", c!"M"), (c!"IR", c!"M"), (c!"AR", c!"M")].all
      fun (m, v) => (wt Gen.V3.values m c!"X").isSome && wt Gen.V3.values m c!"X" == wt Gen.V3.values m v) = true := by
  decide +kernel

/-- (b) v4: an undefined E counts as Attacked, undefined CR/IR/AR as High, for every metric map -/
theorem v4_nd_equivalent (m : MMap) (k : Str) (hk : k = c!"CR" ∨ k = c!"IR" ∨ k = c!"AR")
    (h : lookup k m = some V4.X) : V4.mEff m k = some c!"H" := by
  rcases hk with rfl | rfl | rfl <;> simp [V4.mEff, h] <;> decide

theorem v4_e_equivalent (m : MMap) (h : lookup c!"E" m = some V4.X) : V4.mEff m c!"E" = some c!"A" := by
  simp [V4.mEff, h]

/-! ### non-interference, stated on the specification's equations over assignments
    (the constructed objects' scores ARE these functions of the assignment read off the input:
    `v2_scores_of_assignment`, `v3_scores_of_assignment` below, C02 for v4) -/

/-- the assignment `a` with metric `k` set to `v` -/
def upd (a : Str → Str) (k v : Str) : Str → Str := fun j => if j = k then v else a j

def base2 : List Str := [c!"AV", c!"AC", c!"Au", c!"C", c!"I", c!"A"]
def temporal2 : List Str := [c!"E", c!"RL", c!"RC"]
def base3 : List Str := [c!"AV", c!"AC", c!"PR", c!"UI", c!"S", c!"C", c!"I", c!"A"]
def temporal3 : List Str := [c!"E", c!"RL", c!"RC"]
/-- the 26 metrics the v4 algorithm reads: base, threat, requirements, modified base -/
def scoring4 : List Str :=
  [c!"AV", c!"AC", c!"AT", c!"PR", c!"UI", c!"VC", c!"VI", c!"VA", c!"SC", c!"SI", c!"SA", c!"E", c!"CR", c!"IR", c!"AR",
   c!"MAV", c!"MAC", c!"MAT", c!"MPR", c!"MUI", c!"MVC", c!"MVI", c!"MVA", c!"MSC", c!"MSI", c!"MSA"]

/-! #### helper lemmas -/

theorem upd_ne (a : Str → Str) (k v j : Str) (h : j ≠ k) : upd a k v j = a j := by
  simp only [upd, if_neg h]
theorem upd_self (a : Str → Str) (k v : Str) : upd a k v k = v := by
  simp only [upd, if_true]

/-- v4 metrics without a Modified counterpart in `Spec.V4.eff` -/
def NoMod (m : Str) : Prop := m = c!"E" ∨ m = c!"CR" ∨ m = c!"IR" ∨ m = c!"AR"
instance (m : Str) : Decidable (NoMod m) := by unfold NoMod; infer_instance

theorem eff4_congr1 (a a' : Str → Str) (m : Str) (hm : NoMod m) (h1 : a m = a' m) :
    Spec.V4.eff a m = Spec.V4.eff a' m := by
  rcases hm with rfl | rfl | rfl | rfl <;> simp [Spec.V4.eff, h1]

theorem eff4_congr2 (a a' : Str → Str) (m : Str) (h1 : a m = a' m) (h2 : a ('M' :: m) = a' ('M' :: m)) :
    Spec.V4.eff a m = Spec.V4.eff a' m := by
  simp only [Spec.V4.eff, h1, h2]

theorem eff4_base (a : Str → Str) (b : Str) (hb : ¬ NoMod b) :
    Spec.V4.eff a b = if a ('M' :: b) = c!"X" then a b else a ('M' :: b) := by
  simp only [NoMod, not_or] at hb
  obtain ⟨h1, h2, h3, h4⟩ := hb
  unfold Spec.V4.eff
  rw [if_neg h1, if_neg (by simp [h2, h3, h4])]
  by_cases h : a ('M' :: b) = c!"X"
  · rw [if_pos h, if_neg (by simpa [Spec.V4.X] using h)]
  · rw [if_neg h, if_pos (by simpa [Spec.V4.X] using h)]

theorem eff4_upd_nd (a : Str → Str) (b : Str) (hb : ¬ NoMod b) (hne : b ≠ 'M' :: b) (hx : a ('M' :: b) = c!"X") :
    Spec.V4.eff (upd a ('M' :: b) (a b)) b = Spec.V4.eff a b := by
  rw [eff4_base _ _ hb, eff4_base _ _ hb, upd_self, upd_ne _ _ _ _ hne, hx]
  simp

theorem eff4_upd_overridden (a : Str → Str) (b v : Str) (hb : ¬ NoMod b) (hne : 'M' :: b ≠ b)
    (hd : a ('M' :: b) ≠ c!"X") : Spec.V4.eff (upd a b v) b = Spec.V4.eff a b := by
  rw [eff4_base _ _ hb, eff4_base _ _ hb, upd_ne _ _ _ _ hne, if_neg hd, if_neg hd]

/-- the (Modified, base) pairs read by the v3 environmental equation -/
def pairs3 : List (Str × Str) :=
  [(c!"MC", c!"C"), (c!"MI", c!"I"), (c!"MA", c!"A"), (c!"MS", c!"S"), (c!"MAV", c!"AV"), (c!"MAC", c!"AC"),
   (c!"MPR", c!"PR"), (c!"MUI", c!"UI")]
/-- the metrics the v3 environmental equation reads through their weight only -/
def weighted3 : List Str := [c!"CR", c!"IR", c!"AR", c!"E", c!"RL", c!"RC"]

theorem eff3_congr (a a' : Str → Str) (M b : Str) (h1 : a M = a' M) (h2 : a b = a' b) :
    Spec.V3.eff a M b = Spec.V3.eff a' M b := by
  simp only [Spec.V3.eff, h1, h2]

theorem eff3_upd_nd (a : Str → Str) (M b : Str) (hne : b ≠ M) (hx : a M = c!"X") :
    Spec.V3.eff (upd a M (a b)) M b = Spec.V3.eff a M b := by
  simp only [Spec.V3.eff, upd_self, upd_ne _ _ _ _ hne, hx, Spec.V3.X, ite_self, if_true]

theorem eff3_upd_overridden (a : Str → Str) (M b v : Str) (hne : M ≠ b) (hd : a M ≠ c!"X") :
    Spec.V3.eff (upd a b v) M b = Spec.V3.eff a M b := by
  have hd' : ¬ a M = Spec.V3.X := hd
  simp only [Spec.V3.eff, upd_ne _ _ _ _ hne, if_neg hd']

theorem v3_temporalFactor_congr (a a' : Str → Str)
    (h : ∀ k ∈ temporal3, Spec.V3.w k (a k) = Spec.V3.w k (a' k)) :
    Spec.V3.temporalFactor a = Spec.V3.temporalFactor a' := by
  simp only [Spec.V3.temporalFactor, h c!"E" (by decide), h c!"RL" (by decide), h c!"RC" (by decide)]

/-- the v3 environmental score depends on the assignment only through the eight effective values and the
    weights of the requirement and temporal metrics -/
theorem v3_env_congr (minor : Nat) (a a' : Str → Str)
    (he : ∀ p ∈ pairs3, Spec.V3.eff a p.1 p.2 = Spec.V3.eff a' p.1 p.2)
    (hw : ∀ k ∈ weighted3, Spec.V3.w k (a k) = Spec.V3.w k (a' k)) :
    Spec.V3.environmentalScore minor a = Spec.V3.environmentalScore minor a' := by
  have hMC := he (c!"MC", c!"C") (by decide)
  have hMI := he (c!"MI", c!"I") (by decide)
  have hMA := he (c!"MA", c!"A") (by decide)
  have hMS := he (c!"MS", c!"S") (by decide)
  have hMAV := he (c!"MAV", c!"AV") (by decide)
  have hMAC := he (c!"MAC", c!"AC") (by decide)
  have hMPR := he (c!"MPR", c!"PR") (by decide)
  have hMUI := he (c!"MUI", c!"UI") (by decide)
  have hCR := hw c!"CR" (by decide)
  have hIR := hw c!"IR" (by decide)
  have hAR := hw c!"AR" (by decide)
  have htf : Spec.V3.temporalFactor a = Spec.V3.temporalFactor a' :=
    v3_temporalFactor_congr a a' (fun k hk => hw k (by
      simp only [temporal3, List.mem_cons, List.not_mem_nil, or_false] at hk
      rcases hk with rfl | rfl | rfl <;> decide))
  simp only at hMC hMI hMA hMS hMAV hMAC hMPR hMUI
  simp only [Spec.V3.environmentalScore, hMC, hMI, hMA, hMS, hMAV, hMAC, hMPR, hMUI, hCR, hIR, hAR, htf]

theorem v2_upd_eq_nd {a : Str → Str} {k v j : Str} (hv : v ≠ Spec.V2.ND) (h : upd a k v j = Spec.V2.ND) :
    a j = Spec.V2.ND := by
  unfold upd at h
  split at h
  · exact absurd h hv
  · exact h

theorem v2_temporalDefined_upd (a : Str → Str) (k v : Str) (hv : v ≠ Spec.V2.ND)
    (h : Spec.V2.temporalDefined a = true) : Spec.V2.temporalDefined (upd a k v) = true := by
  simp only [Spec.V2.temporalDefined, Bool.not_eq_true', decide_eq_false_iff_not] at h ⊢
  exact fun ⟨h1, h2, h3⟩ => h ⟨v2_upd_eq_nd hv h1, v2_upd_eq_nd hv h2, v2_upd_eq_nd hv h3⟩

theorem v2_environmentalDefined_upd (a : Str → Str) (k v : Str) (hv : v ≠ Spec.V2.ND)
    (h : Spec.V2.environmentalDefined a = true) : Spec.V2.environmentalDefined (upd a k v) = true := by
  simp only [Spec.V2.environmentalDefined, Bool.not_eq_true', decide_eq_false_iff_not] at h ⊢
  exact fun ⟨h1, h2, h3, h4, h5⟩ =>
    h ⟨v2_upd_eq_nd hv h1, v2_upd_eq_nd hv h2, v2_upd_eq_nd hv h3, v2_upd_eq_nd hv h4, v2_upd_eq_nd hv h5⟩

theorem v2_wa_upd (a : Str → Str) (k v : Str) (hw : Spec.V2.w k v = Spec.V2.w k (a k)) (m : Str) :
    Spec.V2.wa (upd a k v) m = Spec.V2.wa a m := by
  unfold Spec.V2.wa
  by_cases hm : m = k
  · subst hm; rw [upd_self, hw]
  · rw [upd_ne _ _ _ _ hm]

/-- the v2 equations depend on the assignment only through the weights (definedness tests apart) -/
theorem v2_wa_congr (a a' : Str → Str) (h : ∀ m, Spec.V2.wa a m = Spec.V2.wa a' m) :
    Spec.V2.baseScore a = Spec.V2.baseScore a' ∧
    (∀ x, Spec.V2.temporalScore a = some x → Spec.V2.temporalDefined a' = true →
      Spec.V2.temporalScore a' = some x) ∧
    (∀ x, Spec.V2.environmentalScore a = some x → Spec.V2.environmentalDefined a' = true →
      Spec.V2.environmentalScore a' = some x) := by
  have hbe : ∀ imp, Spec.V2.baseEq a imp = Spec.V2.baseEq a' imp := by
    intro imp; simp only [Spec.V2.baseEq, Spec.V2.exploitability, h]
  have hb : Spec.V2.baseScore a = Spec.V2.baseScore a' := by
    simp only [Spec.V2.baseScore, Spec.V2.impact, hbe, h]
  have htf : Spec.V2.temporalFactor a = Spec.V2.temporalFactor a' := by
    simp only [Spec.V2.temporalFactor, h]
  have hai : Spec.V2.adjustedImpact a = Spec.V2.adjustedImpact a' := by
    simp only [Spec.V2.adjustedImpact, h]
  refine ⟨hb, ?_, ?_⟩
  · intro x hx hd
    unfold Spec.V2.temporalScore at hx ⊢
    split at hx
    · rw [if_pos hd, ← hb, ← htf]; exact hx
    · exact absurd hx (by simp)
  · intro x hx hd
    unfold Spec.V2.environmentalScore at hx ⊢
    split at hx
    · rw [if_pos hd]
      simp only [← hbe, ← htf, ← hai, ← h]
      exact hx
    · exact absurd hx (by simp)

/-! #### the theorems -/

/-- (e) v2: temporal and environmental metrics never change the base score, nor environmental metrics the
    temporal score -/
theorem v2_base_frame (a a' : Str → Str) (h : ∀ k ∈ base2, a k = a' k) : Spec.V2.baseScore a = Spec.V2.baseScore a' := by
  simp only [Spec.V2.baseScore, Spec.V2.baseEq, Spec.V2.impact, Spec.V2.exploitability, Spec.V2.wa,
    h c!"AV" (by decide), h c!"AC" (by decide), h c!"Au" (by decide), h c!"C" (by decide), h c!"I" (by decide),
    h c!"A" (by decide)]
theorem v2_temporal_frame (a a' : Str → Str) (h : ∀ k ∈ base2 ++ temporal2, a k = a' k) :
    Spec.V2.temporalScore a = Spec.V2.temporalScore a' := by
  have hd : Spec.V2.temporalDefined a = Spec.V2.temporalDefined a' := by
    unfold Spec.V2.temporalDefined
    rw [h c!"E" (by decide), h c!"RL" (by decide), h c!"RC" (by decide)]
  have htf : Spec.V2.temporalFactor a = Spec.V2.temporalFactor a' := by
    simp only [Spec.V2.temporalFactor, Spec.V2.wa, h c!"E" (by decide), h c!"RL" (by decide), h c!"RC" (by decide)]
  simp only [Spec.V2.temporalScore, v2_base_frame a a' (fun k hk => h k (List.mem_append_left _ hk)), hd, htf]

/-- (b) v2: setting a Not Defined metric to the value the guide declares equivalent leaves every defined
    score unchanged -/
theorem v2_nd_equivalent_scores (a : Str → Str) (k v : Str)
    (hk : (k, v) ∈ [(c!"E", c!"H"), (c!"RL", c!"U"), (c!"RC", c!"C"), (c!"CDP", c!"N"), (c!"TD", c!"H"),
                    (c!"CR", c!"M"), (c!"IR", c!"M"), (c!"AR", c!"M")])
    (hx : a k = c!"ND") :
    Spec.V2.baseScore (upd a k v) = Spec.V2.baseScore a ∧
    (∀ x, Spec.V2.temporalScore a = some x → Spec.V2.temporalScore (upd a k v) = some x) ∧
    (∀ x, Spec.V2.environmentalScore a = some x → Spec.V2.environmentalScore (upd a k v) = some x) := by
  have hv : v ≠ Spec.V2.ND ∧ Spec.V2.w k v = Spec.V2.w k (a k) := by
    rw [hx]
    simp only [List.mem_cons, List.not_mem_nil, or_false, Prod.mk.injEq] at hk
    rcases hk with ⟨rfl, rfl⟩ | ⟨rfl, rfl⟩ | ⟨rfl, rfl⟩ | ⟨rfl, rfl⟩ | ⟨rfl, rfl⟩ | ⟨rfl, rfl⟩ | ⟨rfl, rfl⟩ |
      ⟨rfl, rfl⟩ <;> exact ⟨by decide, by decide +kernel⟩
  obtain ⟨hb, ht, he⟩ := v2_wa_congr a (upd a k v) (fun m => (v2_wa_upd a k v hv.2 m).symm)
  refine ⟨hb.symm, fun x hx' => ht x hx' ?_, fun x hx' => he x hx' ?_⟩
  · apply v2_temporalDefined_upd a k v hv.1
    unfold Spec.V2.temporalScore at hx'
    split at hx'
    · assumption
    · exact absurd hx' (by simp)
  · apply v2_environmentalDefined_upd a k v hv.1
    unfold Spec.V2.environmentalScore at hx'
    split at hx'
    · assumption
    · exact absurd hx' (by simp)

/-- (e) v3 -/
theorem v3_base_frame (a a' : Str → Str) (h : ∀ k ∈ base3, a k = a' k) : Spec.V3.baseScore a = Spec.V3.baseScore a' := by
  simp only [Spec.V3.baseScore, h c!"AV" (by decide), h c!"AC" (by decide), h c!"PR" (by decide),
    h c!"UI" (by decide), h c!"S" (by decide), h c!"C" (by decide), h c!"I" (by decide), h c!"A" (by decide)]
theorem v3_temporal_frame (a a' : Str → Str) (h : ∀ k ∈ base3 ++ temporal3, a k = a' k) :
    Spec.V3.temporalScore a = Spec.V3.temporalScore a' := by
  simp only [Spec.V3.temporalScore, v3_base_frame a a' (fun k hk => h k (List.mem_append_left _ hk)),
    Spec.V3.temporalFactor, h c!"E" (by decide), h c!"RL" (by decide), h c!"RC" (by decide)]

/-- (a) v3: a Not Defined Modified metric set to its base metric's value changes no score -/
theorem v3_nd_modified (minor : Nat) (a : Str → Str) (M : Str) (hM : M ∈ V3.modifiedMetrics) (hx : a M = c!"X") :
    Spec.V3.scores minor (upd a M (a (M.drop 1))) = Spec.V3.scores minor a := by
  simp only [V3.modifiedMetrics, List.mem_cons, List.not_mem_nil, or_false] at hM
  have hbt : ∀ k ∈ base3 ++ temporal3, upd a M (a (M.drop 1)) k = a k := by
    intro k hk
    simp only [base3, temporal3, List.cons_append, List.nil_append, List.mem_cons, List.not_mem_nil,
      or_false] at hk
    rcases hM with rfl | rfl | rfl | rfl | rfl | rfl | rfl | rfl <;>
      rcases hk with rfl | rfl | rfl | rfl | rfl | rfl | rfl | rfl | rfl | rfl | rfl <;>
      exact upd_ne _ _ _ _ (by decide)
  have henv : Spec.V3.environmentalScore minor (upd a M (a (M.drop 1))) = Spec.V3.environmentalScore minor a := by
    apply v3_env_congr
    · intro p hp
      simp only [pairs3, List.mem_cons, List.not_mem_nil, or_false] at hp
      rcases hM with rfl | rfl | rfl | rfl | rfl | rfl | rfl | rfl <;>
        rcases hp with rfl | rfl | rfl | rfl | rfl | rfl | rfl | rfl <;>
        first
          | exact eff3_congr _ _ _ _ (upd_ne _ _ _ _ (by decide)) (upd_ne _ _ _ _ (by decide))
          | exact eff3_upd_nd _ _ _ (by decide) hx
    · intro k hk
      simp only [weighted3, List.mem_cons, List.not_mem_nil, or_false] at hk
      rcases hM with rfl | rfl | rfl | rfl | rfl | rfl | rfl | rfl <;>
        rcases hk with rfl | rfl | rfl | rfl | rfl | rfl <;>
        rw [upd_ne _ _ _ _ (by decide)]
  simp only [Spec.V3.scores, henv, v3_temporal_frame _ _ hbt,
    v3_base_frame _ _ (fun k hk => hbt k (List.mem_append_left _ hk))]

/-- (b) v3: a Not Defined metric set to its declared equivalent changes no score -/
theorem v3_nd_equivalent_scores (minor : Nat) (a : Str → Str) (k v : Str)
    (hk : (k, v) ∈ [(c!"E", c!"H"), (c!"RL", c!"U"), (c!"RC", c!"C"), (c!"CR", c!"M"), (c!"IR", c!"M"), (c!"AR", c!"M")])
    (hx : a k = c!"X") : Spec.V3.scores minor (upd a k v) = Spec.V3.scores minor a := by
  simp only [List.mem_cons, List.not_mem_nil, or_false, Prod.mk.injEq] at hk
  have hb : ∀ j ∈ base3, upd a k v j = a j := by
    intro j hj
    simp only [base3, List.mem_cons, List.not_mem_nil, or_false] at hj
    rcases hk with ⟨rfl, rfl⟩ | ⟨rfl, rfl⟩ | ⟨rfl, rfl⟩ | ⟨rfl, rfl⟩ | ⟨rfl, rfl⟩ | ⟨rfl, rfl⟩ <;>
      rcases hj with rfl | rfl | rfl | rfl | rfl | rfl | rfl | rfl <;>
      exact upd_ne _ _ _ _ (by decide)
  have hw : ∀ j ∈ weighted3, Spec.V3.w j (upd a k v j) = Spec.V3.w j (a j) := by
    intro j hj
    simp only [weighted3, List.mem_cons, List.not_mem_nil, or_false] at hj
    rcases hk with ⟨rfl, rfl⟩ | ⟨rfl, rfl⟩ | ⟨rfl, rfl⟩ | ⟨rfl, rfl⟩ | ⟨rfl, rfl⟩ | ⟨rfl, rfl⟩ <;>
      rcases hj with rfl | rfl | rfl | rfl | rfl | rfl <;>
      first
        | rw [upd_ne _ _ _ _ (by decide)]
        | (rw [upd_self, hx]; decide +kernel)
  have hbase := v3_base_frame _ _ hb
  have htf : Spec.V3.temporalFactor (upd a k v) = Spec.V3.temporalFactor a :=
    v3_temporalFactor_congr _ _ (fun j hj => hw j (by
      simp only [temporal3, List.mem_cons, List.not_mem_nil, or_false] at hj
      rcases hj with rfl | rfl | rfl <;> decide))
  have henv : Spec.V3.environmentalScore minor (upd a k v) = Spec.V3.environmentalScore minor a := by
    apply v3_env_congr _ _ _ _ hw
    intro p hp
    simp only [pairs3, List.mem_cons, List.not_mem_nil, or_false] at hp
    rcases hk with ⟨rfl, rfl⟩ | ⟨rfl, rfl⟩ | ⟨rfl, rfl⟩ | ⟨rfl, rfl⟩ | ⟨rfl, rfl⟩ | ⟨rfl, rfl⟩ <;>
      rcases hp with rfl | rfl | rfl | rfl | rfl | rfl | rfl | rfl <;>
      exact eff3_congr _ _ _ _ (upd_ne _ _ _ _ (by decide)) (upd_ne _ _ _ _ (by decide))
  simp only [Spec.V3.scores, Spec.V3.temporalScore, hbase, htf, henv]

/-- (d) v3: changing a base metric that is overridden by a defined Modified metric does not change the
    environmental score -/
theorem v3_overridden_base (minor : Nat) (a : Str → Str) (M v : Str) (hM : M ∈ V3.modifiedMetrics) (hd : a M ≠ c!"X") :
    Spec.V3.environmentalScore minor (upd a (M.drop 1) v) = Spec.V3.environmentalScore minor a := by
  simp only [V3.modifiedMetrics, List.mem_cons, List.not_mem_nil, or_false] at hM
  apply v3_env_congr
  · intro p hp
    simp only [pairs3, List.mem_cons, List.not_mem_nil, or_false] at hp
    rcases hM with rfl | rfl | rfl | rfl | rfl | rfl | rfl | rfl <;>
      rcases hp with rfl | rfl | rfl | rfl | rfl | rfl | rfl | rfl <;>
      first
        | exact eff3_congr _ _ _ _ (upd_ne _ _ _ _ (by decide)) (upd_ne _ _ _ _ (by decide))
        | exact eff3_upd_overridden _ _ _ _ (by decide) hd
  · intro k hk
    simp only [weighted3, List.mem_cons, List.not_mem_nil, or_false] at hk
    rcases hM with rfl | rfl | rfl | rfl | rfl | rfl | rfl | rfl <;>
      rcases hk with rfl | rfl | rfl | rfl | rfl | rfl <;>
      rw [upd_ne _ _ _ _ (by decide)]

/-- (c) v4: the score reads only the 26 scoring metrics — supplemental metrics (S, AU, R, V, RE, U) can be
    added, changed or removed without effect -/
theorem v4_frame (a a' : Str → Str) (h : ∀ k ∈ scoring4, a k = a' k) : Spec.V4.score a = Spec.V4.score a' := by
  apply Frame.score_congr
  intro m hm
  simp only [Frame.eff4, List.mem_cons, List.not_mem_nil, or_false] at hm
  rcases hm with rfl | rfl | rfl | rfl | rfl | rfl | rfl | rfl | rfl | rfl | rfl | rfl | rfl | rfl | rfl
  all_goals first
    | exact eff4_congr2 _ _ _ (h _ (by decide)) (h _ (by decide))
    | exact eff4_congr1 _ _ _ (by decide) (h _ (by decide))

/-- (a) v4 -/
theorem v4_nd_modified (a : Str → Str) (M : Str) (hM : M ∈ V4.modifiedMetrics) (hx : a M = c!"X") :
    Spec.V4.score (upd a M (a (M.drop 1))) = Spec.V4.score a := by
  apply Frame.score_congr
  intro m hm
  simp only [Frame.eff4, List.mem_cons, List.not_mem_nil, or_false] at hm
  simp only [V4.modifiedMetrics, List.mem_cons, List.not_mem_nil, or_false] at hM
  rcases hM with rfl | rfl | rfl | rfl | rfl | rfl | rfl | rfl | rfl | rfl | rfl
  all_goals
    rcases hm with rfl | rfl | rfl | rfl | rfl | rfl | rfl | rfl | rfl | rfl | rfl | rfl | rfl | rfl | rfl
  all_goals first
    | exact eff4_congr2 _ _ _ (upd_ne _ _ _ _ (by decide)) (upd_ne _ _ _ _ (by decide))
    | exact eff4_upd_nd _ _ (by decide) (by decide) hx

/-- (b) v4: undefined E counts as Attacked, undefined CR/IR/AR as High -/
theorem v4_nd_equivalent_score (a : Str → Str) (k v : Str)
    (hk : (k, v) ∈ [(c!"E", c!"A"), (c!"CR", c!"H"), (c!"IR", c!"H"), (c!"AR", c!"H")]) (hx : a k = c!"X") :
    Spec.V4.score (upd a k v) = Spec.V4.score a := by
  apply Frame.score_congr
  intro m hm
  simp only [Frame.eff4, List.mem_cons, List.not_mem_nil, or_false] at hm
  simp only [List.mem_cons, List.not_mem_nil, or_false, Prod.mk.injEq] at hk
  rcases hk with ⟨rfl, rfl⟩ | ⟨rfl, rfl⟩ | ⟨rfl, rfl⟩ | ⟨rfl, rfl⟩
  all_goals
    rcases hm with rfl | rfl | rfl | rfl | rfl | rfl | rfl | rfl | rfl | rfl | rfl | rfl | rfl | rfl | rfl
  all_goals first
    | exact eff4_congr2 _ _ _ (upd_ne _ _ _ _ (by decide)) (upd_ne _ _ _ _ (by decide))
    | exact eff4_congr1 _ _ _ (by decide) (upd_ne _ _ _ _ (by decide))
    | simp [Spec.V4.eff, upd_self, hx, Spec.V4.X]

/-- (d) v4: a base metric overridden by a defined Modified metric does not reach the score -/
theorem v4_overridden_base (a : Str → Str) (M v : Str) (hM : M ∈ V4.modifiedMetrics) (hd : a M ≠ c!"X") :
    Spec.V4.score (upd a (M.drop 1) v) = Spec.V4.score a := by
  apply Frame.score_congr
  intro m hm
  simp only [Frame.eff4, List.mem_cons, List.not_mem_nil, or_false] at hm
  simp only [V4.modifiedMetrics, List.mem_cons, List.not_mem_nil, or_false] at hM
  rcases hM with rfl | rfl | rfl | rfl | rfl | rfl | rfl | rfl | rfl | rfl | rfl
  all_goals
    rcases hm with rfl | rfl | rfl | rfl | rfl | rfl | rfl | rfl | rfl | rfl | rfl | rfl | rfl | rfl | rfl
  all_goals first
    | exact eff4_congr2 _ _ _ (upd_ne _ _ _ _ (by decide)) (upd_ne _ _ _ _ (by decide))
    | exact eff4_upd_overridden _ _ _ (by decide) (by decide) hd

/-! ### the constructed objects' scores are these functions of the assignment read off the input -/

theorem v2_scores_of_assignment (s : Str) (o : V2.Obj) (h : V2.construct s = .ok o) :
    o.scores = Spec.V2.scores (assignment V2.ND o.metrics) := by
  obtain ⟨m, -, rfl⟩ := (Construct.v2_construct_ok_iff s o).1 h
  rfl

/-- a constructed v3 object holds the specification's scores of its original metrics -/
theorem v3_fields_of_construct (s : Str) (o : V3.Obj) (h : V3.construct s = .ok o) :
    o.base = Spec.V3.baseScore (assignment V3.X o.orig) ∧
    o.temporal = Spec.V3.temporalScore (assignment V3.X o.orig) ∧
    o.env = Spec.V3.environmentalScore o.minor (assignment V3.X o.orig) := by
  obtain ⟨i, m, hp, hb⟩ := (Construct.v3_construct_ok_iff s o).1 h
  obtain ⟨o', ho', -, hmin, horig, hbase, htemp, henv, -⟩ :=
    C01.v3_build_eq_spec s i m (Construct.validMap3_of_parse hp)
  rw [hb] at ho'
  cases ho'
  rw [hmin, horig]
  exact ⟨hbase, htemp, henv⟩

theorem v3_scores_of_assignment (s : Str) (o : V3.Obj) (h : V3.construct s = .ok o) :
    o.scores = Spec.V3.scores o.minor (assignment V3.X o.orig) := by
  obtain ⟨hb, ht, he⟩ := v3_fields_of_construct s o h
  simp only [V3.Obj.scores, Spec.V3.scores, ← hb, ← ht, ← he]

/-- corollary, constructor level (e): two accepted v3 vectors of the same minor version that state the same
    base metrics have the same base score, whatever their temporal / environmental metrics -/
theorem v3_base_noninterference (s s' : Str) (o o' : V3.Obj) (h : V3.construct s = .ok o) (h' : V3.construct s' = .ok o')
    (hb : ∀ k ∈ base3, assignment V3.X o.orig k = assignment V3.X o'.orig k) : o.base = o'.base := by
  rw [(v3_fields_of_construct s o h).1, (v3_fields_of_construct s' o' h').1]
  exact v3_base_frame _ _ hb

theorem v2_base_noninterference (s s' : Str) (o o' : V2.Obj) (h : V2.construct s = .ok o) (h' : V2.construct s' = .ok o')
    (hb : ∀ k ∈ base2, assignment V2.ND o.metrics k = assignment V2.ND o'.metrics k) : o.base = o'.base := by
  obtain ⟨m, -, rfl⟩ := (Construct.v2_construct_ok_iff s o).1 h
  obtain ⟨m', -, rfl⟩ := (Construct.v2_construct_ok_iff s' o').1 h'
  exact v2_base_frame _ _ hb

end Cvss.Props.C06
