/-
  C06 — only effective metric values influence the scores (non-interference).
-/
import Cvss.Model.Any
namespace Cvss.Props.C06
open Cvss Cvss.Model

def wt (tbl : List (Str × List (Str × Option Rat))) (m v : Str) : Option (Option Rat) :=
  (lookup m tbl).bind (lookup v)

/-- (b) v2: the weight of Not Defined equals the weight of the value the guide declares equivalent -/
theorem v2_nd_equivalent :
    ([(c!"E", c!"H"), (c!"RL", c!"U"), (c!"RC", c!"C"), (c!"CDP", c!"N"), (c!"TD", c!"H"),
      (c!"CR", c!"M"), (c!"IR", c!"M"), (c!"AR", c!"M")].all fun (m, v) =>
        (wt Gen.V2.values m c!"ND").isSome && wt Gen.V2.values m c!"ND" == wt Gen.V2.values m v) = true := by
  decide +kernel

/-- (b) v3: likewise for X -/
theorem v3_nd_equivalent :
    ([(c!"E", c!"H"), (c!"RL", c!"U"), (c!"RC", c!"C"), (c!"CR", c!"M"), (c!"IR", c!"M"), (c!"AR", c!"M")].all
      fun (m, v) => (wt Gen.V3.values m c!"X").isSome && wt Gen.V3.values m c!"X" == wt Gen.V3.values m v) = true := by
  decide +kernel

/-- (b) v4: an undefined E counts as Attacked, undefined CR/IR/AR as High, for every metric map -/
theorem v4_nd_equivalent (m : MMap) (k : Str) (hk : k = c!"CR" ∨ k = c!"IR" ∨ k = c!"AR")
    (h : lookup k m = some V4.X) : V4.mEff m k = some c!"H" := by
  rcases hk with rfl | rfl | rfl <;> simp [V4.mEff, h] <;> decide

theorem v4_e_equivalent (m : MMap) (h : lookup c!"E" m = some V4.X) : V4.mEff m c!"E" = some c!"A" := by
  simp [V4.mEff, h]

end Cvss.Props.C06
