/-
  C11 — JSON output is faithful to the object; sort and minimal only reorder / omit.
-/
import Cvss.Model.Json
namespace Cvss.Props.C11
open Cvss Cvss.Model

/-- JSON keys are pairwise distinct and none collides with a score / rating / header key, so no
    `data[k] = …` overwrites another field -/
def keysDistinct (jk : List (Str × Str)) : Bool :=
  let ks := jk.map (·.2) ++ [c!"version", c!"vectorString", c!"baseScore", c!"baseSeverity", c!"temporalScore",
    c!"temporalSeverity", c!"environmentalScore", c!"environmentalSeverity"]
  decide ks.Nodup

theorem json_keys_distinct :
    keysDistinct Gen.V2.jsonKeys = true ∧ keysDistinct Gen.V3.jsonKeys = true ∧ keysDistinct Gen.V4.jsonKeys = true := by
  decide +kernel

end Cvss.Props.C11
