/-
  C11 — JSON output is faithful to the object; sort and minimal only reorder / omit.
-/
import Cvss.Model.Json
import Cvss.Lemmas.Str
import Cvss.Lemmas.Json
namespace Cvss.Props.C11
open Cvss Cvss.Model

/-- JSON keys are pairwise distinct and none collides with a score / rating / header key, so no
    `data[k] = …` overwrites another field -/
def keysDistinct (jk : List (Str × Str)) : Bool :=
  let ks := jk.map (·.2) ++ [c!"version", c!"vectorString", c!"baseScore", c!"baseSeverity", c!"temporalScore",
    c!"temporalSeverity", c!"environmentalScore", c!"environmentalSeverity"]
  decide ks.Nodup

theorem json_keys_distinct :
    keysDistinct Gen.V2.jsonKeys = true ∧ keysDistinct Gen.V3.jsonKeys = true ∧ keysDistinct Gen.V4.jsonKeys = true := by
  decide +kernel


/-! ### helper: the three outputs as `header ++ items of the active blocks` -/

section helpers

def d0_2 (o : V2.Obj) : JObj :=
  [(c!"version", .str c!"2.0"), (c!"vectorString", .str o.vector), (c!"baseScore", .num o.base)]

def blocks2 (o : V2.Obj) (c1 c2 : Bool) : List Block :=
  [(true, Gen.V2.mandatory, []),
   (c1, Gen.V2.temporal, [(c!"temporalScore", .num (if truthy o.temporal then o.temporal.getD 0 else 0))]),
   (c2, Gen.V2.environmental, [(c!"environmentalScore", .num (if truthy o.env then o.env.getD 0 else 0))])]

/-- the keys of the v2 output, as a closed term -/
def K2 (c1 c2 : Bool) : List Str :=
  [c!"version", c!"vectorString", c!"baseScore"] ++ activeKeys Gen.V2.jsonKeys
    [(true, Gen.V2.mandatory, []), (c1, Gen.V2.temporal, [(c!"temporalScore", .num 0)]),
     (c2, Gen.V2.environmental, [(c!"environmentalScore", .num 0)])]

theorem K2_eq (o : V2.Obj) (c1 c2 : Bool) :
    keys (d0_2 o) ++ activeKeys Gen.V2.jsonKeys (blocks2 o c1 c2) = K2 c1 c2 := rfl

theorem K2_all (o : V2.Obj) (c1 c2 : Bool) :
    keys (d0_2 o) ++ (blocks2 o c1 c2).flatMap (blockKeys Gen.V2.jsonKeys) = K2 true true := rfl

theorem K2_nodup : (K2 true true).Nodup := by decide +kernel

theorem truthy_getD (t : Option Rat) : (if truthy t then t.getD 0 else 0) = t.getD 0 := by
  cases t with
  | none => simp [truthy]
  | some x =>
    by_cases hx : x = 0 <;> simp [truthy, hx]

theorem v2_struct (o : V2.Obj) (sort minimal : Bool) (j : JObj) (h : asJson2 o sort minimal = some j) :
    ∃ d, j = finish sort d ∧
      d = d0_2 o ++ (blocks2 o (!minimal || o.temporal.isSome) (!minimal || o.env.isSome)).flatMap
            (blockItems Gen.V2.jsonKeys (V2.getDescription o.metrics) us2) ∧
      (keys d).Nodup ∧
      keys d = K2 (!minimal || o.temporal.isSome) (!minimal || o.env.isSome) ∧
      GroupDefined Gen.V2.jsonKeys (V2.getDescription o.metrics) us2 Gen.V2.mandatory ∧
      ((!minimal || o.temporal.isSome) = true →
        GroupDefined Gen.V2.jsonKeys (V2.getDescription o.metrics) us2 Gen.V2.temporal) ∧
      ((!minimal || o.env.isSome) = true →
        GroupDefined Gen.V2.jsonKeys (V2.getDescription o.metrics) us2 Gen.V2.environmental) := by
  rw [asJson2_eq, Option.bind_eq_some_iff] at h
  obtain ⟨d, hd, hj⟩ := h
  simp only [Option.some.injEq] at hj
  obtain ⟨e1, e2, e3, e4⟩ := runBlocks_struct Gen.V2.jsonKeys (V2.getDescription o.metrics) us2
    (blocks2 o (!minimal || o.temporal.isSome) (!minimal || o.env.isSome)) (d0_2 o) d
    (by rw [K2_all]; exact K2_nodup) hd
  exact ⟨d, hj.symm, e1, e2, by rw [e3, K2_eq], e4 _ (List.Mem.head _) rfl,
    e4 _ (List.Mem.tail _ (List.Mem.head _)), e4 _ (List.Mem.tail _ (List.Mem.tail _ (List.Mem.head _)))⟩

def d0_3 (o : V3.Obj) : JObj :=
  [(c!"version", .str (c!"3." ++ natToStr o.minor)), (c!"vectorString", .str o.vector)]

def blocks3 (o : V3.Obj) (c1 c2 : Bool) : List Block :=
  [(true, Gen.V3.mandatory,
      [(c!"baseScore", .num o.base), (c!"baseSeverity", .str (us3 (V3.sevOf o.base)))]),
   (c1, Gen.V3.temporal,
      [(c!"temporalScore", .num o.temporal), (c!"temporalSeverity", .str (us3 (V3.sevOf o.temporal)))]),
   (c2, Gen.V3.environmental,
      [(c!"environmentalScore", .num o.env), (c!"environmentalSeverity", .str (us3 (V3.sevOf o.env)))])]

/-- the keys of the v3 output, as a closed term -/
def K3 (c1 c2 : Bool) : List Str :=
  [c!"version", c!"vectorString"] ++ activeKeys Gen.V3.jsonKeys
    [(true, Gen.V3.mandatory, [(c!"baseScore", .num 0), (c!"baseSeverity", .num 0)]),
     (c1, Gen.V3.temporal, [(c!"temporalScore", .num 0), (c!"temporalSeverity", .num 0)]),
     (c2, Gen.V3.environmental, [(c!"environmentalScore", .num 0), (c!"environmentalSeverity", .num 0)])]

theorem K3_eq (o : V3.Obj) (c1 c2 : Bool) :
    keys (d0_3 o) ++ activeKeys Gen.V3.jsonKeys (blocks3 o c1 c2) = K3 c1 c2 := rfl

theorem K3_all (o : V3.Obj) (c1 c2 : Bool) :
    keys (d0_3 o) ++ (blocks3 o c1 c2).flatMap (blockKeys Gen.V3.jsonKeys) = K3 true true := rfl

theorem K3_nodup : (K3 true true).Nodup := by decide +kernel

def c3t (o : V3.Obj) (minimal : Bool) : Bool := !minimal || Gen.V3.temporal.any (fun k => hasKey k o.orig)
def c3e (o : V3.Obj) (minimal : Bool) : Bool := !minimal || Gen.V3.environmental.any (fun k => hasKey k o.orig)

theorem v3_struct (o : V3.Obj) (sort minimal : Bool) (j : JObj) (h : asJson3 o sort minimal = some j) :
    ∃ d, j = finish sort d ∧
      d = d0_3 o ++ (blocks3 o (c3t o minimal) (c3e o minimal)).flatMap
            (blockItems Gen.V3.jsonKeys (V3.getDescription o.metrics) us3) ∧
      (keys d).Nodup ∧
      keys d = K3 (c3t o minimal) (c3e o minimal) ∧
      GroupDefined Gen.V3.jsonKeys (V3.getDescription o.metrics) us3 Gen.V3.mandatory ∧
      (c3t o minimal = true →
        GroupDefined Gen.V3.jsonKeys (V3.getDescription o.metrics) us3 Gen.V3.temporal) ∧
      (c3e o minimal = true →
        GroupDefined Gen.V3.jsonKeys (V3.getDescription o.metrics) us3 Gen.V3.environmental) := by
  rw [asJson3_eq, Option.bind_eq_some_iff] at h
  obtain ⟨d, hd, hj⟩ := h
  simp only [Option.some.injEq] at hj
  obtain ⟨e1, e2, e3, e4⟩ := runBlocks_struct Gen.V3.jsonKeys (V3.getDescription o.metrics) us3
    (blocks3 o (c3t o minimal) (c3e o minimal)) (d0_3 o) d
    (by rw [K3_all]; exact K3_nodup) hd
  exact ⟨d, hj.symm, e1, e2, by rw [e3, K3_eq], e4 _ (List.Mem.head _) rfl,
    e4 _ (List.Mem.tail _ (List.Mem.head _)), e4 _ (List.Mem.tail _ (List.Mem.tail _ (List.Mem.head _)))⟩

def d0_4 (o : V4.Obj) : JObj := [(c!"version", .str c!"4"), (c!"vectorString", .str o.vector)]

def blocks4 (o : V4.Obj) : List Block :=
  [(true, Gen.V4.metricsOrder, [(c!"baseScore", .num o.base), (c!"baseSeverity", .str o.severity)])]

def K4 : List Str :=
  [c!"version", c!"vectorString"] ++ activeKeys Gen.V4.jsonKeys
    [(true, Gen.V4.metricsOrder, [(c!"baseScore", .num 0), (c!"baseSeverity", .num 0)])]

theorem K4_eq (o : V4.Obj) : keys (d0_4 o) ++ activeKeys Gen.V4.jsonKeys (blocks4 o) = K4 := rfl

theorem K4_all (o : V4.Obj) :
    keys (d0_4 o) ++ (blocks4 o).flatMap (blockKeys Gen.V4.jsonKeys) = K4 := rfl

theorem K4_nodup : K4.Nodup := by decide +kernel

theorem v4_struct (o : V4.Obj) (sort minimal : Bool) (j : JObj) (h : asJson4 o sort minimal = some j) :
    ∃ d, j = finish sort d ∧
      d = d0_4 o ++ (blocks4 o).flatMap (blockItems Gen.V4.jsonKeys (V4.getDescription o.metrics) us3) ∧
      (keys d).Nodup ∧ keys d = K4 ∧
      GroupDefined Gen.V4.jsonKeys (V4.getDescription o.metrics) us3 Gen.V4.metricsOrder := by
  rw [asJson4_eq, Option.bind_eq_some_iff] at h
  obtain ⟨d, hd, hj⟩ := h
  simp only [Option.some.injEq] at hj
  obtain ⟨e1, e2, e3, e4⟩ := runBlocks_struct Gen.V4.jsonKeys (V4.getDescription o.metrics) us3
    (blocks4 o) (d0_4 o) d (by rw [K4_all]; exact K4_nodup) hd
  exact ⟨d, hj.symm, e1, e2, by rw [e3, K4_eq], e4 _ (List.Mem.head _) rfl⟩

end helpers

/-! ### sort=True changes nothing but the key order, which becomes ascending -/

theorem sortObj_perm (o : JObj) : (sortObj o).Perm o := sortObj_perm' o

/-- ascending: no later key is smaller than an earlier one -/
theorem sortObj_sorted (o : JObj) : (sortObj o).Pairwise (fun a b => strLt b.1 a.1 = false) :=
  sortObj_sorted' o

/-- `sort=True` is `sort=False` followed by sorting (so: same items, ascending key order), for every
    object, both values of `minimal` -/
theorem asJson_sort (o : AnyObj) (minimal : Bool) :
    o.asJson true minimal = (o.asJson false minimal).map sortObj := by
  cases o <;> simp only [AnyObj.asJson, asJson2_eq, asJson3_eq, asJson4_eq] <;>
    (generalize runBlocks _ _ _ _ _ = x; cases x <;> simp [finish])

/-- the emitted keys are pairwise distinct (so the sorted order is strictly ascending and look-ups in
    the sorted and unsorted object agree) -/
theorem asJson_keys_nodup (o : AnyObj) (sort minimal : Bool) (j : JObj) (h : o.asJson sort minimal = some j) :
    (keys j).Nodup := by
  cases o with
  | o2 o =>
    obtain ⟨d, hj, _, hn, _⟩ := v2_struct o sort minimal j h
    rw [hj]; exact keys_finish_nodup sort d hn
  | o3 o =>
    obtain ⟨d, hj, _, hn, _⟩ := v3_struct o sort minimal j h
    rw [hj]; exact keys_finish_nodup sort d hn
  | o4 o =>
    obtain ⟨d, hj, _, hn, _⟩ := v4_struct o sort minimal j h
    rw [hj]; exact keys_finish_nodup sort d hn

theorem asJson_sort_lookup (o : AnyObj) (minimal : Bool) (j js : JObj)
    (h : o.asJson false minimal = some j) (hs : o.asJson true minimal = some js) (k : Str) :
    lookup k js = lookup k j := by
  have hn := asJson_keys_nodup o true minimal js hs
  rw [asJson_sort, h] at hs
  simp only [Option.map_some, Option.some.injEq] at hs
  subst hs
  exact lookup_perm _ _ (sortObj_perm j) hn k

/-! ### the fields are faithful -/

/-- the JSON keys of a group of metrics -/
def groupKeys (jk : List (Str × Str)) (ms : List Str) : List Str := ms.filterMap (fun m => lookup m jk)


theorem groups2 : ∀ m ∈ keys Gen.V2.abbrs,
    m ∈ Gen.V2.mandatory ∨ m ∈ Gen.V2.temporal ∨ m ∈ Gen.V2.environmental := by decide +kernel

theorem K2_full_mem :
    (∀ k ∈ K2 true true, k ∈ [c!"version", c!"vectorString", c!"baseScore", c!"temporalScore",
        c!"environmentalScore"] ++ groupKeys Gen.V2.jsonKeys (keys Gen.V2.abbrs)) ∧
    (∀ k ∈ [c!"version", c!"vectorString", c!"baseScore", c!"temporalScore",
        c!"environmentalScore"] ++ groupKeys Gen.V2.jsonKeys (keys Gen.V2.abbrs), k ∈ K2 true true) := by
  decide +kernel

/-- v2: every field of the full output (`minimal=False`) -/
theorem asJson2_full (o : V2.Obj) (j : JObj) (h : asJson2 o false false = some j) :
    lookup c!"version" j = some (.str c!"2.0") ∧ lookup c!"vectorString" j = some (.str o.vector) ∧
    lookup c!"baseScore" j = some (.num o.base) ∧
    lookup c!"temporalScore" j = some (.num (o.temporal.getD 0)) ∧
    lookup c!"environmentalScore" j = some (.num (o.env.getD 0)) ∧
    (∀ m ∈ keys Gen.V2.abbrs, ∃ key d, lookup m Gen.V2.jsonKeys = some key ∧ V2.getDescription o.metrics m = some d ∧
        lookup key j = some (.str (us2 d))) ∧
    (∀ k, k ∈ keys j ↔ k ∈ [c!"version", c!"vectorString", c!"baseScore", c!"temporalScore", c!"environmentalScore"] ++
        groupKeys Gen.V2.jsonKeys (keys Gen.V2.abbrs)) := by
  obtain ⟨d, hj, hd, hn, hk, hm, ht, he⟩ := v2_struct o false false j h
  simp only [finish, Bool.false_eq_true, if_false] at hj
  subst hj
  simp only [Bool.not_false, Bool.true_or] at hd hk
  have ht := ht rfl
  have he := he rfl
  simp only [blocks2, truthy_getD, List.flatMap_cons, List.flatMap_nil, blockItems, if_true, d0_2] at hd
  have L : ∀ k v, (k, v) ∈ j → lookup k j = some v := fun k v => lookup_eq_some_of_mem j hn k v
  refine ⟨L _ _ (by simp [hd]), L _ _ (by simp [hd]), L _ _ (by simp [hd]), L _ _ (by simp [hd]),
    L _ _ (by simp [hd]), ?_, ?_⟩
  · intro m hmem
    rcases groups2 m hmem with hg | hg | hg
    · obtain ⟨k, dd, a, b, c⟩ := hm m hg
      exact ⟨k, dd, a, b, L _ _ (by rw [hd]; simp [c])⟩
    · obtain ⟨k, dd, a, b, c⟩ := ht m hg
      exact ⟨k, dd, a, b, L _ _ (by rw [hd]; simp [c])⟩
    · obtain ⟨k, dd, a, b, c⟩ := he m hg
      exact ⟨k, dd, a, b, L _ _ (by rw [hd]; simp [c])⟩
  · intro k
    rw [hk]
    exact ⟨K2_full_mem.1 k, K2_full_mem.2 k⟩

theorem K2_min (c1 c2 : Bool) : ∀ k ∈ K2 true true, (k ∈ K2 c1 c2 ↔
    ¬ ((c1 = false ∧ k ∈ c!"temporalScore" :: groupKeys Gen.V2.jsonKeys Gen.V2.temporal) ∨
       (c2 = false ∧ k ∈ c!"environmentalScore" :: groupKeys Gen.V2.jsonKeys Gen.V2.environmental))) := by
  cases c1 <;> cases c2 <;> decide +kernel

/-- v2: `minimal=True` removes exactly the temporal group (its three metric fields and temporalScore) when
    the temporal score is undefined, exactly the environmental group when the environmental score is
    undefined, and nothing else; every field that remains is unchanged -/
theorem asJson2_minimal (o : V2.Obj) (jf jm : JObj) (hf : asJson2 o false false = some jf)
    (hm : asJson2 o false true = some jm) :
    (∀ k v, lookup k jm = some v → lookup k jf = some v) ∧
    (∀ k, k ∈ keys jf → (k ∈ keys jm ↔
      ¬ ((o.temporal = none ∧ k ∈ c!"temporalScore" :: groupKeys Gen.V2.jsonKeys Gen.V2.temporal) ∨
         (o.env = none ∧ k ∈ c!"environmentalScore" :: groupKeys Gen.V2.jsonKeys Gen.V2.environmental)))) := by
  obtain ⟨df, hjf, hdf, hnf, hkf, -, -, -⟩ := v2_struct o false false jf hf
  obtain ⟨dm, hjm, hdm, hnm, hkm, -, -, -⟩ := v2_struct o false true jm hm
  simp only [finish, Bool.false_eq_true, if_false] at hjf hjm
  subst hjf hjm
  simp only [Bool.not_false, Bool.true_or, Bool.not_true, Bool.false_or] at hdf hkf hdm hkm
  constructor
  · intro k v hl
    apply lookup_eq_some_of_mem jf hnf
    have hmem := mem_of_lookup_eq_some jm k v hl
    rw [hdm] at hmem
    rw [hdf]
    simp only [blocks2, List.flatMap_cons, List.flatMap_nil, List.mem_append, List.append_nil] at hmem ⊢
    rcases hmem with h | h | h | h
    · exact Or.inl h
    · exact Or.inr (Or.inl h)
    · exact Or.inr (Or.inr (Or.inl (blockItems_mono _ _ _ _ _ _ _ h)))
    · exact Or.inr (Or.inr (Or.inr (blockItems_mono _ _ _ _ _ _ _ h)))
  · intro k hk
    rw [hkf] at hk
    rw [hkm, K2_min o.temporal.isSome o.env.isSome k hk, Option.isSome_eq_false_iff,
      Option.isSome_eq_false_iff, Option.isNone_iff_eq_none, Option.isNone_iff_eq_none]

theorem groups3 : ∀ m ∈ keys Gen.V3.abbrs,
    m ∈ Gen.V3.mandatory ∨ m ∈ Gen.V3.temporal ∨ m ∈ Gen.V3.environmental := by decide +kernel

/-- v3: every field of the full output -/
theorem asJson3_full (o : V3.Obj) (j : JObj) (h : asJson3 o false false = some j) :
    lookup c!"version" j = some (.str (c!"3." ++ natToStr o.minor)) ∧ lookup c!"vectorString" j = some (.str o.vector) ∧
    lookup c!"baseScore" j = some (.num o.base) ∧ lookup c!"baseSeverity" j = some (.str (us3 (V3.sevOf o.base))) ∧
    lookup c!"temporalScore" j = some (.num o.temporal) ∧
    lookup c!"temporalSeverity" j = some (.str (us3 (V3.sevOf o.temporal))) ∧
    lookup c!"environmentalScore" j = some (.num o.env) ∧
    lookup c!"environmentalSeverity" j = some (.str (us3 (V3.sevOf o.env))) ∧
    (∀ m ∈ keys Gen.V3.abbrs, ∃ key d, lookup m Gen.V3.jsonKeys = some key ∧ V3.getDescription o.metrics m = some d ∧
        lookup key j = some (.str (us3 d))) := by
  obtain ⟨d, hj, hd, hn, hk, hm, ht, he⟩ := v3_struct o false false j h
  simp only [finish, Bool.false_eq_true, if_false] at hj
  subst hj
  have ht := ht rfl
  have he := he rfl
  have c1 : c3t o false = true := rfl
  have c2 : c3e o false = true := rfl
  rw [c1, c2] at hd
  simp only [blocks3, List.flatMap_cons, List.flatMap_nil, blockItems, if_true, d0_3] at hd
  have L : ∀ k v, (k, v) ∈ j → lookup k j = some v := fun k v => lookup_eq_some_of_mem j hn k v
  refine ⟨L _ _ (by simp [hd]), L _ _ (by simp [hd]), L _ _ (by simp [hd]), L _ _ (by simp [hd]),
    L _ _ (by simp [hd]), L _ _ (by simp [hd]), L _ _ (by simp [hd]), L _ _ (by simp [hd]), ?_⟩
  intro m hmem
  rcases groups3 m hmem with hg | hg | hg
  · obtain ⟨k, dd, a, b, c⟩ := hm m hg
    exact ⟨k, dd, a, b, L _ _ (by rw [hd]; simp [c])⟩
  · obtain ⟨k, dd, a, b, c⟩ := ht m hg
    exact ⟨k, dd, a, b, L _ _ (by rw [hd]; simp [c])⟩
  · obtain ⟨k, dd, a, b, c⟩ := he m hg
    exact ⟨k, dd, a, b, L _ _ (by rw [hd]; simp [c])⟩

theorem K3_min (c1 c2 : Bool) : ∀ k ∈ K3 true true, (k ∈ K3 c1 c2 ↔
    ¬ ((c1 = false ∧ k ∈ [c!"temporalScore", c!"temporalSeverity"] ++ groupKeys Gen.V3.jsonKeys Gen.V3.temporal) ∨
       (c2 = false ∧ k ∈ [c!"environmentalScore", c!"environmentalSeverity"] ++
          groupKeys Gen.V3.jsonKeys Gen.V3.environmental))) := by
  cases c1 <;> cases c2 <;> decide +kernel

theorem any_hasKey_eq_false (g : List Str) (orig : MMap) :
    g.any (fun k => hasKey k orig) = false ↔ ∀ m ∈ g, lookup m orig = none := by
  simp only [List.any_eq_false, hasKey]
  constructor
  · intro h m hm
    have := h m hm
    cases hl : lookup m orig with
    | none => rfl
    | some v => simp [hl] at this
  · intro h m hm
    simp [h m hm]

/-- v3: `minimal=True` removes exactly the temporal group when no temporal metric occurs in the input,
    exactly the environmental group when no environmental metric occurs in the input, nothing else -/
theorem asJson3_minimal (o : V3.Obj) (jf jm : JObj) (hf : asJson3 o false false = some jf)
    (hm : asJson3 o false true = some jm) :
    (∀ k v, lookup k jm = some v → lookup k jf = some v) ∧
    (∀ k, k ∈ keys jf → (k ∈ keys jm ↔
      ¬ (((∀ m ∈ Gen.V3.temporal, lookup m o.orig = none) ∧
            k ∈ [c!"temporalScore", c!"temporalSeverity"] ++ groupKeys Gen.V3.jsonKeys Gen.V3.temporal) ∨
         ((∀ m ∈ Gen.V3.environmental, lookup m o.orig = none) ∧
            k ∈ [c!"environmentalScore", c!"environmentalSeverity"] ++ groupKeys Gen.V3.jsonKeys Gen.V3.environmental)))) := by
  obtain ⟨df, hjf, hdf, hnf, hkf, -, -, -⟩ := v3_struct o false false jf hf
  obtain ⟨dm, hjm, hdm, hnm, hkm, -, -, -⟩ := v3_struct o false true jm hm
  simp only [finish, Bool.false_eq_true, if_false] at hjf hjm
  subst hjf hjm
  have c1 : c3t o false = true := rfl
  have c2 : c3e o false = true := rfl
  rw [c1, c2] at hdf hkf
  constructor
  · intro k v hl
    apply lookup_eq_some_of_mem jf hnf
    have hmem := mem_of_lookup_eq_some jm k v hl
    rw [hdm] at hmem
    rw [hdf]
    simp only [blocks3, List.flatMap_cons, List.flatMap_nil, List.mem_append, List.append_nil] at hmem ⊢
    rcases hmem with h | h | h | h
    · exact Or.inl h
    · exact Or.inr (Or.inl h)
    · exact Or.inr (Or.inr (Or.inl (blockItems_mono _ _ _ _ _ _ _ h)))
    · exact Or.inr (Or.inr (Or.inr (blockItems_mono _ _ _ _ _ _ _ h)))
  · intro k hk
    rw [hkf] at hk
    have e1 : c3t o true = false ↔ ∀ m ∈ Gen.V3.temporal, lookup m o.orig = none := by
      rw [← any_hasKey_eq_false]; simp [c3t]
    have e2 : c3e o true = false ↔ ∀ m ∈ Gen.V3.environmental, lookup m o.orig = none := by
      rw [← any_hasKey_eq_false]; simp [c3e]
    rw [hkm, K3_min (c3t o true) (c3e o true) k hk, e1, e2]

/-- v4: every field; `minimal` has no effect -/
theorem asJson4_full (o : V4.Obj) (sort minimal : Bool) (j : JObj) (h : asJson4 o sort minimal = some j) :
    lookup c!"vectorString" j = some (.str o.vector) ∧ lookup c!"baseScore" j = some (.num o.base) ∧
    lookup c!"baseSeverity" j = some (.str o.severity) ∧
    (∀ m ∈ Gen.V4.metricsOrder, ∃ key d, lookup m Gen.V4.jsonKeys = some key ∧ V4.getDescription o.metrics m = some d ∧
        lookup key j = some (.str (us3 d))) ∧
    asJson4 o sort true = asJson4 o sort false := by
  obtain ⟨d, hj, hd, hn, hk, hm⟩ := v4_struct o sort minimal j h
  subst hj
  simp only [blocks4, List.flatMap_cons, List.flatMap_nil, blockItems, if_true, d0_4] at hd
  have L : ∀ k v, (k, v) ∈ d → lookup k (finish sort d) = some v := fun k v hmem => by
    rw [lookup_finish sort d hn]; exact lookup_eq_some_of_mem d hn k v hmem
  refine ⟨L _ _ (by simp [hd]), L _ _ (by simp [hd]), L _ _ (by simp [hd]), ?_, rfl⟩
  intro m hmem
  obtain ⟨k, dd, a, b, c⟩ := hm m hmem
  exact ⟨k, dd, a, b, L _ _ (by rw [hd]; simp [c])⟩

end Cvss.Props.C11
