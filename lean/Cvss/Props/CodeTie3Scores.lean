/-
  SOURCE TIE, CVSS3: `scores()` as translated from the source text returns the three attributes (`float` of a
  one-decimal `Decimal` is exact) - the list the model's `Obj.scores` holds.
-/
import Cvss.Props.CodeTie3
namespace Cvss.Props.CodeTie3
open Cvss Cvss.Gen

theorem scores_eq (self : Code3.Self) (b t e : Rat) (hb : self.base_score = some b)
    (ht : self.temporal_score = some t) (he : self.environmental_score = some e) :
    Code3.scores self = .ok [b, t, e] := by
  unfold Code3.scores
  simp [hb, ht, he, Py.req, bind, Except.bind, pure, Except.pure]

theorem scores_eq_model (self : Code3.Self) (o : Model.V3.Obj) (hb : self.base_score = some o.base)
    (ht : self.temporal_score = some o.temporal) (he : self.environmental_score = some o.env) :
    (Code3.scores self).map (List.map some) = .ok o.scores := by
  rw [scores_eq self _ _ _ hb ht he]; rfl

end Cvss.Props.CodeTie3
