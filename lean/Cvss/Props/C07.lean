/-
  C07 — clean_vector() is a canonical form; equality and hash are consistent with it.
-/
import Cvss.Model.Any
import Cvss.Lemmas.Construct
import Cvss.Lemmas.Clean
import Cvss.Props.C05
namespace Cvss.Props.C07
open Cvss Cvss.Model Cvss.Lemmas.Construct

/-- equality of library objects is an equivalence relation on each class, and equal objects have the
    same hash key -/
theorem eq_refl (a : AnyObj) : a.eq a = true := by simp [AnyObj.eq]

theorem eq_symm (a b : AnyObj) (h : a.eq b = true) : b.eq a = true := by
  simp [AnyObj.eq] at *; exact ⟨h.1.symm, h.2.symm⟩

theorem eq_trans (a b c : AnyObj) (h1 : a.eq b = true) (h2 : b.eq c = true) : a.eq c = true := by
  simp [AnyObj.eq] at *; exact ⟨h1.1.trans h2.1, h1.2.trans h2.2⟩

theorem eq_hash (a b : AnyObj) (h : a.eq b = true) : a.hashKey = b.hashKey := by
  simp [AnyObj.eq, AnyObj.hashKey] at *; exact h.2

/-- an object never equals an object of another class -/
theorem eq_same_class (a b : AnyObj) (h : a.eq b = true) : a.ver = b.ver := by
  simp [AnyObj.eq] at h; exact h.1

/-- metric tables have no repeated abbreviation (so "once each" makes sense) -/
theorem abbrs_nodup : (keys Gen.V2.abbrs).Nodup ∧ (keys Gen.V3.abbrs).Nodup ∧ (keys Gen.V4.abbrs).Nodup := by
  decide +kernel

/-! ### the canonical listing -/

/-- the (metric, value) pairs that were given a DEFINED value, in table order -/
def definedPairs (abbrs : List Str) (nd : Str) (m : MMap) : MMap :=
  abbrs.filterMap (fun k => match lookup k m with
    | some v => if v ≠ nd then some (k, v) else none
    | none => none)

/-- exactly the metrics of the table that were given a defined value, with that value -/
theorem mem_definedPairs (abbrs : List Str) (nd : Str) (m : MMap) (k v : Str) :
    (k, v) ∈ definedPairs abbrs nd m ↔ k ∈ abbrs ∧ lookup k m = some v ∧ v ≠ nd := by
  unfold definedPairs
  rw [List.mem_filterMap]
  constructor
  · rintro ⟨a, ha, h⟩
    cases hl : lookup a m with
    | none => simp [hl] at h
    | some w =>
      simp only [hl] at h
      split at h
      · rename_i hw
        cases h
        exact ⟨ha, hl, hw⟩
      · cases h
  · rintro ⟨hk, hl, hv⟩
    exact ⟨k, hk, by simp [hl, hv]⟩

/-- once each, in the one fixed (table) order -/
theorem keys_definedPairs_sublist (abbrs : List Str) (nd : Str) (m : MMap) :
    (keys (definedPairs abbrs nd m)).Sublist abbrs := by
  induction abbrs with
  | nil => simp [definedPairs, keys]
  | cons a r ih =>
    unfold definedPairs at ih ⊢
    rw [List.filterMap_cons]
    cases hl : lookup a m with
    | none => exact ih.cons _
    | some w =>
      by_cases hw : w = nd
      · simp only [hw, ne_eq, not_true_eq_false, if_false]
        exact ih.cons _
      · simp only [ne_eq, hw, not_false_eq_true, if_true, keys, List.map_cons]
        exact ih.cons_cons _

/-! ### generic facts about the canonical listing -/

theorem keys_definedPairs_nodup (abbrs : List Str) (nd : Str) (m : MMap) (hn : abbrs.Nodup) :
    (keys (definedPairs abbrs nd m)).Nodup :=
  (keys_definedPairs_sublist abbrs nd m).nodup hn

/-- the defined value of a metric (none if absent or Not Defined) -/
def defVal (nd : Str) (m : MMap) (k : Str) : Option Str :=
  match lookup k m with
  | some v => if v ≠ nd then some v else none
  | none => none

theorem lookup_definedPairs (abbrs : List Str) (nd : Str) (m : MMap) (hn : abbrs.Nodup) (k : Str) :
    lookup k (definedPairs abbrs nd m) = if k ∈ abbrs then defVal nd m k else none := by
  apply Option.ext
  intro v
  rw [lookup_eq_some_iff _ (keys_definedPairs_nodup abbrs nd m hn), mem_definedPairs]
  unfold defVal
  by_cases hk : k ∈ abbrs
  · simp only [hk, true_and, if_true]
    cases lookup k m with
    | none => simp
    | some w =>
      by_cases hw : w = nd
      · subst hw; simp; exact fun h => h.symm
      · simp only [Option.some.injEq, ne_eq, hw, not_false_eq_true, if_true]
        constructor
        · rintro ⟨rfl, -⟩; rfl
        · rintro rfl; exact ⟨rfl, hw⟩
  · simp [hk]

theorem definedPairs_congr (abbrs : List Str) (nd : Str) (m₁ m₂ : MMap)
    (h : ∀ k ∈ abbrs, defVal nd m₁ k = defVal nd m₂ k) :
    definedPairs abbrs nd m₁ = definedPairs abbrs nd m₂ := by
  unfold definedPairs
  apply List.filterMap_congr
  intro k hk
  have := h k hk
  unfold defVal at this
  cases h1 : lookup k m₁ with
  | none =>
    cases h2 : lookup k m₂ with
    | none => rfl
    | some w₂ =>
      rw [h1, h2] at this
      by_cases hw₂ : w₂ = nd
      · simp [hw₂]
      · simp [hw₂] at this
  | some w₁ =>
    cases h2 : lookup k m₂ with
    | none =>
      rw [h1, h2] at this
      by_cases hw₁ : w₁ = nd
      · simp [hw₁]
      · simp [hw₁] at this
    | some w₂ =>
      rw [h1, h2] at this
      by_cases hw₁ : w₁ = nd <;> by_cases hw₂ : w₂ = nd <;> simp_all

theorem defVal_definedPairs (abbrs : List Str) (nd : Str) (m : MMap) (hn : abbrs.Nodup) (k : Str)
    (hk : k ∈ abbrs) : defVal nd (definedPairs abbrs nd m) k = defVal nd m k := by
  have hl := lookup_definedPairs abbrs nd m hn k
  rw [if_pos hk] at hl
  unfold defVal at hl ⊢
  rw [hl]
  cases lookup k m with
  | none => rfl
  | some w => by_cases hw : w = nd <;> simp [hw]

theorem definedPairs_idem (abbrs : List Str) (nd : Str) (m : MMap) (hn : abbrs.Nodup) :
    definedPairs abbrs nd (definedPairs abbrs nd m) = definedPairs abbrs nd m :=
  definedPairs_congr abbrs nd _ _ (fun k hk => defVal_definedPairs abbrs nd m hn k hk)

theorem assignment_definedPairs (abbrs : List Str) (nd : Str) (m : MMap) (hn : abbrs.Nodup)
    (hk : ∀ k ∈ keys m, k ∈ abbrs) : assignment nd (definedPairs abbrs nd m) = assignment nd m := by
  funext k
  unfold assignment
  rw [lookup_definedPairs _ _ _ hn]
  by_cases h : k ∈ abbrs
  · simp only [h, if_true, defVal]
    cases lookup k m with
    | none => rfl
    | some w => by_cases hw : w = nd <;> simp [hw]
  · have : lookup k m = none := (lookup_eq_none_iff _ _).2 (fun hh => h (hk k hh))
    simp [h, this]

theorem filterMap_field (abbrs : List Str) (nd : Str) (m : MMap) :
    abbrs.filterMap (fun k => match lookup k m with
      | some v => if v ≠ nd then some (k ++ ':' :: v) else none
      | none => none) = (definedPairs abbrs nd m).map fieldOf := by
  unfold definedPairs
  rw [List.map_filterMap]
  congr 1
  funext k
  cases lookup k m with
  | none => rfl
  | some v => by_cases h : v = nd <;> simp [h, fieldOf]

/-- everything the re-parse needs to know about the canonical listing of a parsed map -/
theorem canon {T : Tables} {g : Spec.Grammar.G} (hP : C04.Pinned T g) (nd : Str)
    (hnd : C05.ndLegal T nd = true) (hab : T.abbrs.Nodup) (hmne : T.mandatory ≠ [])
    (m : MMap) (hl : ∀ kv ∈ m, LegalPair T kv) (hn : (keys m).Nodup)
    (hm : ∀ k ∈ T.mandatory, k ∈ keys m) :
    definedPairs T.abbrs nd m ≠ [] ∧
    (∀ kv ∈ definedPairs T.abbrs nd m, LegalPair T kv) ∧
    (∀ kv ∈ definedPairs T.abbrs nd m, '/' ∉ kv.1 ∧ '/' ∉ kv.2) ∧
    (keys (definedPairs T.abbrs nd m)).Nodup ∧
    (∀ k ∈ T.mandatory, k ∈ keys (definedPairs T.abbrs nd m)) ∧
    definedPairs T.abbrs nd (definedPairs T.abbrs nd m) = definedPairs T.abbrs nd m ∧
    assignment nd (definedPairs T.abbrs nd m) = assignment nd m := by
  have hleg : ∀ kv ∈ definedPairs T.abbrs nd m, LegalPair T kv := by
    rintro ⟨k, v⟩ hkv
    obtain ⟨-, hlk, -⟩ := (mem_definedPairs _ _ _ _ _).1 hkv
    exact hl _ (mem_of_lookup_eq_some _ _ _ hlk)
  have hmand : ∀ k ∈ T.mandatory, k ∈ keys (definedPairs T.abbrs nd m) := by
    intro k hk
    obtain ⟨⟨k', v⟩, hkv, rfl⟩ := List.mem_map.1 (hm k hk)
    obtain ⟨hka, ⟨vs, hvs, hv⟩, -, -⟩ := hl _ hkv
    simp only at hka hvs hv hk
    have hlk := lookup_eq_some_of_mem m hn _ _ hkv
    have hne : v ≠ nd := by
      rintro rfl
      unfold C05.ndLegal at hnd
      have := List.all_eq_true.1 hnd k' hka
      simp only [hvs, hk, if_true] at this
      simp [hv] at this
    exact mem_keys_of_mem ((mem_definedPairs _ _ _ _ _).2 ⟨hka, hlk, hne⟩)
  refine ⟨?_, hleg, fun kv hkv => hP.slashFree (hleg kv hkv), keys_definedPairs_nodup _ _ _ hab, hmand,
    definedPairs_idem _ _ _ hab, assignment_definedPairs _ _ _ hab ?_⟩
  · intro he
    cases hmm : T.mandatory with
    | nil => exact hmne hmm
    | cons k r =>
      have := hmand k (by rw [hmm]; simp)
      rw [he] at this
      simp [keys] at this
  · intro k hk
    obtain ⟨⟨k', v⟩, hkv, rfl⟩ := List.mem_map.1 hk
    exact (hl _ hkv).1

/-- `clean_vector()` is the rendering of the canonical listing, behind the version prefix
    (omitted when `output_prefix=False`; none for v2) -/
theorem clean_v2 (m : MMap) : V2.cleanOf m = join '/' ((definedPairs (keys Gen.V2.abbrs) V2.ND m).map fieldOf) := by
  rw [← filterMap_field]
  rfl

theorem clean_v3 (minor : Nat) (orig : MMap) (p : Bool) :
    V3.cleanOf minor orig p = (if p then V3.versionPrefix minor else []) ++
      join '/' ((definedPairs (keys Gen.V3.abbrs) V3.X orig).map fieldOf) := by
  rw [← filterMap_field]
  rfl

theorem clean_v4 (orig : MMap) (p : Bool) :
    V4.cleanOf orig p = (if p then V4.pfx else []) ++
      join '/' ((definedPairs (keys Gen.V4.abbrs) V4.X orig).map fieldOf) := by
  rw [← filterMap_field]
  rfl

/-! ### per-version facts about the canonical listing of a parsed map -/

theorem colonFree_of_legal {T : Tables} {d : MMap} (h : ∀ kv ∈ d, LegalPair T kv) : ColonFree d :=
  fun kv hkv => ⟨(h kv hkv).2.2.1, (h kv hkv).2.2.2⟩

theorem canon2 {s : Str} {m : MMap} (hp : V2.parse s = .ok m) :
    V2.parse (V2.cleanOf m) = .ok (definedPairs (keys Gen.V2.abbrs) V2.ND m) ∧
    V2.cleanOf (definedPairs (keys Gen.V2.abbrs) V2.ND m) = V2.cleanOf m ∧
    assignment V2.ND (definedPairs (keys Gen.V2.abbrs) V2.ND m) = assignment V2.ND m ∧
    definedPairs (keys Gen.V2.abbrs) V2.ND m ≠ [] ∧
    SlashFree (definedPairs (keys Gen.V2.abbrs) V2.ND m) ∧
    ColonFree (definedPairs (keys Gen.V2.abbrs) V2.ND m) := by
  obtain ⟨-, -, hl, hn, hm⟩ := C04.v2_parse_ok_fields s m hp
  obtain ⟨c1, c2, c3, c4, c5, c6, c7⟩ :=
    canon C04.pinned2 V2.ND C05.nd_legal.1 abbrs_nodup.1 (by decide) m hl hn hm
  refine ⟨?_, ?_, c7, c1, c3, colonFree_of_legal c2⟩
  · rw [clean_v2]
    exact C04.v2_parse_render _ c1 c2 c3 c4 c5
  · rw [clean_v2, clean_v2]
    exact congrArg (fun x => join '/' (List.map fieldOf x)) c6

theorem versionPrefix_of_idx {i : Nat} {p : Str} (h : V3.prefixes[i]? = some p) :
    V3.versionPrefix i = p ∧ (i = 0 ∨ i = 1) := by
  match i, h with
  | 0, h => simp [V3.prefixes] at h; subst h; exact ⟨by decide, Or.inl rfl⟩
  | 1, h => simp [V3.prefixes] at h; subst h; exact ⟨by decide, Or.inr rfl⟩
  | (n + 2), h => simp [V3.prefixes] at h

theorem canon3 {s : Str} {i : Nat} {m : MMap} (hp : V3.parse s = .ok (i, m)) :
    V3.parse (V3.cleanOf i m true) = .ok (i, definedPairs (keys Gen.V3.abbrs) V3.X m) ∧
    (∀ b, V3.cleanOf i (definedPairs (keys Gen.V3.abbrs) V3.X m) b = V3.cleanOf i m b) ∧
    assignment V3.X (definedPairs (keys Gen.V3.abbrs) V3.X m) = assignment V3.X m ∧
    definedPairs (keys Gen.V3.abbrs) V3.X m ≠ [] ∧
    SlashFree (definedPairs (keys Gen.V3.abbrs) V3.X m) ∧
    ColonFree (definedPairs (keys Gen.V3.abbrs) V3.X m) ∧ (i = 0 ∨ i = 1) := by
  obtain ⟨⟨p, hpi, -⟩, -, hl, hn, hm⟩ := C04.v3_parse_ok_fields s i m hp
  obtain ⟨c1, c2, c3, c4, c5, c6, c7⟩ :=
    canon C04.pinned3 V3.X C05.nd_legal.2.1 abbrs_nodup.2.1 (by decide) m hl hn hm
  obtain ⟨hvp, hi⟩ := versionPrefix_of_idx hpi
  refine ⟨?_, ?_, c7, c1, c3, colonFree_of_legal c2, hi⟩
  · rw [clean_v3, if_pos rfl, hvp]
    exact C04.v3_parse_render i p hpi _ c1 c2 c3 c4 c5
  · intro b
    rw [clean_v3, clean_v3]
    exact congrArg (fun x => _ ++ join '/' (List.map fieldOf x)) c6

theorem canon4 {s : Str} {m : MMap} (hp : V4.parse s = .ok m) :
    V4.parse (V4.cleanOf m true) = .ok (definedPairs (keys Gen.V4.abbrs) V4.X m) ∧
    (∀ b, V4.cleanOf (definedPairs (keys Gen.V4.abbrs) V4.X m) b = V4.cleanOf m b) ∧
    assignment V4.X (definedPairs (keys Gen.V4.abbrs) V4.X m) = assignment V4.X m ∧
    definedPairs (keys Gen.V4.abbrs) V4.X m ≠ [] ∧
    SlashFree (definedPairs (keys Gen.V4.abbrs) V4.X m) ∧
    ColonFree (definedPairs (keys Gen.V4.abbrs) V4.X m) := by
  obtain ⟨-, -, hl, hn, hm⟩ := C04.v4_parse_ok_fields s m hp
  obtain ⟨c1, c2, c3, c4, c5, c6, c7⟩ :=
    canon C04.pinned4 V4.X C05.nd_legal.2.2 abbrs_nodup.2.2 (by decide) m hl hn hm
  refine ⟨?_, ?_, c7, c1, c3, colonFree_of_legal c2⟩
  · rw [clean_v4, if_pos rfl]
    exact C04.v4_parse_render _ c1 c2 c3 c4 c5
  · intro b
    rw [clean_v4, clean_v4]
    exact congrArg (fun x => _ ++ join '/' (List.map fieldOf x)) c6

/-- what a successful `CVSS3(s)` produced -/
theorem v3_construct_facts {s : Str} {o : V3.Obj} (h : V3.construct s = .ok o) :
    V3.parse s = .ok (o.minor, o.orig) ∧
    o.base = Spec.V3.baseScore (assignment V3.X o.orig) ∧
    o.temporal = Spec.V3.temporalScore (assignment V3.X o.orig) ∧
    o.env = Spec.V3.environmentalScore o.minor (assignment V3.X o.orig) := by
  obtain ⟨i, m, hp, hb⟩ := (v3_construct_ok_iff s o).1 h
  obtain ⟨o0, hb0, -, h2, h3, h4, h5, h6, -⟩ := C01.v3_build_eq_spec s i m (validMap3_of_parse hp)
  rw [hb] at hb0
  cases hb0
  rw [h2, h3]
  exact ⟨hp, h4, h5, h6⟩

/-! ### re-parsing the clean vector -/

/-- v2: re-parsing the clean vector succeeds, yields exactly the canonical listing as metric map, and an
    object with the same scores, ratings and clean vector that is equal to the original -/
theorem v2_clean_roundtrip (s : Str) (o : V2.Obj) (h : V2.construct s = .ok o) :
    ∃ o', V2.construct o.clean = .ok o' ∧ o'.metrics = definedPairs (keys Gen.V2.abbrs) V2.ND o.metrics ∧
      o'.scores = o.scores ∧ o'.severities = o.severities ∧ o'.clean = o.clean ∧
      (AnyObj.o2 o').eq (AnyObj.o2 o) = true := by
  obtain ⟨m, hp, rfl⟩ := (v2_construct_ok_iff s o).1 h
  obtain ⟨c1, c2, c3, -⟩ := canon2 hp
  refine ⟨{ vector := V2.cleanOf m, metrics := definedPairs (keys Gen.V2.abbrs) V2.ND m,
            base := Spec.V2.baseScore (assignment V2.ND (definedPairs (keys Gen.V2.abbrs) V2.ND m)),
            temporal := Spec.V2.temporalScore (assignment V2.ND (definedPairs (keys Gen.V2.abbrs) V2.ND m)),
            env := Spec.V2.environmentalScore (assignment V2.ND (definedPairs (keys Gen.V2.abbrs) V2.ND m)) },
    ?_, rfl, ?_, ?_, c2, ?_⟩
  · exact (v2_construct_ok_iff _ _).2 ⟨_, c1, rfl⟩
  · simp only [V2.Obj.scores, c3]
  · simp only [V2.Obj.severities, V2.Obj.scores, c3]
  · simp only [AnyObj.eq, AnyObj.ver, AnyObj.clean, V2.Obj.clean, c2, decide_true, Bool.and_self]

/-- v3: likewise (the minor version is preserved) -/
theorem v3_clean_roundtrip (s : Str) (o : V3.Obj) (h : V3.construct s = .ok o) :
    ∃ o', V3.construct o.clean = .ok o' ∧ o'.minor = o.minor ∧
      o'.orig = definedPairs (keys Gen.V3.abbrs) V3.X o.orig ∧
      o'.scores = o.scores ∧ o'.severities = o.severities ∧ o'.clean = o.clean ∧
      (AnyObj.o3 o').eq (AnyObj.o3 o) = true := by
  obtain ⟨hp, hb, ht, he⟩ := v3_construct_facts h
  obtain ⟨c1, c2, c3, -⟩ := canon3 hp
  obtain ⟨o', hb', -, h2, h3, h4, h5, h6, -⟩ :=
    C01.v3_build_eq_spec (V3.cleanOf o.minor o.orig true) o.minor _ (validMap3_of_parse c1)
  rw [c3] at h4 h5 h6
  have hcl : ∀ b, V3.Obj.clean o' b = V3.Obj.clean o b := by
    intro b
    unfold V3.Obj.clean
    rw [h2, h3]
    exact c2 b
  refine ⟨o', ?_, h2, h3, ?_, ?_, hcl true, ?_⟩
  · exact (v3_construct_ok_iff _ _).2 ⟨_, _, c1, hb'⟩
  · simp only [V3.Obj.scores, h4, h5, h6, hb, ht, he]
  · simp only [V3.Obj.severities, h4, h5, h6, hb, ht, he]
  · simp only [AnyObj.eq, AnyObj.ver, AnyObj.clean, hcl true, decide_true, Bool.and_self]

/-- v4, at the level of the parser (the constructor-level statement follows with C02):
    the clean vector parses to exactly the canonical listing -/
theorem v4_clean_reparse (s : Str) (m : MMap) (h : V4.parse s = .ok m) :
    V4.parse (V4.cleanOf m true) = .ok (definedPairs (keys Gen.V4.abbrs) V4.X m) ∧
    V4.cleanOf (definedPairs (keys Gen.V4.abbrs) V4.X m) true = V4.cleanOf m true := by
  obtain ⟨c1, c2, -⟩ := canon4 h
  exact ⟨c1, c2 true⟩

/-! ### equality is "same version and same defined metric values" -/

/-- v2: two constructed objects are equal exactly when they define the same metric values -/
theorem v2_eq_iff (s₁ s₂ : Str) (o₁ o₂ : V2.Obj) (h₁ : V2.construct s₁ = .ok o₁) (h₂ : V2.construct s₂ = .ok o₂) :
    (AnyObj.o2 o₁).eq (AnyObj.o2 o₂) = true ↔
      definedPairs (keys Gen.V2.abbrs) V2.ND o₁.metrics = definedPairs (keys Gen.V2.abbrs) V2.ND o₂.metrics := by
  obtain ⟨m₁, hp₁, rfl⟩ := (v2_construct_ok_iff s₁ o₁).1 h₁
  obtain ⟨m₂, hp₂, rfl⟩ := (v2_construct_ok_iff s₂ o₂).1 h₂
  obtain ⟨-, -, -, a1, a2, a3⟩ := canon2 hp₁
  obtain ⟨-, -, -, b1, b2, b3⟩ := canon2 hp₂
  simp only [AnyObj.eq, AnyObj.ver, AnyObj.clean, V2.Obj.clean, decide_true, Bool.true_and,
    decide_eq_true_eq, clean_v2]
  exact ⟨render_inj _ _ a1 b1 a2 b2 a3 b3, fun h => by rw [h]⟩

/-- v3: … and have the same minor version (3.0 and 3.1 differ) -/
theorem v3_eq_iff (s₁ s₂ : Str) (o₁ o₂ : V3.Obj) (h₁ : V3.construct s₁ = .ok o₁) (h₂ : V3.construct s₂ = .ok o₂) :
    (AnyObj.o3 o₁).eq (AnyObj.o3 o₂) = true ↔
      o₁.minor = o₂.minor ∧
      definedPairs (keys Gen.V3.abbrs) V3.X o₁.orig = definedPairs (keys Gen.V3.abbrs) V3.X o₂.orig := by
  obtain ⟨hp₁, -⟩ := v3_construct_facts h₁
  obtain ⟨hp₂, -⟩ := v3_construct_facts h₂
  obtain ⟨-, -, -, a1, a2, a3, ai⟩ := canon3 hp₁
  obtain ⟨-, -, -, b1, b2, b3, bi⟩ := canon3 hp₂
  simp only [AnyObj.eq, AnyObj.ver, AnyObj.clean, V3.Obj.clean, decide_true, Bool.true_and,
    decide_eq_true_eq, clean_v3, if_true]
  constructor
  · intro h
    have hlen : (V3.versionPrefix o₁.minor).length = (V3.versionPrefix o₂.minor).length := by
      rcases ai with e1 | e1 <;> rcases bi with e2 | e2 <;> rw [e1, e2] <;> decide
    obtain ⟨hpre, hbody⟩ := List.append_inj h hlen
    refine ⟨?_, render_inj _ _ a1 b1 a2 b2 a3 b3 hbody⟩
    rcases ai with e1 | e1 <;> rcases bi with e2 | e2 <;> rw [e1, e2] at hpre ⊢ <;>
      first | rfl | (exact absurd hpre (by decide))
  · rintro ⟨hm, hd⟩
    rw [hm, hd]

/-- v4 (for objects whose `orig` comes from a successful parse) -/
theorem v4_eq_iff (s₁ s₂ : Str) (o₁ o₂ : V4.Obj) (h₁ : V4.parse s₁ = .ok o₁.orig) (h₂ : V4.parse s₂ = .ok o₂.orig) :
    (AnyObj.o4 o₁).eq (AnyObj.o4 o₂) = true ↔
      definedPairs (keys Gen.V4.abbrs) V4.X o₁.orig = definedPairs (keys Gen.V4.abbrs) V4.X o₂.orig := by
  obtain ⟨-, -, -, a1, a2, a3⟩ := canon4 h₁
  obtain ⟨-, -, -, b1, b2, b3⟩ := canon4 h₂
  simp only [AnyObj.eq, AnyObj.ver, AnyObj.clean, V4.Obj.clean, decide_true, Bool.true_and,
    decide_eq_true_eq, clean_v4, if_true]
  constructor
  · intro h
    exact render_inj _ _ a1 b1 a2 b2 a3 b3 (List.append_cancel_left h)
  · intro hd
    rw [hd]

/-- "define the same metric values", spelled out: the canonical listings coincide exactly when every
    metric of the table has the same defined value (or none) in both maps -/
theorem definedPairs_eq_iff (abbrs : List Str) (nd : Str) (m₁ m₂ : MMap) (hn : abbrs.Nodup) :
    definedPairs abbrs nd m₁ = definedPairs abbrs nd m₂ ↔
      ∀ k ∈ abbrs, (match lookup k m₁ with | some v => if v ≠ nd then some v else none | none => none) =
                   (match lookup k m₂ with | some v => if v ≠ nd then some v else none | none => none) := by
  constructor
  · intro h k hk
    have h1 := lookup_definedPairs abbrs nd m₁ hn k
    have h2 := lookup_definedPairs abbrs nd m₂ hn k
    rw [if_pos hk] at h1 h2
    rw [h] at h1
    exact (h1.symm.trans h2 : defVal nd m₁ k = defVal nd m₂ k)
  · intro h
    exact definedPairs_congr abbrs nd m₁ m₂ h

/-- equal v2 / v3 objects have identical scores, ratings and clean vectors -/
theorem v2_eq_observables (s₁ s₂ : Str) (o₁ o₂ : V2.Obj) (h₁ : V2.construct s₁ = .ok o₁) (h₂ : V2.construct s₂ = .ok o₂)
    (he : (AnyObj.o2 o₁).eq (AnyObj.o2 o₂) = true) :
    o₁.scores = o₂.scores ∧ o₁.severities = o₂.severities ∧ o₁.clean = o₂.clean := by
  have hd := (v2_eq_iff s₁ s₂ o₁ o₂ h₁ h₂).1 he
  have hc : o₁.clean = o₂.clean := by
    simp only [AnyObj.eq, AnyObj.ver, AnyObj.clean, decide_true, Bool.true_and] at he
    exact of_decide_eq_true he
  obtain ⟨m₁, hp₁, rfl⟩ := (v2_construct_ok_iff s₁ o₁).1 h₁
  obtain ⟨m₂, hp₂, rfl⟩ := (v2_construct_ok_iff s₂ o₂).1 h₂
  obtain ⟨-, -, a, -⟩ := canon2 hp₁
  obtain ⟨-, -, b, -⟩ := canon2 hp₂
  simp only at hd
  have ha : assignment V2.ND m₁ = assignment V2.ND m₂ := by rw [← a, ← b, hd]
  refine ⟨?_, ?_, hc⟩
  · simp only [V2.Obj.scores, ha]
  · simp only [V2.Obj.severities, V2.Obj.scores, ha]

theorem v3_eq_observables (s₁ s₂ : Str) (o₁ o₂ : V3.Obj) (h₁ : V3.construct s₁ = .ok o₁) (h₂ : V3.construct s₂ = .ok o₂)
    (he : (AnyObj.o3 o₁).eq (AnyObj.o3 o₂) = true) :
    o₁.scores = o₂.scores ∧ o₁.severities = o₂.severities ∧ o₁.clean = o₂.clean := by
  obtain ⟨hm, hd⟩ := (v3_eq_iff s₁ s₂ o₁ o₂ h₁ h₂).1 he
  have hc : o₁.clean = o₂.clean := by
    simp only [AnyObj.eq, AnyObj.ver, AnyObj.clean, decide_true, Bool.true_and] at he
    exact of_decide_eq_true he
  obtain ⟨hp₁, hb₁, ht₁, he₁⟩ := v3_construct_facts h₁
  obtain ⟨hp₂, hb₂, ht₂, he₂⟩ := v3_construct_facts h₂
  obtain ⟨-, -, a, -⟩ := canon3 hp₁
  obtain ⟨-, -, b, -⟩ := canon3 hp₂
  have ha : assignment V3.X o₁.orig = assignment V3.X o₂.orig := by rw [← a, ← b, hd]
  refine ⟨?_, ?_, hc⟩
  · simp only [V3.Obj.scores, hb₁, ht₁, he₁, hb₂, ht₂, he₂, ha, hm]
  · simp only [V3.Obj.severities, hb₁, ht₁, he₁, hb₂, ht₂, he₂, ha, hm]

end Cvss.Props.C07
