/-
  C07 — clean_vector() is a canonical form; equality and hash are consistent with it.
-/
import Cvss.Model.Any
namespace Cvss.Props.C07
open Cvss Cvss.Model

/-- equality of library objects is an equivalence relation on each class, and equal objects have the
    same hash key -/
theorem eq_refl (a : AnyObj) : a.eq a = true := by simp [AnyObj.eq]

theorem eq_symm (a b : AnyObj) (h : a.eq b = true) : b.eq a = true := by
  simp [AnyObj.eq] at *; exact ⟨h.1.symm, h.2.symm⟩

theorem eq_trans (a b c : AnyObj) (h1 : a.eq b = true) (h2 : b.eq c = true) : a.eq c = true := by
  simp [AnyObj.eq] at *; exact ⟨h1.1.trans h2.1, h1.2.trans h2.2⟩

theorem eq_hash (a b : AnyObj) (h : a.eq b = true) : a.hashKey = b.hashKey := by
  simp [AnyObj.eq, AnyObj.hashKey] at *; exact h.2

/-- an object never equals an object of another class -/
theorem eq_same_class (a b : AnyObj) (h : a.eq b = true) : a.ver = b.ver := by
  simp [AnyObj.eq] at h; exact h.1

/-- metric tables have no repeated abbreviation (so "once each" makes sense) -/
theorem abbrs_nodup : (keys Gen.V2.abbrs).Nodup ∧ (keys Gen.V3.abbrs).Nodup ∧ (keys Gen.V4.abbrs).Nodup := by
  decide +kernel

end Cvss.Props.C07
