/-
  C13 — totality without hypotheses (uses C04Final: no constructor lets a foreign exception escape).
-/
import Cvss.Props.C13
import Cvss.Props.C04Final
namespace Cvss.Props.C13
open Cvss Cvss.Model Cvss.Model.Extract

/-- `parse_cvss_from_text` never raises, for any text and any `\d` predicate -/
theorem parseText_never_raises (isDigit : Char → Bool) (text : Str) : (parseText isDigit text).isSome = true :=
  parseText_total isDigit text (fun s => C04.no_foreign_exception .v2 s) (fun s => C04.no_foreign_exception .v3 s)

end Cvss.Props.C13
