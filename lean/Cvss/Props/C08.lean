/-
  C08 — every vector string the library emits is valid for its version.
-/
import Cvss.Model.Any
import Cvss.Spec.Grammar
import Cvss.Spec.RegexPatterns
import Cvss.Lemmas.Construct
import Cvss.Lemmas.Regex
import Cvss.Lemmas.RegexV4
namespace Cvss.Props.C08
open Cvss Cvss.Model Cvss.Spec Cvss.Spec.Regex

/-- per-field membership: every legal `metric:value` string, on its own, is a vector the official
    v2 pattern matches (the pattern is `(F/)*F`) -/
theorem v2_fields_match :
    ((Grammar.fieldStrings Grammar.g2).all fun (f, _) => Regex.fullMatch Regex.pattern20 f) = true := by
  decide +kernel

theorem v30_fields_match :
    ((Grammar.fieldStrings Grammar.g3).all fun (f, _) => Regex.fullMatch Regex.pattern30 (c!"CVSS:3.0/" ++ f)) = true := by
  decide +kernel

theorem v31_fields_match :
    ((Grammar.fieldStrings Grammar.g3).all fun (f, _) => Regex.fullMatch Regex.pattern31 (c!"CVSS:3.1/" ++ f)) = true := by
  decide +kernel

/-! ### the executable matcher decides the declarative semantics -/

/-- Brzozowski-derivative matching is sound and complete for the declarative semantics -/
theorem fullMatch_iff (r : Re) (s : Str) : fullMatch r s = true ↔ Matches r s :=
  fullMatch_iff_matches r s

/-! ### every ACCEPTED v2 / v3 string conforms to the official pattern
    (so in particular the clean vector, the vector part of the Red Hat notation and the interactive
    builder's result, which C07 / C16 show are accepted) -/

/-- the last component of a right-nested sequence: the field alternation `F` of `…(F/)*F` -/
def lastSeq : Re → Re
  | .seq _ b => lastSeq b
  | r => r

def fieldRe20 : Re := lastSeq pattern20
def fieldRe30 : Re := lastSeq pattern30
def fieldRe31 : Re := lastSeq pattern31

theorem pattern20_eq : pattern20 = .seq (.star (.seq fieldRe20 (.chr '/'))) fieldRe20 := by
  decide +kernel

theorem pattern30_eq : pattern30 =
    Re.seqs [.chr 'C', .chr 'V', .chr 'S', .chr 'S', .chr ':', .chr '3', .any, .chr '0', .chr '/',
      .seq (.star (.seq fieldRe30 (.chr '/'))) fieldRe30] := by
  decide +kernel

theorem pattern31_eq : pattern31 =
    Re.seqs [.chr 'C', .chr 'V', .chr 'S', .chr 'S', .chr ':', .chr '3', .any, .chr '1', .chr '/',
      .seq (.star (.seq fieldRe31 (.chr '/'))) fieldRe31] := by
  decide +kernel

/-- every legal field string matches the field alternation of the pattern -/
theorem v2_fieldRe_match :
    ((Grammar.fieldStrings Grammar.g2).all fun (f, _) => fullMatch fieldRe20 f) = true := by
  decide +kernel

theorem v30_fieldRe_match :
    ((Grammar.fieldStrings Grammar.g3).all fun (f, _) => fullMatch fieldRe30 f) = true := by
  decide +kernel

theorem v31_fieldRe_match :
    ((Grammar.fieldStrings Grammar.g3).all fun (f, _) => fullMatch fieldRe31 f) = true := by
  decide +kernel

theorem isField_mem_fieldStrings {g : Grammar.G} {f m : Str} (h : Grammar.IsField g f m) :
    (f, m) ∈ Grammar.fieldStrings g := by
  obtain ⟨vs, v, hl, hv, rfl⟩ := h
  unfold Grammar.fieldStrings
  rw [List.mem_flatMap]
  exact ⟨(m, vs), mem_of_lookup_eq_some _ _ _ hl, List.mem_map.2 ⟨v, hv, rfl⟩⟩

theorem fieldsOf_matches {g : Grammar.G} {F : Re}
    (hF : ((Grammar.fieldStrings g).all fun (f, _) => fullMatch F f) = true) :
    ∀ fields ms, Grammar.FieldsOf g fields ms → ∀ f ∈ fields, Matches F f := by
  intro fields
  induction fields with
  | nil => intro ms _ f hf; simp at hf
  | cons f0 fs ih =>
    intro ms h f hf
    cases ms with
    | nil => exact absurd h (by simp [Grammar.FieldsOf])
    | cons m ms =>
      simp only [Grammar.FieldsOf] at h
      rcases List.mem_cons.1 hf with rfl | hf
      · have := List.all_eq_true.1 hF _ (isField_mem_fieldStrings h.1)
        exact (fullMatch_iff F f).1 this
      · exact ih ms h.2 f hf

/-- an accepted string is a prefix of the grammar followed by `(F/)*F` -/
theorem accepts_shape {g : Grammar.G} {F : Re}
    (hF : ((Grammar.fieldStrings g).all fun (f, _) => fullMatch F f) = true) {s : Str}
    (h : Grammar.Accepts g s) :
    ∃ p rest, p ∈ g.prefixes ∧ s = p ++ rest ∧
      Matches (.seq (.star (.seq F (.chr '/'))) F) rest := by
  obtain ⟨ms, ⟨p, fields, hp, rfl, hne, hfo, -⟩, -⟩ := h
  exact ⟨p, _, hp, rfl, matches_star_sep F '/' fields hne (fieldsOf_matches hF fields ms hfo)⟩

theorem v2_accepted_matches (s : Str) (h : Grammar.Accepts Grammar.g2 s) : Matches pattern20 s := by
  obtain ⟨p, rest, hp, rfl, hm⟩ := accepts_shape v2_fieldRe_match h
  have hp' : p = [] := by simpa [Grammar.g2] using hp
  subst hp'
  rw [pattern20_eq]
  exact hm

/-- a v3.0 string matches the 3.0 schema's pattern, a v3.1 string the 3.1 schema's -/
theorem v30_accepted_matches (s : Str) (h : Grammar.Accepts Grammar.g3 s) (hp : c!"CVSS:3.0/" <+: s) :
    Matches pattern30 s := by
  obtain ⟨p, rest, hp', rfl, hm⟩ := accepts_shape v30_fieldRe_match h
  simp only [Grammar.g3, List.mem_cons, List.not_mem_nil, or_false] at hp'
  rcases hp' with rfl | rfl
  · rw [pattern30_eq]
    refine matches_chr_cons 'C' (matches_chr_cons 'V' (matches_chr_cons 'S' (matches_chr_cons 'S'
      (matches_chr_cons ':' (matches_chr_cons '3' (matches_any_cons '.' (by decide)
      (matches_chr_cons '0' (matches_chr_cons '/' ?_))))))))
    exact hm
  · exfalso
    simp [List.cons_prefix_cons] at hp

theorem v31_accepted_matches (s : Str) (h : Grammar.Accepts Grammar.g3 s) (hp : c!"CVSS:3.1/" <+: s) :
    Matches pattern31 s := by
  obtain ⟨p, rest, hp', rfl, hm⟩ := accepts_shape v31_fieldRe_match h
  simp only [Grammar.g3, List.mem_cons, List.not_mem_nil, or_false] at hp'
  rcases hp' with rfl | rfl
  · exfalso
    simp [List.cons_prefix_cons] at hp
  · rw [pattern31_eq]
    refine matches_chr_cons 'C' (matches_chr_cons 'V' (matches_chr_cons 'S' (matches_chr_cons 'S'
      (matches_chr_cons ':' (matches_chr_cons '3' (matches_any_cons '.' (by decide)
      (matches_chr_cons '1' (matches_chr_cons '/' ?_))))))))
    exact hm

/-! ### v4.0: the official pattern fixes the field order Base, Threat, Environmental, Supplemental;
    the CLEAN vector conforms (an accepted input in another order does not, and need not) -/

/-- the clean vector of every parsed v4 metric map matches the official v4.0 pattern; this re-decides the
    order of `METRICS_ABBREVIATIONS` in the generated table against the pattern -/
theorem v4_clean_matches (s : Str) (m : MMap) (h : V4.parse s = .ok m) : Matches pattern40 (V4.cleanOf m true) := by
  obtain ⟨-, -, hl, -, hm⟩ := C04.v4_parse_ok_fields s m h
  apply clean_matches m
  · intro k v hkv
    exact (hl (k, v) (mem_of_lookup_eq_some m k v hkv)).2.1
  · intro k hk
    exact Option.isSome_iff_exists.1 ((lookup_isSome_iff_mem_keys m k).2 (hm k hk))

/-- non-vacuity -/
example : fullMatch pattern40 c!"CVSS:4.0/AV:N/AC:L/AT:N/PR:N/UI:N/VC:H/VI:H/VA:H/SC:H/SI:H/SA:H/E:P/CR:L/MAV:A/S:P/U:Red" = true := by
  decide +kernel
example : fullMatch pattern40 c!"CVSS:4.0/AV:N/AC:L/AT:N/PR:N/UI:N/VC:H/VI:H/VA:H/SC:H/SI:H/SA:H/S:P/E:P" = false := by
  decide +kernel

end Cvss.Props.C08
