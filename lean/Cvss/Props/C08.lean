/-
  C08 — every vector string the library emits is valid for its version.
-/
import Cvss.Model.Any
import Cvss.Spec.Grammar
import Cvss.Spec.RegexPatterns
namespace Cvss.Props.C08
open Cvss Cvss.Model Cvss.Spec

/-- per-field membership: every legal `metric:value` string, on its own, is a vector the official
    v2 pattern matches (the pattern is `(F/)*F`) -/
theorem v2_fields_match :
    ((Grammar.fieldStrings Grammar.g2).all fun (f, _) => Regex.fullMatch Regex.pattern20 f) = true := by
  decide +kernel

theorem v30_fields_match :
    ((Grammar.fieldStrings Grammar.g3).all fun (f, _) => Regex.fullMatch Regex.pattern30 (c!"CVSS:3.0/" ++ f)) = true := by
  decide +kernel

theorem v31_fields_match :
    ((Grammar.fieldStrings Grammar.g3).all fun (f, _) => Regex.fullMatch Regex.pattern31 (c!"CVSS:3.1/" ++ f)) = true := by
  decide +kernel

end Cvss.Props.C08
