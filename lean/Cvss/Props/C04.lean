/-
  C04 — vector acceptance is exactly the version's grammar; errors follow the taxonomy.
-/
import Cvss.Model.Any
import Cvss.Spec.Grammar
import Cvss.Gen.Exc
import Cvss.Lemmas.Parse
namespace Cvss.Props.C04
open Cvss Cvss.Model Cvss.Spec.Grammar

def sameSet (a b : List Str) : Bool := a.all (· ∈ b) && b.all (· ∈ a) && a.length == b.length

/-- the tables the parser consults describe the specification's vocabulary: the same set of metrics,
    the same legal values per metric, the same set of mandatory metrics (the ORDER of the tables is not
    pinned here: acceptance does not depend on it) -/
def vocabPinned (T : Tables) (g : G) : Bool :=
  sameSet T.abbrs (keys g.vocab) &&
  g.vocab.all (fun (m, vs) => match lookup m T.legal with
    | some ws => sameSet vs ws
    | none => false) &&
  (keys T.legal).all (fun m => m ∈ keys g.vocab) &&
  sameSet T.mandatory g.mandatory && decide T.abbrs.Nodup

theorem vocab_pinned_v2 : vocabPinned V2.tables g2 = true := by decide +kernel
theorem vocab_pinned_v3 : vocabPinned V3.tables g3 = true := by decide +kernel
theorem vocab_pinned_v4 : vocabPinned V4.tables g4 = true := by decide +kernel

/-- no metric or value token contains a separator, none is empty, and no metric repeats in the
    vocabulary -/
def tokensClean (g : G) : Bool :=
  g.vocab.all (fun (m, vs) => m ≠ [] && !m.contains '/' && !m.contains ':' &&
    vs.all (fun v => v ≠ [] && !v.contains '/' && !v.contains ':')) && decide (keys g.vocab).Nodup

theorem tokens_clean : tokensClean g2 = true ∧ tokensClean g3 = true ∧ tokensClean g4 = true := by
  decide +kernel

theorem tables_wf : V2.tables.wf = true ∧ V3.tables.wf = true ∧ V4.tables.wf = true := by
  decide +kernel

/-- exception taxonomy: every class the constructors raise is under its version's base class, which is
    under `CVSSError` -/
def under (cls anc : Str) : Bool :=
  match lookup cls Gen.Exc.ancestors with
  | some as => as.contains anc
  | none => false

theorem taxonomy :
    ([c!"CVSS2", c!"CVSS3", c!"CVSS4"].all fun v =>
      ([c!"MalformedError", c!"MandatoryError", c!"RHMalformedError", c!"RHScoreDoesNotMatch"].all fun k =>
        under (v ++ k) (v ++ c!"Error") && under (v ++ k) c!"CVSSError") &&
      under (v ++ c!"Error") c!"CVSSError") = true := by decide +kernel

/-! ### from the Boolean checkers to propositions (generic in the tables and the grammar) -/

theorem sameSet_iff {a b : List Str} (h : sameSet a b = true) (v : Str) : v ∈ a ↔ v ∈ b := by
  unfold sameSet at h
  simp only [Bool.and_eq_true, List.all_eq_true, decide_eq_true_eq] at h
  exact ⟨h.1.1 v, h.1.2 v⟩

theorem pinned_abbrs {T : Tables} {g : G} (h : vocabPinned T g = true) (m : Str) :
    m ∈ T.abbrs ↔ m ∈ keys g.vocab := by
  unfold vocabPinned at h
  simp only [Bool.and_eq_true] at h
  exact sameSet_iff h.1.1.1.1 m

theorem pinned_nodup {T : Tables} {g : G} (h : vocabPinned T g = true) : T.abbrs.Nodup := by
  unfold vocabPinned at h
  simp only [Bool.and_eq_true] at h
  exact of_decide_eq_true h.2

theorem pinned_mandatory {T : Tables} {g : G} (h : vocabPinned T g = true) (m : Str) :
    m ∈ T.mandatory ↔ m ∈ g.mandatory := by
  unfold vocabPinned at h
  simp only [Bool.and_eq_true] at h
  exact sameSet_iff h.1.2 m

theorem pinned_legal {T : Tables} {g : G} (h : vocabPinned T g = true) {m : Str} {vs : List Str}
    (hl : lookup m g.vocab = some vs) :
    ∃ ws, lookup m T.legal = some ws ∧ ∀ v, v ∈ vs ↔ v ∈ ws := by
  unfold vocabPinned at h
  simp only [Bool.and_eq_true] at h
  have := List.all_eq_true.1 h.1.1.1.2 (m, vs) (mem_of_lookup_eq_some _ _ _ hl)
  simp only at this
  split at this
  · rename_i ws hws
    exact ⟨ws, hws, sameSet_iff this⟩
  · cases this

theorem clean_tokens {g : G} (h : tokensClean g = true) {m : Str} {vs : List Str}
    (hm : (m, vs) ∈ g.vocab) : '/' ∉ m ∧ ':' ∉ m ∧ ∀ v ∈ vs, '/' ∉ v ∧ ':' ∉ v := by
  unfold tokensClean at h
  simp only [Bool.and_eq_true] at h
  have := List.all_eq_true.1 h.1 (m, vs) hm
  simp only [Bool.and_eq_true, List.all_eq_true] at this
  obtain ⟨⟨⟨-, h1⟩, h2⟩, h3⟩ := this
  refine ⟨by simpa using h1, by simpa using h2, ?_⟩
  intro v hv
  obtain ⟨⟨-, h4⟩, h5⟩ := h3 v hv
  exact ⟨by simpa using h4, by simpa using h5⟩

/-- the parser's tables are well formed and describe the (clean) vocabulary of the grammar -/
structure Pinned (T : Tables) (g : G) : Prop where
  wf : T.wf = true
  pinned : vocabPinned T g = true
  clean : tokensClean g = true

theorem pinned2 : Pinned V2.tables g2 := ⟨tables_wf.1, vocab_pinned_v2, tokens_clean.1⟩
theorem pinned3 : Pinned V3.tables g3 := ⟨tables_wf.2.1, vocab_pinned_v3, tokens_clean.2.1⟩
theorem pinned4 : Pinned V4.tables g4 := ⟨tables_wf.2.2, vocab_pinned_v4, tokens_clean.2.2⟩

section generic
variable {T : Tables} {g : G}

/-- a field of the grammar is the text of a legal pair of the tables -/
theorem Pinned.isField_iff (h : Pinned T g) (f m : Str) :
    IsField g f m ↔ ∃ v, f = fieldOf (m, v) ∧ LegalPair T (m, v) := by
  constructor
  · rintro ⟨vs, v, hl, hv, rfl⟩
    obtain ⟨ws, hws, hiff⟩ := pinned_legal h.pinned hl
    have hmem := mem_of_lookup_eq_some _ _ _ hl
    obtain ⟨-, hc, hvs⟩ := clean_tokens h.clean hmem
    refine ⟨v, rfl, ?_, ⟨ws, hws, (hiff v).1 hv⟩, hc, (hvs v hv).2⟩
    exact (pinned_abbrs h.pinned _).2 (mem_keys_of_mem hmem)
  · rintro ⟨v, rfl, hab, ⟨ws, hws, hv⟩, -, -⟩
    simp only at hab hws hv
    replace hab := (pinned_abbrs h.pinned _).1 hab
    obtain ⟨vs, hvs⟩ := Option.isSome_iff_exists.1 ((lookup_isSome_iff_mem_keys _ _).2 hab)
    obtain ⟨ws', hws', hiff⟩ := pinned_legal h.pinned hvs
    rw [hws] at hws'
    cases hws'
    exact ⟨vs, v, hvs, (hiff v).2 hv, rfl⟩

/-- legal pairs are free of '/' -/
theorem Pinned.slashFree (h : Pinned T g) {kv : Str × Str} (hl : LegalPair T kv) :
    '/' ∉ kv.1 ∧ '/' ∉ kv.2 := by
  obtain ⟨m, v⟩ := kv
  obtain ⟨vs, v', hvs, hv', hf⟩ := (h.isField_iff _ m).2 ⟨v, rfl, hl⟩
  have hvv : v = v' := by simpa [fieldOf] using hf
  subst hvv
  obtain ⟨hc, -, hall⟩ := clean_tokens h.clean (mem_of_lookup_eq_some _ _ _ hvs)
  exact ⟨hc, (hall v hv').1⟩

theorem Pinned.fieldsOf_iff (h : Pinned T g) (fields ms : List Str) :
    FieldsOf g fields ms ↔
      ∃ mm : MMap, fields = mm.map fieldOf ∧ ms = keys mm ∧ ∀ kv ∈ mm, LegalPair T kv := by
  induction fields generalizing ms with
  | nil =>
    cases ms with
    | nil =>
      simp only [FieldsOf, true_iff]
      exact ⟨[], rfl, rfl, by simp⟩
    | cons m ms =>
      simp only [FieldsOf, false_iff]
      rintro ⟨mm, h1, h2, -⟩
      have : mm = [] := by simpa using h1.symm
      subst this
      simp [keys] at h2
  | cons f fs ih =>
    cases ms with
    | nil =>
      simp only [FieldsOf, false_iff]
      rintro ⟨mm, h1, h2, -⟩
      have : mm = [] := by simpa [keys] using h2.symm
      subst this
      simp at h1
    | cons m ms =>
      simp only [FieldsOf]
      constructor
      · rintro ⟨hf, hrest⟩
        obtain ⟨v, rfl, hl⟩ := (h.isField_iff _ _).1 hf
        obtain ⟨mm, rfl, rfl, hleg⟩ := (ih ms).1 hrest
        refine ⟨(m, v) :: mm, rfl, rfl, ?_⟩
        intro kv hkv
        rcases List.mem_cons.1 hkv with rfl | hkv
        · exact hl
        · exact hleg kv hkv
      · rintro ⟨mm, h1, h2, hleg⟩
        cases mm with
        | nil => simp at h1
        | cons kv mm' =>
          obtain ⟨k, v⟩ := kv
          simp only [List.map_cons, List.cons.injEq, keys] at h1 h2
          obtain ⟨rfl, rfl⟩ := h1
          obtain ⟨rfl, rfl⟩ := h2
          refine ⟨(h.isField_iff _ _).2 ⟨v, rfl, hleg _ (by simp)⟩, (ih _).2 ⟨mm', rfl, rfl, ?_⟩⟩
          exact fun kv hkv => hleg kv (List.mem_cons_of_mem _ hkv)

theorem Pinned.wellFormed_iff (h : Pinned T g) (s : Str) (ms : List Str) :
    WellFormed g s ms ↔
      ∃ p ∈ g.prefixes, ∃ mm : MMap, s = p ++ join '/' (mm.map fieldOf) ∧ mm ≠ [] ∧
        (∀ kv ∈ mm, LegalPair T kv) ∧ (keys mm).Nodup ∧ ms = keys mm := by
  constructor
  · rintro ⟨p, fields, hp, rfl, hne, hfo, hnd⟩
    obtain ⟨mm, rfl, rfl, hleg⟩ := (h.fieldsOf_iff _ _).1 hfo
    exact ⟨p, hp, mm, rfl, by simpa using hne, hleg, hnd, rfl⟩
  · rintro ⟨p, hp, mm, rfl, hne, hleg, hnd, rfl⟩
    exact ⟨p, _, hp, rfl, by simpa using hne, (h.fieldsOf_iff _ _).2 ⟨mm, rfl, rfl, hleg⟩, hnd⟩

theorem Pinned.accepts_iff (h : Pinned T g) (s : Str) :
    Accepts g s ↔
      ∃ p ∈ g.prefixes, ∃ mm : MMap, s = p ++ join '/' (mm.map fieldOf) ∧ mm ≠ [] ∧
        (∀ kv ∈ mm, LegalPair T kv) ∧ (keys mm).Nodup ∧ ∀ k ∈ T.mandatory, k ∈ keys mm := by
  unfold Accepts
  constructor
  · rintro ⟨ms, hwf, hm⟩
    obtain ⟨p, hp, mm, hs, hne, hl, hn, rfl⟩ := (h.wellFormed_iff _ _).1 hwf
    exact ⟨p, hp, mm, hs, hne, hl, hn, fun k hk => hm k ((pinned_mandatory h.pinned k).1 hk)⟩
  · rintro ⟨p, hp, mm, hs, hne, hl, hn, hm⟩
    exact ⟨keys mm, (h.wellFormed_iff _ _).2 ⟨p, hp, mm, hs, hne, hl, hn, rfl⟩,
      fun k hk => hm k ((pinned_mandatory h.pinned k).2 hk)⟩

theorem Pinned.lacks_iff (h : Pinned T g) (s : Str) :
    LacksMandatory g s ↔
      ∃ p ∈ g.prefixes, ∃ mm : MMap, s = p ++ join '/' (mm.map fieldOf) ∧ mm ≠ [] ∧
        (∀ kv ∈ mm, LegalPair T kv) ∧ (keys mm).Nodup ∧ ∃ k ∈ T.mandatory, k ∉ keys mm := by
  unfold LacksMandatory
  constructor
  · rintro ⟨ms, hwf, k, hk, hnk⟩
    obtain ⟨p, hp, mm, hs, hne, hl, hn, rfl⟩ := (h.wellFormed_iff _ _).1 hwf
    exact ⟨p, hp, mm, hs, hne, hl, hn, k, (pinned_mandatory h.pinned k).2 hk, hnk⟩
  · rintro ⟨p, hp, mm, hs, hne, hl, hn, k, hk, hnk⟩
    exact ⟨keys mm, (h.wellFormed_iff _ _).2 ⟨p, hp, mm, hs, hne, hl, hn, rfl⟩,
      k, (pinned_mandatory h.pinned k).1 hk, hnk⟩

end generic

/-! ### the accepted prefixes -/

theorem pfxOk3 : PfxOk V3.prefixes := by
  refine ⟨?_, by decide⟩
  intro p hp
  simp only [V3.prefixes, List.mem_cons, List.not_mem_nil, or_false] at hp
  rcases hp with rfl | rfl
  · exact ⟨c!"CVSS:3.0", rfl, by decide⟩
  · exact ⟨c!"CVSS:3.1", rfl, by decide⟩

theorem pfxOk4 : PfxOk [V4.pfx] := by
  refine ⟨?_, by decide⟩
  intro p hp
  simp only [List.mem_cons, List.not_mem_nil, or_false] at hp
  subst hp
  exact ⟨c!"CVSS:4.0", rfl, by decide⟩

/-! ### `parse` = `parse_vector` then `check_mandatory`, per version -/

theorem v2_parse_eq_ok (s : Str) (m : MMap) :
    V2.parse s = .ok m ↔
      parseNoPrefix V2.tables s = .ok m ∧ ∀ k ∈ V2.tables.mandatory, k ∈ keys m := by
  unfold V2.parse
  cases hf : parseNoPrefix V2.tables s with
  | error e => simp
  | ok m' =>
    simp only
    cases hc : checkMandatory V2.tables m' with
    | error e =>
      simp only
      constructor
      · intro h; cases h
      · rintro ⟨h1, h2⟩
        cases h1
        rw [(checkMandatory_ok_iff _ _).2 h2] at hc
        cases hc
    | ok u =>
      simp only
      constructor
      · intro h; cases h
        exact ⟨rfl, (checkMandatory_ok_iff _ _).1 hc⟩
      · rintro ⟨h1, -⟩; exact h1

theorem v2_parse_eq_error (s : Str) (e : Err) :
    V2.parse s = .error e ↔
      parseNoPrefix V2.tables s = .error e ∨
        ∃ m, parseNoPrefix V2.tables s = .ok m ∧ e = .mandatory ∧
          ∃ k ∈ V2.tables.mandatory, k ∉ keys m := by
  unfold V2.parse
  cases hf : parseNoPrefix V2.tables s with
  | error e' => simp
  | ok m' =>
    simp only
    cases hc : checkMandatory V2.tables m' with
    | error e' =>
      simp only
      obtain ⟨rfl, hk⟩ := (checkMandatory_error_iff _ _ _).1 hc
      constructor
      · intro h; cases h
        exact Or.inr ⟨m', rfl, rfl, hk⟩
      · rintro (h | ⟨m, h1, rfl, -⟩)
        · cases h
        · rfl
    | ok u =>
      simp only
      constructor
      · intro h; cases h
      · rintro (h | ⟨m, h1, rfl, hk⟩)
        · cases h
        · cases h1
          obtain ⟨k, hk1, hk2⟩ := hk
          exact absurd ((checkMandatory_ok_iff _ _).1 hc k hk1) hk2

theorem v3_parse_eq_ok (s : Str) (i : Nat) (m : MMap) :
    V3.parse s = .ok (i, m) ↔
      parseWithPrefix V3.tables V3.prefixes s = .ok (i, m) ∧ ∀ k ∈ V3.tables.mandatory, k ∈ keys m := by
  unfold V3.parse
  cases hf : parseWithPrefix V3.tables V3.prefixes s with
  | error e => simp
  | ok r =>
    obtain ⟨j, m'⟩ := r
    simp only
    cases hc : checkMandatory V3.tables m' with
    | error e =>
      simp only
      constructor
      · intro h; cases h
      · rintro ⟨h1, h2⟩
        cases h1
        rw [(checkMandatory_ok_iff _ _).2 h2] at hc
        cases hc
    | ok u =>
      simp only
      constructor
      · intro h; cases h
        exact ⟨rfl, (checkMandatory_ok_iff _ _).1 hc⟩
      · rintro ⟨h1, -⟩; exact h1

theorem v3_parse_eq_error (s : Str) (e : Err) :
    V3.parse s = .error e ↔
      parseWithPrefix V3.tables V3.prefixes s = .error e ∨
        ∃ i m, parseWithPrefix V3.tables V3.prefixes s = .ok (i, m) ∧ e = .mandatory ∧
          ∃ k ∈ V3.tables.mandatory, k ∉ keys m := by
  unfold V3.parse
  cases hf : parseWithPrefix V3.tables V3.prefixes s with
  | error e' => simp
  | ok r =>
    obtain ⟨j, m'⟩ := r
    simp only
    cases hc : checkMandatory V3.tables m' with
    | error e' =>
      simp only
      obtain ⟨rfl, hk⟩ := (checkMandatory_error_iff _ _ _).1 hc
      constructor
      · intro h; cases h
        exact Or.inr ⟨j, m', rfl, rfl, hk⟩
      · rintro (h | ⟨i, m, h1, rfl, -⟩)
        · cases h
        · rfl
    | ok u =>
      simp only
      constructor
      · intro h; cases h
      · rintro (h | ⟨i, m, h1, rfl, hk⟩)
        · cases h
        · cases h1
          obtain ⟨k, hk1, hk2⟩ := hk
          exact absurd ((checkMandatory_ok_iff _ _).1 hc k hk1) hk2

theorem v4_parse_eq_ok (s : Str) (m : MMap) :
    V4.parse s = .ok m ↔
      (∃ i, parseWithPrefix V4.tables [V4.pfx] s = .ok (i, m)) ∧
        ∀ k ∈ V4.tables.mandatory, k ∈ keys m := by
  unfold V4.parse
  cases hf : parseWithPrefix V4.tables [V4.pfx] s with
  | error e => simp
  | ok r =>
    obtain ⟨j, m'⟩ := r
    simp only
    cases hc : checkMandatory V4.tables m' with
    | error e =>
      simp only
      constructor
      · intro h; cases h
      · rintro ⟨⟨i, h1⟩, h2⟩
        cases h1
        rw [(checkMandatory_ok_iff _ _).2 h2] at hc
        cases hc
    | ok u =>
      simp only
      constructor
      · intro h; cases h
        exact ⟨⟨j, rfl⟩, (checkMandatory_ok_iff _ _).1 hc⟩
      · rintro ⟨⟨i, h1⟩, -⟩; cases h1; rfl

theorem v4_parse_eq_error (s : Str) (e : Err) :
    V4.parse s = .error e ↔
      parseWithPrefix V4.tables [V4.pfx] s = .error e ∨
        ∃ i m, parseWithPrefix V4.tables [V4.pfx] s = .ok (i, m) ∧ e = .mandatory ∧
          ∃ k ∈ V4.tables.mandatory, k ∉ keys m := by
  unfold V4.parse
  cases hf : parseWithPrefix V4.tables [V4.pfx] s with
  | error e' => simp
  | ok r =>
    obtain ⟨j, m'⟩ := r
    simp only
    cases hc : checkMandatory V4.tables m' with
    | error e' =>
      simp only
      obtain ⟨rfl, hk⟩ := (checkMandatory_error_iff _ _ _).1 hc
      constructor
      · intro h; cases h
        exact Or.inr ⟨j, m', rfl, rfl, hk⟩
      · rintro (h | ⟨i, m, h1, rfl, -⟩)
        · cases h
        · rfl
    | ok u =>
      simp only
      constructor
      · intro h; cases h
      · rintro (h | ⟨i, m, h1, rfl, hk⟩)
        · cases h
        · cases h1
          obtain ⟨k, hk1, hk2⟩ := hk
          exact absurd ((checkMandatory_ok_iff _ _).1 hc k hk1) hk2

/-! ### shape of the parsed map, and rendering then parsing -/

/-- the parsed map is the list of (metric, value) pairs of the fields, in input order:
    (used by C05/C07) the v3 minor version is the index of the prefix -/
theorem v2_parse_ok_fields (s : Str) (m : MMap) (h : V2.parse s = .ok m) :
    s = join '/' (m.map fieldOf) ∧ m ≠ [] ∧ (∀ kv ∈ m, LegalPair V2.tables kv) ∧ (keys m).Nodup ∧
      ∀ k ∈ V2.tables.mandatory, k ∈ keys m := by
  obtain ⟨hf, hm⟩ := (v2_parse_eq_ok s m).1 h
  obtain ⟨h1, h2, h3, h4⟩ := parseNoPrefix_ok_of _ pinned2.wf s m hf
  exact ⟨h1, h2, h3, h4, hm⟩

theorem v3_parse_ok_fields (s : Str) (i : Nat) (m : MMap) (h : V3.parse s = .ok (i, m)) :
    (∃ p, V3.prefixes[i]? = some p ∧ s = p ++ join '/' (m.map fieldOf)) ∧ m ≠ [] ∧
      (∀ kv ∈ m, LegalPair V3.tables kv) ∧ (keys m).Nodup ∧ ∀ k ∈ V3.tables.mandatory, k ∈ keys m := by
  obtain ⟨hf, hm⟩ := (v3_parse_eq_ok s i m).1 h
  obtain ⟨h1, h2, h3, h4⟩ := parseWithPrefix_ok_of _ pinned3.wf _ pfxOk3.1 s i m hf
  exact ⟨h1, h2, h3, h4, hm⟩

theorem v4_parse_ok_fields (s : Str) (m : MMap) (h : V4.parse s = .ok m) :
    s = V4.pfx ++ join '/' (m.map fieldOf) ∧ m ≠ [] ∧ (∀ kv ∈ m, LegalPair V4.tables kv) ∧ (keys m).Nodup ∧
      ∀ k ∈ V4.tables.mandatory, k ∈ keys m := by
  obtain ⟨⟨i, hf⟩, hm⟩ := (v4_parse_eq_ok s m).1 h
  obtain ⟨⟨p, hp, hs⟩, h2, h3, h4⟩ := parseWithPrefix_ok_of _ pinned4.wf _ pfxOk4.1 s i m hf
  have hp' : p = V4.pfx := by
    have := List.mem_of_getElem? hp
    simpa using this
  subst hp'
  exact ⟨hs, h2, h3, h4, hm⟩

/-- converse: a map with legal, '/'-free, distinct pairs covering the mandatory metrics is what
    parsing its rendering returns (any order of the pairs) -/
theorem v2_parse_render (m : MMap) (hne : m ≠ []) (hl : ∀ kv ∈ m, LegalPair V2.tables kv)
    (hs : ∀ kv ∈ m, '/' ∉ kv.1 ∧ '/' ∉ kv.2) (hn : (keys m).Nodup) (hm : ∀ k ∈ V2.tables.mandatory, k ∈ keys m) :
    V2.parse (join '/' (m.map fieldOf)) = .ok m :=
  (v2_parse_eq_ok _ m).2 ⟨parseNoPrefix_ok _ pinned2.wf m hne hl hs hn, hm⟩

theorem v3_parse_render (i : Nat) (p : Str) (hp : V3.prefixes[i]? = some p) (m : MMap) (hne : m ≠ [])
    (hl : ∀ kv ∈ m, LegalPair V3.tables kv) (hs : ∀ kv ∈ m, '/' ∉ kv.1 ∧ '/' ∉ kv.2) (hn : (keys m).Nodup)
    (hm : ∀ k ∈ V3.tables.mandatory, k ∈ keys m) :
    V3.parse (p ++ join '/' (m.map fieldOf)) = .ok (i, m) :=
  (v3_parse_eq_ok _ i m).2 ⟨parseWithPrefix_ok _ pinned3.wf _ pfxOk3 i p hp m hne hl hs hn, hm⟩

theorem v4_parse_render (m : MMap) (hne : m ≠ []) (hl : ∀ kv ∈ m, LegalPair V4.tables kv)
    (hs : ∀ kv ∈ m, '/' ∉ kv.1 ∧ '/' ∉ kv.2) (hn : (keys m).Nodup) (hm : ∀ k ∈ V4.tables.mandatory, k ∈ keys m) :
    V4.parse (V4.pfx ++ join '/' (m.map fieldOf)) = .ok m :=
  (v4_parse_eq_ok _ m).2
    ⟨⟨0, parseWithPrefix_ok _ pinned4.wf _ pfxOk4 0 V4.pfx rfl m hne hl hs hn⟩, hm⟩

/-! ### acceptance of `parse_vector` + `check_mandatory` is exactly the grammar -/

/-- v2: parsing succeeds exactly on the strings of the v2 grammar -/
theorem v2_parse_ok_iff (s : Str) : (∃ m, V2.parse s = .ok m) ↔ Accepts g2 s := by
  rw [pinned2.accepts_iff]
  constructor
  · rintro ⟨m, h⟩
    obtain ⟨h1, h2, h3, h4, h5⟩ := v2_parse_ok_fields s m h
    exact ⟨[], by simp [g2], m, by simpa using h1, h2, h3, h4, h5⟩
  · rintro ⟨p, hp, mm, rfl, hne, hl, hn, hm⟩
    have hp' : p = [] := by simpa [g2] using hp
    subst hp'
    exact ⟨mm, v2_parse_render mm hne hl (fun kv hkv => pinned2.slashFree (hl kv hkv)) hn hm⟩

/-- v2: the mandatory-metric error is raised exactly for well-formed vectors lacking a mandatory metric -/
theorem v2_parse_mandatory_iff (s : Str) : V2.parse s = .error .mandatory ↔ LacksMandatory g2 s := by
  rw [pinned2.lacks_iff, v2_parse_eq_error]
  constructor
  · rintro (h | ⟨m, hf, -, hk⟩)
    · cases parseNoPrefix_error _ pinned2.wf _ _ h
    · obtain ⟨h1, h2, h3, h4⟩ := parseNoPrefix_ok_of _ pinned2.wf s m hf
      exact ⟨[], by simp [g2], m, by simpa using h1, h2, h3, h4, hk⟩
  · rintro ⟨p, hp, mm, rfl, hne, hl, hn, hk⟩
    have hp' : p = [] := by simpa [g2] using hp
    subst hp'
    refine Or.inr ⟨mm, ?_, rfl, hk⟩
    exact parseNoPrefix_ok _ pinned2.wf mm hne hl (fun kv hkv => pinned2.slashFree (hl kv hkv)) hn

/-- v2: every other string raises the malformed-vector error; nothing else can come out of parsing -/
theorem v2_parse_error (s : Str) (e : Err) (h : V2.parse s = .error e) : e = .malformed ∨ e = .mandatory := by
  rcases (v2_parse_eq_error s e).1 h with h | ⟨m, -, rfl, -⟩
  · exact Or.inl (parseNoPrefix_error _ pinned2.wf _ _ h)
  · exact Or.inr rfl

theorem v3_parse_ok_iff (s : Str) : (∃ r, V3.parse s = .ok r) ↔ Accepts g3 s := by
  rw [pinned3.accepts_iff]
  constructor
  · rintro ⟨⟨i, m⟩, h⟩
    obtain ⟨⟨p, hp, h1⟩, h2, h3, h4, h5⟩ := v3_parse_ok_fields s i m h
    exact ⟨p, List.mem_of_getElem? hp, m, h1, h2, h3, h4, h5⟩
  · rintro ⟨p, hp, mm, rfl, hne, hl, hn, hm⟩
    obtain ⟨i, hi⟩ := List.mem_iff_getElem?.1 hp
    exact ⟨(i, mm), v3_parse_render i p hi mm hne hl
      (fun kv hkv => pinned3.slashFree (hl kv hkv)) hn hm⟩

theorem v3_parse_mandatory_iff (s : Str) : V3.parse s = .error .mandatory ↔ LacksMandatory g3 s := by
  rw [pinned3.lacks_iff, v3_parse_eq_error]
  constructor
  · rintro (h | ⟨i, m, hf, -, hk⟩)
    · cases parseWithPrefix_error _ pinned3.wf _ _ _ h
    · obtain ⟨⟨p, hp, h1⟩, h2, h3, h4⟩ := parseWithPrefix_ok_of _ pinned3.wf _ pfxOk3.1 s i m hf
      exact ⟨p, List.mem_of_getElem? hp, m, h1, h2, h3, h4, hk⟩
  · rintro ⟨p, hp, mm, rfl, hne, hl, hn, hk⟩
    obtain ⟨i, hi⟩ := List.mem_iff_getElem?.1 hp
    refine Or.inr ⟨i, mm, ?_, rfl, hk⟩
    exact parseWithPrefix_ok _ pinned3.wf _ pfxOk3 i p hi mm hne hl
      (fun kv hkv => pinned3.slashFree (hl kv hkv)) hn

theorem v3_parse_error (s : Str) (e : Err) (h : V3.parse s = .error e) : e = .malformed ∨ e = .mandatory := by
  rcases (v3_parse_eq_error s e).1 h with h | ⟨i, m, -, rfl, -⟩
  · exact Or.inl (parseWithPrefix_error _ pinned3.wf _ _ _ h)
  · exact Or.inr rfl

theorem v4_parse_ok_iff (s : Str) : (∃ m, V4.parse s = .ok m) ↔ Accepts g4 s := by
  rw [pinned4.accepts_iff]
  constructor
  · rintro ⟨m, h⟩
    obtain ⟨h1, h2, h3, h4, h5⟩ := v4_parse_ok_fields s m h
    exact ⟨V4.pfx, by simp [g4, V4.pfx], m, h1, h2, h3, h4, h5⟩
  · rintro ⟨p, hp, mm, rfl, hne, hl, hn, hm⟩
    have hp' : p = V4.pfx := by simpa [g4, V4.pfx] using hp
    subst hp'
    exact ⟨mm, v4_parse_render mm hne hl (fun kv hkv => pinned4.slashFree (hl kv hkv)) hn hm⟩

theorem v4_parse_mandatory_iff (s : Str) : V4.parse s = .error .mandatory ↔ LacksMandatory g4 s := by
  rw [pinned4.lacks_iff, v4_parse_eq_error]
  constructor
  · rintro (h | ⟨i, m, hf, -, hk⟩)
    · cases parseWithPrefix_error _ pinned4.wf _ _ _ h
    · obtain ⟨⟨p, hp, h1⟩, h2, h3, h4⟩ := parseWithPrefix_ok_of _ pinned4.wf _ pfxOk4.1 s i m hf
      exact ⟨p, List.mem_of_getElem? hp, m, h1, h2, h3, h4, hk⟩
  · rintro ⟨p, hp, mm, rfl, hne, hl, hn, hk⟩
    obtain ⟨i, hi⟩ := List.mem_iff_getElem?.1 hp
    refine Or.inr ⟨i, mm, ?_, rfl, hk⟩
    exact parseWithPrefix_ok _ pinned4.wf _ pfxOk4 i p hi mm hne hl
      (fun kv hkv => pinned4.slashFree (hl kv hkv)) hn

theorem v4_parse_error (s : Str) (e : Err) (h : V4.parse s = .error e) : e = .malformed ∨ e = .mandatory := by
  rcases (v4_parse_eq_error s e).1 h with h | ⟨i, m, -, rfl, -⟩
  · exact Or.inl (parseWithPrefix_error _ pinned4.wf _ _ _ h)
  · exact Or.inr rfl

/-- non-vacuity: a concrete vector of each version is accepted -/
example : (match V2.parse c!"AV:N/AC:L/Au:N/C:P/I:P/A:P" with | .ok _ => true | .error _ => false) = true := by decide +kernel
example : (match V3.parse c!"CVSS:3.1/AV:N/AC:L/PR:N/UI:N/S:U/C:H/I:H/A:H" with | .ok _ => true | .error _ => false) = true := by decide +kernel
example : (match V4.parse c!"CVSS:4.0/AV:N/AC:L/AT:N/PR:N/UI:N/VC:H/VI:H/VA:H/SC:H/SI:H/SA:H" with | .ok _ => true | .error _ => false) = true := by decide +kernel

end Cvss.Props.C04
