/-
  C04 — vector acceptance is exactly the version's grammar; errors follow the taxonomy.
-/
import Cvss.Model.Any
import Cvss.Spec.Grammar
import Cvss.Gen.Exc
namespace Cvss.Props.C04
open Cvss Cvss.Model

def sameSet (a b : List Str) : Bool := a.all (· ∈ b) && b.all (· ∈ a) && a.length == b.length

/-- the tables the parser consults describe the specification's vocabulary:
    same metrics in the same order, the same legal values per metric, same mandatory metrics -/
def vocabPinned (T : Tables) (g : Spec.Grammar.G) : Bool :=
  T.abbrs == keys g.vocab &&
  g.vocab.all (fun (m, vs) => match lookup m T.legal with
    | some ws => sameSet vs ws
    | none => false) &&
  (keys T.legal).all (fun m => m ∈ keys g.vocab) &&
  T.mandatory == g.mandatory

theorem vocab_pinned_v2 : vocabPinned V2.tables Spec.Grammar.g2 = true := by decide +kernel
theorem vocab_pinned_v3 : vocabPinned V3.tables Spec.Grammar.g3 = true := by decide +kernel
theorem vocab_pinned_v4 : vocabPinned V4.tables Spec.Grammar.g4 = true := by decide +kernel

/-- no metric or value token contains a separator, and none is empty -/
def tokensClean (g : Spec.Grammar.G) : Bool :=
  g.vocab.all (fun (m, vs) => m ≠ [] && !m.contains '/' && !m.contains ':' &&
    vs.all (fun v => v ≠ [] && !v.contains '/' && !v.contains ':'))

theorem tokens_clean : tokensClean Spec.Grammar.g2 = true ∧ tokensClean Spec.Grammar.g3 = true ∧
    tokensClean Spec.Grammar.g4 = true := by decide +kernel

/-- exception taxonomy: every class the constructors raise is under its version's base class, which is
    under `CVSSError` -/
def under (cls anc : Str) : Bool :=
  match lookup cls Gen.Exc.ancestors with
  | some as => as.contains anc
  | none => false

theorem taxonomy :
    ([c!"CVSS2", c!"CVSS3", c!"CVSS4"].all fun v =>
      ([c!"MalformedError", c!"MandatoryError", c!"RHMalformedError", c!"RHScoreDoesNotMatch"].all fun k =>
        under (v ++ k) (v ++ c!"Error") && under (v ++ k) c!"CVSSError") &&
      under (v ++ c!"Error") c!"CVSSError") = true := by decide +kernel

end Cvss.Props.C04
