/-
  C10 — JSON output validates against the official FIRST JSON schema.
-/
import Cvss.Model.Json
import Cvss.Spec.SchemaTerms
import Cvss.Props.C08
import Cvss.Props.C11
import Cvss.Lemmas.Construct
import Cvss.Lemmas.SchemaValid
namespace Cvss.Props.C10
open Cvss Cvss.Model Cvss.Spec Cvss.Lemmas.SchemaValid

/-- every metric field the serialiser can emit — the JSON key of a metric with the upper-snake name
    of any of its values — satisfies the schema's constraint for that key -/
def metricFieldsOk (sch : Schema.Schema) (jsonKeys : List (Str × Str)) (names : List (Str × List (Str × Str)))
    (usf : Str → Str) : Bool :=
  names.all (fun (m, row) => match lookup m jsonKeys with
    | none => false
    | some k => match lookup k sch.props with
      | none => false       -- the schema has no such property: the field would not be validated at all
      | some c => row.all (fun (_, d) => Schema.okConstraint c (.str (usf d))))

theorem v2_metric_fields_ok : metricFieldsOk Schema.schema20 Gen.V2.jsonKeys Gen.V2.valueNames us2 = true := by
  decide +kernel
theorem v30_metric_fields_ok : metricFieldsOk Schema.schema30 Gen.V3.jsonKeys Gen.V3.valueNames us3 = true := by
  decide +kernel
theorem v31_metric_fields_ok : metricFieldsOk Schema.schema31 Gen.V3.jsonKeys Gen.V3.valueNames us3 = true := by
  decide +kernel

/-- every one-decimal score in [0,10] and every rating passes the score / severity constraints -/
def scoresOk (sch : Schema.Schema) (scoreKeys sevKeys : List Str) (ratings : List Str) : Bool :=
  scoreKeys.all (fun k => match lookup k sch.props with
    | none => false
    | some c => (List.range 101).all (fun t => Schema.okConstraint c (.num ((t : Rat) / 10)))) &&
  sevKeys.all (fun k => match lookup k sch.props with
    | none => false
    | some c => ratings.all (fun r => Schema.okConstraint c (.str (us3 r))))

theorem scores_ok :
    scoresOk Schema.schema20 [c!"baseScore", c!"temporalScore", c!"environmentalScore"] [] [] = true ∧
    scoresOk Schema.schema30 [c!"baseScore", c!"temporalScore", c!"environmentalScore"]
      [c!"baseSeverity", c!"temporalSeverity", c!"environmentalSeverity"]
      [c!"None", c!"Low", c!"Medium", c!"High", c!"Critical"] = true ∧
    scoresOk Schema.schema31 [c!"baseScore", c!"temporalScore", c!"environmentalScore"]
      [c!"baseSeverity", c!"temporalSeverity", c!"environmentalSeverity"]
      [c!"None", c!"Low", c!"Medium", c!"High", c!"Critical"] = true := by
  decide +kernel

/-- v4.0: the property is FALSE on the unchanged tree.  Witness: the JSON of the simplest vector
    fails the official schema at `version` (enum ["4.0"]) and at the baseScore/baseSeverity band. -/
def v4Witness : Str := c!"CVSS:4.0/AV:N/AC:L/AT:N/PR:N/UI:N/VC:H/VI:H/VA:H/SC:H/SI:H/SA:H"

theorem json_v4_invalid_witness :
    (match V4.construct v4Witness with
     | .ok o => (asJson4 o false false).map (Schema.failures Schema.schema40)
     | .error _ => none) = some [c!"version", c!"baseScore/baseSeverity:anyOf"] := by
  decide +kernel

/-! ### helpers: reading the Boolean facts above at one key -/

section helpers
open Cvss.Lemmas.V2 (lookup_map_keys lookup_of_mem_keys)

theorem metric_ok {sch : Schema.Schema} {jsonKeys : List (Str × Str)} {names : List (Str × List (Str × Str))}
    {usf : Str → Str} (h : metricFieldsOk sch jsonKeys names usf = true)
    {m : Str} {row : List (Str × Str)} {t d : Str}
    (hrow : lookup m names = some row) (hd : lookup t row = some d) :
    ∃ k, lookup m jsonKeys = some k ∧ propOk sch k (.str (usf d)) = true := by
  have h1 := List.all_eq_true.1 h (m, row) (mem_of_lookup_eq_some _ _ _ hrow)
  simp only at h1
  cases hk : lookup m jsonKeys with
  | none => simp [hk] at h1
  | some k =>
    rw [hk] at h1
    simp only at h1
    refine ⟨k, rfl, ?_⟩
    unfold propOk
    cases hc : lookup k sch.props with
    | none => simp [hc] at h1
    | some c =>
      rw [hc] at h1
      simp only at h1
      exact List.all_eq_true.1 h1 (t, d) (mem_of_lookup_eq_some _ _ _ hd)

theorem score_ok {sch : Schema.Schema} {scoreKeys sevKeys ratings : List Str}
    (h : scoresOk sch scoreKeys sevKeys ratings = true) {k : Str} (hk : k ∈ scoreKeys) {x : Rat}
    (hx : ∃ n : Nat, n ≤ 100 ∧ x = (n : Rat) / 10) : propOk sch k (.num x) = true := by
  unfold scoresOk at h
  rw [Bool.and_eq_true] at h
  have h1 := List.all_eq_true.1 h.1 k hk
  obtain ⟨n, hn, rfl⟩ := hx
  unfold propOk
  cases hc : lookup k sch.props with
  | none => rfl
  | some c =>
    rw [hc] at h1
    simp only at h1
    exact List.all_eq_true.1 h1 n (List.mem_range.2 (by omega))

theorem sev_ok {sch : Schema.Schema} {scoreKeys sevKeys ratings : List Str}
    (h : scoresOk sch scoreKeys sevKeys ratings = true) {k : Str} (hk : k ∈ sevKeys) {r : Str}
    (hr : r ∈ ratings) : propOk sch k (.str (us3 r)) = true := by
  unfold scoresOk at h
  rw [Bool.and_eq_true] at h
  have h1 := List.all_eq_true.1 h.2 k hk
  unfold propOk
  cases hc : lookup k sch.props with
  | none => rfl
  | some c =>
    rw [hc] at h1
    simp only at h1
    exact List.all_eq_true.1 h1 r hr

/-- a legal token of a metric has a description in the metric's row of value names -/
theorem descr_of_legal {names : List (Str × List (Str × Str))} {legal : List (Str × List Str)}
    (hnl : names.map (fun (k, row) => (k, keys row)) = legal) {k t : Str}
    (ht : t ∈ (lookup k legal).getD []) :
    ∃ row d, lookup k names = some row ∧ lookup t row = some d := by
  rw [← hnl, lookup_map_keys] at ht
  cases hrow : lookup k names with
  | none => simp [hrow] at ht
  | some row =>
    rw [hrow] at ht
    simp only [Option.map_some, Option.getD_some] at ht
    obtain ⟨d, hd⟩ := lookup_of_mem_keys ht
    exact ⟨row, d, rfl, hd⟩

/-- every legal token of every metric has a description in the metric's row of value names.
    (Look-ups only: `METRICS_VALUE_NAMES` and `METRICS_VALUES` are separate Python dicts, and neither the
    order of their entries nor the order of the tokens inside a row has to agree.) -/
def namesCover (names : List (Str × List (Str × Str))) (legal : List (Str × List Str)) : Bool :=
  legal.all fun p => match lookup p.1 names with
    | some row => p.2.all fun t => (lookup t row).isSome
    | none => false

theorem descr_of_cover {names : List (Str × List (Str × Str))} {legal : List (Str × List Str)}
    (hc : namesCover names legal = true) {k t : Str}
    (ht : t ∈ (lookup k legal).getD []) :
    ∃ row d, lookup k names = some row ∧ lookup t row = some d := by
  cases hl : lookup k legal with
  | none => simp [hl] at ht
  | some ts =>
    rw [hl] at ht
    simp only [Option.getD_some] at ht
    have h := List.all_eq_true.1 hc (k, ts) (Cvss.Lemmas.V2.lookup_mem hl)
    simp only at h
    cases hrow : lookup k names with
    | none => rw [hrow] at h; cases h
    | some row =>
      rw [hrow] at h
      have h' := List.all_eq_true.1 h t ht
      cases hd : lookup t row with
      | none => rw [hd] at h'; cases h'
      | some d => exact ⟨row, d, rfl, hd⟩

/-! #### v2 -/

theorem names_legal2 : namesCover Gen.V2.valueNames V2.tables.legal = true := by
  decide +kernel

/-- every optional v2 metric has the value ND -/
theorem optional_nd2 : ∀ k ∈ keys Gen.V2.abbrs,
    k ∈ V2.tables.mandatory ∨ Model.V2.ND ∈ (lookup k V2.tables.legal).getD [] := by
  decide +kernel

theorem legal_tok2 {m : MMap} (hv : C03.ValidMap m) {k : Str} (hk : k ∈ keys Gen.V2.abbrs) :
    (lookup k m).getD Model.V2.ND ∈ (lookup k V2.tables.legal).getD [] := by
  cases hl : lookup k m with
  | some v =>
    obtain ⟨vs, h1, h2⟩ := hv.1 k v hl
    simpa [h1] using h2
  | none =>
    rcases optional_nd2 k hk with h | h
    · have := hv.2 k h
      rw [hl] at this
      exact absurd this (by simp)
    · simpa using h

/-- the guide's table has the same value tokens as the library's -/
theorem spec_rows2 : ∀ p ∈ Spec.V2.weights,
    p.1 ∈ keys Gen.V2.abbrs ∧ ∀ t ∈ (lookup p.1 V2.tables.legal).getD [], (lookup t p.2).isSome := by
  decide +kernel

theorem legalAssignment2 {m : MMap} (hv : C03.ValidMap m) : C03.LegalAssignment (assignment Model.V2.ND m) := by
  intro p hp
  obtain ⟨h1, h2⟩ := spec_rows2 p hp
  exact h2 _ (legal_tok2 hv h1)

theorem v2_field_ok {m : MMap} (hv : C03.ValidMap m) {k : Str} (hk : k ∈ keys Gen.V2.abbrs) :
    ∃ key d, lookup k Gen.V2.jsonKeys = some key ∧ V2.getDescription m k = some d ∧
      propOk Schema.schema20 key (.str (us2 d)) = true := by
  obtain ⟨row, d, hrow, hd⟩ := descr_of_cover names_legal2 (legal_tok2 hv hk)
  obtain ⟨key, h1, h2⟩ := metric_ok v2_metric_fields_ok hrow hd
  refine ⟨key, d, h1, ?_, h2⟩
  unfold V2.getDescription
  rw [hrow]
  exact hd

theorem groups2_sub : ∀ k, (k ∈ Gen.V2.mandatory ∨ k ∈ Gen.V2.temporal ∨ k ∈ Gen.V2.environmental) →
    k ∈ keys Gen.V2.abbrs := by
  intro k hk
  have : ∀ k ∈ Gen.V2.mandatory ++ Gen.V2.temporal ++ Gen.V2.environmental, k ∈ keys Gen.V2.abbrs := by
    decide +kernel
  apply this
  simp only [List.mem_append]
  tauto

theorem props_nodup : (keys Schema.schema20.props).Nodup ∧ (keys Schema.schema30.props).Nodup ∧
    (keys Schema.schema31.props).Nodup := by decide +kernel

theorem version_ok : propOk Schema.schema20 c!"version" (.str c!"2.0") = true ∧
    propOk Schema.schema30 c!"version" (.str (c!"3." ++ natToStr 0)) = true ∧
    propOk Schema.schema31 c!"version" (.str (c!"3." ++ natToStr 1)) = true := by decide +kernel

theorem vector_ok20 (s : Str) (h : Grammar.Accepts Grammar.g2 s) :
    propOk Schema.schema20 c!"vectorString" (.str s) = true := by
  have e : lookup c!"vectorString" Schema.schema20.props = some (.pattern Regex.pattern20) := by rfl
  unfold propOk
  rw [e]
  exact (C08.fullMatch_iff _ _).2 (C08.v2_accepted_matches s h)

theorem vector_ok30 (s : Str) (h : Grammar.Accepts Grammar.g3 s) (hp : c!"CVSS:3.0/" <+: s) :
    propOk Schema.schema30 c!"vectorString" (.str s) = true := by
  have e : lookup c!"vectorString" Schema.schema30.props = some (.pattern Regex.pattern30) := by rfl
  unfold propOk
  rw [e]
  exact (C08.fullMatch_iff _ _).2 (C08.v30_accepted_matches s h hp)

theorem vector_ok31 (s : Str) (h : Grammar.Accepts Grammar.g3 s) (hp : c!"CVSS:3.1/" <+: s) :
    propOk Schema.schema31 c!"vectorString" (.str s) = true := by
  have e : lookup c!"vectorString" Schema.schema31.props = some (.pattern Regex.pattern31) := by rfl
  unfold propOk
  rw [e]
  exact (C08.fullMatch_iff _ _).2 (C08.v31_accepted_matches s h hp)

theorem isScore_getD {t : Option Rat} (h : ∀ x, t = some x → C03.IsScore x) : C03.IsScore (t.getD 0) := by
  cases t with
  | none => exact ⟨0, by omega, by simp⟩
  | some x => exact h x rfl

/-! #### v3 -/

theorem names_legal3 : namesCover Gen.V3.valueNames V3.tables.legal = true := by
  decide +kernel

theorem kinds3 : ∀ k ∈ keys Gen.V3.abbrs,
    k ∈ V3.modifiedMetrics ∨ k ∈ V3.tables.mandatory ∨ C01.legalTok k Model.V3.X := by
  decide +kernel

/-- every value the filled-in dict `self.metrics` holds (or X for an absent metric) is a legal token -/
theorem legal_tok3 {m full : MMap} (hv : C01.ValidMap m) (hf : C01.Filled m full) {k : Str}
    (hk : k ∈ keys Gen.V3.abbrs) : C01.legalTok k ((lookup k full).getD Model.V3.X) := by
  by_cases hmod : k ∈ V3.modifiedMetrics
  · rw [C01.sv_mod hf hmod]
    exact (C01.legal_eff hv hmod).1
  · rw [C01.sv_base hf hmod]
    rcases kinds3 k hk with h | h | h
    · exact absurd h hmod
    · exact C01.legal_mandatory hv h
    · exact C01.legal_optional hv h

theorem groups3_sub : ∀ k, (k ∈ Gen.V3.mandatory ∨ k ∈ Gen.V3.temporal ∨ k ∈ Gen.V3.environmental) →
    k ∈ keys Gen.V3.abbrs := by
  intro k hk
  have : ∀ k ∈ Gen.V3.mandatory ++ Gen.V3.temporal ++ Gen.V3.environmental, k ∈ keys Gen.V3.abbrs := by
    decide +kernel
  apply this
  simp only [List.mem_append]
  tauto

theorem sevOf_mem (x : Rat) : V3.sevOf x ∈ [c!"None", c!"Low", c!"Medium", c!"High", c!"Critical"] := by
  unfold V3.sevOf
  repeat' split
  all_goals simp

/-- the v3 output is valid for any schema that passes the finite checks of this file -/
theorem v3_valid_aux (sch : Schema.Schema) (o : V3.Obj) (sort minimal : Bool)
    (hmf : metricFieldsOk sch Gen.V3.jsonKeys Gen.V3.valueNames us3 = true)
    (hsc : scoresOk sch [c!"baseScore", c!"temporalScore", c!"environmentalScore"]
      [c!"baseSeverity", c!"temporalSeverity", c!"environmentalSeverity"]
      [c!"None", c!"Low", c!"Medium", c!"High", c!"Critical"] = true)
    (hver : propOk sch c!"version" (.str (c!"3." ++ natToStr o.minor)) = true)
    (hvec : propOk sch c!"vectorString" (.str o.vector) = true)
    (hreq : sch.required = [c!"version", c!"vectorString", c!"baseScore", c!"baseSeverity"])
    (hn : (keys sch.props).Nodup) (hb : sch.bands = [])
    (hdescr : ∀ k ∈ keys Gen.V3.abbrs, C01.legalTok k ((lookup k o.metrics).getD Model.V3.X))
    (hs : C01.IsScore o.base ∧ C01.IsScore o.temporal ∧ C01.IsScore o.env) :
    ∃ j, asJson3 o sort minimal = some j ∧ Schema.failures sch j = [] := by
  rw [asJson3_eq]
  apply runBlocks_valid
  · show (keys (C11.d0_3 o) ++ (C11.blocks3 o _ _).flatMap (blockKeys Gen.V3.jsonKeys)).Nodup
    rw [C11.K3_all]
    exact C11.K3_nodup
  · intro b hb k hk
    have hmem : k ∈ keys Gen.V3.abbrs := by
      apply groups3_sub
      simp only [List.mem_cons, List.not_mem_nil, or_false] at hb
      rcases hb with rfl | rfl | rfl
      · exact Or.inl hk
      · exact Or.inr (Or.inl hk)
      · exact Or.inr (Or.inr hk)
    obtain ⟨row, d, hrow, hd⟩ := descr_of_cover names_legal3 (hdescr k hmem)
    obtain ⟨key, h1, h2⟩ := metric_ok hmf hrow hd
    refine ⟨key, d, h1, ?_, h2⟩
    unfold V3.getDescription
    rw [hrow]
    exact hd
  · intro kv hkv
    simp only [List.mem_cons, List.not_mem_nil, or_false] at hkv
    rcases hkv with rfl | rfl
    · exact hver
    · exact hvec
  · intro b hb kv hkv
    simp only [List.mem_cons, List.not_mem_nil, or_false] at hb
    rcases hb with rfl | rfl | rfl <;>
      simp only [List.mem_cons, List.not_mem_nil, or_false] at hkv <;>
      rcases hkv with rfl | rfl
    · exact score_ok hsc (by simp) hs.1
    · exact sev_ok hsc (by simp) (sevOf_mem _)
    · exact score_ok hsc (by simp) hs.2.1
    · exact sev_ok hsc (by simp) (sevOf_mem _)
    · exact score_ok hsc (by simp) hs.2.2
    · exact sev_ok hsc (by simp) (sevOf_mem _)
  · intro k hk
    rw [hreq] at hk
    simp only [List.mem_cons, List.not_mem_nil, or_false] at hk
    rcases hk with rfl | rfl | rfl | rfl
    · exact Or.inl (by simp [keys])
    · exact Or.inl (by simp [keys])
    · exact Or.inr ⟨_, List.Mem.head _, rfl, by simp [keys]⟩
    · exact Or.inr ⟨_, List.Mem.head _, rfl, by simp [keys]⟩
  · exact hn
  · exact hb

end helpers

/-! ### MAIN: the JSON of every accepted v2 / v3.0 / v3.1 vector validates, for all four option sets -/

/-- `as_json` never fails (no KeyError) on a constructed v2 object, and its result has no failing
    schema location: required keys present, every property satisfies its constraint (string enumerations
    for the metric fields and ratings, the number range for scores, the vectorString pattern) -/
theorem v2_json_valid (s : Str) (o : V2.Obj) (h : V2.construct s = .ok o) (sort minimal : Bool) :
    ∃ j, asJson2 o sort minimal = some j ∧ Schema.failures Schema.schema20 j = [] := by
  obtain ⟨m, hp, ho⟩ := (Lemmas.Construct.v2_construct_ok_iff s o).1 h
  have hv := Lemmas.Construct.validMap2_of_parse hp
  have hmet : o.metrics = m := by rw [ho]
  have hvec : o.vector = s := by rw [ho]
  obtain ⟨rb, rt, re⟩ := C03.v2_spec_range _ (legalAssignment2 hv)
  have hbase : C03.IsScore o.base := by rw [ho]; exact rb
  have htemp : C03.IsScore (o.temporal.getD 0) := by rw [ho]; exact isScore_getD rt
  have henv : C03.IsScore (o.env.getD 0) := by rw [ho]; exact isScore_getD re
  have hacc : Grammar.Accepts Grammar.g2 s := (C04.v2_parse_ok_iff s).1 ⟨m, hp⟩
  rw [asJson2_eq]
  apply runBlocks_valid
  · show (keys (C11.d0_2 o) ++ (C11.blocks2 o _ _).flatMap (blockKeys Gen.V2.jsonKeys)).Nodup
    rw [C11.K2_all]
    exact C11.K2_nodup
  · intro b hb k hk
    rw [hmet]
    apply v2_field_ok hv
    apply groups2_sub
    simp only [List.mem_cons, List.not_mem_nil, or_false] at hb
    rcases hb with rfl | rfl | rfl
    · exact Or.inl hk
    · exact Or.inr (Or.inl hk)
    · exact Or.inr (Or.inr hk)
  · intro kv hkv
    simp only [List.mem_cons, List.not_mem_nil, or_false] at hkv
    rcases hkv with rfl | rfl | rfl
    · exact version_ok.1
    · rw [hvec]; exact vector_ok20 s hacc
    · exact score_ok scores_ok.1 (by simp) hbase
  · intro b hb kv hkv
    simp only [List.mem_cons, List.not_mem_nil, or_false] at hb
    rcases hb with rfl | rfl | rfl
    · simp at hkv
    · simp only [List.mem_cons, List.not_mem_nil, or_false] at hkv
      subst hkv
      rw [C11.truthy_getD]
      exact score_ok scores_ok.1 (by simp) htemp
    · simp only [List.mem_cons, List.not_mem_nil, or_false] at hkv
      subst hkv
      rw [C11.truthy_getD]
      exact score_ok scores_ok.1 (by simp) henv
  · intro k hk
    exact Or.inl hk
  · exact props_nodup.1
  · rfl

/-- v3: against the 3.0 schema for a CVSS:3.0 vector and the 3.1 schema for a CVSS:3.1 vector -/
theorem v3_json_valid (s : Str) (o : V3.Obj) (h : V3.construct s = .ok o) (sort minimal : Bool) :
    ∃ j, asJson3 o sort minimal = some j ∧
      Schema.failures (if o.minor = 0 then Schema.schema30 else Schema.schema31) j = [] := by
  obtain ⟨i, m, hp, hbuild⟩ := (Lemmas.Construct.v3_construct_ok_iff s o).1 h
  have hv := Lemmas.Construct.validMap3_of_parse hp
  obtain ⟨o', ho', hvec, hmin, -, hb, ht, he, hf⟩ := C01.v3_build_eq_spec s i m hv
  rw [hbuild] at ho'
  cases ho'
  obtain ⟨rb, rt, re⟩ := C01.v3_spec_range i (assignment Model.V3.X m)
  have hs : C01.IsScore o.base ∧ C01.IsScore o.temporal ∧ C01.IsScore o.env := by
    rw [hb, ht, he]; exact ⟨rb, rt, re⟩
  have hdescr : ∀ k ∈ keys Gen.V3.abbrs, C01.legalTok k ((lookup k o.metrics).getD Model.V3.X) :=
    fun k hk => legal_tok3 hv hf hk
  have hacc : Grammar.Accepts Grammar.g3 s := (C04.v3_parse_ok_iff s).1 ⟨_, hp⟩
  obtain ⟨⟨p, hpi, hsp⟩, -⟩ := C04.v3_parse_ok_fields s i m hp
  have hi : i = 0 ∨ i = 1 := by
    have := (List.getElem?_eq_some_iff.1 hpi).1
    simp only [V3.prefixes, List.length_cons, List.length_nil] at this
    omega
  rcases hi with rfl | rfl
  · have hp0 : p = c!"CVSS:3.0/" := by simpa [V3.prefixes] using hpi.symm
    rw [hmin, if_pos rfl]
    apply v3_valid_aux _ o sort minimal v30_metric_fields_ok scores_ok.2.1 _ _ rfl props_nodup.2.1 rfl
      hdescr hs
    · rw [hmin]; exact version_ok.2.1
    · rw [hvec]
      exact vector_ok30 s hacc (by rw [hsp, hp0]; exact List.prefix_append _ _)
  · have hp1 : p = c!"CVSS:3.1/" := by simpa [V3.prefixes] using hpi.symm
    rw [hmin, if_neg (by omega)]
    apply v3_valid_aux _ o sort minimal v31_metric_fields_ok scores_ok.2.2 _ _ rfl props_nodup.2.2 rfl
      hdescr hs
    · rw [hmin]; exact version_ok.2.2
    · rw [hvec]
      exact vector_ok31 s hacc (by rw [hsp, hp1]; exact List.prefix_append _ _)

end Cvss.Props.C10
