/-
  C10 — JSON output validates against the official FIRST JSON schema.
-/
import Cvss.Model.Json
import Cvss.Spec.SchemaTerms
namespace Cvss.Props.C10
open Cvss Cvss.Model Cvss.Spec

/-- every metric field the serialiser can emit — the JSON key of a metric with the upper-snake name
    of any of its values — satisfies the schema's constraint for that key -/
def metricFieldsOk (sch : Schema.Schema) (jsonKeys : List (Str × Str)) (names : List (Str × List (Str × Str)))
    (usf : Str → Str) : Bool :=
  names.all (fun (m, row) => match lookup m jsonKeys with
    | none => false
    | some k => match lookup k sch.props with
      | none => false       -- the schema has no such property: the field would not be validated at all
      | some c => row.all (fun (_, d) => Schema.okConstraint c (.str (usf d))))

theorem v2_metric_fields_ok : metricFieldsOk Schema.schema20 Gen.V2.jsonKeys Gen.V2.valueNames us2 = true := by
  decide +kernel
theorem v30_metric_fields_ok : metricFieldsOk Schema.schema30 Gen.V3.jsonKeys Gen.V3.valueNames us3 = true := by
  decide +kernel
theorem v31_metric_fields_ok : metricFieldsOk Schema.schema31 Gen.V3.jsonKeys Gen.V3.valueNames us3 = true := by
  decide +kernel

/-- every one-decimal score in [0,10] and every rating passes the score / severity constraints -/
def scoresOk (sch : Schema.Schema) (scoreKeys sevKeys : List Str) (ratings : List Str) : Bool :=
  scoreKeys.all (fun k => match lookup k sch.props with
    | none => false
    | some c => (List.range 101).all (fun t => Schema.okConstraint c (.num ((t : Rat) / 10)))) &&
  sevKeys.all (fun k => match lookup k sch.props with
    | none => false
    | some c => ratings.all (fun r => Schema.okConstraint c (.str (us3 r))))

theorem scores_ok :
    scoresOk Schema.schema20 [c!"baseScore", c!"temporalScore", c!"environmentalScore"] [] [] = true ∧
    scoresOk Schema.schema30 [c!"baseScore", c!"temporalScore", c!"environmentalScore"]
      [c!"baseSeverity", c!"temporalSeverity", c!"environmentalSeverity"]
      [c!"None", c!"Low", c!"Medium", c!"High", c!"Critical"] = true ∧
    scoresOk Schema.schema31 [c!"baseScore", c!"temporalScore", c!"environmentalScore"]
      [c!"baseSeverity", c!"temporalSeverity", c!"environmentalSeverity"]
      [c!"None", c!"Low", c!"Medium", c!"High", c!"Critical"] = true := by
  decide +kernel

/-- v4.0: the property is FALSE on the unchanged tree.  Witness: the JSON of the simplest vector
    fails the official schema at `version` (enum ["4.0"]) and at the baseScore/baseSeverity band. -/
def v4Witness : Str := c!"CVSS:4.0/AV:N/AC:L/AT:N/PR:N/UI:N/VC:H/VI:H/VA:H/SC:H/SI:H/SA:H"

theorem json_v4_invalid_witness :
    (match V4.construct v4Witness with
     | .ok o => (asJson4 o false false).map (Schema.failures Schema.schema40)
     | .error _ => none) = some [c!"version", c!"baseScore/baseSeverity:anyOf"] := by
  decide +kernel

end Cvss.Props.C10
