/-
  C14 (v4.0) finite checks, group 4 (SC, SI, SA).
-/
import Cvss.Lemmas.V4Mono
namespace Cvss.Props.C14
open Cvss Cvss.Lemmas.V4Mono

theorem chk_g4 : Chk4 := by unfold Chk4; decide +kernel

end Cvss.Props.C14
