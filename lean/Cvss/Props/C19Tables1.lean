/-
  C19 (arithmetic part) — the heavy kernel-evaluated check of the environmental score for the
  v3.1 formula (minor ≠ 0, 13th power); a file of its own so that it builds in parallel.
-/
import Cvss.Props.C19Tables
namespace Cvss.Props.C19Tables

theorem envCheck1_ok : envCheck 1 = true := by decide +kernel

end Cvss.Props.C19Tables
