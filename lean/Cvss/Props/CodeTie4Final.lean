/-
  END-TO-END statements about the TRANSLATED SOURCE of cvss4.py (`Cvss.Gen.Code4`, regenerated from the
  source text on every run): the source tie (`CodeTie4.construct_eq`: model = translated source, including
  `compute_base_score`) composed with the property theorems about the model (`C04.v4_construct_accepts_iff`
  etc.: model = grammar).  They say what the code's own text does, for every string.
-/
import Cvss.Props.CodeTie4Ctor
import Cvss.Props.C04Final
namespace Cvss.Props.CodeTie4
open Cvss Cvss.Gen Cvss.Model Cvss.Spec.Grammar

namespace AuxF
/-- reading an outcome equation between a translated computation and a model computation -/
theorem ok_of_ok {α β γ : Type} {x : Py.M α} {y : Except Err β} {f : α → γ} {g : β → γ}
    (h : (x.mapError Py.Exc.toErr).map f = y.map g) {a : α} (hx : x = .ok a) : ∃ b, y = .ok b ∧ f a = g b := by
  subst hx
  cases y with
  | error e => simp [Except.mapError, Except.map] at h
  | ok b => exact ⟨b, rfl, by simpa [Except.mapError, Except.map] using h⟩

theorem ok_of_ok' {α β γ : Type} {x : Py.M α} {y : Except Err β} {f : α → γ} {g : β → γ}
    (h : (x.mapError Py.Exc.toErr).map f = y.map g) {b : β} (hy : y = .ok b) : ∃ a, x = .ok a ∧ f a = g b := by
  subst hy
  cases x with
  | error e => simp [Except.mapError, Except.map] at h
  | ok a => exact ⟨a, rfl, by simpa [Except.mapError, Except.map] using h⟩

theorem err_of_err {α β γ : Type} {x : Py.M α} {y : Except Err β} {f : α → γ} {g : β → γ}
    (h : (x.mapError Py.Exc.toErr).map f = y.map g) {e : Py.Exc} (hx : x = .error e) : y = .error e.toErr := by
  subst hx
  cases y with
  | error e' => simpa [Except.mapError, Except.map] using h.symm
  | ok b => simp [Except.mapError, Except.map] at h

theorem err_of_err' {α β γ : Type} {x : Py.M α} {y : Except Err β} {f : α → γ} {g : β → γ}
    (h : (x.mapError Py.Exc.toErr).map f = y.map g) {e' : Err} (hy : y = .error e') :
    ∃ e, x = .error e ∧ e.toErr = e' := by
  subst hy
  cases x with
  | error e => exact ⟨e, rfl, by simpa [Except.mapError, Except.map] using h⟩
  | ok a => simp [Except.mapError, Except.map] at h
end AuxF

/-- `CVSS4(s)` as translated from the source text succeeds exactly on the strings of the v4 grammar -/
theorem source_v4_construct_accepts_iff (s : Str) : (∃ x, Code4.construct s = .ok x) ↔ Accepts g4 s := by
  rw [← C04.v4_construct_accepts_iff]
  constructor
  · rintro ⟨x, hx⟩; obtain ⟨o, ho, -⟩ := AuxF.ok_of_ok (construct_eq s) hx; exact ⟨o, ho⟩
  · rintro ⟨o, ho⟩; obtain ⟨x, hx, -⟩ := AuxF.ok_of_ok' (construct_eq s) ho; exact ⟨x, hx⟩

/-- … and otherwise raises the malformed or the mandatory class: no exception escapes the hierarchy -/
theorem source_v4_construct_outcomes (s : Str) :
    (∃ x, Code4.construct s = .ok x) ∨
      ∃ e, Code4.construct s = .error e ∧ (e.toErr = .malformed ∨ e.toErr = .mandatory) := by
  cases hx : Code4.construct s with
  | ok x => exact Or.inl ⟨x, rfl⟩
  | error e =>
    right
    refine ⟨e, rfl, ?_⟩
    have hy := AuxF.err_of_err (construct_eq s) hx
    have := C04.construct_outcomes .v4 s
    simp only [construct] at this
    rw [hy] at this
    rcases this with ⟨o, ho⟩ | h | h
    · simp [Except.map] at ho
    · left; simpa [Except.map] using h
    · right; simpa [Except.map] using h

/-- the mandatory class is raised exactly for well-formed vectors lacking a mandatory metric -/
theorem source_v4_construct_mandatory_iff (s : Str) :
    (∃ e, Code4.construct s = .error e ∧ e.toErr = .mandatory) ↔ LacksMandatory g4 s := by
  rw [← C04.v4_construct_mandatory_iff]
  constructor
  · rintro ⟨e, he, hm⟩; rw [AuxF.err_of_err (construct_eq s) he, hm]
  · intro h; exact AuxF.err_of_err' (construct_eq s) h

/-- what the translated constructor leaves on an accepted vector is what the model's object holds: the
    score `Model.V4.baseScore` computes (= the specification's algorithm by `C02.v4_build_eq_spec`) and
    its rating -/
theorem source_v4_construct_scores (s : Str) (x : Code4.Self) (hx : Code4.construct s = .ok x) :
    ∃ o, V4.construct s = .ok o ∧ x.original_metrics = o.orig ∧ x.metrics = o.metrics ∧
      x.base_score = some o.base ∧ x.severity = some o.severity := by
  obtain ⟨o, ho, hv⟩ := AuxF.ok_of_ok (construct_eq s) hx
  simp only [Prod.mk.injEq] at hv
  exact ⟨o, ho, hv.2.1, hv.2.2.1, hv.2.2.2.1, hv.2.2.2.2⟩

end Cvss.Props.CodeTie4
