/-
  C12 — Red Hat notation round-trips and rejects mismatching scores.
-/
import Cvss.Model.Any
import Cvss.Props.C07
import Cvss.Lemmas.Construct
import Cvss.Lemmas.Rh
namespace Cvss.Props.C12
open Cvss Cvss.Model

/-- the printed score of every representable one-decimal value parses back to a number that equals it
    (as binary64 values) — and to no other representable score -/
theorem show_parse_roundtrip :
    ∀ t ∈ List.range 101, ∀ u ∈ List.range 101,
      ((Float.parseFloat (showScore ((t : Rat) / 10))).map (Float.eqScore ((u : Rat) / 10))) = some (decide (t = u)) := by
  decide +kernel

/-- `rh_vector()` is the printed base score, a '/', and the clean vector -/
theorem rh_format (o : AnyObj) : o.rh = showScore o.base ++ '/' :: o.clean := rfl

/-- "the part before the first '/'": `split("/", 1)` -/
theorem splitFirst_iff (text a b : Str) :
    splitFirst '/' text = some (a, b) ↔ text = a ++ '/' :: b ∧ '/' ∉ a :=
  Lemmas.Rh.splitFirst_iff '/' text a b

theorem splitFirst_none_iff (text : Str) : splitFirst '/' text = none ↔ '/' ∉ text :=
  Lemmas.Rh.splitFirst_none_iff '/' text

/-- ACCEPTANCE: `from_rh_vector` returns an object exactly when the part before the first '/' parses as a
    number, the rest is accepted by the class, and the number equals the computed base score -/
theorem fromRh_ok_iff (v : Ver) (text : Str) (o : AnyObj) :
    fromRh v text = .ok o ↔
      ∃ score vec fv, text = score ++ '/' :: vec ∧ '/' ∉ score ∧ Float.parseFloat score = some fv ∧
        construct v vec = .ok o ∧ Float.eqScore o.base fv = true := by
  unfold fromRh
  cases hs : splitFirst '/' text with
  | none =>
    simp only [reduceCtorEq, false_iff]
    rintro ⟨score, vec, fv, h1, h2, -⟩
    rw [(splitFirst_iff text score vec).2 ⟨h1, h2⟩] at hs
    cases hs
  | some p =>
    obtain ⟨score, vec⟩ := p
    obtain ⟨e1, e2⟩ := (splitFirst_iff text score vec).1 hs
    have huniq : ∀ score' vec', text = score' ++ '/' :: vec' → '/' ∉ score' → score' = score ∧ vec' = vec := by
      intro score' vec' h1 h2
      have := (splitFirst_iff text score' vec').2 ⟨h1, h2⟩
      rw [hs] at this
      simp only [Option.some.injEq, Prod.mk.injEq] at this
      exact ⟨this.1.symm, this.2.symm⟩
    simp only
    constructor
    · intro h
      cases hf : Float.parseFloat score with
      | none => rw [hf] at h; cases h
      | some fv =>
        rw [hf] at h
        simp only at h
        cases hc : construct v vec with
        | error e => rw [hc] at h; cases h
        | ok o' =>
          rw [hc] at h
          simp only at h
          by_cases hq : Float.eqScore o'.base fv = true
          · rw [if_pos hq] at h
            cases h
            exact ⟨score, vec, fv, e1, e2, hf, hc, hq⟩
          · rw [if_neg hq] at h; cases h
    · rintro ⟨score', vec', fv, h1, h2, h3, h4, h5⟩
      obtain ⟨rfl, rfl⟩ := huniq score' vec' h1 h2
      simp only [h3, h4, h5, if_true]

/-- ERROR TAXONOMY: a missing or non-numeric score part gives the RH-malformed error, a differing score the
    score-mismatch error, and an invalid vector part the ordinary vector error of the constructor -/
theorem fromRh_error_iff (v : Ver) (text : Str) (e : Err) :
    fromRh v text = .error e ↔
      (e = .rhMalformed ∧ ('/' ∉ text ∨ ∃ score vec, text = score ++ '/' :: vec ∧ '/' ∉ score ∧ Float.parseFloat score = none)) ∨
      (∃ score vec fv, text = score ++ '/' :: vec ∧ '/' ∉ score ∧ Float.parseFloat score = some fv ∧
        ((construct v vec = .error e) ∨
         (e = .rhMismatch ∧ ∃ o, construct v vec = .ok o ∧ Float.eqScore o.base fv = false))) := by
  unfold fromRh
  cases hs : splitFirst '/' text with
  | none =>
    have hno := (splitFirst_none_iff text).1 hs
    have hnosplit : ∀ score vec, text = score ++ '/' :: vec → False := by
      intro score vec h
      apply hno
      rw [h]
      simp
    simp only [Except.error.injEq]
    constructor
    · intro h; exact Or.inl ⟨h.symm, Or.inl hno⟩
    · rintro (⟨h, -⟩ | ⟨score, vec, fv, h1, -⟩)
      · exact h.symm
      · exact (hnosplit score vec h1).elim
  | some p =>
    obtain ⟨score, vec⟩ := p
    obtain ⟨e1, e2⟩ := (splitFirst_iff text score vec).1 hs
    have hin : ¬ '/' ∉ text := by
      rw [e1]; simp
    have huniq : ∀ score' vec', text = score' ++ '/' :: vec' → '/' ∉ score' → score' = score ∧ vec' = vec := by
      intro score' vec' h1 h2
      have := (splitFirst_iff text score' vec').2 ⟨h1, h2⟩
      rw [hs] at this
      simp only [Option.some.injEq, Prod.mk.injEq] at this
      exact ⟨this.1.symm, this.2.symm⟩
    simp only
    cases hf : Float.parseFloat score with
    | none =>
      simp only [Except.error.injEq]
      constructor
      · intro h; exact Or.inl ⟨h.symm, Or.inr ⟨score, vec, e1, e2, hf⟩⟩
      · rintro (⟨h, -⟩ | ⟨score', vec', fv, h1, h2, h3, -⟩)
        · exact h.symm
        · obtain ⟨rfl, rfl⟩ := huniq score' vec' h1 h2
          rw [hf] at h3; cases h3
    | some fv =>
      simp only
      have hA : ¬ ('/' ∉ text ∨ ∃ score vec, text = score ++ '/' :: vec ∧ '/' ∉ score ∧ Float.parseFloat score = none) := by
        rintro (h | ⟨score', vec', h1, h2, h3⟩)
        · exact hin h
        · obtain ⟨rfl, rfl⟩ := huniq score' vec' h1 h2
          rw [hf] at h3; cases h3
      cases hc : construct v vec with
      | error e' =>
        simp only [Except.error.injEq]
        constructor
        · rintro rfl
          exact Or.inr ⟨score, vec, fv, e1, e2, hf, Or.inl hc⟩
        · rintro (⟨-, h⟩ | ⟨score', vec', fv', h1, h2, h3, h4⟩)
          · exact (hA h).elim
          · obtain ⟨rfl, rfl⟩ := huniq score' vec' h1 h2
            rcases h4 with h4 | ⟨-, o, h4, -⟩
            · rw [hc] at h4; cases h4; rfl
            · rw [hc] at h4; cases h4
      | ok o =>
        simp only
        by_cases hq : Float.eqScore o.base fv = true
        · rw [if_pos hq]
          simp only [reduceCtorEq, false_iff]
          rintro (⟨-, h⟩ | ⟨score', vec', fv', h1, h2, h3, h4⟩)
          · exact hA h
          · obtain ⟨rfl, rfl⟩ := huniq score' vec' h1 h2
            rw [hf] at h3; cases h3
            rcases h4 with h4 | ⟨-, o', h4, h5⟩
            · rw [hc] at h4; cases h4
            · rw [hc] at h4; cases h4
              rw [hq] at h5; cases h5
        · rw [if_neg hq]
          simp only [Except.error.injEq]
          constructor
          · rintro rfl
            exact Or.inr ⟨score, vec, fv, e1, e2, hf, Or.inr ⟨rfl, o, hc, by simpa using hq⟩⟩
          · rintro (⟨-, h⟩ | ⟨score', vec', fv', h1, h2, h3, h4⟩)
            · exact (hA h).elim
            · obtain ⟨rfl, rfl⟩ := huniq score' vec' h1 h2
              rcases h4 with h4 | ⟨h, -⟩
              · rw [hc] at h4; cases h4
              · exact h.symm

/-- a printed score contains no '/', so the Red Hat text splits at the separator it was built with -/
theorem showScore_no_slash (x : Rat) : '/' ∉ showScore x :=
  Lemmas.Rh.showScore_no_slash x

/-- the common part of the round trips: if the base score is a representable one-decimal score and the
    clean vector re-constructs to an equal object with the same base score, `from_rh_vector` accepts the
    Red Hat text and returns that object -/
theorem rh_roundtrip_aux (v : Ver) (o o' : AnyObj) (k : Nat) (hk : k ≤ 100) (hb : o.base = (k : Rat) / 10)
    (hc : construct v o.clean = .ok o') (hb' : o'.base = o.base) (heq : o'.eq o = true) :
    ∃ o', fromRh v o.rh = .ok o' ∧ o'.eq o = true := by
  have hmem : k ∈ List.range 101 := List.mem_range.2 (by omega)
  have hrt := show_parse_roundtrip k hmem k hmem
  cases hf : Float.parseFloat (showScore ((k : Rat) / 10)) with
  | none => rw [hf] at hrt; cases hrt
  | some fv =>
    rw [hf] at hrt
    simp only [Option.map_some, decide_true, Option.some.injEq] at hrt
    refine ⟨o', (fromRh_ok_iff v o.rh o').2 ⟨showScore o.base, o.clean, fv, rfl, showScore_no_slash _, ?_, hc, ?_⟩, heq⟩
    · rw [hb]; exact hf
    · rw [hb', hb]; exact hrt

/-- ROUND TRIP v2: `from_rh_vector(x.rh_vector())` succeeds and equals x -/
theorem rh_roundtrip_v2 (s : Str) (o : V2.Obj) (h : V2.construct s = .ok o) :
    ∃ o', fromRh .v2 (AnyObj.o2 o).rh = .ok o' ∧ o'.eq (AnyObj.o2 o) = true := by
  obtain ⟨k, hk, hb⟩ := (Lemmas.Rh.v2_obj_range h).1
  obtain ⟨o', hc, -, hsc, -, -, heq⟩ := C07.v2_clean_roundtrip s o h
  refine rh_roundtrip_aux .v2 (AnyObj.o2 o) (AnyObj.o2 o') k hk hb ?_ ?_ heq
  · show (V2.construct o.clean).map AnyObj.o2 = _
    rw [hc]; rfl
  · simp only [V2.Obj.scores, List.cons.injEq, Option.some.injEq] at hsc
    exact hsc.1

/-- ROUND TRIP v3 -/
theorem rh_roundtrip_v3 (s : Str) (o : V3.Obj) (h : V3.construct s = .ok o) :
    ∃ o', fromRh .v3 (AnyObj.o3 o).rh = .ok o' ∧ o'.eq (AnyObj.o3 o) = true := by
  obtain ⟨k, hk, hb⟩ := (Lemmas.Rh.v3_obj_range h).1
  obtain ⟨o', hc, -, -, hsc, -, -, heq⟩ := C07.v3_clean_roundtrip s o h
  refine rh_roundtrip_aux .v3 (AnyObj.o3 o) (AnyObj.o3 o') k hk hb ?_ ?_ heq
  · show (V3.construct (o.clean true)).map AnyObj.o3 = _
    rw [hc]; rfl
  · simp only [V3.Obj.scores, List.cons.injEq, Option.some.injEq] at hsc
    exact hsc.1

end Cvss.Props.C12
