/-
  C12 — Red Hat notation round-trips and rejects mismatching scores.
-/
import Cvss.Model.Any
namespace Cvss.Props.C12
open Cvss Cvss.Model

/-- the printed score of every representable one-decimal value parses back to a number that equals it
    (as binary64 values) — and to no other representable score -/
theorem show_parse_roundtrip :
    ∀ t ∈ List.range 101, ∀ u ∈ List.range 101,
      ((Float.parseFloat (showScore ((t : Rat) / 10))).map (Float.eqScore ((u : Rat) / 10))) = some (decide (t = u)) := by
  decide +kernel

/-- `rh_vector()` is the printed base score, a '/', and the clean vector -/
theorem rh_format (o : AnyObj) : o.rh = showScore o.base ++ '/' :: o.clean := rfl

end Cvss.Props.C12
