/-
  C14 — v4.0: a more severe effective value of any scoring metric never lowers the score.
-/
import Cvss.Spec.V4
import Cvss.Lemmas.V4Search
import Cvss.Lemmas.V4Mono
import Cvss.Props.C14V4Tables0
import Cvss.Props.C14V4Tables1
import Cvss.Props.C14V4Tables36a
import Cvss.Props.C14V4Tables36b
import Cvss.Props.C14V4Tables36c
import Cvss.Props.C14V4Tables4
namespace Cvss.Props.C14
open Cvss Cvss.Lemmas.V4Search Cvss.Lemmas.V4Mono

/-- the 14 metrics that have severity levels (0 = most severe), and E -/
def levelMetrics : List Str :=
  [c!"AV", c!"PR", c!"UI", c!"AC", c!"AT", c!"VC", c!"VI", c!"VA", c!"SC", c!"SI", c!"SA", c!"CR", c!"IR", c!"AR"]

/-- level of the effective Exploit Maturity: Attacked 0, POC 1, Unreported 2 -/
def lvE (a : Str → Str) : Nat :=
  if Spec.V4.eff a c!"E" = c!"A" then 0 else if Spec.V4.eff a c!"E" = c!"P" then 1 else 2

def LegalE (a : Str → Str) : Prop :=
  Spec.V4.eff a c!"E" = c!"A" ∨ Spec.V4.eff a c!"E" = c!"P" ∨ Spec.V4.eff a c!"E" = c!"U"

/-! ### assembly: one step inside a group, all other levels equal -/

theorem eq5_lvE (a : Str → Str) : (Spec.V4.macroVector a).eq5 = lvE a := by
  unfold Spec.V4.macroVector lvE
  simp only [decide_eq_true_eq]

theorem lvE_lt (a : Str → Str) : lvE a < 3 := by
  unfold lvE; split_ifs <;> omega

theorem chk_g36 : ∀ e1 < 3, Chk36 e1 := by
  intro e1 h
  interval_cases e1
  · exact chk_g36_0
  · exact chk_g36_1
  · exact chk_g36_2

section cases
variable {a a' : Str → Str} (ha : LegalEff a) (ha' : LegalEff a')
  (h5 : (Spec.V4.macroVector a').eq5 = (Spec.V4.macroVector a).eq5)
include ha ha' h5

theorem case_g1
    (hs : Step3 (lv a c!"AV") (lv a c!"PR") (lv a c!"UI") (lv a' c!"AV") (lv a' c!"PR") (lv a' c!"UI"))
    (hoth : ∀ j ∈ K2 ++ K36 ++ K4, lv a' j = lv a j) :
    ∀ x y, Spec.V4.score a = some x → Spec.V4.score a' = some y → x ≤ y := by
  obtain ⟨r1, r2, r3, r4, r5, r6, r7, r8, r9, r10, r11, r12, r13, r14, r15⟩ := lv_ranges ha
  have eAC := hoth c!"AC" (by decide)
  have eAT := hoth c!"AT" (by decide)
  have eVC := hoth c!"VC" (by decide)
  have eVI := hoth c!"VI" (by decide)
  have eVA := hoth c!"VA" (by decide)
  have eCR := hoth c!"CR" (by decide)
  have eIR := hoth c!"IR" (by decide)
  have eAR := hoth c!"AR" (by decide)
  have eSC := hoth c!"SC" (by decide)
  have eSI := hoth c!"SI" (by decide)
  have eSA := hoth c!"SA" (by decide)
  refine score_mono_of (rawScore_levels ha) (rawScore_levels ha') ?_ ?_
  · rw [eAC, eAT, eVC, eVI, eVA, eCR, eIR, eAR, eSC, eSI, eSA, h5]
    exact mono_g1 chk_g1 r1 r2 r3 hs (eq2N_lt _ _) (eq3N_lt _ _ _) (eq4N_lt _ _ _)
      (by rw [eq5_lvE]; exact lvE_lt a) (eq6N_lt _ _ _ _ _ _) (g2_facts r4 r5).1
      (g36_facts cmp_g36 r6 r7 r8 r9 r10 r11).1 (g4_facts r12 r13 r14 r15).1
  · rw [noImpact_lv ha, noImpact_lv ha', eVC, eVI, eVA, eSC, eSI, eSA]
    exact id

theorem case_g2
    (hs : Step2 (lv a c!"AC") (lv a c!"AT") (lv a' c!"AC") (lv a' c!"AT"))
    (hoth : ∀ j ∈ K1 ++ K36 ++ K4, lv a' j = lv a j) :
    ∀ x y, Spec.V4.score a = some x → Spec.V4.score a' = some y → x ≤ y := by
  obtain ⟨r1, r2, r3, r4, r5, r6, r7, r8, r9, r10, r11, r12, r13, r14, r15⟩ := lv_ranges ha
  have eAV := hoth c!"AV" (by decide)
  have ePR := hoth c!"PR" (by decide)
  have eUI := hoth c!"UI" (by decide)
  have eVC := hoth c!"VC" (by decide)
  have eVI := hoth c!"VI" (by decide)
  have eVA := hoth c!"VA" (by decide)
  have eCR := hoth c!"CR" (by decide)
  have eIR := hoth c!"IR" (by decide)
  have eAR := hoth c!"AR" (by decide)
  have eSC := hoth c!"SC" (by decide)
  have eSI := hoth c!"SI" (by decide)
  have eSA := hoth c!"SA" (by decide)
  refine score_mono_of (rawScore_levels ha) (rawScore_levels ha') ?_ ?_
  · rw [eAV, ePR, eUI, eVC, eVI, eVA, eCR, eIR, eAR, eSC, eSI, eSA, h5]
    exact mono_g2 chk_g2 r4 r5 hs (eq1N_lt _ _ _) (eq3N_lt _ _ _) (eq4N_lt _ _ _)
      (by rw [eq5_lvE]; exact lvE_lt a) (eq6N_lt _ _ _ _ _ _) (g1_facts r1 r2 r3).1
      (g36_facts cmp_g36 r6 r7 r8 r9 r10 r11).1 (g4_facts r12 r13 r14 r15).1
  · rw [noImpact_lv ha, noImpact_lv ha', eVC, eVI, eVA, eSC, eSI, eSA]
    exact id

theorem case_g36
    (hs : Step6 (lv a c!"VC") (lv a c!"VI") (lv a c!"VA") (lv a c!"CR") (lv a c!"IR") (lv a c!"AR")
      (lv a' c!"VC") (lv a' c!"VI") (lv a' c!"VA") (lv a' c!"CR") (lv a' c!"IR") (lv a' c!"AR"))
    (hoth : ∀ j ∈ K1 ++ K2 ++ K4, lv a' j = lv a j) :
    ∀ x y, Spec.V4.score a = some x → Spec.V4.score a' = some y → x ≤ y := by
  obtain ⟨r1, r2, r3, r4, r5, r6, r7, r8, r9, r10, r11, r12, r13, r14, r15⟩ := lv_ranges ha
  have eAV := hoth c!"AV" (by decide)
  have ePR := hoth c!"PR" (by decide)
  have eUI := hoth c!"UI" (by decide)
  have eAC := hoth c!"AC" (by decide)
  have eAT := hoth c!"AT" (by decide)
  have eSC := hoth c!"SC" (by decide)
  have eSI := hoth c!"SI" (by decide)
  have eSA := hoth c!"SA" (by decide)
  refine score_mono_of (rawScore_levels ha) (rawScore_levels ha') ?_ ?_
  · rw [eAV, ePR, eUI, eAC, eAT, eSC, eSI, eSA, h5]
    exact mono_g36 cmp_g36 chk_g36 r6 r7 r8 r9 r10 r11 hs (eq1N_lt _ _ _) (eq2N_lt _ _) (eq4N_lt _ _ _)
      (by rw [eq5_lvE]; exact lvE_lt a) (g1_facts r1 r2 r3).1 (g2_facts r4 r5).1
      (g4_facts r12 r13 r14 r15).1
  · rw [noImpact_lv ha, noImpact_lv ha', eSC, eSI, eSA]
    simp only [Bool.and_eq_true, beq_iff_eq]
    unfold Step6 at hs
    omega

theorem case_g4
    (hs : Step3 (lv a c!"SC") (lv a c!"SI") (lv a c!"SA") (lv a' c!"SC") (lv a' c!"SI") (lv a' c!"SA"))
    (hoth : ∀ j ∈ K1 ++ K2 ++ K36, lv a' j = lv a j) :
    ∀ x y, Spec.V4.score a = some x → Spec.V4.score a' = some y → x ≤ y := by
  obtain ⟨r1, r2, r3, r4, r5, r6, r7, r8, r9, r10, r11, r12, r13, r14, r15⟩ := lv_ranges ha
  have r12' := (lv_ranges ha').2.2.2.2.2.2.2.2.2.2.2.1
  have eAV := hoth c!"AV" (by decide)
  have ePR := hoth c!"PR" (by decide)
  have eUI := hoth c!"UI" (by decide)
  have eAC := hoth c!"AC" (by decide)
  have eAT := hoth c!"AT" (by decide)
  have eVC := hoth c!"VC" (by decide)
  have eVI := hoth c!"VI" (by decide)
  have eVA := hoth c!"VA" (by decide)
  have eCR := hoth c!"CR" (by decide)
  have eIR := hoth c!"IR" (by decide)
  have eAR := hoth c!"AR" (by decide)
  refine score_mono_of (rawScore_levels ha) (rawScore_levels ha') ?_ ?_
  · rw [eAV, ePR, eUI, eAC, eAT, eVC, eVI, eVA, eCR, eIR, eAR, h5]
    exact mono_g4 chk_g4 r12 r13 r14 r15 r12' hs (eq1N_lt _ _ _) (eq2N_lt _ _) (eq3N_lt _ _ _)
      (by rw [eq5_lvE]; exact lvE_lt a) (eq6N_lt _ _ _ _ _ _) (g1_facts r1 r2 r3).1 (g2_facts r4 r5).1
      (g36_facts cmp_g36 r6 r7 r8 r9 r10 r11).1
  · rw [noImpact_lv ha, noImpact_lv ha', eVC, eVI, eVA]
    simp only [Bool.and_eq_true, beq_iff_eq]
    unfold Step3 at hs
    omega

end cases

theorem group_split : ∀ k ∈ levelMetrics, k ∈ K1 ∨ k ∈ K2 ∨ k ∈ K36 ∨ k ∈ K4 := by decide

/-- MAIN (levelled metrics): `a'` differs from `a` only in the effective value of metric `k`, which is ONE
    severity step more severe in `a'`; then the score of `a'` is not lower.  (Effective values: this covers base
    metrics, Modified overrides, undefined CR/IR/AR = High, in every spelling.) -/
theorem v4_step_mono (a a' : Str → Str) (ha : LegalEff a) (ha' : LegalEff a') (hE : LegalE a)
    (k : Str) (hk : k ∈ levelMetrics) (hstep : lv a' k + 1 = lv a k)
    (hsame : ∀ j ∈ levelMetrics, j ≠ k → Spec.V4.eff a' j = Spec.V4.eff a j)
    (hsameE : Spec.V4.eff a' c!"E" = Spec.V4.eff a c!"E") :
    ∀ x y, Spec.V4.score a = some x → Spec.V4.score a' = some y → x ≤ y := by
  have _ := hE
  have hlv : ∀ j ∈ levelMetrics, j ≠ k → lv a' j = lv a j := by
    intro j hj hne
    unfold lv
    rw [hsame j hj hne]
  have h5 : (Spec.V4.macroVector a').eq5 = (Spec.V4.macroVector a).eq5 := by
    rw [eq5_lvE, eq5_lvE]; unfold lvE; rw [hsameE]
  rcases group_split k hk with hg | hg | hg | hg
  · simp only [K1, List.mem_cons, List.not_mem_nil, or_false] at hg
    rcases hg with rfl | rfl | rfl
    · have M : ∀ j ∈ K2 ++ K36 ++ K4, j ∈ levelMetrics ∧ j ≠ c!"AV" := by decide
      exact case_g1 ha ha' h5 (Or.inl ⟨hstep, hlv _ (by decide) (by decide), hlv _ (by decide) (by decide)⟩)
        (fun j hj => hlv j (M j hj).1 (M j hj).2)
    · have M : ∀ j ∈ K2 ++ K36 ++ K4, j ∈ levelMetrics ∧ j ≠ c!"PR" := by decide
      exact case_g1 ha ha' h5 (Or.inr (Or.inl ⟨hlv _ (by decide) (by decide), hstep, hlv _ (by decide) (by decide)⟩))
        (fun j hj => hlv j (M j hj).1 (M j hj).2)
    · have M : ∀ j ∈ K2 ++ K36 ++ K4, j ∈ levelMetrics ∧ j ≠ c!"UI" := by decide
      exact case_g1 ha ha' h5 (Or.inr (Or.inr (⟨hlv _ (by decide) (by decide), hlv _ (by decide) (by decide), hstep⟩)))
        (fun j hj => hlv j (M j hj).1 (M j hj).2)
  · simp only [K2, List.mem_cons, List.not_mem_nil, or_false] at hg
    rcases hg with rfl | rfl
    · have M : ∀ j ∈ K1 ++ K36 ++ K4, j ∈ levelMetrics ∧ j ≠ c!"AC" := by decide
      exact case_g2 ha ha' h5 (Or.inl ⟨hstep, hlv _ (by decide) (by decide)⟩)
        (fun j hj => hlv j (M j hj).1 (M j hj).2)
    · have M : ∀ j ∈ K1 ++ K36 ++ K4, j ∈ levelMetrics ∧ j ≠ c!"AT" := by decide
      exact case_g2 ha ha' h5 (Or.inr (⟨hlv _ (by decide) (by decide), hstep⟩))
        (fun j hj => hlv j (M j hj).1 (M j hj).2)
  · simp only [K36, List.mem_cons, List.not_mem_nil, or_false] at hg
    rcases hg with rfl | rfl | rfl | rfl | rfl | rfl
    · have M : ∀ j ∈ K1 ++ K2 ++ K4, j ∈ levelMetrics ∧ j ≠ c!"VC" := by decide
      exact case_g36 ha ha' h5 (Or.inl ⟨hstep, hlv _ (by decide) (by decide), hlv _ (by decide) (by decide), hlv _ (by decide) (by decide), hlv _ (by decide) (by decide), hlv _ (by decide) (by decide)⟩)
        (fun j hj => hlv j (M j hj).1 (M j hj).2)
    · have M : ∀ j ∈ K1 ++ K2 ++ K4, j ∈ levelMetrics ∧ j ≠ c!"VI" := by decide
      exact case_g36 ha ha' h5 (Or.inr (Or.inl ⟨hlv _ (by decide) (by decide), hstep, hlv _ (by decide) (by decide), hlv _ (by decide) (by decide), hlv _ (by decide) (by decide), hlv _ (by decide) (by decide)⟩))
        (fun j hj => hlv j (M j hj).1 (M j hj).2)
    · have M : ∀ j ∈ K1 ++ K2 ++ K4, j ∈ levelMetrics ∧ j ≠ c!"VA" := by decide
      exact case_g36 ha ha' h5 (Or.inr (Or.inr (Or.inl ⟨hlv _ (by decide) (by decide), hlv _ (by decide) (by decide), hstep, hlv _ (by decide) (by decide), hlv _ (by decide) (by decide), hlv _ (by decide) (by decide)⟩)))
        (fun j hj => hlv j (M j hj).1 (M j hj).2)
    · have M : ∀ j ∈ K1 ++ K2 ++ K4, j ∈ levelMetrics ∧ j ≠ c!"CR" := by decide
      exact case_g36 ha ha' h5 (Or.inr (Or.inr (Or.inr (Or.inl ⟨hlv _ (by decide) (by decide), hlv _ (by decide) (by decide), hlv _ (by decide) (by decide), hstep, hlv _ (by decide) (by decide), hlv _ (by decide) (by decide)⟩))))
        (fun j hj => hlv j (M j hj).1 (M j hj).2)
    · have M : ∀ j ∈ K1 ++ K2 ++ K4, j ∈ levelMetrics ∧ j ≠ c!"IR" := by decide
      exact case_g36 ha ha' h5 (Or.inr (Or.inr (Or.inr (Or.inr (Or.inl ⟨hlv _ (by decide) (by decide), hlv _ (by decide) (by decide), hlv _ (by decide) (by decide), hlv _ (by decide) (by decide), hstep, hlv _ (by decide) (by decide)⟩)))))
        (fun j hj => hlv j (M j hj).1 (M j hj).2)
    · have M : ∀ j ∈ K1 ++ K2 ++ K4, j ∈ levelMetrics ∧ j ≠ c!"AR" := by decide
      exact case_g36 ha ha' h5 (Or.inr (Or.inr (Or.inr (Or.inr (Or.inr (⟨hlv _ (by decide) (by decide), hlv _ (by decide) (by decide), hlv _ (by decide) (by decide), hlv _ (by decide) (by decide), hlv _ (by decide) (by decide), hstep⟩))))))
        (fun j hj => hlv j (M j hj).1 (M j hj).2)
  · simp only [K4, List.mem_cons, List.not_mem_nil, or_false] at hg
    rcases hg with rfl | rfl | rfl
    · have M : ∀ j ∈ K1 ++ K2 ++ K36, j ∈ levelMetrics ∧ j ≠ c!"SC" := by decide
      exact case_g4 ha ha' h5 (Or.inl ⟨hstep, hlv _ (by decide) (by decide), hlv _ (by decide) (by decide)⟩)
        (fun j hj => hlv j (M j hj).1 (M j hj).2)
    · have M : ∀ j ∈ K1 ++ K2 ++ K36, j ∈ levelMetrics ∧ j ≠ c!"SI" := by decide
      exact case_g4 ha ha' h5 (Or.inr (Or.inl ⟨hlv _ (by decide) (by decide), hstep, hlv _ (by decide) (by decide)⟩))
        (fun j hj => hlv j (M j hj).1 (M j hj).2)
    · have M : ∀ j ∈ K1 ++ K2 ++ K36, j ∈ levelMetrics ∧ j ≠ c!"SA" := by decide
      exact case_g4 ha ha' h5 (Or.inr (Or.inr (⟨hlv _ (by decide) (by decide), hlv _ (by decide) (by decide), hstep⟩)))
        (fun j hj => hlv j (M j hj).1 (M j hj).2)

/-- MAIN (Exploit Maturity): likewise for one step of E (Unreported → POC → Attacked) -/
theorem v4_step_mono_E (a a' : Str → Str) (ha : LegalEff a) (ha' : LegalEff a') (hE : LegalE a) (hE' : LegalE a')
    (hstep : lvE a' + 1 = lvE a) (hsame : ∀ j ∈ levelMetrics, Spec.V4.eff a' j = Spec.V4.eff a j) :
    ∀ x y, Spec.V4.score a = some x → Spec.V4.score a' = some y → x ≤ y := by
  have _ := hE
  have _ := hE'
  have hlv : ∀ j ∈ levelMetrics, lv a' j = lv a j := by
    intro j hj
    unfold lv
    rw [hsame j hj]
  obtain ⟨r1, r2, r3, r4, r5, r6, r7, r8, r9, r10, r11, r12, r13, r14, r15⟩ := lv_ranges ha
  have eAV := hlv c!"AV" (by decide)
  have ePR := hlv c!"PR" (by decide)
  have eUI := hlv c!"UI" (by decide)
  have eAC := hlv c!"AC" (by decide)
  have eAT := hlv c!"AT" (by decide)
  have eVC := hlv c!"VC" (by decide)
  have eVI := hlv c!"VI" (by decide)
  have eVA := hlv c!"VA" (by decide)
  have eCR := hlv c!"CR" (by decide)
  have eIR := hlv c!"IR" (by decide)
  have eAR := hlv c!"AR" (by decide)
  have eSC := hlv c!"SC" (by decide)
  have eSI := hlv c!"SI" (by decide)
  have eSA := hlv c!"SA" (by decide)
  refine score_mono_of (rawScore_levels ha) (rawScore_levels ha') ?_ ?_
  · rw [eAV, ePR, eUI, eAC, eAT, eVC, eVI, eVA, eCR, eIR, eAR, eSC, eSI, eSA, eq5_lvE, eq5_lvE]
    exact mono_g5 chk_g5 hstep (lvE_lt a) (eq1N_lt _ _ _) (eq2N_lt _ _) (eq3N_lt _ _ _) (eq4N_lt _ _ _)
      (eq6N_lt _ _ _ _ _ _) (g1_facts r1 r2 r3).1 (g2_facts r4 r5).1
      (g36_facts cmp_g36 r6 r7 r8 r9 r10 r11).1 (g4_facts r12 r13 r14 r15).1
  · rw [noImpact_lv ha, noImpact_lv ha', eVC, eVI, eVA, eSC, eSI, eSA]
    exact id

end Cvss.Props.C14
