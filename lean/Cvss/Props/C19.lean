/-
  C19 — results depend only on the input: no hidden state or ambient dependence.
  Arithmetic part: the v3 scores do not depend on how `decimal` rounds its two inexact operations
  (the powers `** 15` / `** 13`), under any rounding mode at any precision ≥ 28.
-/
import Cvss.Model.Any
import Cvss.Spec.V3
import Cvss.Lemmas.V3
import Cvss.Lemmas.Robust
import Cvss.Props.C19Tables
import Cvss.Props.C19Tables0
import Cvss.Props.C19Tables1
namespace Cvss.Props.C19
open Cvss Cvss.Model

/-- the v2 scores depend on the metric map only through its look-ups (not on insertion order or
    any other state) -/
theorem v2_scores_lookup_only (m m' : MMap) (h : ∀ k, lookup k m = lookup k m') :
    V2.computeScores m = V2.computeScores m' := by
  have hg : ∀ a, V2.getValue m a = V2.getValue m' a := by
    intro a; simp [V2.getValue, h]
  have hn : ∀ g, V2.allND m g = V2.allND m' g := by
    intro g; simp [V2.allND, h]
  simp [V2.computeScores, V2.baseScore, V2.baseEq, V2.temporalEq, V2.impactEq, V2.adjustedImpactEq, hg, hn]

/-! ### robustness of the v3 equations against the rounding of the powers

In cvss3.py every `Decimal` operation is exact at 28 digits except `x ** 15` / `x ** 13` (and the few
operations that consume their result), which only occur when (Modified) Scope is Changed.  Whatever the
rounding mode, the computed impact differs from the exact one by far less than 10⁻⁷.  The theorems below
show that ANY perturbation of the impact sub-score by at most 10⁻⁷ leaves the reported score unchanged:
the exact value is never that close to a rounding boundary or to the `≤ 0` test. -/

/-- an assignment whose values are legal tokens of the specification's tables -/
def Legal3 (a : Str → Str) : Prop :=
  (∀ p ∈ Spec.V3.weights, (lookup (a p.1) p.2).isSome) ∧
  (a c!"PR" = c!"N" ∨ a c!"PR" = c!"L" ∨ a c!"PR" = c!"H") ∧ (a c!"S" = c!"U" ∨ a c!"S" = c!"C") ∧
  (∀ M ∈ [c!"MAV", c!"MAC", c!"MPR", c!"MUI", c!"MS", c!"MC", c!"MI", c!"MA"],
      a M = c!"X" ∨ (lookup (a M) ((lookup (M.drop 1) Spec.V3.weights).getD [])).isSome ∨
      (M = c!"MPR" ∧ (a M = c!"N" ∨ a M = c!"L" ∨ a M = c!"H")) ∨ (M = c!"MS" ∧ (a M = c!"U" ∨ a M = c!"C")))


/-! #### legal tokens have their weights in the finite lists checked in `C19Tables` -/

open Cvss.Lemmas.Robust Cvss.Props.C19Tables

/-- a token found in the row of `metric` has its weight among the row's values -/
theorem w_mem_rowVals {metric t : Str}
    (h : (lookup t ((lookup metric Spec.V3.weights).getD [])).isSome) :
    Spec.V3.w metric t ∈ rowVals metric := by
  unfold Spec.V3.w rowVals
  cases hr : lookup metric Spec.V3.weights with
  | none => rw [hr] at h; simp [lookup] at h
  | some row =>
    rw [hr] at h
    simp only [Option.getD_some] at h ⊢
    obtain ⟨v, hv⟩ := Option.isSome_iff_exists.1 h
    rw [hv]
    exact List.mem_map.2 ⟨(t, v), Lemmas.V3.lookup_mem hv, rfl⟩

/-- the metric names of the weight table are pairwise distinct: each row is found under its name -/
theorem weights_self :
    Spec.V3.weights.all (fun p => decide (lookup p.1 Spec.V3.weights = some p.2)) = true := by
  decide +kernel

theorem legal_w {a : Str → Str} (ha : Legal3 a) {metric : Str}
    (hm : metric ∈ Spec.V3.weights.map (·.1)) :
    Spec.V3.w metric (a metric) ∈ rowVals metric := by
  obtain ⟨p, hp, rfl⟩ := List.mem_map.1 hm
  apply w_mem_rowVals
  have h1 := List.all_eq_true.1 weights_self p hp
  simp only [decide_eq_true_eq] at h1
  rw [h1]
  exact ha.1 p hp

theorem legal_eff_w {a : Str → Str} (ha : Legal3 a) {M base : Str}
    (hM : M ∈ [c!"MAV", c!"MAC", c!"MPR", c!"MUI", c!"MS", c!"MC", c!"MI", c!"MA"])
    (hb : M.drop 1 = base) (hbase : base ∈ Spec.V3.weights.map (·.1)) :
    Spec.V3.w base (Spec.V3.eff a M base) ∈ rowVals base := by
  unfold Spec.V3.eff
  split
  · exact legal_w ha hbase
  · rename_i hx
    rcases ha.2.2.2 M hM with h | h | ⟨h, _⟩ | ⟨h, _⟩
    · exact absurd h hx
    · rw [hb] at h; exact w_mem_rowVals h
    · subst h; subst hb; exact absurd hbase (by decide)
    · subst h; subst hb; exact absurd hbase (by decide)

theorem prWeight_mem {t : Str} (h : t = c!"N" ∨ t = c!"L" ∨ t = c!"H") :
    Spec.V3.prWeight true t ∈ prVals := by
  rcases h with h | h | h <;> subst h <;> decide +kernel

theorem legal_eff_pr {a : Str → Str} (ha : Legal3 a) :
    Spec.V3.eff a c!"MPR" c!"PR" = c!"N" ∨ Spec.V3.eff a c!"MPR" c!"PR" = c!"L" ∨
      Spec.V3.eff a c!"MPR" c!"PR" = c!"H" := by
  unfold Spec.V3.eff
  split
  · exact ha.2.1
  · rename_i hx
    rcases ha.2.2.2 c!"MPR" (by decide) with h | h | ⟨_, h⟩ | ⟨h, _⟩
    · exact absurd h hx
    · exfalso
      have h0 : (lookup (List.drop 1 c!"MPR") Spec.V3.weights).getD [] = [] := by decide +kernel
      rw [h0] at h
      simp [lookup] at h
    · exact h
    · exact absurd h (by decide)

/-- base score computed with the impact sub-score perturbed by `ε` when Scope is Changed -/
def baseScoreP (a : Str → Str) (ε : Rat) : Rat :=
  let iss := 1 - (1 - Spec.V3.w c!"C" (a c!"C")) * (1 - Spec.V3.w c!"I" (a c!"I")) * (1 - Spec.V3.w c!"A" (a c!"A"))
  let changed := a c!"S" = c!"C"
  let imp := Spec.V3.impact changed iss + (if changed then ε else 0)
  let expl := Spec.V3.r 822 100 * Spec.V3.w c!"AV" (a c!"AV") * Spec.V3.w c!"AC" (a c!"AC") *
      Spec.V3.prWeight changed (a c!"PR") * Spec.V3.w c!"UI" (a c!"UI")
  if imp ≤ 0 then 0
  else if changed then Spec.V3.roundup (min (Spec.V3.r 108 100 * (imp + expl)) 10)
  else Spec.V3.roundup (min (imp + expl) 10)

theorem baseScoreP_zero (a : Str → Str) : baseScoreP a 0 = Spec.V3.baseScore a := by
  simp only [baseScoreP, Spec.V3.baseScore, ite_self, add_zero]

/-- the Changed-scope branch of `baseScoreP`, in the shape of `Lemmas.Robust.core_robust` -/
theorem baseScoreP_changed (a : Str → Str) (hs : a c!"S" = c!"C") (ε : Rat) :
    baseScoreP a ε =
      (if Spec.V3.impact true (issOf (Spec.V3.w c!"C" (a c!"C")) (Spec.V3.w c!"I" (a c!"I"))
              (Spec.V3.w c!"A" (a c!"A"))) + ε ≤ 0 then (0 : Rat)
       else (fun x => x) (Spec.V3.roundup (min (Spec.V3.r 108 100 *
          (Spec.V3.impact true (issOf (Spec.V3.w c!"C" (a c!"C")) (Spec.V3.w c!"I" (a c!"I"))
              (Spec.V3.w c!"A" (a c!"A"))) + ε +
           explOf (Spec.V3.w c!"AV" (a c!"AV")) (Spec.V3.w c!"AC" (a c!"AC"))
              (Spec.V3.prWeight true (a c!"PR")) (Spec.V3.w c!"UI" (a c!"UI")))) 10))) := by
  have hd : decide (a c!"S" = c!"C") = true := decide_eq_true hs
  unfold baseScoreP
  simp only [hd, if_pos hs]
  rfl

/-- BASE: any perturbation |ε| ≤ 10⁻⁷ of the Changed-scope impact leaves the base score unchanged -/
theorem v3_base_decimal_robust (a : Str → Str) (ha : Legal3 a) (ε : Rat) (hε : -(1 / 10000000) ≤ ε ∧ ε ≤ 1 / 10000000) :
    baseScoreP a ε = Spec.V3.baseScore a := by
  rw [← baseScoreP_zero]
  by_cases hs : a c!"S" = c!"C"
  · rw [baseScoreP_changed a hs ε, baseScoreP_changed a hs 0]
    simp only [add_zero]
    exact core_robust
      (base_ok (legal_w ha (by decide)) (legal_w ha (by decide)) (legal_w ha (by decide))
        (legal_w ha (by decide)) (legal_w ha (by decide)) (prWeight_mem ha.2.1) (legal_w ha (by decide)))
      hε.1 hε.2 (fun x => x)
  · unfold baseScoreP
    simp only [if_neg hs]

/-- environmental score with the modified impact perturbed by `ε` when Modified Scope is Changed -/
def environmentalScoreP (minor : Nat) (a : Str → Str) (ε : Rat) : Rat :=
  let mc := Spec.V3.eff a c!"MC" c!"C"; let mi := Spec.V3.eff a c!"MI" c!"I"; let ma := Spec.V3.eff a c!"MA" c!"A"
  let miss := min (1 - (1 - Spec.V3.w c!"C" mc * Spec.V3.w c!"CR" (a c!"CR")) * (1 - Spec.V3.w c!"I" mi * Spec.V3.w c!"IR" (a c!"IR"))
                      * (1 - Spec.V3.w c!"A" ma * Spec.V3.w c!"AR" (a c!"AR"))) (Spec.V3.r 915 1000)
  let changed := Spec.V3.eff a c!"MS" c!"S" = c!"C"
  let mimp := Spec.V3.modifiedImpact minor changed miss + (if changed then ε else 0)
  let mexpl := Spec.V3.r 822 100 * Spec.V3.w c!"AV" (Spec.V3.eff a c!"MAV" c!"AV") * Spec.V3.w c!"AC" (Spec.V3.eff a c!"MAC" c!"AC")
                 * Spec.V3.prWeight changed (Spec.V3.eff a c!"MPR" c!"PR") * Spec.V3.w c!"UI" (Spec.V3.eff a c!"MUI" c!"UI")
  if mimp ≤ 0 then 0
  else if changed then
    Spec.V3.roundup (Spec.V3.roundup (min (Spec.V3.r 108 100 * (mimp + mexpl)) 10) * Spec.V3.temporalFactor a)
  else Spec.V3.roundup (Spec.V3.roundup (min (mimp + mexpl) 10) * Spec.V3.temporalFactor a)

theorem environmentalScoreP_zero (minor : Nat) (a : Str → Str) :
    environmentalScoreP minor a 0 = Spec.V3.environmentalScore minor a := by
  simp only [environmentalScoreP, Spec.V3.environmentalScore, ite_self, add_zero]

/-- all (modified impact, exploitability) pairs pass the margin test, for either formula -/
theorem env_ok (minor : Nat) {m av ac pr ui : Rat} (hm : m ∈ missVals)
    (h1 : av ∈ rowVals c!"AV") (h2 : ac ∈ rowVals c!"AC") (h3 : pr ∈ prVals) (h4 : ui ∈ rowVals c!"UI") :
    okPair (Spec.V3.modifiedImpact minor true m) (explOf av ac pr ui) = true := by
  by_cases h0 : minor = 0
  · subst h0
    have h := envCheck0_ok
    unfold envCheck at h
    simp only [List.all_eq_true] at h
    exact explAll_spec (h m hm) h1 h2 h3 h4
  · rw [modifiedImpact_minor h0]
    have h := envCheck1_ok
    unfold envCheck at h
    simp only [List.all_eq_true] at h
    exact explAll_spec (h m hm) h1 h2 h3 h4

/-- the Changed-scope branch of `environmentalScoreP`, in the shape of `Lemmas.Robust.core_robust` -/
theorem environmentalScoreP_changed (minor : Nat) (a : Str → Str)
    (hs : Spec.V3.eff a c!"MS" c!"S" = c!"C") (ε : Rat) :
    environmentalScoreP minor a ε =
      (if Spec.V3.modifiedImpact minor true
            (missOf (Spec.V3.w c!"C" (Spec.V3.eff a c!"MC" c!"C") * Spec.V3.w c!"CR" (a c!"CR"))
              (Spec.V3.w c!"I" (Spec.V3.eff a c!"MI" c!"I") * Spec.V3.w c!"IR" (a c!"IR"))
              (Spec.V3.w c!"A" (Spec.V3.eff a c!"MA" c!"A") * Spec.V3.w c!"AR" (a c!"AR"))) + ε ≤ 0 then (0 : Rat)
       else (fun x => Spec.V3.roundup (x * Spec.V3.temporalFactor a))
        (Spec.V3.roundup (min (Spec.V3.r 108 100 *
          (Spec.V3.modifiedImpact minor true
            (missOf (Spec.V3.w c!"C" (Spec.V3.eff a c!"MC" c!"C") * Spec.V3.w c!"CR" (a c!"CR"))
              (Spec.V3.w c!"I" (Spec.V3.eff a c!"MI" c!"I") * Spec.V3.w c!"IR" (a c!"IR"))
              (Spec.V3.w c!"A" (Spec.V3.eff a c!"MA" c!"A") * Spec.V3.w c!"AR" (a c!"AR"))) + ε +
           explOf (Spec.V3.w c!"AV" (Spec.V3.eff a c!"MAV" c!"AV")) (Spec.V3.w c!"AC" (Spec.V3.eff a c!"MAC" c!"AC"))
              (Spec.V3.prWeight true (Spec.V3.eff a c!"MPR" c!"PR"))
              (Spec.V3.w c!"UI" (Spec.V3.eff a c!"MUI" c!"UI")))) 10))) := by
  have hd : decide (Spec.V3.eff a c!"MS" c!"S" = c!"C") = true := decide_eq_true hs
  unfold environmentalScoreP
  simp only [hd, if_pos hs]
  rfl

/-- ENVIRONMENTAL: likewise, for both minor versions' formulas -/
theorem v3_env_decimal_robust (minor : Nat) (a : Str → Str) (ha : Legal3 a) (ε : Rat) (hε : -(1 / 10000000) ≤ ε ∧ ε ≤ 1 / 10000000) :
    environmentalScoreP minor a ε = Spec.V3.environmentalScore minor a := by
  rw [← environmentalScoreP_zero]
  by_cases hs : Spec.V3.eff a c!"MS" c!"S" = c!"C"
  · rw [environmentalScoreP_changed minor a hs ε, environmentalScoreP_changed minor a hs 0]
    simp only [add_zero]
    exact core_robust
      (env_ok minor
        (miss_mem
          (prodC_mem (legal_eff_w ha (M := c!"MC") (by decide) rfl (by decide)) (legal_w ha (by decide)))
          (prodI_mem (legal_eff_w ha (M := c!"MI") (by decide) rfl (by decide)) (legal_w ha (by decide)))
          (prodA_mem (legal_eff_w ha (M := c!"MA") (by decide) rfl (by decide)) (legal_w ha (by decide))))
        (legal_eff_w ha (M := c!"MAV") (by decide) rfl (by decide))
        (legal_eff_w ha (M := c!"MAC") (by decide) rfl (by decide))
        (prWeight_mem (legal_eff_pr ha))
        (legal_eff_w ha (M := c!"MUI") (by decide) rfl (by decide)))
      hε.1 hε.2 (fun x => Spec.V3.roundup (x * Spec.V3.temporalFactor a))
  · unfold environmentalScoreP
    simp only [if_neg hs]

end Cvss.Props.C19
