/-
  C19 — results depend only on the input: no hidden state or ambient dependence.
-/
import Cvss.Model.Any
namespace Cvss.Props.C19
open Cvss Cvss.Model

/-- the v2 scores depend on the metric map only through its look-ups (not on insertion order or
    any other state) -/
theorem v2_scores_lookup_only (m m' : MMap) (h : ∀ k, lookup k m = lookup k m') :
    V2.computeScores m = V2.computeScores m' := by
  have hg : ∀ a, V2.getValue m a = V2.getValue m' a := by
    intro a; simp [V2.getValue, h]
  have hn : ∀ g, V2.allND m g = V2.allND m' g := by
    intro g; simp [V2.allND, h]
  simp [V2.computeScores, V2.baseScore, V2.baseEq, V2.temporalEq, V2.impactEq, V2.adjustedImpactEq, hg, hn]

end Cvss.Props.C19
