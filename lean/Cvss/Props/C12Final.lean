/-
  C12 — v4 round trip (constructor level).
-/
import Cvss.Props.C12
import Cvss.Props.C07Final
import Cvss.Props.C09Final
namespace Cvss.Props.C12
open Cvss Cvss.Model Cvss.Lemmas.Construct

/-- ROUND TRIP v4: `from_rh_vector(x.rh_vector())` succeeds and equals x -/
theorem rh_roundtrip_v4 (s : Str) (o : V4.Obj) (h : V4.construct s = .ok o) :
    ∃ o', fromRh .v4 (AnyObj.o4 o).rh = .ok o' ∧ o'.eq (AnyObj.o4 o) = true := by
  obtain ⟨⟨k, hk, hb⟩, -⟩ := C09.v4_scores_wellformed s o h
  obtain ⟨o', hc, -, hsc, -, -, heq⟩ := C07.v4_clean_roundtrip s o h
  refine rh_roundtrip_aux .v4 (AnyObj.o4 o) (AnyObj.o4 o') k hk hb ?_ ?_ heq
  · show (V4.construct (o.clean true)).map AnyObj.o4 = _
    rw [hc]; rfl
  · simp only [V4.Obj.scores, List.cons.injEq, Option.some.injEq] at hsc
    exact hsc.1

end Cvss.Props.C12
