/-
  C18 — accessor totality for v4.
-/
import Cvss.Props.C18
import Cvss.Lemmas.Construct
import Cvss.Lemmas.V4Glue
namespace Cvss.Props.C18
open Cvss Cvss.Model Cvss.Lemmas.Construct

theorem accessors_total_v4 (s : Str) (o : V4.Obj) (h : V4.construct s = .ok o) (sort minimal : Bool) :
    ((AnyObj.o4 o).asJson sort minimal).isSome = true :=
  Lemmas.V4Glue.v4_asJson_isSome h sort minimal

end Cvss.Props.C18
