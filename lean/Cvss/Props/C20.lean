/-
  C20 — identical behaviour on every supported Python.
  No theorem can quantify over interpreters; this file holds the model facts that make the
  interpreter-sensitive outputs order-determined (so that interpreters which correspond to the
  model agree with each other).
-/
import Cvss.Model.Json
namespace Cvss.Props.C20
open Cvss Cvss.Model

/-- the key order used for sorted JSON is irreflexive (a strict order on strings) -/
theorem strLt_irrefl (s : Str) : strLt s s = false := by
  induction s with
  | nil => rfl
  | cons a as ih => simp [strLt, ih]

end Cvss.Props.C20
