/-
  C20 — identical behaviour on every supported Python.
  No theorem can quantify over interpreters; this file holds the model facts that make the
  interpreter-sensitive outputs order-determined (so that interpreters which correspond to the
  model agree with each other).
-/
import Cvss.Model.Json
import Cvss.Props.C11
import Cvss.Lemmas.Cli
namespace Cvss.Props.C20
open Cvss Cvss.Model

/-- the key order used for sorted JSON is irreflexive (a strict order on strings) -/
theorem strLt_irrefl (s : Str) : strLt s s = false := by
  induction s with
  | nil => rfl
  | cons a as ih => simp [strLt, ih]

/-- the sorted JSON object does not depend on the order in which the fields were inserted (dict
    iteration order differs between interpreters: hash order on 2.7, insertion order from 3.7):
    any two key-distinct objects with the same items sort to the same list -/
theorem sortObj_order_independent (l₁ l₂ : JObj) (hp : l₁.Perm l₂) (hn : (keys l₁).Nodup) :
    sortObj l₁ = sortObj l₂ := by
  have hp' : (sortObj l₁).Perm (sortObj l₂) :=
    ((C11.sortObj_perm l₁).trans hp).trans (C11.sortObj_perm l₂).symm
  have hn' : (keys (sortObj l₁)).Nodup :=
    (List.Perm.map (fun p : Str × JVal => p.1) (C11.sortObj_perm l₁)).nodup_iff.2 hn
  exact Lemmas.Cli.sorted_perm_eq _ _ hp' hn' (C11.sortObj_sorted l₁) (C11.sortObj_sorted l₂)

end Cvss.Props.C20
