/-
  C18 — a constructed object is an immutable value with total, pure accessors.
-/
import Cvss.Model.Json
import Cvss.Props.C10
namespace Cvss.Props.C18
open Cvss Cvss.Model

inductive Op | scores | severities | clean (p : Bool) | rh | json (sort minimal : Bool) | eqSelf | hash
  deriving Repr

inductive Out | scores (x : List (Option Rat)) | strs (x : List Str) | str (x : Str) | json (x : Option JObj) | bool (b : Bool)

def call (o : AnyObj) : Op → Out
  | .scores => .scores o.scores
  | .severities => .strs o.severities
  | .clean p => .str (o.clean p)
  | .rh => .str o.rh
  | .json s m => .json (o.asJson s m)
  | .eqSelf => .bool (o.eq o)
  | .hash => .str o.hashKey

/-- accessor calls do not change the object -/
def step (o : AnyObj) (op : Op) : AnyObj × Out := (o, call o op)

def runOps (o : AnyObj) : List Op → AnyObj × List Out
  | [] => (o, [])
  | op :: rest => let r := step o op; let q := runOps r.1 rest; (q.1, r.2 :: q.2)

/-- for every sequence of accessor calls the object is unchanged and each output equals the single-call
    output (in the model the object is an immutable value; the Python object is tied by correspondence) -/
theorem accessors_pure (o : AnyObj) (ops : List Op) : (runOps o ops).1 = o ∧ (runOps o ops).2 = ops.map (call o) := by
  induction ops with
  | nil => simp [runOps]
  | cons op rest ih => simp [runOps, step, ih.1, ih.2]

/-- TOTAL: on a constructed v2 / v3 object the only accessor that could fail in the model — `as_json`, through a
    missing table entry — never does, for any options -/
theorem accessors_total_v2 (s : Str) (o : V2.Obj) (h : V2.construct s = .ok o) (sort minimal : Bool) :
    ((AnyObj.o2 o).asJson sort minimal).isSome = true := by
  obtain ⟨j, hj, -⟩ := C10.v2_json_valid s o h sort minimal
  simp only [AnyObj.asJson, hj, Option.isSome_some]

theorem accessors_total_v3 (s : Str) (o : V3.Obj) (h : V3.construct s = .ok o) (sort minimal : Bool) :
    ((AnyObj.o3 o).asJson sort minimal).isSome = true := by
  obtain ⟨j, hj, -⟩ := C10.v3_json_valid s o h sort minimal
  simp only [AnyObj.asJson, hj, Option.isSome_some]

end Cvss.Props.C18
