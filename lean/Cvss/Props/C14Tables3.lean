/-
  C14, kernel-evaluated finite check: every single severity step of a v3 base metric, over all 2592
  tuples of legal base tokens, does not lower the base score.
-/
import Cvss.Lemmas.Mono
namespace Cvss.Props.C14Tables3
open Cvss Cvss.Lemmas.Mono

/-- the same list as `C14.steps3base` -/
def steps3base : List (Str × Str × Str) :=
  [(c!"AV", c!"P", c!"L"), (c!"AV", c!"L", c!"A"), (c!"AV", c!"A", c!"N"), (c!"AC", c!"H", c!"L"),
   (c!"PR", c!"H", c!"L"), (c!"PR", c!"L", c!"N"), (c!"UI", c!"R", c!"N"), (c!"S", c!"U", c!"C"),
   (c!"C", c!"N", c!"L"), (c!"C", c!"L", c!"H"), (c!"I", c!"N", c!"L"), (c!"I", c!"L", c!"H"),
   (c!"A", c!"N", c!"L"), (c!"A", c!"L", c!"H")]

set_option maxRecDepth 100000 in
theorem base_steps : stepChk V3.baseL V3.keys V3.rows steps3base = true := by
  decide +kernel

end Cvss.Props.C14Tables3
