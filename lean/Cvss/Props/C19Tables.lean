/-
  C19 (arithmetic part) — kernel-evaluated finite checks: for every combination of legal weights the exact
  Changed-scope value `1.08·(impact + exploitability)` keeps the safety margins of `Lemmas.Robust.okPair`.
-/
import Cvss.Spec.V3
import Cvss.Lemmas.Robust
namespace Cvss.Props.C19Tables
open Cvss Cvss.Spec.V3 Cvss.Lemmas.Robust

/-- the weights listed in the row of `metric` -/
def rowVals (metric : Str) : List Rat := ((lookup metric weights).getD []).map (·.2)

/-- Privileges Required weights when (Modified) Scope is Changed -/
def prVals : List Rat := [r 85 100, r 68 100, r 5 10]

def issOf (c i a : Rat) : Rat := 1 - (1 - c) * (1 - i) * (1 - a)

def missOf (c i a : Rat) : Rat := min (1 - (1 - c) * (1 - i) * (1 - a)) (r 915 1000)

def explOf (av ac pr ui : Rat) : Rat := r 822 100 * av * ac * pr * ui

/-- `P` holds of every exploitability value (48 combinations) -/
def explAll (P : Rat → Bool) : Bool :=
  (rowVals c!"AV").all fun av => (rowVals c!"AC").all fun ac => prVals.all fun pr =>
    (rowVals c!"UI").all fun ui => P (explOf av ac pr ui)

theorem explAll_spec {P : Rat → Bool} (h : explAll P = true) {av ac pr ui : Rat}
    (h1 : av ∈ rowVals c!"AV") (h2 : ac ∈ rowVals c!"AC") (h3 : pr ∈ prVals) (h4 : ui ∈ rowVals c!"UI") :
    P (explOf av ac pr ui) = true := by
  unfold explAll at h
  simp only [List.all_eq_true] at h
  exact h av h1 ac h2 pr h3 ui h4

/-! ### base score: 27 × 48 combinations -/

def baseCheck : Bool :=
  (rowVals c!"C").all fun c => (rowVals c!"I").all fun i => (rowVals c!"A").all fun a =>
    explAll fun e => okPair (impact true (issOf c i a)) e

theorem baseCheck_ok : baseCheck = true := by decide +kernel

theorem base_ok {c i a av ac pr ui : Rat}
    (hc : c ∈ rowVals c!"C") (hi : i ∈ rowVals c!"I") (ha : a ∈ rowVals c!"A")
    (h1 : av ∈ rowVals c!"AV") (h2 : ac ∈ rowVals c!"AC") (h3 : pr ∈ prVals) (h4 : ui ∈ rowVals c!"UI") :
    okPair (impact true (issOf c i a)) (explOf av ac pr ui) = true := by
  have h := baseCheck_ok
  unfold baseCheck at h
  simp only [List.all_eq_true] at h
  exact explAll_spec (h c hc i hi a ha) h1 h2 h3 h4

/-! ### environmental score -/

/-- the 7 distinct products (impact weight) × (requirement weight) -/
def prodVals : List Rat := [0, r 11 100, r 22 100, r 28 100, r 33 100, r 56 100, r 84 100]

theorem prodC_ok : ((rowVals c!"C").all fun c => (rowVals c!"CR").all fun q => decide (c * q ∈ prodVals)) = true := by
  decide +kernel
theorem prodI_ok : ((rowVals c!"I").all fun c => (rowVals c!"IR").all fun q => decide (c * q ∈ prodVals)) = true := by
  decide +kernel
theorem prodA_ok : ((rowVals c!"A").all fun c => (rowVals c!"AR").all fun q => decide (c * q ∈ prodVals)) = true := by
  decide +kernel

theorem prodC_mem {c q : Rat} (hc : c ∈ rowVals c!"C") (hq : q ∈ rowVals c!"CR") : c * q ∈ prodVals := by
  have h := prodC_ok
  simp only [List.all_eq_true, decide_eq_true_eq] at h
  exact h c hc q hq
theorem prodI_mem {c q : Rat} (hc : c ∈ rowVals c!"I") (hq : q ∈ rowVals c!"IR") : c * q ∈ prodVals := by
  have h := prodI_ok
  simp only [List.all_eq_true, decide_eq_true_eq] at h
  exact h c hc q hq
theorem prodA_mem {c q : Rat} (hc : c ∈ rowVals c!"A") (hq : q ∈ rowVals c!"AR") : c * q ∈ prodVals := by
  have h := prodA_ok
  simp only [List.all_eq_true, decide_eq_true_eq] at h
  exact h c hc q hq

/-- the 68 distinct values of the (capped) modified impact sub-score base -/
def missVals : List Rat :=
  [ 0, r 11 100, r 2079 10000, r 11 50, r 7 25, r 295031 1000000, r 1529 5000, r 33 100, r 449 1250,
    r 191081 500000, r 979 2500, r 4037 10000, r 53711 125000, r 274 625, r 114631 250000,
    r 469293 1000000, r 2387 5000, r 301 625, r 31261 62500, r 647 1250, r 65681 125000,
    r 267443 500000, r 8416 15625, r 5511 10000, r 14 25, r 17561 31250, r 71333 125000,
    r 148093 250000, r 9307 15625, r 600479 1000000, r 1521 2500, r 38983 62500, r 9793 15625,
    r 324929 500000, r 162869 250000, r 10198 15625, r 821 1250, r 84599 125000, r 427 625,
    r 86819 125000, r 699237 1000000, r 1763 2500, r 22439 31250, r 45769 62500, r 184407 250000,
    r 11764 15625, r 96257 125000, r 12061 15625, r 24617 31250, r 200621 250000, r 504 625,
    r 51731 62500, r 21 25, r 26531 31250, r 536 625, r 13447 15625, r 54393 62500, r 54579 62500,
    r 547 625, r 553 625, r 27779 31250, r 558 625, r 14023 15625, r 14104 15625, r 56537 62500,
    r 14221 15625, r 14294 15625, r 183 200 ]

theorem miss_ok : (prodVals.all fun u => prodVals.all fun v => prodVals.all fun x =>
    decide (missOf u v x ∈ missVals)) = true := by
  decide +kernel

theorem miss_mem {u v x : Rat} (hu : u ∈ prodVals) (hv : v ∈ prodVals) (hx : x ∈ prodVals) :
    missOf u v x ∈ missVals := by
  have h := miss_ok
  simp only [List.all_eq_true, decide_eq_true_eq] at h
  exact h u hu v hv x hx

/-- all (modified impact base, exploitability) pairs for the formula of minor version `minor` -/
def envCheck (minor : Nat) : Bool :=
  missVals.all fun m => explAll fun e => okPair (modifiedImpact minor true m) e

theorem modifiedImpact_minor {minor : Nat} (h : minor ≠ 0) (m : Rat) :
    modifiedImpact minor true m = modifiedImpact 1 true m := by
  simp [modifiedImpact, h]

end Cvss.Props.C19Tables
