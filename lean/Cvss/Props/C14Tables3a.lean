/-
  C14, kernel-evaluated finite checks for the v3 environmental score: the reachable Modified Impact
  Sub-Scores, and (v3.1, Changed scope) monotonicity of the inner Roundup along them.
-/
import Cvss.Lemmas.Mono
namespace Cvss.Props.C14Tables3a
open Cvss Cvss.Lemmas.Mono

theorem prodChk : V3.prodChk = true := by decide +kernel

set_option maxRecDepth 100000 in
theorem missChk : V3.missChk = true := by decide +kernel

set_option maxRecDepth 100000 in
theorem impactChk : V3.impactChk = true := by decide +kernel

end Cvss.Props.C14Tables3a
