/-
  C09 — scores are well-formed and severity ratings follow the official scale.
-/
import Cvss.Model.Any
import Cvss.Spec.Severity
import Cvss.Lemmas.Construct
import Cvss.Lemmas.Rh
namespace Cvss.Props.C09
open Cvss Cvss.Model

/-- the v3 / v4 rating functions are the official scale on every representable score -/
theorem rating_v3_official : ∀ t ∈ List.range 101, V3.sevOf ((t : Rat) / 10) = Spec.Severity.rating34 t := by
  decide +kernel

theorem rating_v4_official : ∀ t ∈ List.range 101, V4.sevOf ((t : Rat) / 10) = Spec.Severity.rating34 t := by
  decide +kernel

/-- the v2 rating function is the NVD scale, `None` for an undefined score -/
theorem rating_v2_official :
    V2.sevOf none = Spec.Severity.rating2 none ∧
    ∀ t ∈ List.range 101, V2.sevOf (some ((t : Rat) / 10)) = Spec.Severity.rating2 (some t) := by
  refine ⟨by decide +kernel, by decide +kernel⟩

/-- the three rating views of a v4 object coincide by construction -/
theorem v4_rating_views (o : V4.Obj) (s : Str) (m : MMap) (h : V4.build s m = some o) :
    o.severity = V4.sevOf o.base ∧ (AnyObj.o4 o).severities = [V4.sevOf o.base] := by
  unfold V4.build at h
  cases h1 : V4.fillModified m V4.modifiedMetrics with
  | none => simp [h1] at h
  | some m1 =>
    simp only [h1] at h
    cases h2 : V4.baseScore (V4.fillDefaults m1 V4.defaultedMetrics) with
    | none => simp [h2] at h
    | some b =>
      simp [h2] at h
      subst h
      simp [AnyObj.severities, V4.Obj.severities]

/-- a well-formed score: an integer number of tenths between 0.0 and 10.0 -/
def IsScore (x : Rat) : Prop := ∃ k : Nat, k ≤ 100 ∧ x = (k : Rat) / 10

/-- the tenths of a well-formed score -/
def tenths (x : Rat) : Nat := (x * 10).floor.toNat

/-- the tenths of `k/10` are `k` -/
theorem tenths_of_nat (k : Nat) : tenths ((k : Rat) / 10) = k := Lemmas.Rh.tenths_of_nat k

/-- on a well-formed (or undefined) score the v2 rating function is the NVD scale -/
theorem sev2_official (sc : Option Rat) (h : ∀ x, sc = some x → IsScore x) :
    V2.sevOf sc = Spec.Severity.rating2 (sc.map tenths) := by
  cases sc with
  | none => exact rating_v2_official.1
  | some x =>
    obtain ⟨k, hk, rfl⟩ := h x rfl
    simp only [Option.map_some, tenths_of_nat]
    exact rating_v2_official.2 k (List.mem_range.2 (by omega))

/-- on a well-formed score the v3 rating function is the official scale -/
theorem sev3_official (x : Rat) (h : IsScore x) : V3.sevOf x = Spec.Severity.rating34 (tenths x) := by
  obtain ⟨k, hk, rfl⟩ := h
  rw [tenths_of_nat]
  exact rating_v3_official k (List.mem_range.2 (by omega))

/-- v2: every reported score is well-formed; `None` occurs only for the temporal / environmental slot and
    exactly when every metric of that group is absent or ND; each rating is the NVD rating of its score
    ("None" for an undefined score) -/
theorem v2_scores_wellformed (s : Str) (o : V2.Obj) (h : V2.construct s = .ok o) :
    IsScore o.base ∧ (∀ x, o.temporal = some x → IsScore x) ∧ (∀ x, o.env = some x → IsScore x) ∧
    (o.temporal = none ↔ ∀ k ∈ Gen.V2.temporal, assignment V2.ND o.metrics k = V2.ND) ∧
    (o.env = none ↔ ∀ k ∈ Gen.V2.environmental, assignment V2.ND o.metrics k = V2.ND) ∧
    o.severities = o.scores.map (fun sc => Spec.Severity.rating2 (sc.map tenths)) := by
  obtain ⟨hb, ht, he⟩ := Lemmas.Rh.v2_obj_range h
  have hb' : IsScore o.base := hb
  have ht' : ∀ x, o.temporal = some x → IsScore x := ht
  have he' : ∀ x, o.env = some x → IsScore x := he
  refine ⟨hb', ht', he', ?_, ?_, ?_⟩
  · obtain ⟨m, hp, rfl⟩ := (Lemmas.Construct.v2_construct_ok_iff s o).1 h
    simp only [Gen.V2.temporal, List.mem_cons, List.not_mem_nil, or_false, forall_eq_or_imp, forall_eq]
    exact (C03.v2_none_iff (assignment V2.ND m)).1
  · obtain ⟨m, hp, rfl⟩ := (Lemmas.Construct.v2_construct_ok_iff s o).1 h
    simp only [Gen.V2.environmental, List.mem_cons, List.not_mem_nil, or_false, forall_eq_or_imp, forall_eq]
    exact (C03.v2_none_iff (assignment V2.ND m)).2
  · simp only [V2.Obj.severities, V2.Obj.scores, List.map_cons, List.map_nil]
    rw [sev2_official (some o.base) (by intro x hx; cases hx; exact hb'),
      sev2_official o.temporal ht', sev2_official o.env he']

/-- v3: every reported score is well-formed and each rating is the official rating of its score -/
theorem v3_scores_wellformed (s : Str) (o : V3.Obj) (h : V3.construct s = .ok o) :
    IsScore o.base ∧ IsScore o.temporal ∧ IsScore o.env ∧
    o.severities = [o.base, o.temporal, o.env].map (fun x => Spec.Severity.rating34 (tenths x)) := by
  obtain ⟨hb, ht, he⟩ := Lemmas.Rh.v3_obj_range h
  have hb' : IsScore o.base := hb
  have ht' : IsScore o.temporal := ht
  have he' : IsScore o.env := he
  refine ⟨hb', ht', he', ?_⟩
  simp only [V3.Obj.severities, List.map_cons, List.map_nil]
  rw [sev3_official _ hb', sev3_official _ ht', sev3_official _ he']

/-- the score printed in `rh_vector()` / the JSON is the one-decimal text of the score: digits, a point, one digit -/
theorem showScore_wellformed (x : Rat) (hx : IsScore x) :
    showScore x = natToStr (tenths x / 10) ++ '.' :: [digitChar (tenths x % 10)] ∧ tenths x ≤ 100 ∧
      x = (tenths x : Rat) / 10 := by
  obtain ⟨k, hk, rfl⟩ := hx
  rw [tenths_of_nat]
  refine ⟨?_, hk, rfl⟩
  have hd : ∀ d, d < 10 → Nat.digitChar d = digitChar d := by decide
  have hlt : k % 10 < 10 := Nat.mod_lt _ (by decide)
  show natToStr (tenths ((k : Rat) / 10) / 10) ++ '.' :: natToStr (tenths ((k : Rat) / 10) % 10) = _
  rw [tenths_of_nat]
  show _ ++ '.' :: Nat.toDigits 10 (k % 10) = _
  rw [Nat.toDigits_of_lt_base hlt, hd _ hlt]

end Cvss.Props.C09
