/-
  C09 — scores are well-formed and severity ratings follow the official scale.
-/
import Cvss.Model.Any
import Cvss.Spec.Severity
namespace Cvss.Props.C09
open Cvss Cvss.Model

/-- the v3 / v4 rating functions are the official scale on every representable score -/
theorem rating_v3_official : ∀ t ∈ List.range 101, V3.sevOf ((t : Rat) / 10) = Spec.Severity.rating34 t := by
  decide +kernel

theorem rating_v4_official : ∀ t ∈ List.range 101, V4.sevOf ((t : Rat) / 10) = Spec.Severity.rating34 t := by
  decide +kernel

/-- the v2 rating function is the NVD scale, `None` for an undefined score -/
theorem rating_v2_official :
    V2.sevOf none = Spec.Severity.rating2 none ∧
    ∀ t ∈ List.range 101, V2.sevOf (some ((t : Rat) / 10)) = Spec.Severity.rating2 (some t) := by
  refine ⟨by decide +kernel, by decide +kernel⟩

/-- the three rating views of a v4 object coincide by construction -/
theorem v4_rating_views (o : V4.Obj) (s : Str) (m : MMap) (h : V4.build s m = some o) :
    o.severity = V4.sevOf o.base ∧ (AnyObj.o4 o).severities = [V4.sevOf o.base] := by
  unfold V4.build at h
  cases h1 : V4.fillModified m V4.modifiedMetrics with
  | none => simp [h1] at h
  | some m1 =>
    simp only [h1] at h
    cases h2 : V4.baseScore (V4.fillDefaults m1 V4.defaultedMetrics) with
    | none => simp [h2] at h
    | some b =>
      simp [h2] at h
      subst h
      simp [AnyObj.severities, V4.Obj.severities]

end Cvss.Props.C09
