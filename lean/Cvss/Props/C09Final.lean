/-
  C09 — v4, constructor level.
-/
import Cvss.Props.C09
import Cvss.Lemmas.Construct
namespace Cvss.Props.C09
open Cvss Cvss.Model Cvss.Lemmas.Construct

/-- v4: the score is well-formed, and the rating exposed by `severity`, by `severities()` and (see C11
    `asJson4_full`) by the JSON is the official rating of the score -/
theorem v4_scores_wellformed (s : Str) (o : V4.Obj) (h : V4.construct s = .ok o) :
    IsScore o.base ∧ o.scores = [some o.base] ∧ o.severity = Spec.Severity.rating34 (tenths o.base) ∧
    o.severities = [Spec.Severity.rating34 (tenths o.base)] := by
  obtain ⟨-, -, hb, hs⟩ := v4_construct_spec h
  obtain ⟨x, hx, k, hk, rfl⟩ := C02.v4_spec_range (assignment V4.X o.orig)
  rw [hb] at hx
  have hx' : o.base = (k : Rat) / 10 := Option.some.inj hx
  have hsev : o.severity = Spec.Severity.rating34 (tenths o.base) := by
    rw [hs, hx', tenths_of_nat]
    exact rating_v4_official k (List.mem_range.2 (by omega))
  refine ⟨⟨k, hk, hx'⟩, rfl, hsev, ?_⟩
  simp only [V4.Obj.severities, hsev]

end Cvss.Props.C09
