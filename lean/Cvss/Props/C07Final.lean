/-
  C07 — v4, constructor level.
-/
import Cvss.Props.C07
import Cvss.Lemmas.Construct
import Cvss.Lemmas.V4Glue
namespace Cvss.Props.C07
open Cvss Cvss.Model Cvss.Lemmas.Construct Cvss.Lemmas.V4Glue

/-- v4: re-parsing the clean vector succeeds and yields an equal object with the same score, rating and
    clean vector, whose metric map is exactly the canonical listing -/
theorem v4_clean_roundtrip (s : Str) (o : V4.Obj) (h : V4.construct s = .ok o) :
    ∃ o', V4.construct (o.clean true) = .ok o' ∧ o'.orig = definedPairs (keys Gen.V4.abbrs) V4.X o.orig ∧
      o'.scores = o.scores ∧ o'.severities = o.severities ∧ o'.clean true = o.clean true ∧
      (AnyObj.o4 o').eq (AnyObj.o4 o) = true := by
  obtain ⟨-, hp, -, -⟩ := v4_construct_spec h
  obtain ⟨c1, c2, c3, -⟩ := canon4 hp
  obtain ⟨o', ho', hor, -⟩ := v4_construct_of_parse c1
  have hcl : ∀ b, V4.Obj.clean o' b = V4.Obj.clean o b := by
    intro b
    unfold V4.Obj.clean
    rw [hor]
    exact c2 b
  obtain ⟨hbase, hsev⟩ := v4_base_congr ho' h (by rw [hor]; exact c3)
  refine ⟨o', ho', hor, ?_, ?_, hcl true, ?_⟩
  · simp only [V4.Obj.scores, hbase]
  · simp only [V4.Obj.severities, hsev]
  · simp only [AnyObj.eq, AnyObj.ver, AnyObj.clean, hcl true, decide_true, Bool.and_self]

/-- v4: two constructed objects are equal exactly when they define the same metric values -/
theorem v4_constructed_eq_iff (s₁ s₂ : Str) (o₁ o₂ : V4.Obj) (h₁ : V4.construct s₁ = .ok o₁) (h₂ : V4.construct s₂ = .ok o₂) :
    (AnyObj.o4 o₁).eq (AnyObj.o4 o₂) = true ↔
      definedPairs (keys Gen.V4.abbrs) V4.X o₁.orig = definedPairs (keys Gen.V4.abbrs) V4.X o₂.orig :=
  v4_eq_iff s₁ s₂ o₁ o₂ (v4_construct_spec h₁).2.1 (v4_construct_spec h₂).2.1

/-- equal v4 objects have identical scores, ratings and clean vectors -/
theorem v4_eq_observables (s₁ s₂ : Str) (o₁ o₂ : V4.Obj) (h₁ : V4.construct s₁ = .ok o₁) (h₂ : V4.construct s₂ = .ok o₂)
    (he : (AnyObj.o4 o₁).eq (AnyObj.o4 o₂) = true) :
    o₁.scores = o₂.scores ∧ o₁.severities = o₂.severities ∧ o₁.clean true = o₂.clean true := by
  have hd := (v4_constructed_eq_iff s₁ s₂ o₁ o₂ h₁ h₂).1 he
  have hc : o₁.clean true = o₂.clean true := by
    simp only [AnyObj.eq, AnyObj.ver, AnyObj.clean, decide_true, Bool.true_and] at he
    exact of_decide_eq_true he
  obtain ⟨-, hp₁, -, -⟩ := v4_construct_spec h₁
  obtain ⟨-, hp₂, -, -⟩ := v4_construct_spec h₂
  obtain ⟨-, -, a, -⟩ := canon4 hp₁
  obtain ⟨-, -, b, -⟩ := canon4 hp₂
  have ha : assignment V4.X o₁.orig = assignment V4.X o₂.orig := by rw [← a, ← b, hd]
  obtain ⟨hbase, hsev⟩ := v4_base_congr h₁ h₂ ha
  refine ⟨?_, ?_, hc⟩
  · simp only [V4.Obj.scores, hbase]
  · simp only [V4.Obj.severities, hsev]

end Cvss.Props.C07
