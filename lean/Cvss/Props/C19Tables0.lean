/-
  C19 (arithmetic part) — the heavy kernel-evaluated check of the environmental score for the
  v3.0 formula (minor = 0, 15th power); a file of its own so that it builds in parallel.
-/
import Cvss.Props.C19Tables
namespace Cvss.Props.C19Tables

theorem envCheck0_ok : envCheck 0 = true := by decide +kernel

end Cvss.Props.C19Tables
