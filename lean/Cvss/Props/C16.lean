/-
  C16 — the interactive builder returns exactly the answered, valid vector.
-/
import Cvss.Model.Interactive
import Cvss.Lemmas.Parse
import Cvss.Props.C04
import Cvss.Lemmas.Interactive
namespace Cvss.Props.C16
open Cvss Cvss.Model Cvss.Model.Interactive

/-- a legal value typed as is (or in lower case) selects itself -/
def selectable (v : IVer) (m : Str) : Bool :=
  match lookup m (valueNamesOf v) with
  | none => false
  | some row => (keys row).all (fun x =>
      select (keys row) (normalize v x) == some x && select (keys row) (normalize v (x.map Float.lower)) == some x)

/-- every legal value of every metric of every version can be selected
    (for v4.0 Provider Urgency this needed the `fix:` commit in /repo: values such as "Clear" are
    not upper case) -/
theorem selectable_all :
    (abbrsOf .i2).all (selectable .i2) = true ∧ (abbrsOf .i30).all (selectable .i30) = true ∧
    (abbrsOf .i31).all (selectable .i31) = true ∧ (abbrsOf .i4).all (selectable .i4) = true := by decide +kernel

/-- the empty answer selects Not Defined wherever it is legal -/
theorem empty_selects_nd :
    ([IVer.i2, .i30, .i31, .i4].all fun v => (abbrsOf v).all fun m =>
      match lookup m (valueNamesOf v) with
      | none => false
      | some row => !(ndOf v ∈ keys row) || select (keys row) (normalize v []) == some (ndOf v)) = true := by
  decide +kernel

/-- what one answer means for a metric with legal values `values`: after stripping white space and
    ASCII case folding (empty = Not Defined), the legal value it denotes, if any -/
def accepted (v : IVer) (values : List Str) (answer : Str) : Option Str := select values (normalize v answer)

/-- an accepted answer always denotes a LEGAL value of the metric, matched case-insensitively -/
theorem accepted_legal (v : IVer) (values : List Str) (answer x : Str) (h : accepted v values answer = some x) :
    x ∈ values ∧ upper x = normalize v answer :=
  select_some h

/-- the dialogue the statement describes: the metrics are asked one after the other; each consumes
    answers up to and including the first one that denotes a legal value of that metric.
    `Dialogue v metrics answers acc rest`: asking `metrics` against `answers` accepts the pairs `acc`
    (metric, value) in order and leaves `rest` unread. -/
inductive Dialogue (v : IVer) : List Str → List Str → List (Str × Str) → List Str → Prop
  | done (answers : List Str) : Dialogue v [] answers [] answers
  | ask (m : Str) (ms : List Str) (row : List (Str × Str)) (bad : List Str) (good x : Str)
      (tail : List Str) (acc : List (Str × Str)) (rest : List Str) :
      lookup m (valueNamesOf v) = some row →
      (∀ b ∈ bad, accepted v (keys row) b = none) →
      accepted v (keys row) good = some x →
      Dialogue v ms tail acc rest →
      Dialogue v (m :: ms) (bad ++ good :: tail) ((m, x) :: acc) rest

/-- the metrics the builder asks: all of the version's table, or only the mandatory ones -/
def asked (v : IVer) (allMetrics : Bool) : List Str := if allMetrics then abbrsOf v else mandatoryOf v

/-- every metric that is asked has a row of value names (no KeyError) -/
theorem asked_have_rows :
    ([IVer.i2, .i30, .i31, .i4].all fun v => [true, false].all fun a =>
      (asked v a).all fun m => (lookup m (valueNamesOf v)).isSome) = true := by
  decide +kernel

/-! ### the loop against the dialogue (generalised over the accumulated fields and trace) -/

/-- if the loop returns a vector, the dialogue completed, and vector, trace and counter are as described -/
theorem loop_result_imp (v : IVer) (ms answers fields : List Str) (tr0 : List (Str × Nat)) (vec : Str)
    (n : Nat) (trace : List (Str × Nat)) (h : loop v ms answers fields tr0 = .result vec n trace) :
    ∃ acc rest tr, Dialogue v ms answers acc rest ∧
      vec = prefixOf v ++ join '/' (fields ++ acc.map fieldOf) ∧ trace = tr0 ++ tr ∧
      tr.map (·.1) = ms ∧ (tr.map (·.2)).sum + rest.length = answers.length ∧
      n = (trace.map (·.2)).sum := by
  induction ms generalizing answers fields tr0 with
  | nil =>
    rw [loop_nil] at h
    simp only [Outcome.result.injEq] at h
    obtain ⟨rfl, rfl, rfl⟩ := h
    exact ⟨[], answers, [], .done answers, by simp, by simp, rfl, by simp, rfl⟩
  | cons m ms ih =>
    cases hl : lookup m (valueNamesOf v) with
    | none => rw [loop_cons_none v m ms answers fields tr0 hl] at h; cases h
    | some row =>
      cases ha : askOne v (keys row) answers with
      | none => rw [loop_cons_eof v m ms answers fields tr0 row hl ha] at h; cases h
      | some t =>
        obtain ⟨x, rest', k⟩ := t
        rw [loop_cons_some v m ms answers fields tr0 row x rest' k hl ha] at h
        obtain ⟨acc, rest, tr, hd, hvec, htr, hfst, hsum, hn⟩ := ih _ _ _ h
        obtain ⟨bad, good, rfl, hbad, hgood, rfl⟩ := askOne_some _ _ _ _ _ _ ha
        refine ⟨(m, x) :: acc, rest, (m, bad.length + 1) :: tr,
          .ask m ms row bad good x rest' acc rest hl hbad hgood hd, ?_, ?_, ?_, ?_, hn⟩
        · rw [hvec]; simp [fieldOf]
        · rw [htr]; simp
        · simp [hfst]
        · simp only [List.map_cons, List.sum_cons, List.length_append, List.length_cons]
          omega

/-- if the dialogue completes, the loop returns the described vector, with a trace over exactly the
    asked metrics whose counts add up to the number of answers read -/
theorem loop_of_dialogue (v : IVer) (ms answers : List Str) (acc : List (Str × Str)) (rest : List Str)
    (h : Dialogue v ms answers acc rest) :
    ∀ (fields : List Str) (tr0 : List (Str × Nat)), ∃ tr,
      loop v ms answers fields tr0 =
        .result (prefixOf v ++ join '/' (fields ++ acc.map fieldOf)) (((tr0 ++ tr).map (·.2)).sum)
          (tr0 ++ tr) ∧
      tr.map (·.1) = ms ∧ (tr.map (·.2)).sum + rest.length = answers.length := by
  induction h with
  | done answers =>
    intro fields tr0
    exact ⟨[], by rw [loop_nil]; simp, rfl, by simp⟩
  | ask m ms row bad good x tail acc rest hl hbad hgood hd ih =>
    intro fields tr0
    obtain ⟨tr, h1, h2, h3⟩ := ih (fields ++ [m ++ ':' :: x]) (tr0 ++ [(m, bad.length + 1)])
    refine ⟨(m, bad.length + 1) :: tr, ?_, ?_, ?_⟩
    · rw [loop_cons_some v m ms _ fields tr0 row x tail (bad.length + 1) hl
        (askOne_append v (keys row) bad good x tail hbad hgood), h1]
      simp [fieldOf]
    · simp [h2]
    · simp only [List.map_cons, List.sum_cons, List.length_append, List.length_cons]
      omega

/-- the three outcomes are the only ones -/
theorem outcome_cases (o : Outcome) :
    (∃ vec n trace, o = .result vec n trace) ∨ (∃ trace, o = .eof trace) ∨ o = .keyError := by
  cases o with
  | result vec n trace => exact Or.inl ⟨vec, n, trace, rfl⟩
  | eof trace => exact Or.inr (Or.inl ⟨trace, rfl⟩)
  | keyError => exact Or.inr (Or.inr rfl)

/-- `ask_result_iff`, left to right (this is the direction the later theorems use) -/
theorem ask_result_imp (v : IVer) (allMetrics : Bool) (answers : List Str) (vec : Str) (n : Nat)
    (trace : List (Str × Nat)) (h : ask v allMetrics answers = .result vec n trace) :
    ∃ acc rest, Dialogue v (asked v allMetrics) answers acc rest ∧
      vec = prefixOf v ++ join '/' (acc.map fieldOf) ∧ n + rest.length = answers.length ∧
      trace.map (·.1) = asked v allMetrics ∧ (trace.map (·.2)).sum = n := by
  obtain ⟨acc, rest, tr, hd, hvec, htr, hfst, hsum, hn⟩ :=
    loop_result_imp v (asked v allMetrics) answers [] [] vec n trace h
  simp only [List.nil_append] at hvec htr
  subst htr
  exact ⟨acc, rest, hd, hvec, by omega, hfst, hn.symm⟩

/-- a completed dialogue makes the builder return the described vector; the trace it returns covers
    exactly the asked metrics and its counts add up to the number of answers read -/
theorem ask_of_dialogue (v : IVer) (allMetrics : Bool) (answers : List Str) (acc : List (Str × Str))
    (rest : List Str) (h : Dialogue v (asked v allMetrics) answers acc rest) :
    ∃ n trace, ask v allMetrics answers = .result (prefixOf v ++ join '/' (acc.map fieldOf)) n trace ∧
      n + rest.length = answers.length ∧ trace.map (·.1) = asked v allMetrics ∧
      (trace.map (·.2)).sum = n := by
  obtain ⟨tr, h1, h2, h3⟩ := loop_of_dialogue v _ answers acc rest h [] []
  simp only [List.nil_append] at h1
  exact ⟨_, tr, h1, h3, h2, rfl⟩

/-- MAIN (result): the builder returns a vector `vec` after consuming `n` answers — asking each metric
    of the requested set exactly once, in table order (the trace it reports) — exactly when the dialogue
    of the statement completes having read `n` answers, and then the vector is the version prefix
    followed by exactly the accepted answers in the order asked -/
theorem ask_result_iff (v : IVer) (allMetrics : Bool) (answers : List Str) (vec : Str) (n : Nat) :
    (∃ trace, ask v allMetrics answers = .result vec n trace ∧
        trace.map (·.1) = asked v allMetrics ∧ (trace.map (·.2)).sum = n) ↔
      ∃ acc rest, Dialogue v (asked v allMetrics) answers acc rest ∧
        vec = prefixOf v ++ join '/' (acc.map fieldOf) ∧ n + rest.length = answers.length := by
  constructor
  · rintro ⟨trace, h, -, -⟩
    obtain ⟨acc, rest, hd, hvec, hn, -, -⟩ := ask_result_imp v allMetrics answers vec n trace h
    exact ⟨acc, rest, hd, hvec, hn⟩
  · rintro ⟨acc, rest, hd, rfl, hn⟩
    obtain ⟨n', trace, h, hn', hfst, hsum⟩ := ask_of_dialogue v allMetrics answers acc rest hd
    have : n' = n := by omega
    subst this
    exact ⟨trace, h, hfst, hsum⟩

theorem ask_never_keyError (v : IVer) (allMetrics : Bool) (answers : List Str) :
    ask v allMetrics answers ≠ .keyError := by
  intro h
  obtain ⟨m, hm, hl⟩ := loop_keyError v (asked v allMetrics) answers [] [] h
  have hrows := asked_have_rows
  simp only [List.all_eq_true] at hrows
  have := hrows v (by cases v <;> simp) allMetrics (by cases allMetrics <;> simp) m hm
  rw [hl] at this
  cases this

/-- MAIN (end of input): the builder ends with EOF exactly when the answers run out before every asked
    metric has received a legal answer; it never fails otherwise -/
theorem ask_eof_iff (v : IVer) (allMetrics : Bool) (answers : List Str) :
    (∃ trace, ask v allMetrics answers = .eof trace) ↔
      ¬ ∃ acc rest, Dialogue v (asked v allMetrics) answers acc rest := by
  constructor
  · rintro ⟨trace, h⟩ ⟨acc, rest, hd⟩
    obtain ⟨n, trace', h', -⟩ := ask_of_dialogue v allMetrics answers acc rest hd
    rw [h] at h'
    cases h'
  · intro hno
    rcases outcome_cases (ask v allMetrics answers) with ⟨vec, n, trace, h⟩ | h | h
    · obtain ⟨acc, rest, hd, -⟩ := ask_result_imp v allMetrics answers vec n trace h
      exact absurd ⟨acc, rest, hd⟩ hno
    · exact h
    · exact absurd h (ask_never_keyError v allMetrics answers)

/-- the dialogue accepts exactly one pair per asked metric, in order, each with a legal value -/
theorem dialogue_pairs (v : IVer) (ms answers : List Str) (acc : List (Str × Str)) (rest : List Str)
    (h : Dialogue v ms answers acc rest) :
    keys acc = ms ∧ ∀ kv ∈ acc, ∃ row, lookup kv.1 (valueNamesOf v) = some row ∧ kv.2 ∈ keys row := by
  induction h with
  | done answers => exact ⟨rfl, by simp⟩
  | ask m ms row bad good x tail acc rest hl hbad hgood hd ih =>
    obtain ⟨ih1, ih2⟩ := ih
    refine ⟨by simp only [keys, List.map_cons] at ih1 ⊢; rw [ih1], ?_⟩
    intro kv hkv
    rcases List.mem_cons.1 hkv with rfl | hkv
    · exact ⟨row, hl, (accepted_legal v _ _ _ hgood).1⟩
    · exact ih2 kv hkv

/-! ### the builder's tables against the parser's tables -/

/-- every value the builder can accept for a metric it knows is a legal value of the parser's tables,
    and all tokens are ':'-free -/
def tablesAgree (v : IVer) (T : Tables) : Bool :=
  (abbrsOf v).all fun m =>
    match lookup m (valueNamesOf v) with
    | none => true
    | some row =>
      decide (m ∈ T.abbrs) && !m.contains ':' &&
        (match lookup m T.legal with
         | none => false
         | some vs => (keys row).all fun x => decide (x ∈ vs) && !x.contains ':')

/-- the asked metrics are distinct metrics of the version's table and contain the mandatory ones -/
def askedOk (v : IVer) (T : Tables) : Bool :=
  [true, false].all fun a =>
    decide (asked v a).Nodup && (asked v a).all (fun m => decide (m ∈ abbrsOf v)) &&
      T.mandatory.all (fun m => decide (m ∈ asked v a)) && !(asked v a).isEmpty

theorem tables_agree :
    tablesAgree .i2 V2.tables = true ∧ tablesAgree .i30 V3.tables = true ∧
      tablesAgree .i31 V3.tables = true ∧ tablesAgree .i4 V4.tables = true := by decide +kernel

theorem asked_ok :
    askedOk .i2 V2.tables = true ∧ askedOk .i30 V3.tables = true ∧
      askedOk .i31 V3.tables = true ∧ askedOk .i4 V4.tables = true := by decide +kernel

theorem legalPair_of_agree {v : IVer} {T : Tables} (h : tablesAgree v T = true) {m x : Str}
    {row : List (Str × Str)} (hm : m ∈ abbrsOf v) (hl : lookup m (valueNamesOf v) = some row)
    (hx : x ∈ keys row) : LegalPair T (m, x) := by
  unfold tablesAgree at h
  have := List.all_eq_true.1 h m hm
  rw [hl] at this
  simp only [Bool.and_eq_true, decide_eq_true_eq] at this
  obtain ⟨⟨h1, h2⟩, h3⟩ := this
  split at h3
  · cases h3
  · rename_i vs hvs
    have := List.all_eq_true.1 h3 x hx
    simp only [Bool.and_eq_true, decide_eq_true_eq] at this
    exact ⟨h1, ⟨vs, hvs, this.1⟩, by simpa using h2, by simpa using this.2⟩

/-- the pairs accepted by a completed dialogue over the asked metrics satisfy everything the parser's
    round-trip theorem (C04) needs -/
theorem dialogue_parse_ready {v : IVer} {T : Tables} {g : Cvss.Spec.Grammar.G} (hP : C04.Pinned T g)
    (h1 : tablesAgree v T = true) (h2 : askedOk v T = true) (a : Bool) (answers : List Str)
    (acc : List (Str × Str)) (rest : List Str) (hd : Dialogue v (asked v a) answers acc rest) :
    acc ≠ [] ∧ (∀ kv ∈ acc, LegalPair T kv) ∧ (∀ kv ∈ acc, '/' ∉ kv.1 ∧ '/' ∉ kv.2) ∧
      (keys acc).Nodup ∧ ∀ k ∈ T.mandatory, k ∈ keys acc := by
  obtain ⟨hk, hrow⟩ := dialogue_pairs v _ answers acc rest hd
  unfold askedOk at h2
  have h2a := List.all_eq_true.1 h2 a (by cases a <;> simp)
  simp only [Bool.and_eq_true, decide_eq_true_eq, List.all_eq_true, Bool.not_eq_true',
    List.isEmpty_eq_false_iff] at h2a
  obtain ⟨⟨⟨hnd, hsub⟩, hmand⟩, hne⟩ := h2a
  have hleg : ∀ kv ∈ acc, LegalPair T kv := by
    intro kv hkv
    obtain ⟨row, hl, hx⟩ := hrow kv hkv
    have hmem : kv.1 ∈ asked v a := by rw [← hk]; exact List.mem_map.2 ⟨kv, hkv, rfl⟩
    exact legalPair_of_agree h1 (hsub _ hmem) hl hx
  refine ⟨?_, hleg, fun kv hkv => hP.slashFree (hleg kv hkv), by rw [hk]; exact hnd,
    by rw [hk]; exact hmand⟩
  rintro rfl
  exact hne hk.symm

/-- the returned vector is accepted by the parser of the corresponding class (C04 lifts this to the
    constructor): v2 -/
theorem ask_result_parses_v2 (allMetrics : Bool) (answers : List Str) (vec : Str) (n : Nat) (trace : List (Str × Nat))
    (h : ask .i2 allMetrics answers = .result vec n trace) : ∃ m, V2.parse vec = .ok m := by
  obtain ⟨acc, rest, hd, rfl, -⟩ := ask_result_imp _ _ _ _ _ _ h
  obtain ⟨hne, hl, hs, hn, hm⟩ :=
    dialogue_parse_ready C04.pinned2 tables_agree.1 asked_ok.1 allMetrics answers acc rest hd
  exact ⟨acc, by simpa [prefixOf] using C04.v2_parse_render acc hne hl hs hn hm⟩

theorem ask_result_parses_v3 (v : IVer) (hv : v = .i30 ∨ v = .i31) (allMetrics : Bool) (answers : List Str) (vec : Str)
    (n : Nat) (trace : List (Str × Nat)) (h : ask v allMetrics answers = .result vec n trace) :
    ∃ m, V3.parse vec = .ok ((if v = .i30 then 0 else 1), m) := by
  obtain ⟨acc, rest, hd, rfl, -⟩ := ask_result_imp _ _ _ _ _ _ h
  rcases hv with rfl | rfl
  · obtain ⟨hne, hl, hs, hn, hm⟩ :=
      dialogue_parse_ready C04.pinned3 tables_agree.2.1 asked_ok.2.1 allMetrics answers acc rest hd
    exact ⟨acc, C04.v3_parse_render 0 (prefixOf .i30) rfl acc hne hl hs hn hm⟩
  · obtain ⟨hne, hl, hs, hn, hm⟩ :=
      dialogue_parse_ready C04.pinned3 tables_agree.2.2.1 asked_ok.2.2.1 allMetrics answers acc rest hd
    exact ⟨acc, C04.v3_parse_render 1 (prefixOf .i31) rfl acc hne hl hs hn hm⟩

theorem ask_result_parses_v4 (allMetrics : Bool) (answers : List Str) (vec : Str) (n : Nat) (trace : List (Str × Nat))
    (h : ask .i4 allMetrics answers = .result vec n trace) : ∃ m, V4.parse vec = .ok m := by
  obtain ⟨acc, rest, hd, rfl, -⟩ := ask_result_imp _ _ _ _ _ _ h
  obtain ⟨hne, hl, hs, hn, hm⟩ :=
    dialogue_parse_ready C04.pinned4 tables_agree.2.2.2 asked_ok.2.2.2 allMetrics answers acc rest hd
  exact ⟨acc, C04.v4_parse_render acc hne hl hs hn hm⟩

/-- non-vacuity: a concrete dialogue (one invalid answer, mixed case, padding) -/
example :
    (match ask .i31 false [c!"n", c!"?", c!" l", c!"N ", c!"r", c!"u", c!"H", c!"h", c!"H", c!"extra"] with
     | .result vec n _ => (vec, n) == (c!"CVSS:3.1/AV:N/AC:L/PR:N/UI:R/S:U/C:H/I:H/A:H", 9)
     | _ => false) = true := by decide +kernel

end Cvss.Props.C16
