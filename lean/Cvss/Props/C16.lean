/-
  C16 — the interactive builder returns exactly the answered, valid vector.
-/
import Cvss.Model.Interactive
namespace Cvss.Props.C16
open Cvss Cvss.Model Cvss.Model.Interactive

/-- a legal value typed as is (or in lower case) selects itself -/
def selectable (v : IVer) (m : Str) : Bool :=
  match lookup m (valueNamesOf v) with
  | none => false
  | some row => (keys row).all (fun x =>
      select (keys row) (normalize v x) == some x && select (keys row) (normalize v (x.map Float.lower)) == some x)

/-- every legal value of every metric of every version can be selected
    (for v4.0 Provider Urgency this needed the `fix:` commit in /repo: values such as "Clear" are
    not upper case) -/
theorem selectable_all :
    (abbrsOf .i2).all (selectable .i2) = true ∧ (abbrsOf .i30).all (selectable .i30) = true ∧
    (abbrsOf .i31).all (selectable .i31) = true ∧ (abbrsOf .i4).all (selectable .i4) = true := by decide +kernel

/-- the empty answer selects Not Defined wherever it is legal -/
theorem empty_selects_nd :
    ([IVer.i2, .i30, .i31, .i4].all fun v => (abbrsOf v).all fun m =>
      match lookup m (valueNamesOf v) with
      | none => false
      | some row => !(ndOf v ∈ keys row) || select (keys row) (normalize v []) == some (ndOf v)) = true := by
  decide +kernel

end Cvss.Props.C16
