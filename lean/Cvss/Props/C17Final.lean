/-
  C17 — never crashes, for every selected version (uses C02 through Lemmas/Construct and C18Final).
-/
import Cvss.Props.C17
import Cvss.Props.C18Final
import Cvss.Props.C04Final
namespace Cvss.Props.C17
open Cvss Cvss.Model Cvss.Model.Cli

/-- `as_json` of an object constructed by any of the three classes never fails -/
theorem construct_asJson_isSome_any (v : Ver) (s : Str) (o : AnyObj) (h : construct v s = .ok o)
    (sort minimal : Bool) : ∃ j, o.asJson sort minimal = some j := by
  cases v with
  | v2 => exact construct_asJson_isSome .v2 (by decide) s o h sort minimal
  | v3 => exact construct_asJson_isSome .v3 (by decide) s o h sort minimal
  | v4 =>
    simp only [construct] at h
    cases hc : V4.construct s with
    | error e => rw [hc] at h; cases h
    | ok o4 =>
      rw [hc] at h
      cases h
      exact Option.isSome_iff_exists.1 (C18.accessors_total_v4 s o4 hc sort minimal)

/-- the report never lets an exception escape, whatever class is selected -/
theorem report_ne_none_any (f : Flags) (s : Str) : report f s ≠ none := by
  cases hc : construct (classOf (version f)) s with
  | error e =>
    have he : e ≠ .foreign := by
      rintro rfl
      exact C04.no_foreign_exception _ s hc
    rw [report_invalid f s e hc he]
    simp
  | ok o =>
    obtain ⟨j, hj⟩ := construct_asJson_isSome_any _ s o hc true true
    rw [report_valid f s o hc, hj]
    cases f.json <;> simp

/-- NEVER CRASHES: for every flag set, every VECTOR and every stdin the calculator ends with a report
    (exit status 0) or a clean end of input -/
theorem main_never_crashes_any (f : Flags) (stdin : List Str) : main f stdin ≠ .crash := by
  have hr := report_ne_none_any f
  have hcase : ∀ s, (match report f s with | some ls => Outcome.lines ls | none => Outcome.crash) ≠ .crash := by
    intro s
    cases hrep : report f s with
    | none => exact absurd hrep (hr s)
    | some ls => simp
  by_cases hvec : f.vector = none ∨ f.vector = some []
  · rw [main_interactive f stdin hvec]
    cases hask : Interactive.ask (version f) f.all stdin with
    | eof a => simp
    | keyError => exact absurd hask (C16.ask_never_keyError _ _ _)
    | result s n a => exact hcase s
  · cases hvs : f.vector with
    | none => exact absurd (Or.inl hvs) hvec
    | some s =>
      have hs : s ≠ [] := by
        rintro rfl
        exact hvec (Or.inr hvs)
      rw [main_with_vector f s stdin hs hvs]
      exact hcase s

/-- the report of an accepted vector always starts with the header of the selected class, the report of a
    rejected one is the single error line: the calculator prints scores exactly for the strings of the
    selected version's grammar -/
theorem report_scores_iff_accepted (f : Flags) (s : Str) :
    (∃ o, construct (classOf (version f)) s = .ok o) ↔ report f s ≠ some [errorLine] ∧ report f s ≠ none := by
  constructor
  · rintro ⟨o, ho⟩
    refine ⟨?_, report_ne_none_any f s⟩
    obtain ⟨j, hj⟩ := construct_asJson_isSome_any _ s o ho true true
    rw [report_valid f s o ho, hj]
    cases f.json <;> simp
  · rintro ⟨h1, -⟩
    cases hc : construct (classOf (version f)) s with
    | ok o => exact ⟨o, rfl⟩
    | error e =>
      have he : e ≠ .foreign := by
        rintro rfl
        exact C04.no_foreign_exception _ s hc
      exact absurd (report_invalid f s e hc he) h1

end Cvss.Props.C17
