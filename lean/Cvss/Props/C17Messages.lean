/-
  C17 — the message texts and the complete stdout of the calculator (models `Model/Messages.lean`,
  `Model/CliMsg.lean`, `Model/Prompts.lean`) are consistent with the message-free models the other theorems are about.
-/
import Cvss.Model.Prompts
import Cvss.Props.C17Final
import Cvss.Props.C04Final
import Cvss.Props.C12
import Cvss.Lemmas.Messages
namespace Cvss.Props.C17
open Cvss Cvss.Model Cvss.Model.Cli Cvss.Lemmas.Messages

/-- ERASURE: the message-carrying parser succeeds with the same metric map as the message-free one, and fails
    exactly when it fails -/
theorem parseMsg_v2 (s : Str) (m : MMap) : Messages.parseMsg .v2 s = .ok m ↔ V2.parse s = .ok m := by
  rw [(parseMsg_rel_v2 s).ok_iff m]
  simp
theorem parseMsg_v3 (s : Str) (m : MMap) : Messages.parseMsg .v3 s = .ok m ↔ ∃ i, V3.parse s = .ok (i, m) := by
  rw [(parseMsg_rel_v3 s).ok_iff m]
  constructor
  · rintro ⟨⟨i, m'⟩, h, rfl⟩; exact ⟨i, h⟩
  · rintro ⟨i, h⟩; exact ⟨(i, m), h, rfl⟩
theorem parseMsg_v4 (s : Str) (m : MMap) : Messages.parseMsg .v4 s = .ok m ↔ V4.parse s = .ok m := by
  rw [(parseMsg_rel_v4 s).ok_iff m]
  simp

theorem constructMsg_none_iff_parse (v : Ver) (s : Str) :
    Messages.constructMsg v s = none ↔ ∃ m, Messages.parseMsg v s = .ok m := by
  unfold Messages.constructMsg
  cases Messages.parseMsg v s <;> simp

theorem construct_ok_iff_parse (v : Ver) (s : Str) :
    (∃ o, construct v s = .ok o) ↔ ∃ m, Messages.parseMsg v s = .ok m := by
  cases v with
  | v2 =>
    have h1 : (∃ o, construct .v2 s = .ok o) ↔ ∃ o, V2.construct s = .ok o := by
      simp only [construct]; cases V2.construct s <;> simp [Except.map]
    rw [h1, C04.v2_construct_accepts_iff, ← C04.v2_parse_ok_iff]
    simp only [parseMsg_v2]
  | v3 =>
    have h1 : (∃ o, construct .v3 s = .ok o) ↔ ∃ o, V3.construct s = .ok o := by
      simp only [construct]; cases V3.construct s <;> simp [Except.map]
    rw [h1, C04.v3_construct_accepts_iff, ← C04.v3_parse_ok_iff]
    simp only [parseMsg_v3]
    constructor
    · rintro ⟨⟨i, m⟩, h⟩; exact ⟨m, i, h⟩
    · rintro ⟨m, i, h⟩; exact ⟨(i, m), h⟩
  | v4 =>
    have h1 : (∃ o, construct .v4 s = .ok o) ↔ ∃ o, V4.construct s = .ok o := by
      simp only [construct]; cases V4.construct s <;> simp [Except.map]
    rw [h1, C04.v4_construct_accepts_iff, ← C04.v4_parse_ok_iff]
    simp only [parseMsg_v4]

/-- a message is raised exactly when the constructor fails -/
theorem constructMsg_none_iff (v : Ver) (s : Str) :
    Messages.constructMsg v s = none ↔ ∃ o, construct v s = .ok o := by
  rw [constructMsg_none_iff_parse, construct_ok_iff_parse]

/-- the "Missing mandatory metrics" message is raised exactly for the mandatory-metric error -/
theorem constructMsg_mandatory_iff (v : Ver) (s : Str) :
    (∃ rest, Messages.constructMsg v s = some (c!"Missing mandatory metrics " ++ rest)) ↔
      construct v s = .error .mandatory := by
  have h0 : (∃ rest, Messages.constructMsg v s = some (c!"Missing mandatory metrics " ++ rest)) ↔
      ∃ e, Messages.parseMsg v s = .error e ∧ IsMand e := by
    unfold Messages.constructMsg IsMand
    cases Messages.parseMsg v s <;> simp
  rw [h0]
  cases v with
  | v2 =>
    have h1 : construct .v2 s = .error .mandatory ↔ V2.construct s = .error .mandatory := by
      simp only [construct]; cases V2.construct s <;> simp [Except.map]
    rw [h1, C04.v2_construct_mandatory_iff, ← C04.v2_parse_mandatory_iff]
    exact (parseMsg_rel_v2 s).mand_iff
  | v3 =>
    have h1 : construct .v3 s = .error .mandatory ↔ V3.construct s = .error .mandatory := by
      simp only [construct]; cases V3.construct s <;> simp [Except.map]
    rw [h1, C04.v3_construct_mandatory_iff, ← C04.v3_parse_mandatory_iff]
    exact (parseMsg_rel_v3 s).mand_iff
  | v4 =>
    have h1 : construct .v4 s = .error .mandatory ↔ V4.construct s = .error .mandatory := by
      simp only [construct]; cases V4.construct s <;> simp [Except.map]
    rw [h1, C04.v4_construct_mandatory_iff, ← C04.v4_parse_mandatory_iff]
    exact (parseMsg_rel_v4 s).mand_iff

theorem fromRhMsg_none_iff (v : Ver) (text : Str) :
    Messages.fromRhMsg v text = none ↔ ∃ o, fromRh v text = .ok o := by
  unfold Messages.fromRhMsg fromRh
  cases splitFirst '/' text with
  | none => simp
  | some p =>
    obtain ⟨score, baseVector⟩ := p
    simp only []
    cases Float.parseFloat score with
    | none => simp
    | some fv =>
      simp only []
      cases hm : Messages.constructMsg v baseVector with
      | some e =>
        simp only []
        have : ¬ ∃ o, construct v baseVector = .ok o := by
          rw [← constructMsg_none_iff, hm]; simp
        cases hc : construct v baseVector with
        | error x => simp
        | ok o => exact absurd ⟨o, hc⟩ this
      | none =>
        obtain ⟨o, ho⟩ := (constructMsg_none_iff v baseVector).1 hm
        simp only [ho]
        cases Float.eqScore o.base fv <;> simp

theorem reportMsg_outcome (f : Flags) (s : Str) :
    (match reportMsg f s with | some ls => Outcome.lines ls | none => .crash) =
      match (match report f s with | some ls => Outcome.lines ls | none => .crash) with
      | .lines ls => .lines (if ls = [errorLine] then
          (match Messages.constructMsg (classOf (version f)) s with | some m => [m] | none => ls) else ls)
      | .eof => .eof
      | .crash => .crash := by
  unfold reportMsg
  cases report f s with
  | none => rfl
  | some ls =>
    simp only []
    by_cases h : ls = [errorLine]
    · simp only [h, if_true]
      cases Messages.constructMsg (classOf (version f)) s <;> rfl
    · simp only [h, if_false]

/-- the calculator with message texts is the message-free calculator with the error line instantiated -/
theorem mainMsg_eq (f : Flags) (stdin : List Str) :
    mainMsg f stdin =
      match main f stdin with
      | .lines ls => .lines (if ls = [errorLine] then
          -- the vector the run used: `-v`, or the interactive result
          (match (match f.vector with | some s => if s = [] then none else some s | none => none) with
           | some s => (match Messages.constructMsg (classOf (version f)) s with | some m => [m] | none => ls)
           | none => (match Interactive.ask (version f) f.all stdin with
              | .result s _ _ => (match Messages.constructMsg (classOf (version f)) s with | some m => [m] | none => ls)
              | _ => ls))
          else ls)
      | .eof => .eof
      | .crash => .crash := by
  unfold mainMsg main
  cases hv : f.vector with
  | none =>
    simp only []
    cases hask : Interactive.ask (version f) f.all stdin with
    | eof a => rfl
    | keyError => rfl
    | result s n a => exact reportMsg_outcome f s
  | some s =>
    by_cases hs : s = []
    · simp only [hs, if_true]
      cases hask : Interactive.ask (version f) f.all stdin with
      | eof a => rfl
      | keyError => rfl
      | result s n a => exact reportMsg_outcome f s
    · simp only [hs, if_false]
      exact reportMsg_outcome f s

/-- the dialogue model (what is PRINTED) accepts the same answers and returns the same vector as the message-free
    builder model `Interactive.ask` that C16 is about -/
theorem dialogue_vector (v : Interactive.IVer) (allMetrics noColors : Bool) (answers : List Str) :
    (Prompts.dialogue v allMetrics noColors answers).2 =
      match Interactive.ask v allMetrics answers with
      | .result vec _ _ => some vec
      | _ => none := by
  have hn := asked_have_names
  simp only [List.all_eq_true] at hn
  have hn' := hn v (by cases v <;> simp) allMetrics (by cases allMetrics <;> simp)
  exact dialogueLoop_loop v noColors _ (fun m hm => hn' m hm) answers _ [] []

theorem report_ne_nil (f : Flags) (s : Str) (ls : List Str) (h : report f s = some ls) : ls ≠ [] := by
  unfold report at h
  simp only [] at h
  split at h
  · cases h
  · cases h; simp
  · split at h
    · split at h
      · cases h
      · cases h; simp
    · cases h; simp

theorem reportMsg_some (f : Flags) (s : Str) : ∃ ls, reportMsg f s = some ls ∧ ls ≠ [] := by
  unfold reportMsg
  cases hr : report f s with
  | none => exact absurd hr (report_ne_none_any f s)
  | some ls =>
    simp only []
    by_cases h : ls = [errorLine]
    · simp only [h, if_true]
      cases Messages.constructMsg (classOf (version f)) s with
      | none => exact ⟨_, rfl, by simp⟩
      | some m => exact ⟨_, rfl, by simp⟩
    · simp only [h, if_false]
      exact ⟨_, rfl, report_ne_nil f s ls hr⟩

theorem render_last (pre : Str) (ls : List Str) (h : ls ≠ []) :
    (pre ++ (ls.map (fun l => l ++ c!"\n")).flatten).getLast? = some '\n' := by
  obtain ⟨init, last, rfl⟩ : ∃ init last, ls = init ++ [last] :=
    ⟨ls.dropLast, ls.getLast h, (List.dropLast_append_getLast h).symm⟩
  have : pre ++ ((init ++ [last]).map (fun l => l ++ c!"\n")).flatten =
      (pre ++ (init.map (fun l => l ++ c!"\n")).flatten ++ last) ++ ['\n'] := by simp
  rw [this, List.getLast?_concat]

/-- the complete stdout always exists (no crash) and ends with a newline: exit status 0, clean end on EOF -/
theorem stdout_total (f : Flags) (stdin : List Str) :
    ∃ out, Prompts.stdout f stdin = some out ∧ out.getLast? = some '\n' := by
  unfold Prompts.stdout
  simp only []
  split
  · rename_i s _
    obtain ⟨ls, hls, hne⟩ := reportMsg_some f s
    rw [hls]
    exact ⟨_, rfl, by simpa using render_last [] ls hne⟩
  · split
    · exact ⟨_, rfl, List.getLast?_concat ..⟩
    · rename_i s _
      obtain ⟨ls, hls, hne⟩ := reportMsg_some f s
      rw [hls]
      exact ⟨_, rfl, render_last _ ls hne⟩

end Cvss.Props.C17
