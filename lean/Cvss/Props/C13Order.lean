/-
  C13 / C19 / C20 — the ORDER of the extraction result: the returned list is, in order, a sub-list of the successfully
  constructed candidates in their order of appearance in the text (first occurrence of each distinct object is the one
  kept).  So the result is a function of the text alone, with no dependence on hash order.
-/
import Cvss.Model.Extract
import Cvss.Props.C13
namespace Cvss.Props.C13
open Cvss Cvss.Model Cvss.Model.Extract

/-- what the loop builds for one candidate -/
def candidate (m : Str) : Except Err AnyObj :=
  if startsWith c!"CVSS:3." m then construct .v3 m else construct .v2 m

/-- the objects of the successfully constructed candidates, in order of appearance -/
def built (ms : List Str) : List AnyObj :=
  ms.filterMap fun m => match candidate m with | .ok o => some o | .error _ => none

theorem collect_order (ms : List Str) : ∀ (acc os : List AnyObj), collect acc ms = some os →
    ∃ rest, os = acc ++ rest ∧ rest.Sublist (built ms) := by
  induction ms with
  | nil =>
    intro acc os h
    simp only [collect, Option.some.injEq] at h
    exact ⟨[], by simp [h], List.Sublist.refl _⟩
  | cons m ms ih =>
    intro acc os h
    unfold collect at h
    simp only [] at h
    have hb : built (m :: ms) = (match candidate m with | .ok o => [o] | .error _ => []) ++ built ms := by
      unfold built
      simp only [List.filterMap_cons]
      cases candidate m <;> rfl
    cases hc : candidate m with
    | error e =>
      have hc' : (if startsWith c!"CVSS:3." m then construct .v3 m else construct .v2 m) = .error e := hc
      rw [hc'] at h
      rw [hb, hc]
      cases e with
      | foreign => simp at h
      | malformed => exact ih acc os h
      | mandatory => exact ih acc os h
      | rhMalformed => exact ih acc os h
      | rhMismatch => exact ih acc os h
    | ok o =>
      have hc' : (if startsWith c!"CVSS:3." m then construct .v3 m else construct .v2 m) = .ok o := hc
      rw [hc'] at h
      rw [hb, hc]
      obtain ⟨rest, hos, hsub⟩ := ih (addDedup acc o) os h
      unfold addDedup at hos
      by_cases hd : (acc.any fun a => a.eq o) = true
      · rw [if_pos hd] at hos
        exact ⟨rest, hos, (List.Sublist.cons o hsub)⟩
      · rw [if_neg hd] at hos
        exact ⟨o :: rest, by simp [hos], by simpa using List.Sublist.cons_cons o hsub⟩

/-- ORDER: the result lists, in their order of appearance in the text, (a sub-list of) the objects built from the
    candidate substrings; equal objects found later are dropped (`parseText_nodup`), the first one is kept -/
theorem parseText_order (isDigit : Char → Bool) (text : Str) (os : List AnyObj)
    (h : parseText isDigit text = some os) :
    os.Sublist (built (findAll isDigit text.length text)) := by
  obtain ⟨rest, hos, hsub⟩ := collect_order _ [] os h
  simpa [hos] using hsub

theorem collect_eq (ms : List Str) : ∀ (acc os : List AnyObj), collect acc ms = some os →
    os = (built ms).foldl addDedup acc := by
  induction ms with
  | nil =>
    intro acc os h
    simp only [collect, Option.some.injEq] at h
    simp [built, h]
  | cons m ms ih =>
    intro acc os h
    unfold collect at h
    simp only [] at h
    have hb : built (m :: ms) = (match candidate m with | .ok o => [o] | .error _ => []) ++ built ms := by
      unfold built
      simp only [List.filterMap_cons]
      cases candidate m <;> rfl
    cases hc : candidate m with
    | error e =>
      have hc' : (if startsWith c!"CVSS:3." m then construct .v3 m else construct .v2 m) = .error e := hc
      rw [hc'] at h
      rw [hb, hc]
      cases e with
      | foreign => simp at h
      | malformed => exact ih acc os h
      | mandatory => exact ih acc os h
      | rhMalformed => exact ih acc os h
      | rhMismatch => exact ih acc os h
    | ok o =>
      have hc' : (if startsWith c!"CVSS:3." m then construct .v3 m else construct .v2 m) = .ok o := hc
      rw [hc'] at h
      rw [hb, hc]
      simpa using ih (addDedup acc o) os h

/-- EXACTLY: the result is the left-to-right de-duplication (first occurrence kept, by the objects' own `==`) of the
    objects built from the candidates in their order of appearance - a function of the text and nothing else -/
theorem parseText_eq_dedup (isDigit : Char → Bool) (text : Str) (os : List AnyObj)
    (h : parseText isDigit text = some os) :
    os = (built (findAll isDigit text.length text)).foldl addDedup [] :=
  collect_eq _ [] os h

end Cvss.Props.C13
