/-
  C02 — CVSS v4.0 score equals the FIRST macrovector / interpolation algorithm.
-/
import Cvss.Model.V4
import Cvss.Spec.V4
namespace Cvss.Props.C02
open Cvss Cvss.Model

/-- the digits of a macrovector key of the generated table -/
def keyDigits (k : Str) : List Nat := k.map (fun c => c.toNat - 48)

/-- pinning: `CVSS_LOOKUP_GLOBAL` is the specification's table, row by row -/
theorem lookup_pinned :
    Gen.V4.lookupTable.map (fun (k, v) => (keyDigits k, v)) =
      Spec.V4.tableTenths.map (fun ((a, b, c, d, e, f), t) => ([a, b, c, d, e, f], (t : Rat) / 10)) := by
  decide +kernel

/-- pinning: `MAX_SEVERITY` is the specification's depth table -/
theorem maxSeverity_pinned :
    Gen.V4.maxSeverityEq1 = [0, 1, 2].map (fun i => (i, Spec.V4.depth1 i)) ∧
    Gen.V4.maxSeverityEq2 = [0, 1].map (fun i => (i, Spec.V4.depth2 i)) ∧
    Gen.V4.maxSeverityEq36 = [(0, 0), (0, 1), (1, 0), (1, 1), (2, 1)].map (fun p => (p, Spec.V4.depth36 p.1 p.2)) ∧
    Gen.V4.maxSeverityEq4 = [0, 1, 2].map (fun i => (i, Spec.V4.depth4 i)) := by
  decide +kernel

/-- pinning: `MAX_COMPOSED`, as the library reads it through `extract_value_metric`, is the
    specification's list of highest-severity vectors -/
theorem maxComposed_pinned :
    Gen.V4.maxEq1 = [0, 1, 2].map (fun i => (natToStr i, Spec.V4.max1 i)) ∧
    Gen.V4.maxEq2 = [0, 1].map (fun i => (natToStr i, Spec.V4.max2 i)) ∧
    Gen.V4.maxEq36 = [(0, 0), (0, 1), (1, 0), (1, 1), (2, 1)].map
      (fun p => (natToStr p.1 ++ natToStr p.2, Spec.V4.max36 p.1 p.2)) ∧
    Gen.V4.maxEq4 = [0, 1, 2].map (fun i => (natToStr i, Spec.V4.max4 i)) ∧
    Gen.V4.maxComposedExtractionMismatches = 0 := by
  refine ⟨?_, ?_, ?_, ?_, ?_⟩ <;> decide +kernel

end Cvss.Props.C02
