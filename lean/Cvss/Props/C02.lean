/-
  C02 — CVSS v4.0 score equals the FIRST macrovector / interpolation algorithm.
-/
import Cvss.Model.V4
import Cvss.Spec.V4
import Cvss.Lemmas.Num4
import Cvss.Lemmas.V4
import Cvss.Lemmas.V4Search
namespace Cvss.Props.C02
open Cvss Cvss.Model

/-- the digits of a macrovector key of the generated table -/
def keyDigits (k : Str) : List Nat := k.map (fun c => c.toNat - 48)

/-! ### pinning the generated tables to the specification

  The tables under `Cvss/Gen` list their entries in the order of the Python dict literals.  That order
  is unobservable (every access is a look-up by key), so the pins do not depend on it: each one says
  that no key occurs twice and that the entries are the specification's entries UP TO THEIR ORDER
  (`List.Perm`).  By `Cvss.lookup_perm` this gives equal look-up results for every key.  (The order of
  the highest-severity vectors INSIDE one entry of `MAX_COMPOSED` is part of the entry and is pinned
  as it is.) -/

/-- pinning: `CVSS_LOOKUP_GLOBAL` is the specification's table: no macrovector occurs twice, and the
    rows are the specification's rows up to the order of the entries -/
theorem lookup_pinned :
    (keys (Gen.V4.lookupTable.map (fun (k, v) => (keyDigits k, v)))).Nodup ∧
    (Gen.V4.lookupTable.map (fun (k, v) => (keyDigits k, v))).Perm
      (Spec.V4.tableTenths.map (fun ((a, b, c, d, e, f), t) => ([a, b, c, d, e, f], (t : Rat) / 10))) :=
  Lemmas.V4Table.table_pinned

/-- … hence the library's table and the specification's answer every look-up alike -/
theorem lookup_pinned_pointwise (d : List Nat) :
    lookup d (Gen.V4.lookupTable.map (fun (k, v) => (keyDigits k, v))) =
      lookup d (Spec.V4.tableTenths.map (fun ((a, b, c, d, e, f), t) => ([a, b, c, d, e, f], (t : Rat) / 10))) :=
  lookup_perm _ _ lookup_pinned.2 lookup_pinned.1 d

/-- pinning: `MAX_SEVERITY` is the specification's depth table (distinct keys, same entries up to order) -/
theorem maxSeverity_pinned :
    ((keys Gen.V4.maxSeverityEq1).Nodup ∧
      Gen.V4.maxSeverityEq1.Perm ([0, 1, 2].map (fun i => (i, Spec.V4.depth1 i)))) ∧
    ((keys Gen.V4.maxSeverityEq2).Nodup ∧
      Gen.V4.maxSeverityEq2.Perm ([0, 1].map (fun i => (i, Spec.V4.depth2 i)))) ∧
    ((keys Gen.V4.maxSeverityEq36).Nodup ∧
      Gen.V4.maxSeverityEq36.Perm
        ([(0, 0), (0, 1), (1, 0), (1, 1), (2, 1)].map (fun p => (p, Spec.V4.depth36 p.1 p.2)))) ∧
    ((keys Gen.V4.maxSeverityEq4).Nodup ∧
      Gen.V4.maxSeverityEq4.Perm ([0, 1, 2].map (fun i => (i, Spec.V4.depth4 i)))) := by
  decide +kernel

/-- pinning: `MAX_COMPOSED`, as the library reads it through `extract_value_metric`, is the
    specification's list of highest-severity vectors (distinct keys, same entries up to order; the
    list of vectors of one entry is pinned in its order) -/
theorem maxComposed_pinned :
    ((keys Gen.V4.maxEq1).Nodup ∧
      Gen.V4.maxEq1.Perm ([0, 1, 2].map (fun i => (natToStr i, Spec.V4.max1 i)))) ∧
    ((keys Gen.V4.maxEq2).Nodup ∧
      Gen.V4.maxEq2.Perm ([0, 1].map (fun i => (natToStr i, Spec.V4.max2 i)))) ∧
    ((keys Gen.V4.maxEq36).Nodup ∧
      Gen.V4.maxEq36.Perm ([(0, 0), (0, 1), (1, 0), (1, 1), (2, 1)].map
        (fun p => (natToStr p.1 ++ natToStr p.2, Spec.V4.max36 p.1 p.2)))) ∧
    ((keys Gen.V4.maxEq4).Nodup ∧
      Gen.V4.maxEq4.Perm ([0, 1, 2].map (fun i => (natToStr i, Spec.V4.max4 i)))) ∧
    Gen.V4.maxComposedExtractionMismatches = 0 := by
  refine ⟨?_, ?_, ?_, ?_, ?_⟩ <;> decide +kernel

/-- a metric map as a successful `parse` produces it (see C04): every stored value is a legal value
    of its metric and every mandatory metric is present -/
def ValidMap (m : MMap) : Prop :=
  (∀ k v, lookup k m = some v → ∃ vs, lookup k V4.tables.legal = some vs ∧ v ∈ vs) ∧
  (∀ k ∈ V4.tables.mandatory, (lookup k m).isSome)

/-- a well-formed score: an integer number of tenths between 0.0 and 10.0 -/
def IsScore (x : Rat) : Prop := ∃ k : Nat, k ≤ 100 ∧ x = (k : Rat) / 10

/-! ### facts about the specification (tables frozen in Spec/V4*.lean) -/

/-- every macrovector that can arise (EQ3 = 2 forces EQ6 = 1) has a row in the look-up table -/
theorem v4_lookup_total (a : Str → Str) : (Spec.V4.score? (Spec.V4.macroVector a)).isSome = true :=
  Lemmas.V4Table.lookup_total a

/-- the score gap to every existing next-lower macrovector is non-negative (so "classes that have a
    next-lower macrovector" and the library's "gap ≥ 0" test select the same classes) -/
theorem v4_gaps_nonneg :
    (Spec.V4.tableTenths.all fun ((e1, e2, e3, e4, e5, e6), _) =>
      let mv : Spec.V4.MacroVector := ⟨e1, e2, e3, e4, e5, e6⟩
      match Spec.V4.score? mv with
      | none => false
      | some v =>
        [Spec.V4.lower1 mv, Spec.V4.lower2 mv, Spec.V4.lower36 mv, Spec.V4.lower4 mv, Spec.V4.lower5 mv].all
          fun l => match l with | none => true | some x => decide (x ≤ v)) = true :=
  Lemmas.V4Table.gaps_nonneg

/-- the choice of highest-severity vector is irrelevant: within the class of the assignment, EVERY
    highest-severity vector that dominates it is at the same severity distance, and one always exists
    (stated for the four classes that have distances) -/
theorem v4_distance_choice_irrelevant (a : Str → Str)
    (hl : ∀ p ∈ Spec.V4.levelTable, (lookup (Spec.V4.eff a p.1) p.2).isSome) :
    let mv := Spec.V4.macroVector a
    (∃ mx ∈ Spec.V4.max1 mv.eq1, Spec.V4.dominates a mx = true) ∧
    (∀ mx ∈ Spec.V4.max1 mv.eq1, Spec.V4.dominates a mx = true → Spec.V4.distFrom a mx = Spec.V4.distance a (Spec.V4.max1 mv.eq1)) ∧
    (∃ mx ∈ Spec.V4.max2 mv.eq2, Spec.V4.dominates a mx = true) ∧
    (∀ mx ∈ Spec.V4.max2 mv.eq2, Spec.V4.dominates a mx = true → Spec.V4.distFrom a mx = Spec.V4.distance a (Spec.V4.max2 mv.eq2)) ∧
    (∃ mx ∈ Spec.V4.max36 mv.eq3 mv.eq6, Spec.V4.dominates a mx = true) ∧
    (∀ mx ∈ Spec.V4.max36 mv.eq3 mv.eq6, Spec.V4.dominates a mx = true →
        Spec.V4.distFrom a mx = Spec.V4.distance a (Spec.V4.max36 mv.eq3 mv.eq6)) ∧
    (∃ mx ∈ Spec.V4.max4 mv.eq4, Spec.V4.dominates a mx = true) ∧
    (∀ mx ∈ Spec.V4.max4 mv.eq4, Spec.V4.dominates a mx = true → Spec.V4.distFrom a mx = Spec.V4.distance a (Spec.V4.max4 mv.eq4)) := by
  intro mv
  have hl' : Lemmas.V4Search.LegalEff a := hl
  obtain ⟨b1, b2, b3, b4, _, b6, _⟩ := Lemmas.V4Table.mv_bounds a
  obtain ⟨h1, h1'⟩ := Lemmas.V4Search.class1 hl' b1
  obtain ⟨h2, h2'⟩ := Lemmas.V4Search.class2 hl' b2
  obtain ⟨h3, h3'⟩ := Lemmas.V4Search.class36 hl' b3 b6
  obtain ⟨h4, h4'⟩ := Lemmas.V4Search.class4 hl' b4
  exact ⟨h1, h1', h2, h2', h3, h3', h4, h4'⟩

/-- C09 (v4 part): for EVERY assignment the specification's score is an integer number of tenths in [0.0, 10.0] -/
theorem v4_spec_range (a : Str → Str) : ∃ x, Spec.V4.score a = some x ∧ IsScore x := by
  unfold Spec.V4.score
  cases hno : Spec.V4.noImpact a with
  | true => exact ⟨0, by simp, 0, by omega, by simp⟩
  | false =>
    obtain ⟨value, hvalue⟩ := Option.isSome_iff_exists.mp (v4_lookup_total a)
    unfold Spec.V4.rawScore
    simp only [hvalue, Bool.false_eq_true, if_false, Option.map_some]
    refine ⟨_, rfl, ?_⟩
    unfold Spec.V4.roundHalfUp IsScore
    exact Lemmas.Num4.round_range _ (le_max_left _ _) (max_le (by norm_num) (min_le_left _ _))

/-- `EPSILON` cannot change a result: adding any 0 ≤ δ ≤ 10⁻⁶ before rounding half-up to one decimal
    gives the same tenth whenever ten times the value plus one half has a denominator below 10⁵
    (a non-integer is then at least 10⁻⁵ below the next integer) -/
theorem roundHalfUp_epsilon_robust (x δ : Rat) (hx : 0 ≤ x) (hd : (x * 10 + 1 / 2).den < 100000)
    (h0 : 0 ≤ δ) (h1 : δ ≤ 1 / 1000000) : roundHalfUp1 (x + δ) = Spec.V4.roundHalfUp x := by
  unfold Spec.V4.roundHalfUp
  exact Lemmas.Num4.roundHalfUp_eps x δ hx hd h0 h1

/-- MAIN: for every valid metric map, construction succeeds (no exception outside the hierarchy) and the
    score is the specification's algorithm applied to the assignment read off the ORIGINAL map;
    the severity attribute is the rating of that score -/
theorem v4_build_eq_spec (s : Str) (m : MMap) (hv : ValidMap m) :
    ∃ o, V4.build s m = some o ∧ o.vector = s ∧ o.orig = m ∧
      Spec.V4.score (assignment V4.X m) = some o.base ∧ o.severity = V4.sevOf o.base := by
  have hv' : Lemmas.V4.Valid m := hv
  obtain ⟨m1, hm1, hfull⟩ := Lemmas.V4.full_spec m hv'
  obtain ⟨b, hb, hspec⟩ := Lemmas.V4Search.baseScore_spec hv' hfull
  refine ⟨(⟨s, m, V4.fillDefaults m1 V4.defaultedMetrics, b, V4.sevOf b⟩ : V4.Obj), ?_, rfl, rfl,
    hspec, rfl⟩
  unfold V4.build
  rw [hm1]
  simp only [Option.bind_eq_bind, Option.bind_some, hb]
  rfl

/-- non-vacuity: the README example CVSS:4.0/AV:N/AC:L/AT:N/PR:N/UI:N/VC:H/VI:H/VA:H/SC:H/SI:H/SA:N → 9.9 -/
example :
    Spec.V4.score (assignment V4.X [(c!"AV", c!"N"), (c!"AC", c!"L"), (c!"AT", c!"N"), (c!"PR", c!"N"), (c!"UI", c!"N"),
      (c!"VC", c!"H"), (c!"VI", c!"H"), (c!"VA", c!"H"), (c!"SC", c!"H"), (c!"SI", c!"H"), (c!"SA", c!"N")]) =
      some (mkRat 99 10) := by decide +kernel

end Cvss.Props.C02
