/-
  C05 — v4, constructor level (uses C02 through Lemmas/Construct).
-/
import Cvss.Props.C05
import Cvss.Props.C07
import Cvss.Lemmas.Construct
import Cvss.Lemmas.V4Glue
namespace Cvss.Props.C05
open Cvss Cvss.Model Cvss.Lemmas.Construct Cvss.Lemmas.Invariance Cvss.Lemmas.V4Glue

/-- v4: score, rating, clean vector (both prefix options), Red Hat vector, hash key -/
def obs4 (o : V4.Obj) : List (Option Rat) × List Str × Str × Str × Str × Str :=
  (o.scores, o.severities, o.clean true, o.clean false, (AnyObj.o4 o).rh, (AnyObj.o4 o).hashKey)

/-- v4: two accepted vectors whose assignments agree on every metric of the table have the same
    observables and are equal objects -/
theorem v4_obs_of_assignment (s s' : Str) (o o' : V4.Obj) (h : V4.construct s = .ok o) (h' : V4.construct s' = .ok o')
    (he : ∀ k ∈ keys Gen.V4.abbrs, assignment V4.X o.orig k = assignment V4.X o'.orig k) :
    obs4 o = obs4 o' ∧ (AnyObj.o4 o).eq (AnyObj.o4 o') = true := by
  obtain ⟨-, hp, -, -⟩ := v4_construct_spec h
  obtain ⟨-, hp', -, -⟩ := v4_construct_spec h'
  obtain ⟨-, -, hl, -, -⟩ := C04.v4_parse_ok_fields _ _ hp
  obtain ⟨-, -, hl', -, -⟩ := C04.v4_parse_ok_fields _ _ hp'
  have ha : assignment V4.X o.orig = assignment V4.X o'.orig :=
    assignment_ext V4.X (keys Gen.V4.abbrs) (keys_subset_of_legal hl) (keys_subset_of_legal hl') he
  have hc : ∀ b, o.clean b = o'.clean b := fun b => v4_cleanOf_congr b ha
  obtain ⟨hbase, hsev⟩ := v4_base_congr h h' ha
  refine ⟨?_, ?_⟩
  · simp only [obs4, V4.Obj.scores, V4.Obj.severities, AnyObj.rh, AnyObj.hashKey, AnyObj.base,
      AnyObj.clean, hc, hbase, hsev]
  · simp only [AnyObj.eq, AnyObj.ver, AnyObj.clean, hc, decide_true, Bool.and_self]

/-- v4: any permutation of the fields of an accepted vector is accepted by the constructor and states the same values -/
theorem v4_perm_constructed (s : Str) (o : V4.Obj) (h : V4.construct s = .ok o) (m' : MMap) (hp : o.orig.Perm m') :
    ∃ o', V4.construct (V4.pfx ++ join '/' (m'.map fieldOf)) = .ok o' ∧ o'.orig = m' ∧
      ∀ k, assignment V4.X o.orig k = assignment V4.X o'.orig k := by
  obtain ⟨-, hp0, -, -⟩ := v4_construct_spec h
  obtain ⟨hparse, ha, -⟩ := v4_perm_accepted s o.orig hp0 m' hp
  obtain ⟨o', ho', hor, -⟩ := v4_construct_of_parse hparse
  exact ⟨o', ho', hor, fun k => by rw [hor]; exact ha k⟩

/-- v4: spelling out an absent optional metric as X is accepted by the constructor and states the same values -/
theorem v4_nd_constructed (s : Str) (o : V4.Obj) (h : V4.construct s = .ok o) (k : Str)
    (hk : k ∈ keys Gen.V4.abbrs) (hopt : k ∉ Gen.V4.mandatory) (habs : lookup k o.orig = none) :
    ∃ o', V4.construct (s ++ '/' :: fieldOf (k, V4.X)) = .ok o' ∧ o'.orig = o.orig ++ [(k, V4.X)] ∧
      ∀ j, assignment V4.X o.orig j = assignment V4.X o'.orig j := by
  obtain ⟨-, hp0, -, -⟩ := v4_construct_spec h
  obtain ⟨hparse, ha, -⟩ := v4_nd_accepted s o.orig hp0 k hk hopt habs
  obtain ⟨o', ho', hor, -⟩ := v4_construct_of_parse hparse
  exact ⟨o', ho', hor, fun j => by rw [hor]; exact ha j⟩

end Cvss.Props.C05
