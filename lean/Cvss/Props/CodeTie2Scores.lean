/-
  SOURCE TIE, CVSS2: `scores()` as translated from the source text returns the three attributes (`float` of a
  one-decimal `Decimal` is exact; `None` stays `None`) - the list the model's `Obj.scores` holds.
-/
import Cvss.Props.CodeTie2
namespace Cvss.Props.CodeTie2
open Cvss Cvss.Gen

theorem scores_eq (self : Code2.Self) :
    Code2.scores self = .ok [self.base_score, self.temporal_score, self.environmental_score] := by
  unfold Code2.scores
  cases hb : self.base_score <;> cases ht : self.temporal_score <;> cases he : self.environmental_score <;>
    simp [List.mapM_cons, List.mapM_nil, Py.req, bind, Except.bind, pure, Except.pure]

/-- on a constructed object this is the model's `scores` -/
theorem scores_eq_model (self : Code2.Self) (o : Model.V2.Obj) (hb : self.base_score = some o.base)
    (ht : self.temporal_score = o.temporal) (he : self.environmental_score = o.env) :
    Code2.scores self = .ok o.scores := by
  rw [scores_eq, hb, ht, he]; rfl

end Cvss.Props.CodeTie2
