/-
  C15 — temporal_vector()/environmental_vector() are faithful and score-preserving.
-/
import Cvss.Model.Any
namespace Cvss.Props.C15
open Cvss Cvss.Model

/-- mandatory ++ temporal ++ environmental is exactly the metric table, in table order -/
theorem groups_partition :
    Gen.V2.mandatory ++ Gen.V2.temporal ++ Gen.V2.environmental = keys Gen.V2.abbrs ∧
    Gen.V3.mandatory ++ Gen.V3.temporal ++ Gen.V3.environmental = keys Gen.V3.abbrs := by
  decide +kernel

end Cvss.Props.C15
