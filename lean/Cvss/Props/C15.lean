/-
  C15 — temporal_vector()/environmental_vector() are faithful and score-preserving.
-/
import Cvss.Model.Any
import Cvss.Lemmas.Construct
import Cvss.Lemmas.Invariance
namespace Cvss.Props.C15
open Cvss Cvss.Model Cvss.Lemmas.Construct Cvss.Lemmas.Invariance

/-- mandatory ++ temporal ++ environmental lists every metric of the table exactly once (in whatever
    order the table happens to have: a permutation, not an equality) -/
theorem groups_partition :
    (Gen.V2.mandatory ++ Gen.V2.temporal ++ Gen.V2.environmental).Perm (keys Gen.V2.abbrs) ∧
    (Gen.V3.mandatory ++ Gen.V3.temporal ++ Gen.V3.environmental).Perm (keys Gen.V3.abbrs) := by
  decide +kernel

/-- v2: both sub-vectors list every metric of their group once, in specification order, with the
    stated value, or ND when it was omitted or Not Defined -/
theorem v2_subvectors (o : V2.Obj) :
    o.temporalVector = join '/' (Gen.V2.temporal.map (fun k => fieldOf (k, assignment V2.ND o.metrics k))) ∧
    o.environmentalVector = join '/' (Gen.V2.environmental.map (fun k => fieldOf (k, assignment V2.ND o.metrics k))) :=
  Lemmas.Invariance.v2_subvectors o

/-- the value v3 sub-vectors show for a metric: the stated value; for a Modified metric that was omitted or
    X, the base metric's value; X otherwise -/
def shown3 (a : Str → Str) (k : Str) : Str :=
  if k ∈ V3.modifiedMetrics ∧ a k = V3.X then a (k.drop 1) else a k

theorem mandatory_not_modified : ∀ k ∈ Gen.V3.mandatory, k ∉ V3.modifiedMetrics := by decide

theorem modified_in_table : ∀ k ∈ V3.modifiedMetrics, k ∈ V3.tables.abbrs := by decide

theorem v3_subvectors (s : Str) (o : V3.Obj) (h : V3.construct s = .ok o) :
    o.temporalVector = join '/' (Gen.V3.temporal.map (fun k => fieldOf (k, shown3 (assignment V3.X o.orig) k))) ∧
    o.environmentalVector =
      join '/' (Gen.V3.environmental.map (fun k => fieldOf (k, shown3 (assignment V3.X o.orig) k))) :=
  Lemmas.Invariance.v3_subvectors h

/-- v2: the base metrics followed by both sub-vectors form a vector that is accepted and has exactly
    the same scores -/
theorem v2_reassembled (s : Str) (o : V2.Obj) (h : V2.construct s = .ok o) :
    ∃ o', V2.construct (join '/' (Gen.V2.mandatory.map (fun k => fieldOf (k, assignment V2.ND o.metrics k))) ++
            '/' :: o.temporalVector ++ '/' :: o.environmentalVector) = .ok o' ∧ o'.scores = o.scores := by
  obtain ⟨hp0, -, hb, ht, hen⟩ := v2_construct_spec h
  obtain ⟨-, -, hl, hn, hm⟩ := C04.v2_parse_ok_fields _ _ hp0
  have hperm : (Gen.V2.mandatory ++ Gen.V2.temporal ++ Gen.V2.environmental).Perm V2.tables.abbrs :=
    groups_partition.1
  have hleg : ∀ k ∈ V2.tables.abbrs, LegalPair V2.tables (k, assignment V2.ND o.metrics k) :=
    fun k hk => assignment_legalPair C04.pinned2 nd_ok.1 hl hm hk
  obtain ⟨hne', hl', hs', hn', hm'⟩ :=
    tabulate_facts_perm C04.pinned2 (assignment V2.ND o.metrics) hperm (by decide) (by decide) hleg
  have hparse := C04.v2_parse_render _ hne' hl' hs' hn' hm'
  rw [map_fieldOf_tabulate] at hparse
  have hstr : join '/' (Gen.V2.mandatory.map (fun k => fieldOf (k, assignment V2.ND o.metrics k))) ++
        '/' :: o.temporalVector ++ '/' :: o.environmentalVector =
      join '/' ((Gen.V2.mandatory ++ Gen.V2.temporal ++ Gen.V2.environmental).map
        (fun k => fieldOf (k, assignment V2.ND o.metrics k))) := by
    rw [(v2_subvectors o).1, (v2_subvectors o).2,
      join3 _ _ _ _ (by simp [Gen.V2.mandatory]) (by simp [Gen.V2.temporal])
        (by simp [Gen.V2.environmental]),
      ← List.map_append, ← List.map_append]
  rw [hstr]
  obtain ⟨o', ho', hmet⟩ := v2_construct_of_parse hparse
  refine ⟨o', ho', ?_⟩
  obtain ⟨-, -, hb', ht', hen'⟩ := v2_construct_spec ho'
  have hass : assignment V2.ND o'.metrics = assignment V2.ND o.metrics := by
    rw [hmet]
    refine assignment_tabulate_perm V2.ND _ hperm (fun k hk => ?_)
    have : lookup k o.metrics = none :=
      (lookup_eq_none_iff _ _).2 (fun hmem => hk (keys_subset_of_legal hl k hmem))
    simp [assignment, this]
  simp only [V2.Obj.scores, hb, ht, hen, hb', ht', hen', hass]

/-- v3: likewise behind the version prefix -/
theorem v3_reassembled (s : Str) (o : V3.Obj) (h : V3.construct s = .ok o) :
    ∃ o', V3.construct (V3.versionPrefix o.minor ++
            join '/' (Gen.V3.mandatory.map (fun k => fieldOf (k, assignment V3.X o.orig k))) ++
            '/' :: o.temporalVector ++ '/' :: o.environmentalVector) = .ok o' ∧ o'.scores = o.scores := by
  obtain ⟨hp0, -, hb, ht, hen, -⟩ := v3_construct_spec h
  obtain ⟨⟨p, hpi, -⟩, -, hl, hn, hm⟩ := C04.v3_parse_ok_fields _ _ _ hp0
  have hperm : (Gen.V3.mandatory ++ Gen.V3.temporal ++ Gen.V3.environmental).Perm V3.tables.abbrs :=
    groups_partition.2
  have hleg : ∀ k ∈ V3.tables.abbrs, LegalPair V3.tables (k, shownV3 (assignment V3.X o.orig) k) :=
    fun k hk => shownV3_legalPair hl hm hk
  obtain ⟨hne', hl', hs', hn', hm'⟩ :=
    tabulate_facts_perm C04.pinned3 (shownV3 (assignment V3.X o.orig)) hperm (by decide) (by decide) hleg
  have hparse := C04.v3_parse_render o.minor p hpi _ hne' hl' hs' hn' hm'
  rw [map_fieldOf_tabulate, v3_prefix_eq hpi] at hparse
  have hmand : Gen.V3.mandatory.map (fun k => fieldOf (k, assignment V3.X o.orig k)) =
      Gen.V3.mandatory.map (fun k => fieldOf (k, shownV3 (assignment V3.X o.orig) k)) := by
    apply List.map_congr_left
    intro k hk
    rw [shownV3_plain _ (mandatory_not_modified k hk)]
  have hstr : V3.versionPrefix o.minor ++
        join '/' (Gen.V3.mandatory.map (fun k => fieldOf (k, assignment V3.X o.orig k))) ++
        '/' :: o.temporalVector ++ '/' :: o.environmentalVector =
      V3.versionPrefix o.minor ++
        join '/' ((Gen.V3.mandatory ++ Gen.V3.temporal ++ Gen.V3.environmental).map
          (fun k => fieldOf (k, shownV3 (assignment V3.X o.orig) k))) := by
    rw [(Lemmas.Invariance.v3_subvectors h).1, (Lemmas.Invariance.v3_subvectors h).2, hmand, List.append_assoc,
      List.append_assoc, ← List.append_assoc (join _ _),
      join3 _ _ _ _ (by simp [Gen.V3.mandatory]) (by simp [Gen.V3.temporal])
        (by simp [Gen.V3.environmental]),
      ← List.map_append, ← List.map_append]
  rw [hstr]
  obtain ⟨o', ho', hmin, hor⟩ := v3_construct_of_parse hparse
  refine ⟨o', ho', ?_⟩
  obtain ⟨-, -, hb', ht', hen', -⟩ := v3_construct_spec ho'
  have hass : assignment V3.X o'.orig = shownV3 (assignment V3.X o.orig) := by
    rw [hor]
    refine assignment_tabulate_perm V3.X _ hperm (fun k hk => ?_)
    have : lookup k o.orig = none :=
      (lookup_eq_none_iff _ _).2 (fun hmem => hk (keys_subset_of_legal hl k hmem))
    rw [shownV3_plain _ (fun hmod => hk (modified_in_table k hmod))]
    simp [assignment, this]
  simp only [V3.Obj.scores, hb, ht, hen, hb', ht', hen', hass, hmin, spec_base_shownV3,
    spec_temporal_shownV3, spec_env_shownV3]

end Cvss.Props.C15
