/-
  SOURCE TIE, CVSS4: Red Hat notation.  `rh_vector()` and the classmethod `from_rh_vector()` as translated from the
  source text (`float(text)` and `float == float` are the BUILTIN semantics of `Cvss/Model/Float.lean`, which the
  translation refers to through `Py.float` / `Py.scoreEq`) equal the model's `AnyObj.rh` / `fromRh`.
-/
import Cvss.Props.CodeTie4Ctor
import Cvss.Props.CodeTie4Scores
import Cvss.Model.Any
namespace Cvss.Props.CodeTie4
open Cvss Cvss.Gen Cvss.Model

/-- the model's `fromRh` for this version, before it is wrapped into `AnyObj` -/
def rhSpec (text : Str) : Except Err V4.Obj :=
  match splitFirst '/' text with
  | none => .error .rhMalformed
  | some (score, baseVector) =>
    match Float.parseFloat score with
    | none => .error .rhMalformed
    | some fv =>
      match V4.construct baseVector with
      | .error e => .error e
      | .ok o => if Float.eqScore o.base fv then .ok o else .error .rhMismatch

theorem rhSpec_eq_model (text : Str) : (rhSpec text).map AnyObj.o4 = fromRh .v4 text := by
  unfold rhSpec fromRh
  cases splitFirst '/' text with
  | none => rfl
  | some p =>
    obtain ⟨score, bv⟩ := p
    dsimp only
    cases Float.parseFloat score with
    | none => rfl
    | some fv =>
      dsimp only [Model.construct]
      cases V4.construct bv with
      | error e => rfl
      | ok o =>
        dsimp only [Except.map, AnyObj.base]
        by_cases he : Float.eqScore o.base fv = true
        · simp only [he, if_true]
        · simp only [he]; rfl

/-- `X.from_rh_vector(text)`, for every string: same exception class (RH-malformed, the constructor's classes,
    mismatch) or the same object -/
theorem from_rh_vector_eq (text : Str) :
    ((Code4.from_rh_vector text).mapError Py.Exc.toErr).map
        (fun x => (x.vector, x.original_metrics, x.metrics, x.base_score, x.severity)) =
      (rhSpec text).map
        (fun o => (o.vector, o.orig, o.metrics, some o.base, some o.severity)) := by
  unfold Code4.from_rh_vector rhSpec
  cases hs : splitFirst '/' text with
  | none =>
    simp only [Py.split1, hs, Py.unpack2]
    rfl
  | some p =>
    obtain ⟨score, bv⟩ := p
    simp only [Py.split1, hs, Py.unpack2]
    cases hf : Float.parseFloat score with
    | none =>
      simp only [Py.float, hf, bind, Except.bind, pure, Except.pure, Py.tryExcept]
      rfl
    | some fv =>
      simp only [Py.float, hf, bind, Except.bind, pure, Except.pure, Py.tryExcept]
      have hc := construct_eq bv
      cases hg : Code4.construct bv with
      | error e =>
        rw [hg] at hc
        cases hm : V4.construct bv with
        | error e' =>
          rw [hm] at hc
          simp only [Except.mapError, Except.map, Except.error.injEq] at hc
          simp only [Except.mapError, Except.map, hc]
        | ok o => rw [hm] at hc; cases hc
      | ok x =>
        rw [hg] at hc
        cases hm : V4.construct bv with
        | error e' => rw [hm] at hc; cases hc
        | ok o =>
          rw [hm] at hc
          simp only [Except.mapError, Except.map, Except.ok.injEq, Prod.mk.injEq] at hc
          obtain ⟨h1, h2, h3, h4, h5⟩ := hc
          simp only [Code4.scores, pure, Except.pure, Py.listAt, List.getElem?_cons_zero, h4, Py.scoreEq]
          by_cases he : Float.eqScore o.base fv = true
          · simp only [he, if_true, Except.mapError, Except.map, h1, h2, h3, h4, h5]
          · simp only [he, Except.mapError, Except.map, Py.raise]
            rfl

/-- `rh_vector()` on a constructed object -/
theorem rh_vector_eq (self : Code4.Self) (o : V4.Obj) (ho : self.original_metrics = o.orig) (hb : self.base_score = some o.base) :
    Code4.rh_vector self = .ok (AnyObj.rh (.o4 o)) := by
  unfold Code4.rh_vector
  rw [clean_vector_eq, hb, ho]
  simp only [bind, Except.bind, pure, Except.pure, AnyObj.rh, AnyObj.base, AnyObj.clean, V4.Obj.clean,
    Py.strScore, showScore, List.append_assoc, List.cons_append, List.nil_append]

end Cvss.Props.CodeTie4
