/-
  C13 — text extraction is total, sound, complete for delimited vectors, duplicate-free.
-/
import Cvss.Model.Extract
import Cvss.Spec.Grammar
namespace Cvss.Props.C13
open Cvss Cvss.Model Cvss.Spec

/-- every legal field of v2 / v3 consists of characters of the class `[A-Za-z:/]` only -/
theorem fields_in_class :
    ((Grammar.fieldStrings Grammar.g2 ++ Grammar.fieldStrings Grammar.g3).all fun (f, _) => f.all Extract.inClass) = true := by
  decide +kernel

end Cvss.Props.C13
