/-
  C13 — text extraction is total, sound, complete for delimited vectors, duplicate-free.
-/
import Cvss.Model.Extract
import Cvss.Spec.Grammar
import Cvss.Lemmas.Parse
import Cvss.Lemmas.Extract
import Cvss.Props.C04
namespace Cvss.Props.C13
open Cvss Cvss.Model Cvss.Spec Cvss.Model.Extract

/-- every legal field of v2 / v3 consists of characters of the class `[A-Za-z:/]` only -/
theorem fields_in_class :
    ((Grammar.fieldStrings Grammar.g2 ++ Grammar.fieldStrings Grammar.g3).all fun (f, _) => f.all Extract.inClass) = true := by
  decide +kernel

/-! ### the scanner -/

/-- every match the scanner reports is a contiguous substring of the text -/
theorem findAll_infix (isDigit : Char → Bool) (fuel : Nat) (text : Str) :
    ∀ m ∈ findAll isDigit fuel text, m <:+: text :=
  findAll_infix' isDigit fuel text

/-- TOTAL: extraction returns a list for every text, provided the two constructors never let an
    exception from outside the hierarchy escape (that is C04, proved there for every string) -/
theorem parseText_total (isDigit : Char → Bool) (text : Str)
    (h2 : ∀ s, construct .v2 s ≠ .error .foreign) (h3 : ∀ s, construct .v3 s ≠ .error .foreign) :
    (parseText isDigit text).isSome = true :=
  collect_isSome h2 h3 _ []

/-- SOUND: every returned object is the result of constructing, with the CVSS2 or CVSS3 class, a
    contiguous substring of the text (so that substring is a valid vector of that object's version;
    a CVSS4 object is never produced) -/
theorem parseText_sound (isDigit : Char → Bool) (text : Str) (os : List AnyObj)
    (h : parseText isDigit text = some os) :
    ∀ o ∈ os, ∃ sub, sub <:+: text ∧ (construct .v2 sub = .ok o ∨ construct .v3 sub = .ok o) := by
  refine collect_invariant
    (fun acc => ∀ o ∈ acc, ∃ sub, sub <:+: text ∧ (construct .v2 sub = .ok o ∨ construct .v3 sub = .ok o))
    (findAll isDigit text.length text) ?_ [] os (by simp) h
  intro acc m o hm hres hacc x hx
  rcases mem_addDedup hx with hx | rfl
  · exact hacc x hx
  · exact ⟨m, findAll_infix isDigit _ text m hm, resultOf_ok hres⟩

/-- DUPLICATE-FREE: no two returned objects are equal -/
theorem parseText_nodup (isDigit : Char → Bool) (text : Str) (os : List AnyObj)
    (h : parseText isDigit text = some os) : os.Pairwise (fun a b => a.eq b = false) :=
  collect_invariant (fun acc => acc.Pairwise (fun a b => a.eq b = false))
    (findAll isDigit text.length text) (fun _ _ o _ _ hacc => pairwise_addDedup o hacc) [] os
    List.Pairwise.nil h

/-! ### shape of a valid v2 / v3 vector -/

/-- Boolean check of one legal field string `f` of metric `m`: class characters only, at least two
    characters longer than the metric name, and its first two characters cannot complete `CVSS:3.<d>/` -/
def goodField (p : Str × Str) : Bool :=
  p.1.all inClass && decide (p.2.length + 2 ≤ p.1.length) &&
    (match p.1 with
     | a :: b :: _ => a != '.' && a != '/' && b != '/'
     | _ => false)

theorem fields_good :
    ((Grammar.fieldStrings Grammar.g2 ++ Grammar.fieldStrings Grammar.g3).all goodField) = true := by
  decide +kernel

structure GoodField (kv : Str × Str) : Prop where
  cls : (fieldOf kv).all inClass = true
  len : kv.1.length + 2 ≤ (fieldOf kv).length
  head : ∃ a b t, fieldOf kv = a :: b :: t ∧ a ≠ '.' ∧ a ≠ '/' ∧ b ≠ '/'

theorem goodField_prop {kv : Str × Str} (h : goodField (fieldOf kv, kv.1) = true) : GoodField kv := by
  unfold goodField at h
  simp only [Bool.and_eq_true, decide_eq_true_eq] at h
  obtain ⟨⟨h1, h2⟩, h3⟩ := h
  refine ⟨h1, h2, ?_⟩
  split at h3
  · rename_i a b t heq
    simp only [Bool.and_eq_true, bne_iff_ne, ne_eq] at h3
    exact ⟨a, b, t, heq, h3.1.1, h3.1.2, h3.2⟩
  · cases h3

theorem legal_mem_fieldStrings {T : Tables} {g : Grammar.G} (hp : C04.Pinned T g) {kv : Str × Str}
    (hl : LegalPair T kv) : (fieldOf kv, kv.1) ∈ Grammar.fieldStrings g := by
  obtain ⟨vs, v, hlook, hv, hf⟩ := (hp.isField_iff (fieldOf kv) kv.1).2 ⟨kv.2, rfl, hl⟩
  unfold Grammar.fieldStrings
  refine List.mem_flatMap.2 ⟨(kv.1, vs), mem_of_lookup_eq_some _ _ _ hlook, ?_⟩
  exact List.mem_map.2 ⟨v, hv, by rw [hf]⟩

theorem good_of_legal2 {kv : Str × Str} (hl : LegalPair V2.tables kv) : GoodField kv :=
  goodField_prop (List.all_eq_true.1 fields_good _
    (List.mem_append_left _ (legal_mem_fieldStrings C04.pinned2 hl)))

theorem good_of_legal3 {kv : Str × Str} (hl : LegalPair V3.tables kv) : GoodField kv :=
  goodField_prop (List.all_eq_true.1 fields_good _
    (List.mem_append_right _ (legal_mem_fieldStrings C04.pinned3 hl)))

/-- weight of a metric: its field together with one separator has at least this many characters -/
def weight (k : Str) : Nat := k.length + 3

/-- the rendering of a non-empty map of good fields -/
theorem body_facts (m : MMap) (hne : m ≠ []) (hg : ∀ kv ∈ m, GoodField kv) :
    (join '/' (m.map fieldOf)).all inClass = true ∧
    ((keys m).map weight).sum ≤ (join '/' (m.map fieldOf)).length + 1 ∧
    ∃ a b t, join '/' (m.map fieldOf) = a :: b :: t ∧ a ≠ '.' ∧ a ≠ '/' ∧ b ≠ '/' := by
  induction m with
  | nil => exact absurd rfl hne
  | cons kv rest ih =>
    have hkv := hg kv (by simp)
    obtain ⟨a, b, t, hf, ha, ha', hb⟩ := hkv.head
    cases rest with
    | nil =>
      simp only [List.map_cons, List.map_nil, join_singleton, keys, List.sum_cons, List.sum_nil]
      refine ⟨hkv.cls, ?_, a, b, t, hf, ha, ha', hb⟩
      have := hkv.len
      unfold weight; omega
    | cons kv' rest' =>
      obtain ⟨ih1, ih2, -⟩ := ih (by simp) (fun x hx => hg x (List.mem_cons_of_mem _ hx))
      simp only [List.map_cons, keys, List.sum_cons] at ih1 ih2 ⊢
      rw [join_cons_cons']
      refine ⟨?_, ?_, a, b, t ++ '/' :: join '/' (fieldOf kv' :: List.map fieldOf rest'), ?_, ha, ha', hb⟩
      · rw [List.all_append, List.all_cons, hkv.cls, ih1]
        decide
      · have := hkv.len
        simp only [List.length_append, List.length_cons]
        unfold weight at ih2 ⊢; omega
      · rw [hf]; rfl

theorem sum_le_of_nodup_subset (w : Str → Nat) :
    ∀ (l₁ l₂ : List Str), l₁.Nodup → (∀ x ∈ l₁, x ∈ l₂) → (l₁.map w).sum ≤ (l₂.map w).sum := by
  intro l₁
  induction l₁ with
  | nil => intro l₂ _ _; simp
  | cons x l ih =>
    intro l₂ hn hsub
    have hx : x ∈ l₂ := hsub x (by simp)
    have hperm := List.perm_cons_erase hx
    have hsum : (l₂.map w).sum = w x + ((l₂.erase x).map w).sum := by
      rw [(hperm.map w).sum_nat]; simp
    rw [List.nodup_cons] at hn
    have := ih (l₂.erase x) hn.2 (fun y hy =>
      (List.mem_erase_of_ne (by intro e; rw [e] at hy; exact hn.1 hy)).2
        (hsub y (List.mem_cons_of_mem _ hy)))
    rw [hsum, List.map_cons, List.sum_cons]
    omega

theorem construct_v2_ok {v : Str} {o : AnyObj} (hc : construct .v2 v = .ok o) :
    ∃ m, V2.parse v = .ok m := by
  cases hp : V2.parse v with
  | ok m => exact ⟨m, rfl⟩
  | error e => simp [construct, V2.construct, hp, Except.map] at hc

theorem construct_v3_ok {v : Str} {o : AnyObj} (hc : construct .v3 v = .ok o) :
    ∃ i m, V3.parse v = .ok (i, m) := by
  cases hp : V3.parse v with
  | ok r => exact ⟨r.1, r.2, rfl⟩
  | error e => simp [construct, V3.construct, hp, Except.map] at hc

/-- a string the CVSS2 class accepts: at least 26 class characters, not starting like the prefix -/
theorem v2_shape {v : Str} {o : AnyObj} (hc : construct .v2 v = .ok o) :
    v.all inClass = true ∧ 26 ≤ v.length ∧ ∃ a b t, v = a :: b :: t ∧ a ≠ '.' ∧ a ≠ '/' ∧ b ≠ '/' := by
  obtain ⟨m, hp⟩ := construct_v2_ok hc
  obtain ⟨rfl, hne, hleg, hnd, hman⟩ := C04.v2_parse_ok_fields v m hp
  obtain ⟨h1, h2, h3⟩ := body_facts m hne (fun kv hkv => good_of_legal2 (hleg kv hkv))
  refine ⟨h1, ?_, h3⟩
  have := sum_le_of_nodup_subset weight V2.tables.mandatory (keys m) (by decide) hman
  have e : (V2.tables.mandatory.map weight).sum = 27 := by decide
  omega

/-- a string the CVSS3 class accepts: `CVSS:3.0/` or `CVSS:3.1/`, then at least 26 class characters -/
theorem v3_shape {v : Str} {o : AnyObj} (hc : construct .v3 v = .ok o) :
    ∃ x body, (x = '0' ∨ x = '1') ∧ v = 'C' :: 'V' :: 'S' :: 'S' :: ':' :: '3' :: '.' :: x :: '/' :: body ∧
      body.all inClass = true ∧ 26 ≤ body.length := by
  obtain ⟨i, m, hp⟩ := construct_v3_ok hc
  obtain ⟨⟨p, hpi, rfl⟩, hne, hleg, hnd, hman⟩ := C04.v3_parse_ok_fields v i m hp
  obtain ⟨h1, h2, -⟩ := body_facts m hne (fun kv hkv => good_of_legal3 (hleg kv hkv))
  have := sum_le_of_nodup_subset weight V3.tables.mandatory (keys m) (by decide) hman
  have e : (V3.tables.mandatory.map weight).sum = 36 := by decide
  have hpm := List.mem_of_getElem? hpi
  simp only [V3.prefixes, List.mem_cons, List.not_mem_nil, or_false] at hpm
  have hlen : 26 ≤ (join '/' (m.map fieldOf)).length := by omega
  rcases hpm with rfl | rfl
  · exact ⟨'0', _, Or.inl rfl, rfl, h1, hlen⟩
  · exact ⟨'1', _, Or.inr rfl, rfl, h1, hlen⟩

/-- a character outside the class `[A-Za-z:/]`, or the text boundary -/
def DelimitedLeft (pre : Str) : Prop := ∀ c, pre.getLast? = some c → inClass c = false
def DelimitedRight (post : Str) : Prop := ∀ c, post.head? = some c → inClass c = false

/-- COMPLETE for delimited vectors: if a string `v` that the CVSS2 class accepts occurs in the text
    delimited on both sides by characters outside the class (or the text boundary), an object equal to
    `CVSS2(v)` is returned.  (`\d` must match at least the ASCII digits.) -/
theorem parseText_complete_v2 (isDigit : Char → Bool) (pre v post : Str) (o : AnyObj)
    (hc : construct .v2 v = .ok o) (hl : DelimitedLeft pre) (hr : DelimitedRight post)
    (os : List AnyObj) (h : parseText isDigit (pre ++ v ++ post) = some os) :
    ∃ o' ∈ os, o'.eq o = true := by
  obtain ⟨hall, hlen, a, b, t, rfl, ha, ha', hb⟩ := v2_shape hc
  have hm := matchHere_plain isDigit _ post hall hlen hr
  obtain ⟨ms, ms', hfa⟩ := findAll_delimited isDigit pre post a b t hl ha ha' hb hm
  unfold parseText at h
  rw [hfa] at h
  refine collect_complete ms ms' _ o os ?_ h
  unfold resultOf
  rw [if_neg, hc]
  intro hs
  obtain ⟨r, hr'⟩ := (startsWith_iff _ _).1 hs
  have hmem : '3' ∈ a :: b :: t := by rw [hr']; simp
  have := List.all_eq_true.1 hall _ hmem
  simp [inClass] at this

/-- likewise for a string the CVSS3 class accepts -/
theorem parseText_complete_v3 (isDigit : Char → Bool) (hd : isDigit '0' = true ∧ isDigit '1' = true)
    (pre v post : Str) (o : AnyObj)
    (hc : construct .v3 v = .ok o) (hl : DelimitedLeft pre) (hr : DelimitedRight post)
    (os : List AnyObj) (h : parseText isDigit (pre ++ v ++ post) = some os) :
    ∃ o' ∈ os, o'.eq o = true := by
  obtain ⟨x, body, hx, rfl, hall, hlen⟩ := v3_shape hc
  have hdx : isDigit x = true := by
    rcases hx with rfl | rfl
    · exact hd.1
    · exact hd.2
  have hm := matchHere_prefixed isDigit x body post hdx hall hlen hr
  obtain ⟨ms, ms', hfa⟩ := findAll_delimited isDigit pre post 'C' 'V' _ hl (by decide) (by decide)
    (by decide) hm
  unfold parseText at h
  rw [hfa] at h
  refine collect_complete ms ms' _ o os ?_ h
  unfold resultOf
  rw [if_pos, hc]
  exact (startsWith_iff _ _).2 ⟨_, rfl⟩

/-- non-vacuity: a delimited v3 vector in a sentence is found -/
example :
    (parseText (fun c => c.isDigit) c!"score (CVSS:3.1/AV:N/AC:L/PR:N/UI:N/S:U/C:H/I:H/A:H), see advisory").map
      (fun os => os.map (fun o => o.clean)) = some [c!"CVSS:3.1/AV:N/AC:L/PR:N/UI:N/S:U/C:H/I:H/A:H"] := by
  decide +kernel

end Cvss.Props.C13
