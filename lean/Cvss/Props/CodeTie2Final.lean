/-
  END-TO-END statement about the TRANSLATED SOURCE of cvss2.py (`Cvss.Gen.Code2`, regenerated from the source
  text on every run): the source tie `CodeTie2.init_tail_eq` (model = translated source) composed with
  `C03.v2_scores_eq_spec` (model = the guide's equations).  It says what the code's own text computes for every
  valid metric dict; only the parser, which produces that dict, is tied by correspondence alone.
-/
import Cvss.Props.CodeTie2
import Cvss.Props.C03
namespace Cvss.Props.CodeTie2
open Cvss Cvss.Gen Cvss.Model

/-- cvss2.py, `__init__` after `check_mandatory()`, as translated from the source text: for every valid
    metric dict it raises nothing and leaves exactly the guide's three scores on the object (`None`
    exactly where the guide's score is undefined) -/
theorem source_v2_scores_eq_spec (self : Code2.Self) (vector : Str) (hv : C03.ValidMap self.metrics) :
    ∃ x, Code2.init_tail self vector = some x ∧
      x.metrics = self.metrics ∧
      x.base_score = some (Spec.V2.baseScore (assignment V2.ND self.metrics)) ∧
      x.temporal_score = Spec.V2.temporalScore (assignment V2.ND self.metrics) ∧
      x.environmental_score = Spec.V2.environmentalScore (assignment V2.ND self.metrics) := by
  have hs := C03.v2_scores_eq_spec self.metrics hv
  have h := CodeTie2.init_tail_eq self vector
  rw [hs] at h
  cases hx : Code2.init_tail self vector with
  | none => rw [hx] at h; simp at h
  | some x =>
    rw [hx] at h
    simp only [Option.map_some, Option.some.injEq, Prod.mk.injEq] at h
    obtain ⟨_, h2, h3, h4, h5⟩ := h
    exact ⟨x, rfl, h2, h3, h4, h5⟩

end Cvss.Props.CodeTie2
