/-
  END-TO-END statements about the TRANSLATED SOURCE of cvss2.py (`Cvss.Gen.Code2`, regenerated from the
  source text on every run): the source tie (`CodeTie2.construct_eq`, `init_tail_eq`: model = translated
  source) composed with the property theorems about the model (`C03.v2_scores_eq_spec`: model = guide's
  equations; `C04.v2_construct_accepts_iff` etc.: model = grammar).  They say what the code's own text
  does, for every string / every valid metric dict.
-/
import Cvss.Props.CodeTie2
import Cvss.Props.C03
import Cvss.Props.C04Final
namespace Cvss.Props.CodeTie2
open Cvss Cvss.Gen Cvss.Model Cvss.Spec.Grammar

namespace Aux
/-- reading an outcome equation between a translated computation and a model computation -/
theorem ok_of_ok {α β γ : Type} {x : Py.M α} {y : Except Err β} {f : α → γ} {g : β → γ}
    (h : (x.mapError Py.Exc.toErr).map f = y.map g) {a : α} (hx : x = .ok a) : ∃ b, y = .ok b ∧ f a = g b := by
  subst hx
  cases y with
  | error e => simp [Except.mapError, Except.map] at h
  | ok b => exact ⟨b, rfl, by simpa [Except.mapError, Except.map] using h⟩

theorem ok_of_ok' {α β γ : Type} {x : Py.M α} {y : Except Err β} {f : α → γ} {g : β → γ}
    (h : (x.mapError Py.Exc.toErr).map f = y.map g) {b : β} (hy : y = .ok b) : ∃ a, x = .ok a ∧ f a = g b := by
  subst hy
  cases x with
  | error e => simp [Except.mapError, Except.map] at h
  | ok a => exact ⟨a, rfl, by simpa [Except.mapError, Except.map] using h⟩

theorem err_of_err {α β γ : Type} {x : Py.M α} {y : Except Err β} {f : α → γ} {g : β → γ}
    (h : (x.mapError Py.Exc.toErr).map f = y.map g) {e : Py.Exc} (hx : x = .error e) : y = .error e.toErr := by
  subst hx
  cases y with
  | error e' => simpa [Except.mapError, Except.map] using h.symm
  | ok b => simp [Except.mapError, Except.map] at h

theorem err_of_err' {α β γ : Type} {x : Py.M α} {y : Except Err β} {f : α → γ} {g : β → γ}
    (h : (x.mapError Py.Exc.toErr).map f = y.map g) {e' : Err} (hy : y = .error e') :
    ∃ e, x = .error e ∧ e.toErr = e' := by
  subst hy
  cases x with
  | error e => exact ⟨e, rfl, by simpa [Except.mapError, Except.map] using h⟩
  | ok a => simp [Except.mapError, Except.map] at h
end Aux

/-- cvss2.py, `__init__` after `check_mandatory()`, as translated from the source text: for every valid
    metric dict it raises nothing and leaves exactly the guide's three scores on the object (`None`
    exactly where the guide's score is undefined) -/
theorem source_v2_scores_eq_spec (self : Code2.Self) (vector : Str) (hv : C03.ValidMap self.metrics) :
    ∃ x, Code2.init_tail self vector = .ok x ∧
      x.metrics = self.metrics ∧
      x.base_score = some (Spec.V2.baseScore (assignment V2.ND self.metrics)) ∧
      x.temporal_score = Spec.V2.temporalScore (assignment V2.ND self.metrics) ∧
      x.environmental_score = Spec.V2.environmentalScore (assignment V2.ND self.metrics) := by
  have hs := C03.v2_scores_eq_spec self.metrics hv
  have h := init_tail_eq self vector
  rw [hs] at h
  cases hx : Code2.init_tail self vector with
  | error e => rw [hx] at h; simp [Except.toOption] at h
  | ok x =>
    rw [hx] at h
    simp only [Except.toOption, Option.map_some, Option.some.injEq, Prod.mk.injEq] at h
    obtain ⟨_, h2, h3, h4, h5⟩ := h
    exact ⟨x, rfl, h2, h3, h4, h5⟩

/-- `CVSS2(s)` as translated from the source text succeeds exactly on the strings of the v2 grammar -/
theorem source_v2_construct_accepts_iff (s : Str) : (∃ x, Code2.construct s = .ok x) ↔ Accepts g2 s := by
  rw [← C04.v2_construct_accepts_iff]
  constructor
  · rintro ⟨x, hx⟩; obtain ⟨o, ho, -⟩ := Aux.ok_of_ok (construct_eq s) hx; exact ⟨o, ho⟩
  · rintro ⟨o, ho⟩; obtain ⟨x, hx, -⟩ := Aux.ok_of_ok' (construct_eq s) ho; exact ⟨x, hx⟩

/-- … and otherwise raises the malformed or the mandatory class: no exception escapes the hierarchy -/
theorem source_v2_construct_outcomes (s : Str) :
    (∃ x, Code2.construct s = .ok x) ∨
      ∃ e, Code2.construct s = .error e ∧ (e.toErr = .malformed ∨ e.toErr = .mandatory) := by
  cases hx : Code2.construct s with
  | ok x => exact Or.inl ⟨x, rfl⟩
  | error e =>
    right
    refine ⟨e, rfl, ?_⟩
    have hy := Aux.err_of_err (construct_eq s) hx
    have := C04.construct_outcomes .v2 s
    simp only [construct] at this
    rw [hy] at this
    rcases this with ⟨o, ho⟩ | h | h
    · simp [Except.map] at ho
    · left; simpa [Except.map] using h
    · right; simpa [Except.map] using h

/-- the mandatory class is raised exactly for well-formed vectors lacking a mandatory metric -/
theorem source_v2_construct_mandatory_iff (s : Str) :
    (∃ e, Code2.construct s = .error e ∧ e.toErr = .mandatory) ↔ LacksMandatory g2 s := by
  rw [← C04.v2_construct_mandatory_iff]
  constructor
  · rintro ⟨e, he, hm⟩; rw [Aux.err_of_err (construct_eq s) he, hm]
  · intro h; exact Aux.err_of_err' (construct_eq s) h

/-- the scores the translated constructor leaves on an accepted vector are the guide's -/
theorem source_v2_construct_scores (s : Str) (x : Code2.Self) (hx : Code2.construct s = .ok x) :
    ∃ o, V2.construct s = .ok o ∧ x.metrics = o.metrics ∧ x.base_score = some o.base ∧
      x.temporal_score = o.temporal ∧ x.environmental_score = o.env := by
  obtain ⟨o, ho, hv⟩ := Aux.ok_of_ok (construct_eq s) hx
  simp only [Prod.mk.injEq] at hv
  exact ⟨o, ho, hv.2.1, hv.2.2.1, hv.2.2.2.1, hv.2.2.2.2⟩

end Cvss.Props.CodeTie2
