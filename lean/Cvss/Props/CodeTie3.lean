/-
  SOURCE TIE, CVSS3: the hand-written model `Cvss.Model.V3` equals the translation of cvss/cvss3.py that
  `tools/gen_code.py` regenerates from the SOURCE TEXT on every run (`Cvss.Gen.Code3`): the whole
  constructor (`__init__`: `parse_vector`, `check_mandatory`, `handle_scope`, `add_missing_optional`,
  `compute_*`) with its exception classes, `get_value`, and the accessors.  Translated code runs in
  `Py.M = Except Py.Exc`.  Every theorem declared directly in this namespace is an obligation.
-/
import Cvss.Py
import Cvss.Gen.Code3
import Cvss.Model.Json
import Cvss.Model.V3
namespace Cvss.Props.CodeTie3
open Cvss Cvss.Gen

/-- `round_up` is ROUND_CEILING to one decimal -/
theorem round_eq (x : Rat) : Code3.round_up x = .ok (roundUp1 x) := by
  rfl

/-- the model's context of a translated object whose scope attributes are set -/
def ctxOf (self : Code3.Self) (sc ms : Str) : Model.V3.Ctx :=
  { metrics := self.metrics, scope := sc, modScope := ms }

namespace Aux

/-! ### `Except` → `Option` -/

theorem toOption_bind {ε α β : Type} (x : Except ε α) (f : α → Except ε β) :
    (x >>= f).toOption = x.toOption.bind (fun a => (f a).toOption) := by cases x <;> rfl
theorem toOption_pure {ε α : Type} (a : α) : (pure a : Except ε α).toOption = some a := rfl
theorem toOption_ok {ε α : Type} (a : α) : (Except.ok a : Except ε α).toOption = some a := rfl
theorem toOption_error {ε α : Type} (e : ε) : (Except.error e : Except ε α).toOption = none := rfl
theorem toOption_getitem {β : Type} (k : Str) (d : List (Str × β)) :
    (Py.getitem k d).toOption = lookup k d := by
  unfold Py.getitem; cases lookup k d <;> rfl
theorem toOption_req {α : Type} (o : Option α) : (Py.req o).toOption = o := by cases o <;> rfl
theorem toOption_raise {α : Type} (e : Py.Exc) : (Py.raise e : Py.M α).toOption = none := rfl
theorem toOption_ite {ε α : Type} (c : Prop) [Decidable c] (x y : Except ε α) :
    (if c then x else y).toOption = if c then x.toOption else y.toOption := by split <;> rfl
theorem toOption_assert (c : Prop) [Decidable c] :
    (Py.assert c).toOption = if c then some () else none := by unfold Py.assert; split <;> rfl
theorem toOption_round_up (x : Rat) : (Code3.round_up x).toOption = some (roundUp1 x) := rfl
theorem toOption_eq_some {ε α : Type} {x : Except ε α} {a : α} (h : x = .ok a) : x.toOption = some a := by
  subst h; rfl
theorem toOption_eq_none {ε α : Type} {x : Except ε α} {e : ε} (h : x = .error e) : x.toOption = none := by
  subst h; rfl

/-! ### computations that raise no exception of the library's own hierarchy -/

def Foreign {α : Type} (x : Py.M α) : Prop := ∀ e, x = .error e → e.toErr = .foreign

theorem Foreign.pure {α : Type} (a : α) : Foreign (pure a : Py.M α) := by intro e h; cases h
theorem Foreign.ok {α : Type} (a : α) : Foreign (.ok a : Py.M α) := by intro e h; cases h
theorem Foreign.bind {α β : Type} {x : Py.M α} {f : α → Py.M β} (hx : Foreign x)
    (hf : ∀ a, Foreign (f a)) : Foreign (x >>= f) := by
  intro e h
  cases x with
  | error e' => cases h; exact hx _ rfl
  | ok a => exact hf a e h
theorem Foreign.ite {α : Type} {c : Prop} [Decidable c] {x y : Py.M α} (hx : Foreign x) (hy : Foreign y) :
    Foreign (if c then x else y) := by split <;> assumption
theorem Foreign.getitem {β : Type} (k : Str) (d : List (Str × β)) : Foreign (Py.getitem k d) := by
  intro e h; unfold Py.getitem at h; cases hl : lookup k d <;> rw [hl] at h <;> cases h; rfl
theorem Foreign.req {α : Type} (o : Option α) : Foreign (Py.req o) := by
  intro e h; cases o <;> cases h; rfl
theorem Foreign.assert (c : Prop) [Decidable c] : Foreign (Py.assert c) := by
  intro e h; unfold Py.assert at h; split at h <;> cases h; rfl
theorem Foreign.raise_other {α : Type} : Foreign (Py.raise .other : Py.M α) := by
  intro e h; cases h; rfl
theorem Foreign.foldlM {α β : Type} {f : β → α → Py.M β} (hf : ∀ s a, Foreign (f s a)) (l : List α) :
    ∀ s, Foreign (List.foldlM f s l) := by
  induction l with
  | nil => intro s; exact Foreign.pure s
  | cons a rest ih => intro s; rw [List.foldlM_cons]; exact Foreign.bind (hf s a) ih

/-- one step of the syntax-directed proof that a computation is `Foreign` (extended below) -/
syntax "foreign_step" : tactic
macro_rules
  | `(tactic| foreign_step) => `(tactic| with_reducible first
      | exact Foreign.pure _ | exact Foreign.ok _ | exact Foreign.getitem _ _ | exact Foreign.req _
      | exact Foreign.assert _ | exact Foreign.raise_other
      | apply Foreign.ite | apply Foreign.foldlM | apply Foreign.bind | intro _)
macro "foreign" : tactic => `(tactic| repeat foreign_step)

/-! ### computations that leave `vector` and `minor_version` alone -/

abbrev key (x : Code3.Self) : Str × Option Int := (x.vector, x.minor_version)

def Keeps (k : Str × Option Int) (m : Py.M Code3.Self) : Prop := ∀ x, m = .ok x → key x = k

theorem Keeps.pure {k : Str × Option Int} {y : Code3.Self} (h : key y = k) : Keeps k (pure y) := by
  intro x hx; cases hx; exact h
theorem Keeps.raise {k : Str × Option Int} {e : Py.Exc} : Keeps k (Py.raise e) := by
  intro x hx; cases hx
theorem Keeps.bind {α : Type} {k : Str × Option Int} {m : Py.M α} {f : α → Py.M Code3.Self}
    (hf : ∀ a, Keeps k (f a)) : Keeps k (m >>= f) := by
  intro x hx
  cases m with
  | error e => cases hx
  | ok a => exact hf a x hx
theorem Keeps.bindS {k : Str × Option Int} {m : Py.M Code3.Self} {f : Code3.Self → Py.M Code3.Self}
    (hm : Keeps k m) (hf : ∀ y, key y = k → Keeps k (f y)) : Keeps k (m >>= f) := by
  intro x hx
  cases m with
  | error e => cases hx
  | ok a => exact hf a (hm a rfl) x hx
theorem Keeps.ite {k : Str × Option Int} {c : Prop} [Decidable c] {x y : Py.M Code3.Self}
    (hx : Keeps k x) (hy : Keeps k y) : Keeps k (if c then x else y) := by split <;> assumption
theorem Keeps.foldlM {α : Type} {k : Str × Option Int} {f : Code3.Self → α → Py.M Code3.Self}
    (hf : ∀ s a, key s = k → Keeps k (f s a)) (l : List α) :
    ∀ s, key s = k → Keeps k (List.foldlM f s l) := by
  induction l with
  | nil => intro s hs; exact Keeps.pure hs
  | cons a rest ih => intro s hs; rw [List.foldlM_cons]; exact Keeps.bindS (hf s a hs) ih

/-- one step of the syntax-directed proof that a computation `Keeps` the key (extended below) -/
syntax "keeps_step" : tactic
macro_rules
  | `(tactic| keeps_step) => `(tactic| with_reducible first
      | exact Keeps.raise | exact Keeps.pure (by assumption) | apply Keeps.ite | apply Keeps.foldlM
      | apply Keeps.bindS | apply Keeps.bind | intro _ | assumption)
macro "keeps" : tactic => `(tactic| repeat keeps_step)

theorem prTable :
    ([(c!"X", none), (c!"N", (some (mkRat (17) 20))), (c!"L", (some (mkRat (17) 25))), (c!"H", (some (mkRat (1) 2)))] : List (Str × (Option Rat)))
      = Model.V3.prChanged := by
  decide

theorem Foreign.get_value (self : Code3.Self) (a : Str) : Foreign (Code3.get_value self a) := by
  unfold Code3.get_value; foreign

macro_rules
  | `(tactic| foreign_step) => `(tactic| with_reducible exact Foreign.get_value _ _)

end Aux

/-- `get_value`, including the literal Privileges-Required table for (Modified) Scope Changed
    (a `None` weight counts as the failure it causes as soon as it is used) -/
theorem get_value_eq (self : Code3.Self) (sc ms : Str) (a : Str)
    (h1 : self.scope = some sc) (h2 : self.modified_scope = some ms) :
    (Code3.get_value self a).toOption.bind id = Model.V3.getValue (ctxOf self sc ms) a := by
  unfold Code3.get_value Model.V3.getValue
  simp only [Aux.prTable, h1, h2, ctxOf, Option.some.injEq, Py.getD, Model.V3.X,
    Aux.toOption_bind, Aux.toOption_pure, Aux.toOption_ite, Aux.toOption_getitem]
  by_cases hc : (a = c!"PR" ∧ sc = c!"C") ∨ (a = c!"MPR" ∧ ms = c!"C")
  · simp only [if_pos hc]
    cases h : lookup ((lookup a self.metrics).getD c!"X") Model.V3.prChanged <;> simp [hc]
  · simp only [if_neg hc]
    cases h : lookup a Gen.V3.values with
    | none => simp [hc]
    | some row =>
      cases h' : lookup ((lookup a self.metrics).getD c!"X") row <;> simp [h', hc]

theorem get_value_description_eq (self : Code3.Self) (a : Str) :
    (Code3.get_value_description self a).toOption = Model.V3.getDescription self.metrics a := by
  unfold Code3.get_value_description Model.V3.getDescription
  simp only [Py.getD, Model.V3.X, Aux.toOption_bind, Aux.toOption_pure, Aux.toOption_getitem]
  cases lookup a Gen.V3.valueNames with
  | none => rfl
  | some row => simp

namespace Aux

/-- the loop body of `add_missing_optional` -/
def amoBody (self : Code3.Self) (abbreviation : Str) : Py.M Code3.Self := (do
      let b2 ← (do
          if (¬ (Py.contains abbreviation self.metrics = true)) then pure true else (do
              let t1 ← Py.getitem abbreviation self.metrics
              pure (decide (t1 = c!"X"))))
      let self ← (if (b2 = true) then (do
          let t3 ← Py.getitem (List.drop 1 abbreviation) self.metrics
          let self : Code3.Self := { self with metrics := Py.setitem abbreviation t3 self.metrics }
          pure self) else (do
          pure self))
      pure self)

theorem amo_fold (l : List Str) : ∀ self : Code3.Self,
    (List.foldlM amoBody self l).toOption =
      (Model.V3.addMissingOptional self.metrics l).map (fun full => { self with metrics := full }) := by
  induction l with
  | nil => intro self; rfl
  | cons a rest ih =>
    intro self
    rw [List.foldlM_cons, toOption_bind]
    simp only [amoBody, toOption_bind, toOption_ite, toOption_pure, toOption_getitem]
    cases h : lookup a self.metrics with
    | none =>
      cases h' : lookup (List.tail a) self.metrics with
      | none => simp [Model.V3.addMissingOptional, hasKey, Py.setitem, h, h']
      | some b => simp [Model.V3.addMissingOptional, hasKey, Py.setitem, h, h', ih]
    | some v =>
      by_cases hv : v = c!"X"
      · cases h' : lookup (List.tail a) self.metrics with
        | none => simp [Model.V3.addMissingOptional, hasKey, Py.setitem, Model.V3.X, h, h', hv]
        | some b => simp [Model.V3.addMissingOptional, hasKey, Py.setitem, Model.V3.X, h, h', hv, ih]
      · simp [Model.V3.addMissingOptional, hasKey, Py.setitem, Model.V3.X, h, hv, ih]

theorem amo_unfold (self : Code3.Self) :
    Code3.add_missing_optional self =
      List.foldlM amoBody { self with original_metrics := some self.metrics } Model.V3.modifiedMetrics := by
  unfold Code3.add_missing_optional; rfl

theorem amo_state (self : Code3.Self) :
    (Code3.add_missing_optional self).toOption =
      (Model.V3.addMissingOptional self.metrics Model.V3.modifiedMetrics).map
        (fun full => { self with original_metrics := some self.metrics, metrics := full }) := by
  have := amo_fold Model.V3.modifiedMetrics { self with original_metrics := some self.metrics }
  rw [amo_unfold, this]

theorem Foreign.amo (self : Code3.Self) : Foreign (Code3.add_missing_optional self) := by
  unfold Code3.add_missing_optional; foreign

end Aux

/-- `add_missing_optional` (metrics part) -/
theorem add_missing_optional_eq (self : Code3.Self) :
    (Code3.add_missing_optional self).toOption.map (fun s => (s.original_metrics, s.metrics)) =
      (Model.V3.addMissingOptional self.metrics Model.V3.modifiedMetrics).map
        (fun full => (some self.metrics, full)) := by
  rw [Aux.amo_state]
  cases Model.V3.addMissingOptional self.metrics Model.V3.modifiedMetrics <;> rfl

namespace Aux
open Model.V3

theorem q_1 : mkRat 1 1 = (1 : Rat) := by decide
theorem q_0 : mkRat 0 1 = (0 : Rat) := by decide
theorem q_10 : mkRat 10 1 = (10 : Rat) := by decide
theorem q_642 : r 642 100 = mkRat 321 50 := by decide
theorem q_752 : r 752 100 = mkRat 188 25 := by decide
theorem q_29 : r 29 1000 = mkRat 29 1000 := rfl
theorem q_325 : r 325 100 = mkRat 13 4 := by decide
theorem q_2 : r 2 100 = mkRat 1 50 := by decide
theorem q_822 : r 822 100 = mkRat 411 50 := by decide
theorem q_108 : r 108 100 = mkRat 27 25 := by decide
theorem q_915 : r 915 1000 = mkRat 183 200 := by decide
theorem q_9731 : r 9731 10000 = mkRat 9731 10000 := rfl

/-- `t ← get_value self a; v ← req t; f v` reads the model's `getValue` -/
theorem gvb {β : Type} (self : Code3.Self) (sc ms : Str) (h1 : self.scope = some sc)
    (h2 : self.modified_scope = some ms) (a : Str) (f : Rat → Option β) :
    (Code3.get_value self a).toOption.bind (fun t => t.bind f) = (getValue (ctxOf self sc ms) a).bind f := by
  rw [← get_value_eq self sc ms a h1 h2]
  cases (Code3.get_value self a).toOption <;> rfl

theorem isc_base_state (self : Code3.Self) (sc ms : Str) (h1 : self.scope = some sc)
    (h2 : self.modified_scope = some ms) :
    (Code3.compute_isc_base self).toOption =
      (iscBase (ctxOf self sc ms)).map (fun v => { self with isc_base := some v }) := by
  unfold Code3.compute_isc_base iscBase
  simp only [toOption_bind, toOption_req, toOption_pure, Option.bind_eq_bind, gvb self sc ms h1 h2, q_1, Option.pure_def]
  cases getValue (ctxOf self sc ms) c!"C" <;> cases getValue (ctxOf self sc ms) c!"I" <;>
    cases getValue (ctxOf self sc ms) c!"A" <;> rfl

theorem isc_state (self : Code3.Self) (sc ms : Str) (h1 : self.scope = some sc) :
    (Code3.compute_isc self).toOption =
      (self.isc_base.bind (isc (ctxOf self sc ms))).map (fun v => { self with isc := some v }) := by
  unfold Code3.compute_isc isc
  simp only [toOption_bind, toOption_req, toOption_pure, toOption_ite, toOption_raise, h1, Option.some.injEq,
    ctxOf, q_642, q_752, q_29, q_325, q_2]
  cases self.isc_base with
  | none => by_cases hu : sc = c!"U" <;> by_cases hc : sc = c!"C" <;> simp [hu, hc]
  | some ib => by_cases hu : sc = c!"U" <;> by_cases hc : sc = c!"C" <;> simp [hu, hc]

theorem esc_state (self : Code3.Self) (sc ms : Str) (h1 : self.scope = some sc)
    (h2 : self.modified_scope = some ms) :
    (Code3.compute_esc self).toOption =
      (esc (ctxOf self sc ms)).map (fun v => { self with esc := some v }) := by
  unfold Code3.compute_esc esc
  simp only [toOption_bind, toOption_req, toOption_pure, Option.bind_eq_bind, gvb self sc ms h1 h2, q_822, Option.pure_def]
  cases getValue (ctxOf self sc ms) c!"AV" <;> cases getValue (ctxOf self sc ms) c!"AC" <;>
    cases getValue (ctxOf self sc ms) c!"PR" <;> cases getValue (ctxOf self sc ms) c!"UI" <;> rfl

/-- the final case distinction of `compute_base_score` -/
def baseFin (c : Ctx) (i e : Rat) : Option Rat :=
  if i ≤ 0 then pure 0
  else if c.scope = c!"U" then pure (roundUp1 (pyMin (i + e) 10))
  else if c.scope = c!"C" then pure (roundUp1 (pyMin (r 108 100 * (i + e)) 10))
  else none

theorem baseScore_eq (c : Ctx) :
    baseScore c = (iscBase c).bind fun ib => (isc c ib).bind fun i => (esc c).bind fun e => baseFin c i e := rfl

theorem base_state (self : Code3.Self) (sc ms : Str) (h1 : self.scope = some sc)
    (h2 : self.modified_scope = some ms) :
    (Code3.compute_base_score self).toOption =
      (iscBase (ctxOf self sc ms)).bind fun ib => (isc (ctxOf self sc ms) ib).bind fun i =>
        (esc (ctxOf self sc ms)).bind fun e => (baseFin (ctxOf self sc ms) i e).map fun b =>
          { self with isc_base := some ib, isc := some i, esc := some e, base_score := some b } := by
  unfold Code3.compute_base_score
  rw [toOption_bind, isc_base_state self sc ms h1 h2]
  cases iscBase (ctxOf self sc ms) with
  | none => rfl
  | some ib =>
    simp only [Option.map_some, Option.bind_some]
    rw [toOption_bind, isc_state { self with isc_base := some ib } sc ms h1]
    change Option.bind (Option.map _ (isc (ctxOf self sc ms) ib)) _ = _
    cases isc (ctxOf self sc ms) ib with
    | none => rfl
    | some i =>
      simp only [Option.map_some, Option.bind_some]
      rw [toOption_bind, esc_state { self with isc_base := some ib, isc := some i } sc ms h1 h2]
      change Option.bind (Option.map _ (esc (ctxOf self sc ms))) _ = _
      cases esc (ctxOf self sc ms) with
      | none => rfl
      | some e =>
        simp only [Option.map_some, Option.bind_some, toOption_bind, toOption_req, toOption_ite, toOption_pure,
          toOption_assert, toOption_round_up, h1,
          Option.some.injEq, q_0, q_10, baseFin, ctxOf, q_108, Option.pure_def]
        by_cases hi : i ≤ 0
        · simp [hi]
        · by_cases hu : sc = c!"U" <;> by_cases hc : sc = c!"C" <;> simp [hi, hu, hc]

theorem temporal_state (self : Code3.Self) (sc ms : Str) (h1 : self.scope = some sc)
    (h2 : self.modified_scope = some ms) :
    (Code3.compute_temporal_score self).toOption =
      (self.base_score.bind (temporalScore (ctxOf self sc ms))).map
        (fun v => { self with temporal_score := some v }) := by
  unfold Code3.compute_temporal_score temporalScore
  simp only [toOption_bind, toOption_req, toOption_round_up, toOption_pure, Option.bind_eq_bind,
    gvb self sc ms h1 h2, Option.pure_def]
  cases self.base_score <;>
  cases getValue (ctxOf self sc ms) c!"E" <;> cases getValue (ctxOf self sc ms) c!"RL" <;>
    cases getValue (ctxOf self sc ms) c!"RC" <;> rfl

theorem mib_state (self : Code3.Self) (sc ms : Str) (h1 : self.scope = some sc)
    (h2 : self.modified_scope = some ms) :
    (Code3.compute_modified_isc_base self).toOption =
      (modifiedIscBase (ctxOf self sc ms)).map (fun v => { self with modified_isc_base := some v }) := by
  unfold Code3.compute_modified_isc_base modifiedIscBase
  simp only [toOption_bind, toOption_req, Option.bind_eq_bind, gvb self sc ms h1 h2, q_1, q_915, Option.pure_def]
  cases getValue (ctxOf self sc ms) c!"MC" <;> cases getValue (ctxOf self sc ms) c!"CR" <;>
    cases getValue (ctxOf self sc ms) c!"MI" <;> cases getValue (ctxOf self sc ms) c!"IR" <;>
    cases getValue (ctxOf self sc ms) c!"MA" <;> cases getValue (ctxOf self sc ms) c!"AR" <;> rfl

theorem misc30_state (self : Code3.Self) (sc ms : Str) (h2 : self.modified_scope = some ms) :
    (Code3.compute_modified_isc_30 self).toOption =
      self.modified_isc_base.map
        (fun mib => { self with modified_isc := some (modifiedIsc (ctxOf self sc ms) 0 mib) }) := by
  unfold Code3.compute_modified_isc_30 modifiedIsc
  simp only [toOption_bind, toOption_req, toOption_ite, toOption_pure, h2, Option.some.injEq, ctxOf,
    q_642, q_752, q_29, q_325, q_2]
  cases self.modified_isc_base <;> by_cases hu : ms = c!"U" <;> simp [hu]

theorem misc31_state (self : Code3.Self) (sc ms : Str) (minor : Nat) (hminor : minor ≠ 0)
    (h2 : self.modified_scope = some ms) :
    (Code3.compute_modified_isc self).toOption =
      self.modified_isc_base.map
        (fun mib => { self with modified_isc := some (modifiedIsc (ctxOf self sc ms) minor mib) }) := by
  unfold Code3.compute_modified_isc modifiedIsc
  simp only [toOption_bind, toOption_req, toOption_ite, toOption_pure, h2, Option.some.injEq, ctxOf,
    q_642, q_752, q_29, q_325, q_2, q_9731]
  cases self.modified_isc_base <;> by_cases hu : ms = c!"U" <;> simp [hu, hminor]

theorem mesc_state (self : Code3.Self) (sc ms : Str) (h1 : self.scope = some sc)
    (h2 : self.modified_scope = some ms) :
    (Code3.compute_modified_esc self).toOption =
      (modifiedEsc (ctxOf self sc ms)).map (fun v => { self with modified_esc := some v }) := by
  unfold Code3.compute_modified_esc modifiedEsc
  simp only [toOption_bind, toOption_req, Option.bind_eq_bind, gvb self sc ms h1 h2, q_822, Option.pure_def]
  cases getValue (ctxOf self sc ms) c!"MAV" <;> cases getValue (ctxOf self sc ms) c!"MAC" <;>
    cases getValue (ctxOf self sc ms) c!"MPR" <;> cases getValue (ctxOf self sc ms) c!"MUI" <;> rfl

/-- the final case distinction of `compute_environmental_score` -/
def envFin (c : Ctx) (mi me : Rat) : Option Rat :=
  if mi ≤ 0 then pure 0
  else do
    let modified :=
      if c.modScope = c!"U" then roundUp1 (pyMin (mi + me) 10)
      else roundUp1 (pyMin (r 108 100 * (mi + me)) 10)
    let e ← getValue c c!"E"
    let rl ← getValue c c!"RL"
    let rc ← getValue c c!"RC"
    pure (roundUp1 (modified * e * rl * rc))

theorem environmentalScore_eq (c : Ctx) (minor : Nat) :
    environmentalScore c minor =
      (modifiedIscBase c).bind fun mib => (modifiedEsc c).bind fun me =>
        envFin c (modifiedIsc c minor mib) me := rfl

theorem env_state (self : Code3.Self) (sc ms : Str) (minor : Nat) (h1 : self.scope = some sc)
    (h2 : self.modified_scope = some ms) (hm : self.minor_version = some (minor : Int)) :
    (Code3.compute_environmental_score self).toOption =
      (modifiedIscBase (ctxOf self sc ms)).bind fun mib => (modifiedEsc (ctxOf self sc ms)).bind fun me =>
        (envFin (ctxOf self sc ms) (modifiedIsc (ctxOf self sc ms) minor mib) me).map fun e =>
          { self with modified_isc_base := some mib,
                      modified_isc := some (modifiedIsc (ctxOf self sc ms) minor mib),
                      modified_esc := some me, environmental_score := some e } := by
  unfold Code3.compute_environmental_score
  rw [toOption_bind, mib_state self sc ms h1 h2]
  cases modifiedIscBase (ctxOf self sc ms) with
  | none => rfl
  | some mib =>
    simp only [Option.map_some, Option.bind_some]
    have e1 : (if self.minor_version = some (0 : Int) then
          Code3.compute_modified_isc_30 { self with modified_isc_base := some mib }
        else Code3.compute_modified_isc { self with modified_isc_base := some mib }).toOption =
        some { self with modified_isc_base := some mib,
                         modified_isc := some (modifiedIsc (ctxOf self sc ms) minor mib) } := by
      by_cases h0 : minor = 0
      · have hm0 : self.minor_version = some (0 : Int) := by rw [hm, h0]; rfl
        rw [if_pos hm0, misc30_state { self with modified_isc_base := some mib } sc ms h2, h0]
        rfl
      · have hm' : ¬ (self.minor_version = some (0 : Int)) := by
          rw [hm]; intro h; apply h0; exact Int.ofNat.inj (Option.some.inj h)
        rw [if_neg hm', misc31_state { self with modified_isc_base := some mib } sc ms minor h0 h2]
        rfl
    rw [toOption_bind]
    change Option.bind (if self.minor_version = some (0 : Int) then
          Code3.compute_modified_isc_30 { self with modified_isc_base := some mib }
        else Code3.compute_modified_isc { self with modified_isc_base := some mib }).toOption _ = _
    rw [e1]
    simp only [Option.bind_some]
    have e2 := mesc_state { self with modified_isc_base := some mib, modified_isc := some (modifiedIsc (ctxOf self sc ms) minor mib) } sc ms h1 h2
    rw [toOption_bind, e2]
    change Option.bind (Option.map _ (modifiedEsc (ctxOf self sc ms))) _ = _
    cases modifiedEsc (ctxOf self sc ms) with
    | none => rfl
    | some me =>
      have g := @gvb Code3.Self { self with modified_isc_base := some mib, modified_isc := some (modifiedIsc (ctxOf self sc ms) minor mib), modified_esc := some me } sc ms h1 h2
      simp only [Option.map_some, Option.bind_some, toOption_ite, toOption_bind, toOption_req, toOption_pure,
        toOption_round_up, g]
      change _ = Option.map _ (envFin (ctxOf self sc ms) (modifiedIsc (ctxOf self sc ms) minor mib) me)
      generalize modifiedIsc (ctxOf self sc ms) minor mib = mi
      simp only [h2,
          Option.some.injEq, q_0, q_10, envFin, ctxOf, q_108, Option.pure_def, Option.bind_eq_bind]
      generalize getValue { metrics := self.metrics, scope := sc, modScope := ms } c!"E" = vE
      generalize getValue { metrics := self.metrics, scope := sc, modScope := ms } c!"RL" = vRL
      generalize getValue { metrics := self.metrics, scope := sc, modScope := ms } c!"RC" = vRC
      by_cases hi : mi ≤ 0
      · simp [hi]
      · by_cases hu : ms = c!"U" <;> cases vE <;> cases vRL <;> cases vRC <;> simp [hi, hu]

/-- the modified scope that `handle_scope` / `build` compute -/
def msOf (m : List (Str × Str)) (scope : Str) : Str :=
  match lookup c!"MS" m with
  | none => scope
  | some v => if v = X then scope else v

theorem scope_state (self : Code3.Self) :
    (Code3.handle_scope self).toOption =
      (lookup c!"S" self.metrics).map
        (fun sc => { self with scope := some sc, modified_scope := some (msOf self.metrics sc) }) := by
  unfold Code3.handle_scope msOf
  simp only [toOption_bind, toOption_getitem, toOption_ite, toOption_pure, Py.get?, X]
  cases lookup c!"S" self.metrics with
  | none => rfl
  | some sc =>
    cases h : lookup c!"MS" self.metrics with
    | none => simp
    | some v => by_cases hv : v = c!"X" <;> simp [hv]

theorem build_eq (s : Str) (minor : Nat) (m : List (Str × Str)) :
    build s minor m =
      (lookup c!"S" m).bind fun scope =>
        (addMissingOptional m modifiedMetrics).bind fun full =>
          (baseScore { metrics := full, scope := scope, modScope := msOf m scope }).bind fun b =>
            (temporalScore { metrics := full, scope := scope, modScope := msOf m scope } b).bind fun t =>
              (environmentalScore { metrics := full, scope := scope, modScope := msOf m scope } minor).bind fun e =>
                some { vector := s, minor := minor, orig := m, metrics := full, base := b, temporal := t, env := e } := rfl

theorem build_frame (s : Str) (minor : Nat) (m : List (Str × Str)) (o : Obj) (h : build s minor m = some o) :
    o.vector = s ∧ o.minor = minor ∧ o.orig = m := by
  rw [build_eq] at h
  simp only [Option.bind_eq_some_iff, Option.some.injEq] at h
  obtain ⟨_, _, _, _, _, _, _, _, _, _, rfl⟩ := h
  exact ⟨rfl, rfl, rfl⟩

theorem Foreign.handle_scope (self : Code3.Self) : Foreign (Code3.handle_scope self) := by
  unfold Code3.handle_scope; foreign
theorem Foreign.round_up (x : Rat) : Foreign (Code3.round_up x) := by
  unfold Code3.round_up; foreign
macro_rules
  | `(tactic| foreign_step) => `(tactic| with_reducible exact Foreign.round_up _)
theorem Foreign.isc_base (self : Code3.Self) : Foreign (Code3.compute_isc_base self) := by
  unfold Code3.compute_isc_base; foreign
theorem Foreign.isc (self : Code3.Self) : Foreign (Code3.compute_isc self) := by
  unfold Code3.compute_isc; foreign
theorem Foreign.esc (self : Code3.Self) : Foreign (Code3.compute_esc self) := by
  unfold Code3.compute_esc; foreign
macro_rules
  | `(tactic| foreign_step) => `(tactic| with_reducible first
      | exact Foreign.isc_base _ | exact Foreign.isc _ | exact Foreign.esc _)
theorem Foreign.base (self : Code3.Self) : Foreign (Code3.compute_base_score self) := by
  unfold Code3.compute_base_score; foreign
theorem Foreign.temporal (self : Code3.Self) : Foreign (Code3.compute_temporal_score self) := by
  unfold Code3.compute_temporal_score; foreign
theorem Foreign.mib (self : Code3.Self) : Foreign (Code3.compute_modified_isc_base self) := by
  unfold Code3.compute_modified_isc_base; foreign
theorem Foreign.misc30 (self : Code3.Self) : Foreign (Code3.compute_modified_isc_30 self) := by
  unfold Code3.compute_modified_isc_30; foreign
theorem Foreign.misc (self : Code3.Self) : Foreign (Code3.compute_modified_isc self) := by
  unfold Code3.compute_modified_isc; foreign
theorem Foreign.mesc (self : Code3.Self) : Foreign (Code3.compute_modified_esc self) := by
  unfold Code3.compute_modified_esc; foreign
macro_rules
  | `(tactic| foreign_step) => `(tactic| with_reducible first
      | exact Foreign.mib _ | exact Foreign.misc30 _ | exact Foreign.misc _ | exact Foreign.mesc _)
theorem Foreign.env (self : Code3.Self) : Foreign (Code3.compute_environmental_score self) := by
  unfold Code3.compute_environmental_score; foreign
macro_rules
  | `(tactic| foreign_step) => `(tactic| with_reducible first
      | exact Foreign.handle_scope _ | exact Foreign.amo _ | exact Foreign.base _ | exact Foreign.temporal _
      | exact Foreign.env _)
theorem Foreign.init_tail (self : Code3.Self) (vector : Str) : Foreign (Code3.init_tail self vector) := by
  unfold Code3.init_tail; foreign

theorem Keeps.handle_scope (self : Code3.Self) (k : Str × Option Int) (h : key self = k) :
    Keeps k (Code3.handle_scope self) := by
  unfold Code3.handle_scope; keeps
theorem Keeps.amo (self : Code3.Self) (k : Str × Option Int) (h : key self = k) :
    Keeps k (Code3.add_missing_optional self) := by
  unfold Code3.add_missing_optional; keeps
theorem Keeps.isc_base (self : Code3.Self) (k : Str × Option Int) (h : key self = k) :
    Keeps k (Code3.compute_isc_base self) := by
  unfold Code3.compute_isc_base; keeps
theorem Keeps.isc (self : Code3.Self) (k : Str × Option Int) (h : key self = k) :
    Keeps k (Code3.compute_isc self) := by
  unfold Code3.compute_isc; keeps
theorem Keeps.esc (self : Code3.Self) (k : Str × Option Int) (h : key self = k) :
    Keeps k (Code3.compute_esc self) := by
  unfold Code3.compute_esc; keeps
macro_rules
  | `(tactic| keeps_step) => `(tactic| with_reducible first
      | exact Keeps.isc_base _ _ (by assumption) | exact Keeps.isc _ _ (by assumption)
      | exact Keeps.esc _ _ (by assumption))
theorem Keeps.base (self : Code3.Self) (k : Str × Option Int) (h : key self = k) :
    Keeps k (Code3.compute_base_score self) := by
  unfold Code3.compute_base_score; keeps
theorem Keeps.temporal (self : Code3.Self) (k : Str × Option Int) (h : key self = k) :
    Keeps k (Code3.compute_temporal_score self) := by
  unfold Code3.compute_temporal_score; keeps
theorem Keeps.mib (self : Code3.Self) (k : Str × Option Int) (h : key self = k) :
    Keeps k (Code3.compute_modified_isc_base self) := by
  unfold Code3.compute_modified_isc_base; keeps
theorem Keeps.misc30 (self : Code3.Self) (k : Str × Option Int) (h : key self = k) :
    Keeps k (Code3.compute_modified_isc_30 self) := by
  unfold Code3.compute_modified_isc_30; keeps
theorem Keeps.misc (self : Code3.Self) (k : Str × Option Int) (h : key self = k) :
    Keeps k (Code3.compute_modified_isc self) := by
  unfold Code3.compute_modified_isc; keeps
theorem Keeps.mesc (self : Code3.Self) (k : Str × Option Int) (h : key self = k) :
    Keeps k (Code3.compute_modified_esc self) := by
  unfold Code3.compute_modified_esc; keeps
macro_rules
  | `(tactic| keeps_step) => `(tactic| with_reducible first
      | exact Keeps.mib _ _ (by assumption) | exact Keeps.misc30 _ _ (by assumption)
      | exact Keeps.misc _ _ (by assumption) | exact Keeps.mesc _ _ (by assumption))
theorem Keeps.env (self : Code3.Self) (k : Str × Option Int) (h : key self = k) :
    Keeps k (Code3.compute_environmental_score self) := by
  unfold Code3.compute_environmental_score; keeps
macro_rules
  | `(tactic| keeps_step) => `(tactic| with_reducible first
      | exact Keeps.handle_scope _ _ (by assumption) | exact Keeps.amo _ _ (by assumption)
      | exact Keeps.base _ _ (by assumption) | exact Keeps.temporal _ _ (by assumption)
      | exact Keeps.env _ _ (by assumption))
theorem Keeps.init_tail (self : Code3.Self) (vector : Str) (k : Str × Option Int) (h : key self = k) :
    Keeps k (Code3.init_tail self vector) := by
  unfold Code3.init_tail; keeps

/-- everything the statements after `check_mandatory()` do to the attributes that are observed -/
theorem init_tail_strong (self : Code3.Self) (vector s : Str) (minor : Nat)
    (hm : self.minor_version = some (minor : Int)) :
    (Code3.init_tail self vector).toOption.map
        (fun x => (x.vector, x.minor_version, x.original_metrics, x.metrics, x.base_score, x.temporal_score,
                   x.environmental_score)) =
      (Model.V3.build s minor self.metrics).map
        (fun o => (self.vector, self.minor_version, some o.orig, o.metrics, some o.base, some o.temporal,
                   some o.env)) := by
  unfold Code3.init_tail
  rw [build_eq, toOption_bind, scope_state]
  cases lookup c!"S" self.metrics with
  | none => rfl
  | some sc =>
    simp only [Option.map_some, Option.bind_some]
    rw [toOption_bind, amo_state]
    change Option.map _ (Option.bind (Option.map _ (Model.V3.addMissingOptional self.metrics Model.V3.modifiedMetrics)) _) = _
    cases Model.V3.addMissingOptional self.metrics Model.V3.modifiedMetrics with
    | none => rfl
    | some full =>
      simp only [Option.map_some, Option.bind_some]
      generalize msOf self.metrics sc = ms
      have eb := base_state { self with scope := some sc, modified_scope := some ms, original_metrics := some self.metrics, metrics := full } sc ms rfl rfl
      rw [toOption_bind, eb, baseScore_eq]
      clear eb
      simp only [ctxOf]
      generalize hc : ({ metrics := full, scope := sc, modScope := ms } : Model.V3.Ctx) = c
      cases Model.V3.iscBase c with
      | none => rfl
      | some ib =>
      simp only [Option.bind_some]
      cases Model.V3.isc c ib with
      | none => rfl
      | some i =>
      simp only [Option.bind_some]
      cases Model.V3.esc c with
      | none => rfl
      | some e =>
      simp only [Option.bind_some]
      cases baseFin c i e with
      | none => rfl
      | some b =>
      simp only [Option.bind_some, Option.map_some]
      have et := temporal_state { self with metrics := full, original_metrics := some self.metrics, scope := some sc, modified_scope := some ms, base_score := some b, isc_base := some ib, isc := some i, esc := some e } sc ms rfl rfl
      simp only [ctxOf, hc, Option.bind_some] at et
      rw [toOption_bind, et]
      clear et
      cases Model.V3.temporalScore c b with
      | none => rfl
      | some t =>
      simp only [Option.bind_some, Option.map_some]
      have ee := env_state { self with metrics := full, original_metrics := some self.metrics, scope := some sc, modified_scope := some ms, base_score := some b, isc_base := some ib, isc := some i, esc := some e, temporal_score := some t } sc ms minor rfl rfl hm
      simp only [ctxOf, hc] at ee
      rw [ee, environmentalScore_eq]
      clear ee
      cases Model.V3.modifiedIscBase c with
      | none => rfl
      | some mib =>
      simp only [Option.bind_some]
      cases Model.V3.modifiedEsc c with
      | none => rfl
      | some me =>
      simp only [Option.bind_some]
      cases envFin c (Model.V3.modifiedIsc c minor mib) me with
      | none => rfl
      | some ev => rfl

end Aux

/-- what `__init__` computes after `check_mandatory()`: the translated source and the model's `build`
    produce the same original / filled-in metric dicts and the same three scores (or both raise), for
    EVERY metric dict, any minor version number, whatever the attributes held before -/
theorem init_tail_eq (self : Code3.Self) (vector s : Str) (minor : Nat)
    (hm : self.minor_version = some (minor : Int)) :
    (Code3.init_tail self vector).toOption.map
        (fun x => (x.original_metrics, x.metrics, x.base_score, x.temporal_score, x.environmental_score)) =
      (Model.V3.build s minor self.metrics).map
        (fun o => (some o.orig, o.metrics, some o.base, some o.temporal, some o.env)) := by
  have h := congrArg (Option.map (fun t => t.2.2)) (Aux.init_tail_strong self vector s minor hm)
  simpa only [Option.map_map, Function.comp_def] using h

/-- the scoring part never raises an exception of the library's own hierarchy, and it leaves `vector`
    and `minor_version` alone -/
theorem init_tail_error (self : Code3.Self) (vector : Str) (e : Py.Exc)
    (h : Code3.init_tail self vector = .error e) : e.toErr = .foreign := by
  exact Aux.Foreign.init_tail self vector e h

theorem init_tail_frame (self x : Code3.Self) (vector : Str)
    (h : Code3.init_tail self vector = .ok x) : x.vector = self.vector ∧ x.minor_version = self.minor_version := by
  have := Aux.Keeps.init_tail self vector _ rfl x h
  exact ⟨congrArg Prod.fst this, congrArg Prod.snd this⟩

namespace Aux

/-! ### the parser -/

theorem hasKey_iff_mem_keys {β : Type} (k : Str) (l : List (Str × β)) : hasKey k l = true ↔ k ∈ keys l := by
  induction l with
  | nil => simp [hasKey, lookup, keys]
  | cons p rest ih =>
    obtain ⟨a, b⟩ := p
    by_cases h : k = a
    · simp [hasKey, lookup, keys, h]
    · simp only [hasKey, keys] at ih
      simp [hasKey, lookup, keys, h, ih]

theorem lookup_legal (k : Str) (l : List (Str × List (Str × Option Rat))) :
    lookup k (l.map (fun (k, row) => (k, keys row))) = (lookup k l).map keys := by
  induction l with
  | nil => rfl
  | cons p rest ih =>
    obtain ⟨a, b⟩ := p
    by_cases h : k = a <;> simp [lookup, h, ih]

theorem insert_of_not_hasKey {β : Type} (k : Str) (v : β) (l : List (Str × β)) (h : hasKey k l = false) :
    insert k v l = l ++ [(k, v)] := by
  induction l with
  | nil => rfl
  | cons p rest ih =>
    obtain ⟨a, b⟩ := p
    by_cases hk : k = a
    · simp [hasKey, lookup, hk] at h
    · have : hasKey k rest = false := by simpa [hasKey, lookup, hk] using h
      simp [insert, hk, ih this]

/-- the loop body of `parse_vector` -/
def pvBody (st : Code3.Self) (field : Str) : Py.M Code3.Self := (do
    let self := st
    let () ← (if (field = c!"") then (do
        Py.raise .malformed) else (do
        pure ()))
    let (metric, value_) ← Py.tryExcept (do
        let (metric, value_) ← Py.unpack2 (splitOn ':' field)
        pure (metric, value_)) .valueError (do
        Py.raise .malformed)
    let self ← (if (Py.contains metric Gen.V3.abbrs = true) then (do
        let t1 ← Py.getitem metric Gen.V3.values
        let self ← (if (Py.contains value_ t1 = true) then (do
            let () ← (if (Py.contains metric self.metrics = true) then (do
                Py.raise .malformed) else (do
                pure ()))
            let self : Code3.Self := { self with metrics := Py.setitem metric value_ self.metrics }
            pure self) else (do
            Py.raise .malformed))
        pure self) else (do
        Py.raise .malformed))
    pure self)

theorem pv_step (self : Code3.Self) (field : Str) :
    (pvBody self field).mapError Py.Exc.toErr =
      (Model.parseField Model.V3.tables self.metrics field).map (fun m => { self with metrics := m }) := by
  unfold pvBody Model.parseField
  by_cases hf : field = []
  · simp [hf, Py.raise, bind, Except.bind, Except.mapError, Except.map, Py.Exc.toErr]
  · rcases hs : splitOn ':' field with _ | ⟨m, _ | ⟨v, _ | ⟨w, rest⟩⟩⟩
    · simp [hf, Py.raise, Py.unpack2, Py.tryExcept, bind, Except.bind, pure, Except.pure, Except.mapError, Except.map, Py.Exc.toErr]
    · simp [hf, Py.raise, Py.unpack2, Py.tryExcept, bind, Except.bind, pure, Except.pure, Except.mapError, Except.map, Py.Exc.toErr]
    · simp only [hf, if_false, Py.unpack2, Py.tryExcept, bind, Except.bind, pure, Except.pure, Model.V3.tables,
        Bool.false_eq_true, lookup_legal]
      simp only [← hasKey_iff_mem_keys, Py.contains, Py.getitem, Py.setitem]
      by_cases ha : hasKey m Gen.V3.abbrs = true
      · simp only [ha, if_true]
        cases hl : lookup m Gen.V3.values with
        | none => rfl
        | some row =>
          simp only [Option.map_some]
          by_cases hv : hasKey v row = true
          · have hv' := (hasKey_iff_mem_keys v row).mp hv
            simp only [hv, hv', if_true]
            by_cases hd : hasKey m self.metrics = true
            · simp only [hd, if_true]; rfl
            · have hd' : hasKey m self.metrics = false := by simpa using hd
              simp only [hd', Bool.false_eq_true, if_false, insert_of_not_hasKey m v self.metrics hd']; rfl
          · have hv' : ¬ v ∈ keys row := fun hh => hv ((hasKey_iff_mem_keys v row).mpr hh)
            simp only [hv, hv', if_false]; rfl
      · simp only [ha]; rfl
    · simp [hf, Py.raise, Py.unpack2, Py.tryExcept, bind, Except.bind, pure, Except.pure, Except.mapError, Except.map, Py.Exc.toErr]

theorem pv_fold (l : List Str) : ∀ self : Code3.Self,
    (List.foldlM pvBody self l).mapError Py.Exc.toErr =
      (Model.parseFields Model.V3.tables self.metrics l).map (fun m => { self with metrics := m }) := by
  induction l with
  | nil => intro self; rfl
  | cons a rest ih =>
    intro self
    have hs := pv_step self a
    rw [List.foldlM_cons]
    unfold Model.parseFields
    cases hb : pvBody self a with
    | error e =>
      rw [hb] at hs
      cases hp : Model.parseField Model.V3.tables self.metrics a with
      | error e' => rw [hp] at hs; cases hs; rfl
      | ok m => rw [hp] at hs; cases hs
    | ok x =>
      rw [hb] at hs
      cases hp : Model.parseField Model.V3.tables self.metrics a with
      | error e' => rw [hp] at hs; cases hs
      | ok m =>
        rw [hp] at hs
        have hx : x = { self with metrics := m } := by cases hs; rfl
        subst hx
        exact ih _

theorem pv_unfold (self : Code3.Self) :
    Code3.parse_vector self = (do
      let () ← (if (self.vector = c!"") then (do
          Py.raise .malformed) else (do
          pure ()))
      let () ← (if (endsWithChar '/' self.vector = true) then (do
          Py.raise .malformed) else (do
          pure ()))
      let self ← (if (startsWith c!"CVSS:3.0/" self.vector = true) then (do
          let self : Code3.Self := { self with minor_version := (some (0 : Int)) }
          pure self) else (do
          let self ← (if (startsWith c!"CVSS:3.1/" self.vector = true) then (do
              let self : Code3.Self := { self with minor_version := (some (1 : Int)) }
              pure self) else (do
              Py.raise .malformed))
          pure self))
      let fields ← Py.tryExcept (do
          let fields : List Str := (List.drop 1 (splitOn '/' self.vector))
          pure fields) .indexError (do
          Py.raise .malformed)
      List.foldlM pvBody self fields) := by
  unfold Code3.parse_vector; rfl

end Aux

/-- `parse_vector()` on a fresh object: same outcome class, same minor version, same metric dict as the
    model's parser -/
theorem parse_vector_eq (self : Code3.Self) (h : self.metrics = []) :
    ((Code3.parse_vector self).mapError Py.Exc.toErr).map (fun x => (x.vector, x.minor_version, x.metrics)) =
      (Model.parseWithPrefix Model.V3.tables Model.V3.prefixes self.vector).map
        (fun r => (self.vector, some (r.1 : Int), r.2)) := by
  rw [Aux.pv_unfold]
  unfold Model.parseWithPrefix
  by_cases h0 : self.vector = []
  · simp [h0, Py.raise, bind, Except.bind, Except.mapError, Except.map, Py.Exc.toErr]
  · by_cases h1 : endsWithChar '/' self.vector = true
    · simp [h0, h1, Py.raise, bind, Except.bind, pure, Except.pure, Except.mapError, Except.map, Py.Exc.toErr]
    · by_cases h30 : startsWith c!"CVSS:3.0/" self.vector = true
      · have hf : Model.V3.prefixes.findIdx? (fun p => startsWith p self.vector) = some 0 := by
          simp [Model.V3.prefixes, List.findIdx?_cons, h30]
        have h1' : endsWithChar '/' self.vector = false := by simpa using h1
        simp only [h, h0, h1', h30, hf, if_true, if_false, Bool.false_eq_true, Py.tryExcept, bind, Except.bind,
          pure, Except.pure]
        have := Aux.pv_fold (List.drop 1 (splitOn '/' self.vector)) { self with minor_version := some (0 : Int) }
        simp only [h] at this
        rw [this]
        cases Model.parseFields Model.V3.tables [] (List.drop 1 (splitOn '/' self.vector)) <;> rfl
      · by_cases h31 : startsWith c!"CVSS:3.1/" self.vector = true
        · have hf : Model.V3.prefixes.findIdx? (fun p => startsWith p self.vector) = some 1 := by
            simp [Model.V3.prefixes, List.findIdx?_cons, h30, h31]
          have h1' : endsWithChar '/' self.vector = false := by simpa using h1
          have h30' : startsWith c!"CVSS:3.0/" self.vector = false := by simpa using h30
          simp only [h, h0, h1', h30', h31, hf, if_true, if_false, Bool.false_eq_true, Py.tryExcept, bind,
            Except.bind, pure, Except.pure]
          have := Aux.pv_fold (List.drop 1 (splitOn '/' self.vector)) { self with minor_version := some (1 : Int) }
          simp only [h] at this
          rw [this]
          cases Model.parseFields Model.V3.tables [] (List.drop 1 (splitOn '/' self.vector)) <;> rfl
        · have hf : Model.V3.prefixes.findIdx? (fun p => startsWith p self.vector) = none := by
            simp [Model.V3.prefixes, List.findIdx?_cons, h30, h31]
          simp [h0, h1, h30, h31, hf, Py.raise, bind, Except.bind, pure, Except.pure, Except.mapError, Except.map, Py.Exc.toErr]

namespace Aux

/-- the loop body of `check_mandatory` -/
def cmBody (self : Code3.Self) (st : List Str) (mandatory_metric : Str) : Py.M (List Str) := (do
    let missing := st
    let missing ← (if (¬ (Py.contains mandatory_metric self.metrics = true)) then (do
        let missing : List Str := missing ++ [mandatory_metric]
        pure missing) else (do
        pure missing))
    pure missing)

theorem cm_fold (self : Code3.Self) (l : List Str) : ∀ acc : List Str,
    List.foldlM (cmBody self) acc l = .ok (acc ++ l.filter (fun k => !hasKey k self.metrics)) := by
  induction l with
  | nil => intro acc; simp [pure, Except.pure]
  | cons a rest ih =>
    intro acc
    rw [List.foldlM_cons]
    by_cases h : hasKey a self.metrics = true
    · simp [cmBody, h, ih, bind, Except.bind, pure, Except.pure]
    · simp [cmBody, h, ih, bind, Except.bind, pure, Except.pure]

end Aux

/-- `check_mandatory()` -/
theorem check_mandatory_eq (self : Code3.Self) :
    (Code3.check_mandatory self).mapError Py.Exc.toErr = Model.checkMandatory Model.V3.tables self.metrics := by
  have hf := Aux.cm_fold self Gen.V3.mandatory []
  unfold Code3.check_mandatory Model.checkMandatory
  change (List.foldlM (Aux.cmBody self) [] Gen.V3.mandatory >>= _).mapError _ = _
  rw [hf]
  simp only [List.nil_append, bind, Except.bind]
  by_cases hall : Model.V3.tables.mandatory.all (fun k => hasKey k self.metrics) = true
  · have : List.filter (fun k => !hasKey k self.metrics) Gen.V3.mandatory = [] := by
      rw [List.filter_eq_nil_iff]
      intro a ha
      have := (List.all_eq_true.mp hall) a ha
      simp [this]
    rw [if_neg (fun hne => hne this), if_pos hall]
    rfl
  · have : List.filter (fun k => !hasKey k self.metrics) Gen.V3.mandatory ≠ [] := by
      intro hnil
      apply hall
      rw [List.all_eq_true]
      intro a ha
      have := (List.filter_eq_nil_iff.mp hnil) a ha
      simpa using this
    rw [if_pos this, if_neg hall]
    rfl

namespace Aux

theorem construct_unfold (s : Str) :
    Code3.construct s =
      Code3.parse_vector (Code3.initSelf s []) >>= fun self =>
        Code3.check_mandatory self >>= fun _ => Code3.init_tail self s := by
  unfold Code3.construct Code3.init Code3.init_tail; rfl

end Aux

/-- THE WHOLE CONSTRUCTOR, for every string: `CVSS3(s)` as translated from the source text and the
    model's `construct` fail with the same exception class or succeed with the same vector, minor
    version, original and filled-in metric dicts and the same three scores -/
theorem construct_eq (s : Str) :
    ((Code3.construct s).mapError Py.Exc.toErr).map
        (fun x => (x.vector, x.minor_version, x.original_metrics, x.metrics, x.base_score, x.temporal_score,
                   x.environmental_score)) =
      (Model.V3.construct s).map
        (fun o => (o.vector, some (o.minor : Int), some o.orig, o.metrics, some o.base, some o.temporal, some o.env)) := by
  rw [Aux.construct_unfold]
  have hp := parse_vector_eq (Code3.initSelf s []) rfl
  change _ = (Model.parseWithPrefix Model.V3.tables Model.V3.prefixes s).map _ at hp
  unfold Model.V3.construct Model.V3.parse
  cases hpv : Code3.parse_vector (Code3.initSelf s []) with
  | error e =>
    rw [hpv] at hp
    cases hm : Model.parseWithPrefix Model.V3.tables Model.V3.prefixes s with
    | error e' => rw [hm] at hp; cases hp; rfl
    | ok r => rw [hm] at hp; cases hp
  | ok x =>
    rw [hpv] at hp
    cases hm : Model.parseWithPrefix Model.V3.tables Model.V3.prefixes s with
    | error e' => rw [hm] at hp; cases hp
    | ok r =>
      obtain ⟨i, m⟩ := r
      rw [hm] at hp
      have hp' : (x.vector, x.minor_version, x.metrics) = (s, some (i : Int), m) := Except.ok.inj hp
      simp only [Prod.mk.injEq] at hp'
      obtain ⟨hx1, hx2, hx3⟩ := hp'
      have hc := check_mandatory_eq x
      rw [hx3] at hc
      change ((Code3.check_mandatory x >>= fun _ => Code3.init_tail x s).mapError _).map _ = _
      cases hcm : Code3.check_mandatory x with
      | error e => rw [hcm] at hc; simp only [← hc]; rfl
      | ok u =>
        rw [hcm] at hc
        simp only [← hc]
        change ((Code3.init_tail x s).mapError _).map _ = _
        have h1 := init_tail_eq x s s i hx2
        rw [hx3] at h1
        cases hit : Code3.init_tail x s with
        | error e =>
          have h2 := init_tail_error x s e hit
          rw [hit] at h1
          cases hb : Model.V3.build s i m with
          | none => simp only [Except.mapError, Except.map, h2, hb]
          | some o => rw [hb] at h1; cases h1
        | ok y =>
          have h3 := init_tail_frame x y s hit
          rw [hit] at h1
          cases hb : Model.V3.build s i m with
          | none => rw [hb] at h1; cases h1
          | some o =>
            rw [hb] at h1
            have hf := Aux.build_frame s i m o hb
            have h1' := Option.some.inj h1
            simp only [Prod.mk.injEq] at h1'
            obtain ⟨e1, e2, e3, e4, e5⟩ := h1'
            simp only [Except.mapError, Except.map, h3.1, h3.2, hx1, hx2, e1, e2, e3, e4, e5, hb, hf.1, hf.2.1]

namespace Aux

theorem fmt2 (a b : Str) : Py.format c!"{0}:{1}" [a, b] = a ++ ':' :: b := by
  simp [Py.format, Py.formatAux, Py.fmtField]

theorem fmtPrefix (x : Str) : Py.format c!"CVSS:3.{0}/" [x] = c!"CVSS:3." ++ x ++ c!"/" := by
  simp [Py.format, Py.formatAux, Py.fmtField]

/-- the loop body of `clean_vector` -/
def cvBody (self : Code3.Self) (st : List Str) (metric : Str) : Py.M (List Str) := (do
    let vector := st
    let d1 ← Py.req self.original_metrics
    let vector ← (if (Py.contains metric d1 = true) then (do
        let d2 ← Py.req self.original_metrics
        let t3 ← Py.getitem metric d2
        let value_ : Str := t3
        let vector ← (if (¬ (value_ = c!"X")) then (do
            let vector : List Str := vector ++ [(Py.format c!"{0}:{1}" [metric, value_])]
            pure vector) else (do
            pure vector))
        pure vector) else (do
        pure vector))
    pure vector)

/-- the model's filter of `clean_vector` -/
def cvF (orig : List (Str × Str)) (k : Str) : Option Str :=
  match lookup k orig with
  | some v => if v ≠ Model.V3.X then some (k ++ ':' :: v) else none
  | none => none

theorem cv_fold (self : Code3.Self) (orig : List (Str × Str)) (h1 : self.original_metrics = some orig)
    (l : List Str) : ∀ acc : List Str,
    List.foldlM (cvBody self) acc l = .ok (acc ++ l.filterMap (cvF orig)) := by
  induction l with
  | nil => intro acc; simp [pure, Except.pure]
  | cons a rest ih =>
    intro acc
    rw [List.foldlM_cons]
    cases h : lookup a orig with
    | none => simp [cvBody, cvF, h1, hasKey, Py.req, h, ih, bind, Except.bind, pure, Except.pure]
    | some v =>
      by_cases hv : v = c!"X"
      · simp [cvBody, cvF, h1, hasKey, Py.getitem, Py.req, Model.V3.X, h, hv, ih, bind, Except.bind, pure, Except.pure]
      · simp [cvBody, cvF, h1, hasKey, Py.getitem, Py.req, Model.V3.X, h, hv, ih, fmt2, bind, Except.bind, pure, Except.pure]

theorem strOInt_nat (n : Nat) : Py.strOInt (some (n : Int)) = natToStr n := rfl

end Aux

/-- `clean_vector(output_prefix)` on a constructed object -/
theorem clean_vector_eq (self : Code3.Self) (orig : List (Str × Str)) (minor : Nat) (p : Bool)
    (h1 : self.original_metrics = some orig) (h2 : self.minor_version = some (minor : Int)) :
    Code3.clean_vector self p = .ok (Model.V3.cleanOf minor orig p) := by
  have hf := Aux.cv_fold self orig h1 (keys Gen.V3.abbrs) []
  unfold Code3.clean_vector Model.V3.cleanOf
  change (List.foldlM (Aux.cvBody self) [] (keys Gen.V3.abbrs)) >>= _ = _
  rw [hf]
  change _ = Except.ok ((if p = true then Model.V3.versionPrefix minor else []) ++
    join '/' (List.filterMap (Aux.cvF orig) (keys Gen.V3.abbrs)))
  cases p <;> simp [Aux.fmtPrefix, h2, Aux.strOInt_nat, Model.V3.versionPrefix, bind, Except.bind, pure, Except.pure]

namespace Aux

/-- the loop body of `severities` -/
def sevBody (st : List Str) (score : Option Rat) : Py.M (List Str) := (do
    let severities := st
    let severities ← (if (score = some (mkRat (0) 1)) then (do
        let severities : List Str := severities ++ [c!"None"]
        pure severities) else (do
        let v1 ← Py.req score
        let severities ← (if (v1 ≤ (mkRat (39) 10)) then (do
            let severities : List Str := severities ++ [c!"Low"]
            pure severities) else (do
            let v2 ← Py.req score
            let severities ← (if (v2 ≤ (mkRat (69) 10)) then (do
                let severities : List Str := severities ++ [c!"Medium"]
                pure severities) else (do
                let v3 ← Py.req score
                let severities ← (if (v3 ≤ (mkRat (89) 10)) then (do
                    let severities : List Str := severities ++ [c!"High"]
                    pure severities) else (do
                    let severities : List Str := severities ++ [c!"Critical"]
                    pure severities))
                pure severities))
            pure severities))
        pure severities))
    pure severities)

theorem sev_step (acc : List Str) (x : Rat) : sevBody acc (some x) = .ok (acc ++ [Model.V3.sevOf x]) := by
  unfold sevBody Model.V3.sevOf
  simp only [Model.V3.r, q_0, Py.req, Option.some.injEq, bind, Except.bind, pure, Except.pure]
  by_cases b0 : x = 0
  · simp [b0]
  · by_cases b1 : x ≤ mkRat 39 10
    · simp [b0, b1]
    · by_cases b2 : x ≤ mkRat 69 10
      · simp [b0, b1, b2]
      · by_cases b3 : x ≤ mkRat 89 10 <;> simp [b0, b1, b2, b3]

end Aux

/-- `severities()` on a constructed object (all three scores set) -/
theorem severities_eq (self : Code3.Self) (b t e : Rat)
    (hb : self.base_score = some b) (ht : self.temporal_score = some t) (he : self.environmental_score = some e) :
    Code3.severities self = .ok [Model.V3.sevOf b, Model.V3.sevOf t, Model.V3.sevOf e] := by
  unfold Code3.severities
  change List.foldlM Aux.sevBody [] [self.base_score, self.temporal_score, self.environmental_score] = _
  rw [hb, ht, he, List.foldlM_cons, Aux.sev_step]
  change List.foldlM Aux.sevBody _ _ = _
  rw [List.foldlM_cons, Aux.sev_step]
  change List.foldlM Aux.sevBody _ _ = _
  rw [List.foldlM_cons, Aux.sev_step]
  rfl

/-- `temporal_vector()` / `environmental_vector()` -/
theorem temporal_vector_eq (self : Code3.Self) (o : Model.V3.Obj) (h : o.metrics = self.metrics) :
    Code3.temporal_vector self = .ok o.temporalVector := by
  simp [Code3.temporal_vector, Model.V3.Obj.temporalVector, h, Model.V3.X, Py.getD, pure, Except.pure]

theorem environmental_vector_eq (self : Code3.Self) (o : Model.V3.Obj) (h : o.metrics = self.metrics) :
    Code3.environmental_vector self = .ok o.environmentalVector := by
  simp [Code3.environmental_vector, Model.V3.Obj.environmentalVector, h, Model.V3.X, Py.getD, pure, Except.pure]


/-- the model's JSON values inside the translation's (which also has `null`) -/
def jOf : Model.JVal → Py.J
  | .str s => .str s
  | .num x => .num x

namespace Aux

/-- the model's JSON dict inside the translation's -/
abbrev jm (d : Model.JObj) : List (Str × Py.J) := d.map (fun kv => (kv.1, jOf kv.2))

theorem insert_jm (k : Str) (v : Model.JVal) (d : Model.JObj) :
    insert k (jOf v) (jm d) = jm (insert k v d) := by
  induction d with
  | nil => rfl
  | cons p rest ih =>
    obtain ⟨a, b⟩ := p
    by_cases h : k = a
    · simp [jm, insert, h]
    · simp only [jm] at ih
      simp [jm, insert, h, ih]

theorem insert_jm_str (k s : Str) (d : Model.JObj) :
    insert k (Py.J.str s) (jm d) = jm (insert k (.str s) d) := insert_jm k (.str s) d

theorem insert_jm_num (k : Str) (x : Rat) (d : Model.JObj) :
    insert k (Py.J.num x) (jm d) = jm (insert k (.num x) d) := insert_jm k (.num x) d

theorem strLt_eq : ∀ a b : Str, Py.strLt a b = Model.strLt a b
  | [], [] => rfl
  | [], _ :: _ => rfl
  | _ :: _, [] => rfl
  | a :: as, b :: bs => by simp only [Py.strLt, Model.strLt, strLt_eq as bs]

theorem insertSorted_jm (kv : Str × Model.JVal) (d : Model.JObj) :
    Py.insertSorted (kv.1, jOf kv.2) (jm d) = jm (Model.insertSorted kv d) := by
  induction d with
  | nil => rfl
  | cons x xs ih =>
    simp only [jm] at ih
    simp only [jm, List.map_cons, Py.insertSorted, Model.insertSorted, strLt_eq]
    split
    · rfl
    · simp only [List.map_cons, ih]

theorem foldl_sorted (l : Model.JObj) : ∀ acc : Model.JObj,
    List.foldl (fun acc kv => Py.insertSorted kv acc) (jm acc) (jm l) =
      jm (List.foldl (fun acc kv => Model.insertSorted kv acc) acc l) := by
  induction l with
  | nil => intro acc; rfl
  | cons x xs ih =>
    intro acc
    have := ih (Model.insertSorted x acc)
    simp only [jm] at this
    simp only [jm, List.map_cons, List.foldl_cons]
    rw [← this]
    congr 1
    exact insertSorted_jm x acc

theorem sorted_jm (d : Model.JObj) : Py.sortedItems (jm d) = jm (Model.sortObj d) :=
  foldl_sorted d []

/-- the local closure `us` of `as_json` -/
def usM (text : Str) : Py.M Str := (do
    if (text = c!"Adjacent") then (do
        pure c!"ADJACENT_NETWORK") else (do
        pure (replaceChar ' ' '_' (replaceChar '-' '_' (Py.upper text)))))

theorem usM_eq (t : Str) : usM t = .ok (Model.us3 t) := by
  unfold usM Model.us3 Model.us2
  split <;> rfl

/-- the loop body of the three loops of `as_json` (`add_metric_to_data`) -/
def ajBody (self : Code3.Self) (st : List (Str × Py.J)) (metric : Str) : Py.M (List (Str × Py.J)) := (do
    let t2 ← Py.getitem metric Gen.V3.jsonKeys
    let t3 ← Code3.get_value_description self metric
    let t4 ← usM t3
    pure (Py.setitem t2 (Py.J.str t4) st))

theorem aj_fold (self : Code3.Self) (l : List Str) : ∀ d : Model.JObj,
    (List.foldlM (ajBody self) (jm d) l).toOption =
      (Model.addMetrics Gen.V3.jsonKeys (Model.V3.getDescription self.metrics) Model.us3 d l).map jm := by
  induction l with
  | nil => intro d; rfl
  | cons a rest ih =>
    intro d
    rw [List.foldlM_cons, toOption_bind]
    unfold Model.addMetrics
    simp only [ajBody, toOption_bind, toOption_getitem, get_value_description_eq, usM_eq, toOption_ok,
      toOption_pure, Py.setitem]
    cases lookup a Gen.V3.jsonKeys with
    | none => rfl
    | some k =>
      cases Model.V3.getDescription self.metrics a with
      | none => rfl
      | some dsc =>
        simp only [Option.bind_some, insert_jm_str, ih]

/-- an optional group (temporal / environmental) of `as_json` -/
def ajOpt (self : Code3.Self) (minimal : Bool) (group : List Str) (score : Option Rat) (scoreKey sevKey sev : Str)
    (data : List (Str × Py.J)) : Py.M (List (Str × Py.J)) := (do
  let b8 ← (do
      if (¬ (minimal = true)) then pure true else (do
          let d7 ← Py.req self.original_metrics
          pure (decide ((List.any group (fun metric => decide (Py.contains metric d7 = true))) = true))))
  (if (b8 = true) then (do
      let data ← List.foldlM (ajBody self) data group
      let v12 ← Py.req score
      let data : List (Str × Py.J) := Py.setitem scoreKey (Py.J.num v12) data
      let t13 ← usM sev
      let data : List (Str × Py.J) := Py.setitem sevKey (Py.J.str t13) data
      pure data) else (do
      pure data)))

/-- the same followed by the rest of the function, as the translation nests it -/
def ajOptK {β : Type} (self : Code3.Self) (minimal : Bool) (group : List Str) (score : Option Rat)
    (scoreKey sevKey sev : Str) (data : List (Str × Py.J)) (k : List (Str × Py.J) → Py.M β) : Py.M β := (do
  let b8 ← (do
      if (¬ (minimal = true)) then pure true else (do
          let d7 ← Py.req self.original_metrics
          pure (decide ((List.any group (fun metric => decide (Py.contains metric d7 = true))) = true))))
  let data ← (if (b8 = true) then (do
      let data ← List.foldlM (ajBody self) data group
      let v12 ← Py.req score
      let data : List (Str × Py.J) := Py.setitem scoreKey (Py.J.num v12) data
      let t13 ← usM sev
      let data : List (Str × Py.J) := Py.setitem sevKey (Py.J.str t13) data
      pure data) else (do
      pure data))
  k data)

theorem ajOptK_eq {β : Type} (self : Code3.Self) (minimal : Bool) (group : List Str) (score : Option Rat)
    (scoreKey sevKey sev : Str) (data : List (Str × Py.J)) (k : List (Str × Py.J) → Py.M β) :
    ajOptK self minimal group score scoreKey sevKey sev data k =
      ajOpt self minimal group score scoreKey sevKey sev data >>= k := by
  unfold ajOptK ajOpt
  rw [bind_assoc]

theorem ajOpt_eq (self : Code3.Self) (orig : List (Str × Str)) (ho : self.original_metrics = some orig)
    (minimal : Bool) (group : List Str) (x : Rat) (scoreKey sevKey sev : Str) (d : Model.JObj) :
    (ajOpt self minimal group (some x) scoreKey sevKey sev (jm d)).toOption =
      (if (!minimal || group.any (fun k => hasKey k orig)) = true then
        (Model.addMetrics Gen.V3.jsonKeys (Model.V3.getDescription self.metrics) Model.us3 d group).bind
          (fun d' => some (insert sevKey (.str (Model.us3 sev)) (insert scoreKey (.num x) d')))
       else some d).map jm := by
  unfold ajOpt
  cases minimal with
  | false =>
    simp only [Bool.false_eq_true, not_false_eq_true, if_true, Bool.not_false, Bool.true_or,
      toOption_bind, toOption_pure, Option.bind_some, aj_fold, toOption_req, usM_eq, toOption_ok, Py.setitem]
    cases Model.addMetrics Gen.V3.jsonKeys (Model.V3.getDescription self.metrics) Model.us3 d group with
    | none => rfl
    | some d' => simp only [Option.map_some, Option.bind_some, insert_jm_num, insert_jm_str]
  | true =>
    simp only [not_true_eq_false, if_false, Bool.not_true, Bool.false_or, ho, Py.contains,
      toOption_bind, toOption_pure, Option.bind_some, toOption_req, Bool.decide_eq_true]
    cases List.any group (fun k => hasKey k orig) with
    | false => rfl
    | true =>
      simp only [if_true, toOption_bind, toOption_pure, Option.bind_some, aj_fold, toOption_req, usM_eq,
        toOption_ok, Py.setitem]
      cases Model.addMetrics Gen.V3.jsonKeys (Model.V3.getDescription self.metrics) Model.us3 d group with
      | none => rfl
      | some d' => simp only [Option.map_some, Option.bind_some, insert_jm_num, insert_jm_str]

theorem aj_tail (self : Code3.Self) (orig : List (Str × Str)) (ho : self.original_metrics = some orig)
    (minimal sort : Bool) (x : Rat) (scoreKey sevKey sev : Str) (d : Model.JObj) :
    ((ajOpt self minimal Gen.V3.environmental (some x) scoreKey sevKey sev (jm d)).toOption.bind fun a =>
        (if sort = true then pure (Py.sortedItems a) else pure a : Py.M (List (Str × Py.J))).toOption) =
      Option.map jm
        (if (!minimal || Gen.V3.environmental.any (fun k => hasKey k orig)) = true then
          (Model.addMetrics Gen.V3.jsonKeys (Model.V3.getDescription self.metrics) Model.us3 d
              Gen.V3.environmental).bind fun d =>
            some (if sort = true then
                Model.sortObj (insert sevKey (.str (Model.us3 sev)) (insert scoreKey (.num x) d))
              else insert sevKey (.str (Model.us3 sev)) (insert scoreKey (.num x) d))
        else some (if sort = true then Model.sortObj d else d)) := by
  rw [ajOpt_eq self orig ho]
  have hs : ∀ d3 : Model.JObj,
      (if sort = true then pure (Py.sortedItems (jm d3)) else pure (jm d3) : Py.M (List (Str × Py.J))).toOption =
        some (jm (if sort = true then Model.sortObj d3 else d3)) := by
    intro d3
    cases sort
    · rfl
    · simp only [if_true, sorted_jm]; rfl
  by_cases c : (!minimal || Gen.V3.environmental.any (fun k => hasKey k orig)) = true
  · simp only [c, if_true]
    cases Model.addMetrics Gen.V3.jsonKeys (Model.V3.getDescription self.metrics) Model.us3 d
        Gen.V3.environmental with
    | none => rfl
    | some d' => simp only [Option.bind_some, Option.map_some, hs]
  · simp only [c, Bool.false_eq_true, if_false, Option.bind_some, Option.map_some, hs]

theorem aj_unfold (self : Code3.Self) (sort minimal : Bool) :
    Code3.as_json self sort minimal = (do
      let t1 ← Code3.severities self
      let (base_severity, temporal_severity, environmental_severity) ← Py.unpack3 t1
      let data ← List.foldlM (ajBody self)
        ([(c!"version", (Py.J.str (c!"3." ++ (Py.strOInt self.minor_version)))), (c!"vectorString", (Py.J.str self.vector))] : List (Str × Py.J))
        Gen.V3.mandatory
      let v5 ← Py.req self.base_score
      let data : List (Str × Py.J) := Py.setitem c!"baseScore" (Py.J.num v5) data
      let t6 ← usM base_severity
      let data : List (Str × Py.J) := Py.setitem c!"baseSeverity" (Py.J.str t6) data
      ajOptK self minimal Gen.V3.temporal self.temporal_score c!"temporalScore" c!"temporalSeverity"
        temporal_severity data fun data =>
      ajOptK self minimal Gen.V3.environmental self.environmental_score c!"environmentalScore"
        c!"environmentalSeverity" environmental_severity data fun data => do
      let data ← (if (sort = true) then (do
          let data : List (Str × Py.J) := (Py.sortedItems data)
          pure data) else (do
          pure data))
      pure data) := by
  unfold Code3.as_json; rfl

end Aux

/-- `as_json(sort, minimal)` on a constructed object, all four option sets: same keys, same values, same
    order (or both raise) -/
theorem as_json_eq (self : Code3.Self) (o : Model.V3.Obj) (sort minimal : Bool)
    (hv : o.vector = self.vector) (hmi : self.minor_version = some (o.minor : Int))
    (ho : self.original_metrics = some o.orig) (hm : o.metrics = self.metrics)
    (hb : self.base_score = some o.base) (ht : self.temporal_score = some o.temporal)
    (he : self.environmental_score = some o.env) :
    (Code3.as_json self sort minimal).toOption =
      (Model.asJson3 o sort minimal).map (List.map (fun kv => (kv.1, jOf kv.2))) := by
  have h0 : ([(c!"version", (Py.J.str (c!"3." ++ natToStr o.minor))), (c!"vectorString", (Py.J.str self.vector))] : List (Str × Py.J))
      = Aux.jm [(c!"version", .str (c!"3." ++ natToStr o.minor)), (c!"vectorString", .str o.vector)] := by
    rw [hv]; rfl
  rw [Aux.aj_unfold, severities_eq self _ _ _ hb ht he]
  simp only [Aux.ajOptK_eq, hb, ht, he, hmi, Aux.strOInt_nat, h0, Aux.toOption_bind, Aux.toOption_ok, Option.bind_some,
    Py.unpack3, Aux.aj_fold, Aux.toOption_req, Aux.usM_eq, Py.setitem]
  unfold Model.asJson3
  simp only [hm, Option.bind_eq_bind, Option.pure_def]
  cases Model.addMetrics V3.jsonKeys (Model.V3.getDescription self.metrics) Model.us3
      [(c!"version", .str (c!"3." ++ natToStr o.minor)), (c!"vectorString", .str o.vector)] V3.mandatory with
  | none => rfl
  | some d1 =>
    simp only [Option.map_some, Option.bind_some, Aux.insert_jm_num, Aux.insert_jm_str, Aux.ajOpt_eq self o.orig ho]
    by_cases c1 : (!minimal || V3.temporal.any fun k => hasKey k o.orig) = true
    · simp only [c1, if_true]
      cases Model.addMetrics V3.jsonKeys (Model.V3.getDescription self.metrics) Model.us3
          (insert c!"baseSeverity" (Model.JVal.str (Model.us3 (Model.V3.sevOf o.base)))
            (insert c!"baseScore" (Model.JVal.num o.base) d1)) V3.temporal with
      | none => rfl
      | some d2 =>
        simp only [Option.bind_some, Option.map_some]
        exact Aux.aj_tail self o.orig ho minimal sort _ _ _ _ _
    · simp only [c1, Bool.false_eq_true, if_false, Option.bind_some, Option.map_some]
      exact Aux.aj_tail self o.orig ho minimal sort _ _ _ _ _

end Cvss.Props.CodeTie3
