/-
  SOURCE TIE, CVSS3: the hand-written model `Cvss.Model.V3` equals the translation of cvss/cvss3.py's
  `handle_scope`, `add_missing_optional`, `get_value` and `compute_*` methods that `tools/gen_code.py`
  regenerates from the SOURCE TEXT on every run (`Cvss.Gen.Code3`).  Every theorem declared directly in
  this namespace is an obligation.
-/
import Cvss.Py
import Cvss.Gen.Code3
import Cvss.Model.V3
namespace Cvss.Props.CodeTie3
open Cvss Cvss.Gen

/-- `round_up` is ROUND_CEILING to one decimal -/
theorem round_eq (x : Rat) : Code3.round_up x = some (roundUp1 x) := by
  rfl

/-- the model's context of a translated object whose scope attributes are set -/
def ctxOf (self : Code3.Self) (sc ms : Str) : Model.V3.Ctx :=
  { metrics := self.metrics, scope := sc, modScope := ms }

namespace Aux

theorem prTable :
    ([(c!"X", none), (c!"N", (some (mkRat (17) 20))), (c!"L", (some (mkRat (17) 25))), (c!"H", (some (mkRat (1) 2)))] : List (Str × (Option Rat)))
      = Model.V3.prChanged := by
  decide

end Aux

/-- `get_value`, including the literal Privileges-Required table for (Modified) Scope Changed -/
theorem get_value_eq (self : Code3.Self) (sc ms : Str) (a : Str)
    (h1 : self.scope = some sc) (h2 : self.modified_scope = some ms) :
    (Code3.get_value self a).bind id = Model.V3.getValue (ctxOf self sc ms) a := by
  unfold Code3.get_value Model.V3.getValue
  simp only [Aux.prTable, h1, h2, ctxOf, Option.some.injEq, Py.getitem, Py.getD, Model.V3.X, bind, pure]
  by_cases hc : (a = c!"PR" ∧ sc = c!"C") ∨ (a = c!"MPR" ∧ ms = c!"C")
  · simp only [if_pos hc]
    cases h : lookup ((lookup a self.metrics).getD c!"X") Model.V3.prChanged <;> simp [hc]
  · simp only [if_neg hc]
    cases h : lookup a Gen.V3.values with
    | none => simp [hc]
    | some row =>
      cases h' : lookup ((lookup a self.metrics).getD c!"X") row <;> simp [h', hc]

theorem get_value_description_eq (self : Code3.Self) (a : Str) :
    Code3.get_value_description self a = Model.V3.getDescription self.metrics a := by
  unfold Code3.get_value_description Model.V3.getDescription
  simp only [Py.getitem, Py.getD, Model.V3.X, bind, pure]
  cases lookup a Gen.V3.valueNames with
  | none => rfl
  | some row => simp

namespace Aux

/-- the loop body of `add_missing_optional` -/
def amoBody (self : Code3.Self) (abbreviation : Str) : Option Code3.Self := (do
      let b2 ← (do
          if (¬ (Py.contains abbreviation self.metrics = true)) then pure true else (do
              let t1 ← Py.getitem abbreviation self.metrics
              pure (decide (t1 = c!"X"))))
      let self ← (if (b2 = true) then (do
          let t3 ← Py.getitem (List.drop 1 abbreviation) self.metrics
          let self : Code3.Self := { self with metrics := Py.setitem abbreviation t3 self.metrics }
          pure self) else (do
          pure self))
      pure self)

theorem amo_fold (l : List Str) : ∀ self : Code3.Self,
    List.foldlM amoBody self l =
      (Model.V3.addMissingOptional self.metrics l).map (fun full => { self with metrics := full }) := by
  induction l with
  | nil => intro self; rfl
  | cons a rest ih =>
    intro self
    rw [List.foldlM_cons]
    cases h : lookup a self.metrics with
    | none =>
      cases h' : lookup (List.tail a) self.metrics with
      | none => simp [amoBody, Model.V3.addMissingOptional, hasKey, Py.getitem, Py.setitem, h, h']
      | some b => simp [amoBody, Model.V3.addMissingOptional, hasKey, Py.getitem, Py.setitem, h, h', ih]
    | some v =>
      by_cases hv : v = c!"X"
      · cases h' : lookup (List.tail a) self.metrics with
        | none => simp [amoBody, Model.V3.addMissingOptional, hasKey, Py.getitem, Py.setitem, Model.V3.X, h, h', hv]
        | some b => simp [amoBody, Model.V3.addMissingOptional, hasKey, Py.getitem, Py.setitem, Model.V3.X, h, h', hv, ih]
      · simp [amoBody, Model.V3.addMissingOptional, hasKey, Py.getitem, Py.setitem, Model.V3.X, h, hv, ih]

theorem amo_state (self : Code3.Self) :
    Code3.add_missing_optional self =
      (Model.V3.addMissingOptional self.metrics Model.V3.modifiedMetrics).map
        (fun full => { self with original_metrics := some self.metrics, metrics := full }) := by
  have := amo_fold Model.V3.modifiedMetrics { self with original_metrics := some self.metrics }
  unfold Code3.add_missing_optional
  simp only [bind, pure]
  exact this

end Aux

/-- `add_missing_optional` (metrics part) -/
theorem add_missing_optional_eq (self : Code3.Self) :
    (Code3.add_missing_optional self).map (fun s => (s.original_metrics, s.metrics)) =
      (Model.V3.addMissingOptional self.metrics Model.V3.modifiedMetrics).map
        (fun full => (some self.metrics, full)) := by
  rw [Aux.amo_state]
  cases Model.V3.addMissingOptional self.metrics Model.V3.modifiedMetrics <;> rfl

namespace Aux
open Model.V3

theorem q_1 : mkRat 1 1 = (1 : Rat) := by decide
theorem q_0 : mkRat 0 1 = (0 : Rat) := by decide
theorem q_10 : mkRat 10 1 = (10 : Rat) := by decide
theorem q_642 : r 642 100 = mkRat 321 50 := by decide
theorem q_752 : r 752 100 = mkRat 188 25 := by decide
theorem q_29 : r 29 1000 = mkRat 29 1000 := rfl
theorem q_325 : r 325 100 = mkRat 13 4 := by decide
theorem q_2 : r 2 100 = mkRat 1 50 := by decide
theorem q_822 : r 822 100 = mkRat 411 50 := by decide
theorem q_108 : r 108 100 = mkRat 27 25 := by decide
theorem q_915 : r 915 1000 = mkRat 183 200 := by decide
theorem q_9731 : r 9731 10000 = mkRat 9731 10000 := rfl

/-- `t ← get_value self a; v ← req t; f v` reads the model's `getValue` -/
theorem gvb {β : Type} (self : Code3.Self) (sc ms : Str) (h1 : self.scope = some sc)
    (h2 : self.modified_scope = some ms) (a : Str) (f : Rat → Option β) :
    (Code3.get_value self a).bind (fun t => t.bind f) = (getValue (ctxOf self sc ms) a).bind f := by
  rw [← get_value_eq self sc ms a h1 h2]
  cases Code3.get_value self a <;> rfl

theorem isc_base_state (self : Code3.Self) (sc ms : Str) (h1 : self.scope = some sc)
    (h2 : self.modified_scope = some ms) :
    Code3.compute_isc_base self =
      (iscBase (ctxOf self sc ms)).map (fun v => { self with isc_base := some v }) := by
  unfold Code3.compute_isc_base iscBase
  simp only [Option.bind_eq_bind, Py.req, gvb self sc ms h1 h2, q_1, pure]
  cases getValue (ctxOf self sc ms) c!"C" <;> cases getValue (ctxOf self sc ms) c!"I" <;>
    cases getValue (ctxOf self sc ms) c!"A" <;> rfl

theorem isc_state (self : Code3.Self) (sc ms : Str) (h1 : self.scope = some sc) :
    Code3.compute_isc self =
      (self.isc_base.bind (isc (ctxOf self sc ms))).map (fun v => { self with isc := some v }) := by
  unfold Code3.compute_isc isc
  simp only [Option.bind_eq_bind, Py.req, h1, Option.some.injEq, ctxOf, q_642, q_752, q_29, q_325, q_2, pure]
  cases self.isc_base with
  | none => by_cases hu : sc = c!"U" <;> by_cases hc : sc = c!"C" <;> simp [hu, hc]
  | some ib => by_cases hu : sc = c!"U" <;> by_cases hc : sc = c!"C" <;> simp [hu, hc]

theorem esc_state (self : Code3.Self) (sc ms : Str) (h1 : self.scope = some sc)
    (h2 : self.modified_scope = some ms) :
    Code3.compute_esc self =
      (esc (ctxOf self sc ms)).map (fun v => { self with esc := some v }) := by
  unfold Code3.compute_esc esc
  simp only [Option.bind_eq_bind, Py.req, gvb self sc ms h1 h2, q_822, pure]
  cases getValue (ctxOf self sc ms) c!"AV" <;> cases getValue (ctxOf self sc ms) c!"AC" <;>
    cases getValue (ctxOf self sc ms) c!"PR" <;> cases getValue (ctxOf self sc ms) c!"UI" <;> rfl

/-- the final case distinction of `compute_base_score` -/
def baseFin (c : Ctx) (i e : Rat) : Option Rat :=
  if i ≤ 0 then pure 0
  else if c.scope = c!"U" then pure (roundUp1 (pyMin (i + e) 10))
  else if c.scope = c!"C" then pure (roundUp1 (pyMin (r 108 100 * (i + e)) 10))
  else none

theorem baseScore_eq (c : Ctx) :
    baseScore c = (iscBase c).bind fun ib => (isc c ib).bind fun i => (esc c).bind fun e => baseFin c i e := rfl

theorem base_state (self : Code3.Self) (sc ms : Str) (h1 : self.scope = some sc)
    (h2 : self.modified_scope = some ms) :
    Code3.compute_base_score self =
      (iscBase (ctxOf self sc ms)).bind fun ib => (isc (ctxOf self sc ms) ib).bind fun i =>
        (esc (ctxOf self sc ms)).bind fun e => (baseFin (ctxOf self sc ms) i e).map fun b =>
          { self with isc_base := some ib, isc := some i, esc := some e, base_score := some b } := by
  unfold Code3.compute_base_score
  simp only [Option.bind_eq_bind]
  rw [isc_base_state self sc ms h1 h2]
  cases iscBase (ctxOf self sc ms) with
  | none => rfl
  | some ib =>
    simp only [Option.map_some, Option.bind_some]
    have e1 := isc_state { self with isc_base := some ib } sc ms h1
    rw [e1]
    change Option.bind (Option.map _ (isc (ctxOf self sc ms) ib)) _ = _
    cases isc (ctxOf self sc ms) ib with
    | none => rfl
    | some i =>
      simp only [Option.map_some, Option.bind_some]
      have e2 := esc_state { self with isc_base := some ib, isc := some i } sc ms h1 h2
      rw [e2]
      change Option.bind (Option.map _ (esc (ctxOf self sc ms))) _ = _
      cases esc (ctxOf self sc ms) with
      | none => rfl
      | some e =>
        simp only [Option.map_some, Option.bind_some, Py.req, Code3.round_up, Py.quantize1, h1,
          Option.some.injEq, q_0, q_10, baseFin, ctxOf, q_108, pure]
        by_cases hi : i ≤ 0
        · simp [hi]
        · by_cases hu : sc = c!"U" <;> by_cases hc : sc = c!"C" <;> simp [hi, hu, hc]

theorem temporal_state (self : Code3.Self) (sc ms : Str) (h1 : self.scope = some sc)
    (h2 : self.modified_scope = some ms) :
    Code3.compute_temporal_score self =
      (self.base_score.bind (temporalScore (ctxOf self sc ms))).map
        (fun v => { self with temporal_score := some v }) := by
  unfold Code3.compute_temporal_score temporalScore
  simp only [Option.bind_eq_bind, Py.req, gvb self sc ms h1 h2, Code3.round_up, Py.quantize1, pure]
  cases self.base_score <;>
  cases getValue (ctxOf self sc ms) c!"E" <;> cases getValue (ctxOf self sc ms) c!"RL" <;>
    cases getValue (ctxOf self sc ms) c!"RC" <;> rfl

theorem mib_state (self : Code3.Self) (sc ms : Str) (h1 : self.scope = some sc)
    (h2 : self.modified_scope = some ms) :
    Code3.compute_modified_isc_base self =
      (modifiedIscBase (ctxOf self sc ms)).map (fun v => { self with modified_isc_base := some v }) := by
  unfold Code3.compute_modified_isc_base modifiedIscBase
  simp only [Option.bind_eq_bind, Py.req, gvb self sc ms h1 h2, q_1, q_915, pure]
  cases getValue (ctxOf self sc ms) c!"MC" <;> cases getValue (ctxOf self sc ms) c!"CR" <;>
    cases getValue (ctxOf self sc ms) c!"MI" <;> cases getValue (ctxOf self sc ms) c!"IR" <;>
    cases getValue (ctxOf self sc ms) c!"MA" <;> cases getValue (ctxOf self sc ms) c!"AR" <;> rfl

theorem misc30_state (self : Code3.Self) (sc ms : Str) (h2 : self.modified_scope = some ms) :
    Code3.compute_modified_isc_30 self =
      self.modified_isc_base.map
        (fun mib => { self with modified_isc := some (modifiedIsc (ctxOf self sc ms) 0 mib) }) := by
  unfold Code3.compute_modified_isc_30 modifiedIsc
  simp only [Option.bind_eq_bind, Py.req, h2, Option.some.injEq, ctxOf, q_642, q_752, q_29, q_325, q_2, pure]
  cases self.modified_isc_base <;> by_cases hu : ms = c!"U" <;> simp [hu]

theorem misc31_state (self : Code3.Self) (sc ms : Str) (minor : Nat) (hminor : minor ≠ 0)
    (h2 : self.modified_scope = some ms) :
    Code3.compute_modified_isc self =
      self.modified_isc_base.map
        (fun mib => { self with modified_isc := some (modifiedIsc (ctxOf self sc ms) minor mib) }) := by
  unfold Code3.compute_modified_isc modifiedIsc
  simp only [Option.bind_eq_bind, Py.req, h2, Option.some.injEq, ctxOf, q_642, q_752, q_29, q_325, q_2,
    q_9731, pure]
  cases self.modified_isc_base <;> by_cases hu : ms = c!"U" <;> simp [hu, hminor]

theorem mesc_state (self : Code3.Self) (sc ms : Str) (h1 : self.scope = some sc)
    (h2 : self.modified_scope = some ms) :
    Code3.compute_modified_esc self =
      (modifiedEsc (ctxOf self sc ms)).map (fun v => { self with modified_esc := some v }) := by
  unfold Code3.compute_modified_esc modifiedEsc
  simp only [Option.bind_eq_bind, Py.req, gvb self sc ms h1 h2, q_822, pure]
  cases getValue (ctxOf self sc ms) c!"MAV" <;> cases getValue (ctxOf self sc ms) c!"MAC" <;>
    cases getValue (ctxOf self sc ms) c!"MPR" <;> cases getValue (ctxOf self sc ms) c!"MUI" <;> rfl

/-- the final case distinction of `compute_environmental_score` -/
def envFin (c : Ctx) (mi me : Rat) : Option Rat :=
  if mi ≤ 0 then pure 0
  else do
    let modified :=
      if c.modScope = c!"U" then roundUp1 (pyMin (mi + me) 10)
      else roundUp1 (pyMin (r 108 100 * (mi + me)) 10)
    let e ← getValue c c!"E"
    let rl ← getValue c c!"RL"
    let rc ← getValue c c!"RC"
    pure (roundUp1 (modified * e * rl * rc))

theorem environmentalScore_eq (c : Ctx) (minor : Nat) :
    environmentalScore c minor =
      (modifiedIscBase c).bind fun mib => (modifiedEsc c).bind fun me =>
        envFin c (modifiedIsc c minor mib) me := rfl

theorem env_state (self : Code3.Self) (sc ms : Str) (minor : Nat) (h1 : self.scope = some sc)
    (h2 : self.modified_scope = some ms) (hm : self.minor_version = some (minor : Int)) :
    Code3.compute_environmental_score self =
      (modifiedIscBase (ctxOf self sc ms)).bind fun mib => (modifiedEsc (ctxOf self sc ms)).bind fun me =>
        (envFin (ctxOf self sc ms) (modifiedIsc (ctxOf self sc ms) minor mib) me).map fun e =>
          { self with modified_isc_base := some mib,
                      modified_isc := some (modifiedIsc (ctxOf self sc ms) minor mib),
                      modified_esc := some me, environmental_score := some e } := by
  unfold Code3.compute_environmental_score
  simp only [Option.bind_eq_bind]
  rw [mib_state self sc ms h1 h2]
  cases modifiedIscBase (ctxOf self sc ms) with
  | none => rfl
  | some mib =>
    simp only [Option.map_some, Option.bind_some]
    have e1 : (if self.minor_version = some (0 : Int) then
          Code3.compute_modified_isc_30 { self with modified_isc_base := some mib }
        else Code3.compute_modified_isc { self with modified_isc_base := some mib }) =
        some { self with modified_isc_base := some mib,
                         modified_isc := some (modifiedIsc (ctxOf self sc ms) minor mib) } := by
      by_cases h0 : minor = 0
      · have hm0 : self.minor_version = some (0 : Int) := by rw [hm, h0]; rfl
        rw [if_pos hm0, misc30_state { self with modified_isc_base := some mib } sc ms h2, h0]
        rfl
      · have hm' : ¬ (self.minor_version = some (0 : Int)) := by
          rw [hm]; intro h; apply h0; exact Int.ofNat.inj (Option.some.inj h)
        rw [if_neg hm', misc31_state { self with modified_isc_base := some mib } sc ms minor h0 h2]
        rfl
    rw [e1]
    simp only [Option.bind_some]
    have e2 := mesc_state { self with modified_isc_base := some mib, modified_isc := some (modifiedIsc (ctxOf self sc ms) minor mib) } sc ms h1 h2
    rw [e2]
    change Option.bind (Option.map _ (modifiedEsc (ctxOf self sc ms))) _ = _
    cases modifiedEsc (ctxOf self sc ms) with
    | none => rfl
    | some me =>
      have g := @gvb Code3.Self { self with modified_isc_base := some mib, modified_isc := some (modifiedIsc (ctxOf self sc ms) minor mib), modified_esc := some me } sc ms h1 h2
      simp only [Option.map_some, Option.bind_some, Py.req, g]
      change _ = Option.map _ (envFin (ctxOf self sc ms) (modifiedIsc (ctxOf self sc ms) minor mib) me)
      generalize modifiedIsc (ctxOf self sc ms) minor mib = mi
      simp only [Code3.round_up, Py.quantize1, h2,
          Option.some.injEq, q_0, q_10, envFin, ctxOf, q_108, pure, Option.bind_eq_bind]
      generalize getValue { metrics := self.metrics, scope := sc, modScope := ms } c!"E" = vE
      generalize getValue { metrics := self.metrics, scope := sc, modScope := ms } c!"RL" = vRL
      generalize getValue { metrics := self.metrics, scope := sc, modScope := ms } c!"RC" = vRC
      by_cases hi : mi ≤ 0
      · simp [hi]
      · by_cases hu : ms = c!"U" <;> cases vE <;> cases vRL <;> cases vRC <;> simp [hi, hu]

/-- the modified scope that `handle_scope` / `build` compute -/
def msOf (m : List (Str × Str)) (scope : Str) : Str :=
  match lookup c!"MS" m with
  | none => scope
  | some v => if v = X then scope else v

theorem scope_state (self : Code3.Self) :
    Code3.handle_scope self =
      (lookup c!"S" self.metrics).map
        (fun sc => { self with scope := some sc, modified_scope := some (msOf self.metrics sc) }) := by
  unfold Code3.handle_scope msOf
  simp only [Option.bind_eq_bind, Py.getitem, Py.get?, X, pure]
  cases lookup c!"S" self.metrics with
  | none => rfl
  | some sc =>
    cases h : lookup c!"MS" self.metrics with
    | none => simp
    | some v => by_cases hv : v = c!"X" <;> simp [hv]

theorem build_eq (s : Str) (minor : Nat) (m : List (Str × Str)) :
    build s minor m =
      (lookup c!"S" m).bind fun scope =>
        (addMissingOptional m modifiedMetrics).bind fun full =>
          (baseScore { metrics := full, scope := scope, modScope := msOf m scope }).bind fun b =>
            (temporalScore { metrics := full, scope := scope, modScope := msOf m scope } b).bind fun t =>
              (environmentalScore { metrics := full, scope := scope, modScope := msOf m scope } minor).bind fun e =>
                some { vector := s, minor := minor, orig := m, metrics := full, base := b, temporal := t, env := e } := rfl

end Aux

/-- what `__init__` computes after `check_mandatory()`: the translated source and the model's `build`
    produce the same original / filled-in metric dicts and the same three scores (or both raise), for
    EVERY metric dict, both minor versions (any integer, in fact), whatever the attributes held before -/
theorem init_tail_eq (self : Code3.Self) (vector s : Str) (minor : Nat)
    (hm : self.minor_version = some (minor : Int)) :
    (Code3.init_tail self vector).map
        (fun x => (x.original_metrics, x.metrics, x.base_score, x.temporal_score, x.environmental_score)) =
      (Model.V3.build s minor self.metrics).map
        (fun o => (some o.orig, o.metrics, some o.base, some o.temporal, some o.env)) := by
  unfold Code3.init_tail
  rw [Aux.build_eq]
  simp only [Option.bind_eq_bind]
  rw [Aux.scope_state]
  cases lookup c!"S" self.metrics with
  | none => rfl
  | some sc =>
    simp only [Option.map_some, Option.bind_some]
    rw [Aux.amo_state]
    change Option.map _ (Option.bind (Option.map _ (Model.V3.addMissingOptional self.metrics Model.V3.modifiedMetrics)) _) = _
    cases Model.V3.addMissingOptional self.metrics Model.V3.modifiedMetrics with
    | none => rfl
    | some full =>
      simp only [Option.map_some, Option.bind_some]
      generalize Aux.msOf self.metrics sc = ms
      have eb := Aux.base_state { self with scope := some sc, modified_scope := some ms, original_metrics := some self.metrics, metrics := full } sc ms rfl rfl
      rw [eb, Aux.baseScore_eq]
      clear eb
      simp only [ctxOf]
      generalize hc : ({ metrics := full, scope := sc, modScope := ms } : Model.V3.Ctx) = c
      cases Model.V3.iscBase c with
      | none => rfl
      | some ib =>
      simp only [Option.bind_some]
      cases Model.V3.isc c ib with
      | none => rfl
      | some i =>
      simp only [Option.bind_some]
      cases Model.V3.esc c with
      | none => rfl
      | some e =>
      simp only [Option.bind_some]
      cases Aux.baseFin c i e with
      | none => rfl
      | some b =>
      simp only [Option.bind_some, Option.map_some]
      have et := Aux.temporal_state { self with metrics := full, original_metrics := some self.metrics, scope := some sc, modified_scope := some ms, base_score := some b, isc_base := some ib, isc := some i, esc := some e } sc ms rfl rfl
      simp only [ctxOf, hc, Option.bind_some] at et
      rw [et]
      clear et
      cases Model.V3.temporalScore c b with
      | none => rfl
      | some t =>
      simp only [Option.bind_some, Option.map_some]
      have ee := Aux.env_state { self with metrics := full, original_metrics := some self.metrics, scope := some sc, modified_scope := some ms, base_score := some b, isc_base := some ib, isc := some i, esc := some e, temporal_score := some t } sc ms minor rfl rfl hm
      simp only [ctxOf, hc] at ee
      rw [ee, Aux.environmentalScore_eq]
      clear ee
      cases Model.V3.modifiedIscBase c with
      | none => rfl
      | some mib =>
      simp only [Option.bind_some]
      cases Model.V3.modifiedEsc c with
      | none => rfl
      | some me =>
      simp only [Option.bind_some]
      cases Aux.envFin c (Model.V3.modifiedIsc c minor mib) me with
      | none => rfl
      | some ev => rfl


namespace Aux

theorem fmt2 (a b : Str) : Py.format c!"{0}:{1}" [a, b] = a ++ ':' :: b := by
  simp [Py.format, Py.formatAux, Py.fmtField]

theorem fmtPrefix (x : Str) : Py.format c!"CVSS:3.{0}/" [x] = c!"CVSS:3." ++ x ++ c!"/" := by
  simp [Py.format, Py.formatAux, Py.fmtField]

/-- the loop body of `clean_vector` -/
def cvBody (self : Code3.Self) (st : List Str) (metric : Str) : Option (List Str) := (do
    let vector := st
    let d1 ← Py.req self.original_metrics
    let vector ← (if (Py.contains metric d1 = true) then (do
        let d2 ← Py.req self.original_metrics
        let t3 ← Py.getitem metric d2
        let value_ : Str := t3
        let vector ← (if (¬ (value_ = c!"X")) then (do
            let vector : List Str := vector ++ [(Py.format c!"{0}:{1}" [metric, value_])]
            pure vector) else (do
            pure vector))
        pure vector) else (do
        pure vector))
    pure vector)

/-- the model's filter of `clean_vector` -/
def cvF (orig : List (Str × Str)) (k : Str) : Option Str :=
  match lookup k orig with
  | some v => if v ≠ Model.V3.X then some (k ++ ':' :: v) else none
  | none => none

theorem cv_fold (self : Code3.Self) (orig : List (Str × Str)) (h1 : self.original_metrics = some orig)
    (l : List Str) : ∀ acc : List Str,
    List.foldlM (cvBody self) acc l = some (acc ++ l.filterMap (cvF orig)) := by
  induction l with
  | nil => intro acc; simp
  | cons a rest ih =>
    intro acc
    rw [List.foldlM_cons]
    cases h : lookup a orig with
    | none => simp [cvBody, cvF, h1, hasKey, Py.getitem, h, ih]
    | some v =>
      by_cases hv : v = c!"X"
      · simp [cvBody, cvF, h1, hasKey, Py.getitem, Model.V3.X, h, hv, ih]
      · simp [cvBody, cvF, h1, hasKey, Py.getitem, Model.V3.X, h, hv, ih, fmt2]

theorem strOInt_nat (n : Nat) : Py.strOInt (some (n : Int)) = natToStr n := rfl

end Aux

/-- `clean_vector(output_prefix)` on a constructed object -/
theorem clean_vector_eq (self : Code3.Self) (orig : List (Str × Str)) (minor : Nat) (p : Bool)
    (h1 : self.original_metrics = some orig) (h2 : self.minor_version = some (minor : Int)) :
    Code3.clean_vector self p = some (Model.V3.cleanOf minor orig p) := by
  have hf := Aux.cv_fold self orig h1 (keys Gen.V3.abbrs) []
  unfold Code3.clean_vector Model.V3.cleanOf
  simp only [Option.bind_eq_bind, pure]
  change (List.foldlM (Aux.cvBody self) [] (keys Gen.V3.abbrs)).bind _ = _
  rw [hf]
  change _ = some ((if p = true then Model.V3.versionPrefix minor else []) ++
    join '/' (List.filterMap (Aux.cvF orig) (keys Gen.V3.abbrs)))
  cases p <;> simp [Aux.fmtPrefix, h2, Aux.strOInt_nat, Model.V3.versionPrefix]

/-- `severities()` on a constructed object (all three scores set) -/
theorem severities_eq (self : Code3.Self) (b t e : Rat)
    (hb : self.base_score = some b) (ht : self.temporal_score = some t) (he : self.environmental_score = some e) :
    Code3.severities self = some [Model.V3.sevOf b, Model.V3.sevOf t, Model.V3.sevOf e] := by
  unfold Code3.severities
  simp only [hb, ht, he, Model.V3.sevOf, Model.V3.r, Aux.q_0, Py.req, List.foldlM, Option.bind_eq_bind,
    Option.some.injEq, pure]
  by_cases b0 : b = 0 <;> by_cases b1 : b ≤ mkRat 39 10 <;> by_cases b2 : b ≤ mkRat 69 10 <;>
    by_cases b3 : b ≤ mkRat 89 10 <;> simp [b0, b1, b2, b3] <;>
  by_cases t0 : t = 0 <;> by_cases t1 : t ≤ mkRat 39 10 <;> by_cases t2 : t ≤ mkRat 69 10 <;>
    by_cases t3 : t ≤ mkRat 89 10 <;> simp [t0, t1, t2, t3] <;>
  by_cases e0 : e = 0 <;> by_cases e1 : e ≤ mkRat 39 10 <;> by_cases e2 : e ≤ mkRat 69 10 <;>
    by_cases e3 : e ≤ mkRat 89 10 <;> simp [e0, e1, e2, e3]

/-- `temporal_vector()` / `environmental_vector()` -/
theorem temporal_vector_eq (self : Code3.Self) (o : Model.V3.Obj) (h : o.metrics = self.metrics) :
    Code3.temporal_vector self = some o.temporalVector := by
  simp [Code3.temporal_vector, Model.V3.Obj.temporalVector, h, Model.V3.X, Py.getD]

theorem environmental_vector_eq (self : Code3.Self) (o : Model.V3.Obj) (h : o.metrics = self.metrics) :
    Code3.environmental_vector self = some o.environmentalVector := by
  simp [Code3.environmental_vector, Model.V3.Obj.environmentalVector, h, Model.V3.X, Py.getD]

end Cvss.Props.CodeTie3
