/-
  C05 — outputs do not depend on field order or on spelling out Not Defined.
-/
import Cvss.Model.Any
import Cvss.Lemmas.Construct
import Cvss.Lemmas.Invariance
namespace Cvss.Props.C05
open Cvss Cvss.Model Cvss.Lemmas.Construct Cvss.Lemmas.Invariance

/-- every optional metric admits the Not Defined token (so it can be spelled out), no mandatory one does -/
def ndLegal (T : Tables) (nd : Str) : Bool :=
  T.abbrs.all (fun m => match lookup m T.legal with
    | some vs => if m ∈ T.mandatory then !(nd ∈ vs) else decide (nd ∈ vs)
    | none => false)

theorem nd_legal : ndLegal V2.tables V2.ND = true ∧ ndLegal V3.tables V3.X = true ∧ ndLegal V4.tables V4.X = true := by
  decide +kernel

/-- propositional form of `ndLegal`: spelling an optional metric out as Not Defined is a legal pair -/
theorem ndLegal_pair {T : Tables} {g : Spec.Grammar.G} (hp : C04.Pinned T g) {nd : Str}
    (h : ndLegal T nd = true) {k : Str} (hk : k ∈ T.abbrs) (hopt : k ∉ T.mandatory) :
    LegalPair T (k, nd) := by
  have := List.all_eq_true.1 h k hk
  split at this
  · rename_i vs hvs
    rw [if_neg hopt] at this
    exact legalPair_of_mem hp hk hvs (of_decide_eq_true this)
  · cases this

/-! ### the observables named by the property -/

/-- v2: scores, ratings, clean vector, Red Hat vector, both sub-vectors, hash key -/
def obs2 (o : V2.Obj) : List (Option Rat) × List Str × Str × Str × Str × Str × Str :=
  (o.scores, o.severities, o.clean, (AnyObj.o2 o).rh, o.temporalVector, o.environmentalVector, (AnyObj.o2 o).hashKey)

def obs3 (o : V3.Obj) : List (Option Rat) × List Str × Str × Str × Str × Str × Str × Str :=
  (o.scores, o.severities, o.clean true, o.clean false, (AnyObj.o3 o).rh, o.temporalVector, o.environmentalVector,
   (AnyObj.o3 o).hashKey)

/-! ### MAIN: the observables are functions of the NORMALISED input (the assignment: stated value, or
    Not Defined for an absent metric) -/

/-- v2: two accepted vectors whose assignments agree on every metric of the table have the same
    observables and are equal objects -/
theorem v2_obs_of_assignment (s s' : Str) (o o' : V2.Obj) (h : V2.construct s = .ok o) (h' : V2.construct s' = .ok o')
    (he : ∀ k ∈ keys Gen.V2.abbrs, assignment V2.ND o.metrics k = assignment V2.ND o'.metrics k) :
    obs2 o = obs2 o' ∧ (AnyObj.o2 o).eq (AnyObj.o2 o') = true := by
  obtain ⟨hp, -, hb, ht, hen⟩ := v2_construct_spec h
  obtain ⟨hp', -, hb', ht', hen'⟩ := v2_construct_spec h'
  obtain ⟨-, -, hl, -, -⟩ := C04.v2_parse_ok_fields _ _ hp
  obtain ⟨-, -, hl', -, -⟩ := C04.v2_parse_ok_fields _ _ hp'
  have ha : assignment V2.ND o.metrics = assignment V2.ND o'.metrics :=
    assignment_ext V2.ND (keys Gen.V2.abbrs) (keys_subset_of_legal hl) (keys_subset_of_legal hl') he
  have hc : o.clean = o'.clean := v2_cleanOf_congr ha
  have hbase : o.base = o'.base := by rw [hb, hb', ha]
  have htemp : o.temporal = o'.temporal := by rw [ht, ht', ha]
  have henv : o.env = o'.env := by rw [hen, hen', ha]
  have hsc : o.scores = o'.scores := by simp only [V2.Obj.scores, hbase, htemp, henv]
  have htv : o.temporalVector = o'.temporalVector := by
    rw [(v2_subvectors o).1, (v2_subvectors o').1, ha]
  have hev : o.environmentalVector = o'.environmentalVector := by
    rw [(v2_subvectors o).2, (v2_subvectors o').2, ha]
  refine ⟨?_, ?_⟩
  · simp only [obs2, V2.Obj.severities, AnyObj.rh, AnyObj.hashKey, AnyObj.base, AnyObj.clean,
      hsc, hc, hbase, htv, hev]
  · simp only [AnyObj.eq, AnyObj.ver, AnyObj.clean, hc, decide_true, Bool.and_self]

/-- v3: … of the same minor version … -/
theorem v3_obs_of_assignment (s s' : Str) (o o' : V3.Obj) (h : V3.construct s = .ok o) (h' : V3.construct s' = .ok o')
    (hm : o.minor = o'.minor)
    (he : ∀ k ∈ keys Gen.V3.abbrs, assignment V3.X o.orig k = assignment V3.X o'.orig k) :
    obs3 o = obs3 o' ∧ (AnyObj.o3 o).eq (AnyObj.o3 o') = true := by
  obtain ⟨hp, -, hb, ht, hen, -⟩ := v3_construct_spec h
  obtain ⟨hp', -, hb', ht', hen', -⟩ := v3_construct_spec h'
  obtain ⟨-, -, hl, -, -⟩ := C04.v3_parse_ok_fields _ _ _ hp
  obtain ⟨-, -, hl', -, -⟩ := C04.v3_parse_ok_fields _ _ _ hp'
  have ha : assignment V3.X o.orig = assignment V3.X o'.orig :=
    assignment_ext V3.X (keys Gen.V3.abbrs) (keys_subset_of_legal hl) (keys_subset_of_legal hl') he
  have hc : ∀ b, o.clean b = o'.clean b := fun b => by
    unfold V3.Obj.clean; rw [hm]; exact v3_cleanOf_congr _ b ha
  have hbase : o.base = o'.base := by rw [hb, hb', ha]
  have htemp : o.temporal = o'.temporal := by rw [ht, ht', ha]
  have henv : o.env = o'.env := by rw [hen, hen', ha, hm]
  have htv : o.temporalVector = o'.temporalVector := by
    rw [(v3_subvectors h).1, (v3_subvectors h').1, ha]
  have hev : o.environmentalVector = o'.environmentalVector := by
    rw [(v3_subvectors h).2, (v3_subvectors h').2, ha]
  refine ⟨?_, ?_⟩
  · simp only [obs3, V3.Obj.scores, V3.Obj.severities, AnyObj.rh, AnyObj.hashKey, AnyObj.base,
      AnyObj.clean, hc, hbase, htemp, henv, htv, hev]
  · simp only [AnyObj.eq, AnyObj.ver, AnyObj.clean, hc, decide_true, Bool.and_self]

/-! ### the two transformations are accepted and preserve the assignment -/

/-- v2: any permutation of the fields of an accepted vector is accepted, and states the same values -/
theorem v2_perm_accepted (s : Str) (o : V2.Obj) (h : V2.construct s = .ok o) (m' : MMap) (hp : o.metrics.Perm m') :
    ∃ o', V2.construct (join '/' (m'.map fieldOf)) = .ok o' ∧ o'.metrics = m' ∧
      ∀ k, assignment V2.ND o.metrics k = assignment V2.ND o'.metrics k := by
  obtain ⟨hp0, -⟩ := v2_construct_spec h
  obtain ⟨-, hne, hl, hn, hm⟩ := C04.v2_parse_ok_fields _ _ hp0
  obtain ⟨hne', hl', hn', hm'⟩ := perm_facts hp hne hl hn hm
  have hparse := C04.v2_parse_render m' hne' hl' (fun kv hkv => C04.pinned2.slashFree (hl' kv hkv)) hn' hm'
  obtain ⟨o', ho', hmet⟩ := v2_construct_of_parse hparse
  refine ⟨o', ho', hmet, fun k => ?_⟩
  rw [hmet]
  exact assignment_perm V2.ND hp hn k

/-- v2: spelling out an absent optional metric as ND is accepted and states the same values
    (read from right to left: removing an explicit ND field) -/
theorem v2_nd_accepted (s : Str) (o : V2.Obj) (h : V2.construct s = .ok o) (k : Str)
    (hk : k ∈ keys Gen.V2.abbrs) (hopt : k ∉ Gen.V2.mandatory) (habs : lookup k o.metrics = none) :
    ∃ o', V2.construct (s ++ '/' :: fieldOf (k, V2.ND)) = .ok o' ∧ o'.metrics = o.metrics ++ [(k, V2.ND)] ∧
      ∀ j, assignment V2.ND o.metrics j = assignment V2.ND o'.metrics j := by
  obtain ⟨hp0, -⟩ := v2_construct_spec h
  obtain ⟨hs, hne, hl, hn, hm⟩ := C04.v2_parse_ok_fields _ _ hp0
  have hkv : LegalPair V2.tables (k, V2.ND) := ndLegal_pair C04.pinned2 nd_legal.1 hk hopt
  obtain ⟨hne', hl', hn', hm'⟩ := append_facts (kv := (k, V2.ND)) hl hn hm hkv habs
  have hparse := C04.v2_parse_render _ hne' hl' (fun kv hkv => C04.pinned2.slashFree (hl' kv hkv)) hn' hm'
  rw [render_append _ _ hne, ← hs] at hparse
  obtain ⟨o', ho', hmet⟩ := v2_construct_of_parse hparse
  refine ⟨o', ho', hmet, fun j => ?_⟩
  rw [hmet]
  exact assignment_append_nd V2.ND _ k j

theorem v3_perm_accepted (s : Str) (o : V3.Obj) (h : V3.construct s = .ok o) (m' : MMap) (hp : o.orig.Perm m') :
    ∃ o', V3.construct (V3.versionPrefix o.minor ++ join '/' (m'.map fieldOf)) = .ok o' ∧ o'.orig = m' ∧
      o'.minor = o.minor ∧ ∀ k, assignment V3.X o.orig k = assignment V3.X o'.orig k := by
  obtain ⟨hp0, -⟩ := v3_construct_spec h
  obtain ⟨⟨p, hpi, -⟩, hne, hl, hn, hm⟩ := C04.v3_parse_ok_fields _ _ _ hp0
  obtain ⟨hne', hl', hn', hm'⟩ := perm_facts hp hne hl hn hm
  have hparse := C04.v3_parse_render o.minor p hpi m' hne' hl'
    (fun kv hkv => C04.pinned3.slashFree (hl' kv hkv)) hn' hm'
  rw [v3_prefix_eq hpi] at hparse
  obtain ⟨o', ho', hmin, hor⟩ := v3_construct_of_parse hparse
  refine ⟨o', ho', hor, hmin, fun k => ?_⟩
  rw [hor]
  exact assignment_perm V3.X hp hn k

theorem v3_nd_accepted (s : Str) (o : V3.Obj) (h : V3.construct s = .ok o) (k : Str)
    (hk : k ∈ keys Gen.V3.abbrs) (hopt : k ∉ Gen.V3.mandatory) (habs : lookup k o.orig = none) :
    ∃ o', V3.construct (s ++ '/' :: fieldOf (k, V3.X)) = .ok o' ∧ o'.orig = o.orig ++ [(k, V3.X)] ∧
      o'.minor = o.minor ∧ ∀ j, assignment V3.X o.orig j = assignment V3.X o'.orig j := by
  obtain ⟨hp0, -⟩ := v3_construct_spec h
  obtain ⟨⟨p, hpi, hs⟩, hne, hl, hn, hm⟩ := C04.v3_parse_ok_fields _ _ _ hp0
  have hkv : LegalPair V3.tables (k, V3.X) := ndLegal_pair C04.pinned3 nd_legal.2.1 hk hopt
  obtain ⟨hne', hl', hn', hm'⟩ := append_facts (kv := (k, V3.X)) hl hn hm hkv habs
  have hparse := C04.v3_parse_render o.minor p hpi _ hne' hl'
    (fun kv hkv => C04.pinned3.slashFree (hl' kv hkv)) hn' hm'
  rw [render_append _ _ hne, ← List.append_assoc, ← hs] at hparse
  obtain ⟨o', ho', hmin, hor⟩ := v3_construct_of_parse hparse
  refine ⟨o', ho', hor, hmin, fun j => ?_⟩
  rw [hor]
  exact assignment_append_nd V3.X _ k j

/-- v4, parser level (constructor level follows with C02): permutation and explicit X are accepted and
    state the same values; the clean vector (hence equality and hash) is unchanged -/
theorem v4_perm_accepted (s : Str) (m : MMap) (h : V4.parse s = .ok m) (m' : MMap) (hp : m.Perm m') :
    V4.parse (V4.pfx ++ join '/' (m'.map fieldOf)) = .ok m' ∧
      (∀ k, assignment V4.X m k = assignment V4.X m' k) ∧ V4.cleanOf m' true = V4.cleanOf m true := by
  obtain ⟨-, hne, hl, hn, hm⟩ := C04.v4_parse_ok_fields _ _ h
  obtain ⟨hne', hl', hn', hm'⟩ := perm_facts hp hne hl hn hm
  have ha : ∀ k, assignment V4.X m k = assignment V4.X m' k := fun k => assignment_perm V4.X hp hn k
  refine ⟨C04.v4_parse_render m' hne' hl' (fun kv hkv => C04.pinned4.slashFree (hl' kv hkv)) hn' hm',
    ha, ?_⟩
  exact (v4_cleanOf_congr true (funext ha)).symm

theorem v4_nd_accepted (s : Str) (m : MMap) (h : V4.parse s = .ok m) (k : Str)
    (hk : k ∈ keys Gen.V4.abbrs) (hopt : k ∉ Gen.V4.mandatory) (habs : lookup k m = none) :
    V4.parse (s ++ '/' :: fieldOf (k, V4.X)) = .ok (m ++ [(k, V4.X)]) ∧
      (∀ j, assignment V4.X m j = assignment V4.X (m ++ [(k, V4.X)]) j) ∧
      V4.cleanOf (m ++ [(k, V4.X)]) true = V4.cleanOf m true := by
  obtain ⟨hs, hne, hl, hn, hm⟩ := C04.v4_parse_ok_fields _ _ h
  have hkv : LegalPair V4.tables (k, V4.X) := ndLegal_pair C04.pinned4 nd_legal.2.2 hk hopt
  obtain ⟨hne', hl', hn', hm'⟩ := append_facts (kv := (k, V4.X)) hl hn hm hkv habs
  have hparse := C04.v4_parse_render _ hne' hl' (fun kv hkv => C04.pinned4.slashFree (hl' kv hkv)) hn' hm'
  rw [render_append _ _ hne, ← List.append_assoc, ← hs] at hparse
  have ha : ∀ j, assignment V4.X m j = assignment V4.X (m ++ [(k, V4.X)]) j :=
    fun j => assignment_append_nd V4.X m k j
  exact ⟨hparse, ha, (v4_cleanOf_congr true (funext ha)).symm⟩

end Cvss.Props.C05
