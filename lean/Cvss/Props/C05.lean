/-
  C05 — outputs do not depend on field order or on spelling out Not Defined.
-/
import Cvss.Model.Any
namespace Cvss.Props.C05
open Cvss Cvss.Model

/-- every optional metric admits the Not Defined token (so it can be spelled out), no mandatory one does -/
def ndLegal (T : Tables) (nd : Str) : Bool :=
  T.abbrs.all (fun m => match lookup m T.legal with
    | some vs => if m ∈ T.mandatory then !(nd ∈ vs) else decide (nd ∈ vs)
    | none => false)

theorem nd_legal : ndLegal V2.tables V2.ND = true ∧ ndLegal V3.tables V3.X = true ∧ ndLegal V4.tables V4.X = true := by
  decide +kernel

end Cvss.Props.C05
