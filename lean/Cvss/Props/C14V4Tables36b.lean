/-
  C14 (v4.0) finite checks, group 36 (VC, VI, VA, CR, IR, AR), contexts with EQ1 = 1.
-/
import Cvss.Lemmas.V4Mono
namespace Cvss.Props.C14
open Cvss Cvss.Lemmas.V4Mono

theorem chk_g36_1 : Chk36 1 := by unfold Chk36; decide +kernel

end Cvss.Props.C14
