/-
  SOURCE TIE, CVSS4: `__eq__` / `__hash__` as translated from the source text.  Equality is equality of the
  cleaned vectors and the hash is taken of the cleaned vector (the other operand of `==` is modelled as an object
  of the same class; for any other class the source returns False); with `clean_vector_eq` this is the model's
  equality / hash key, for which C07 proves the equivalence-relation and consistency statements.
-/
import Cvss.Props.CodeTie4
namespace Cvss.Props.CodeTie4
open Cvss Cvss.Gen

theorem eq_eq (self o : Code4.Self) (a b : Str) (ha : Code4.clean_vector self true = .ok a) (hb : Code4.clean_vector o true = .ok b) :
    Code4.__eq__ self o = .ok (decide (a = b)) := by
  simp [Code4.__eq__, ha, hb, bind, Except.bind, pure, Except.pure]

theorem hash_eq (self : Code4.Self) (a : Str) (ha : Code4.clean_vector self true = .ok a) :
    Code4.__hash__ self = .ok a := by
  simp [Code4.__hash__, ha, Py.hashKey, bind, Except.bind, pure, Except.pure]

/-- objects that compare equal have the same hash key -/
theorem eq_hash (self o : Code4.Self) (a b : Str) (ha : Code4.clean_vector self true = .ok a) (hb : Code4.clean_vector o true = .ok b)
    (h : Code4.__eq__ self o = .ok true) : Code4.__hash__ self = Code4.__hash__ o := by
  rw [eq_eq self o a b ha hb] at h
  have : a = b := by simpa using h
  rw [hash_eq self a ha, hash_eq o b hb, this]

end Cvss.Props.CodeTie4
