/-
  C01 — CVSS v3.0/v3.1 scores equal the FIRST specification equations.
-/
import Cvss.Model.V3
import Cvss.Spec.V3
import Cvss.Lemmas.V3
namespace Cvss.Props.C01
open Cvss Cvss.Model Cvss.Lemmas.Num3

/-- what the specification's tables say `METRICS_VALUES[metric][token]` must be -/
def expectedWeight (metric token : Str) : Option Rat :=
  if metric = c!"S" ∨ metric = c!"MS" then none
  else if metric.head? = some 'M' ∧ token = c!"X" then none
  else if metric = c!"PR" ∨ metric = c!"MPR" then some (Spec.V3.prWeight false token)
  else if metric.head? = some 'M' then some (Spec.V3.w (metric.drop 1) token)
  else some (Spec.V3.w metric token)

def weightsPinned : Bool :=
  Gen.V3.values.all (fun (m, row) => row.all (fun (t, wgt) => wgt == expectedWeight m t))

/-- pinning: every weight the library reads equals the specification's weight -/
theorem weights_pinned : weightsPinned = true := by decide +kernel

/-- pinning: the Privileges Required weights under Scope Changed -/
theorem pr_changed_pinned :
    V3.prChanged.all (fun (t, wgt) => wgt == (if t = c!"X" then none else some (Spec.V3.prWeight true t))) = true := by
  decide +kernel

/-- a metric map as a successful `parse` produces it (see C04): every stored value is a legal value
    of its metric and every mandatory metric is present -/
def ValidMap (m : MMap) : Prop :=
  (∀ k v, lookup k m = some v → ∃ vs, lookup k V3.tables.legal = some vs ∧ v ∈ vs) ∧
  (∀ k ∈ V3.tables.mandatory, (lookup k m).isSome)

theorem modified_nodup : V3.modifiedMetrics.Nodup := by decide
theorem modified_drop : ∀ a ∈ V3.modifiedMetrics, a.drop 1 ∉ V3.modifiedMetrics := by decide
theorem modified_base_mandatory : ∀ a ∈ V3.modifiedMetrics, a.drop 1 ∈ V3.tables.mandatory := by decide

/-- `add_missing_optional`: every Modified metric that is absent or X receives its base metric's value,
    nothing else changes (look-up view of the resulting dict) -/
theorem addMissingOptional_lookup (m : MMap) (hv : ValidMap m) :
    ∃ full, V3.addMissingOptional m V3.modifiedMetrics = some full ∧
      ∀ k, lookup k full =
        if k ∈ V3.modifiedMetrics ∧ assignment V3.X m k = V3.X then lookup (k.drop 1) m else lookup k m := by
  have hbase : ∀ a ∈ V3.modifiedMetrics, (lookup (a.drop 1) m).isSome := fun a ha =>
    hv.2 _ (modified_base_mandatory a ha)
  exact Lemmas.V3.addMissingOptional_spec _ modified_nodup modified_drop m hbase

/-! ### what `get_value` returns -/

/-- `t` is a legal value token of metric `name` -/
def legalTok (name t : Str) : Prop := t ∈ (lookup name V3.tables.legal).getD []

instance (name t : Str) : Decidable (legalTok name t) := by unfold legalTok; infer_instance

theorem legalTok_of_lookup {m : MMap} (hv : ValidMap m) {k v : Str} (h : lookup k m = some v) :
    legalTok k v := by
  obtain ⟨vs, h1, h2⟩ := hv.1 k v h
  simp [legalTok, h1, h2]

theorem legalTok_row {name t : Str} (h : legalTok name t) :
    ∃ row, lookup name Gen.V3.values = some row ∧ ∃ w, lookup t row = some w := by
  unfold legalTok V3.tables at h
  simp only [Lemmas.V3.lookup_map_keys] at h
  cases hr : lookup name Gen.V3.values with
  | none => simp [hr] at h
  | some row =>
    rw [hr] at h
    exact ⟨row, rfl, Lemmas.V3.mem_keys_lookup h⟩

/-- propositional form of `weights_pinned` -/
theorem values_pinned {k t : Str} {row : List (Str × Option Rat)} {w : Option Rat}
    (h1 : lookup k Gen.V3.values = some row) (h2 : lookup t row = some w) : w = expectedWeight k t := by
  have h := Lemmas.V3.all_lookup weights_pinned h1
  have h' := Lemmas.V3.all_lookup h h2
  exact eq_of_beq h'

/-- `get_value` outside the Privileges-Required special case: the pinned weight of the stored token -/
theorem getValue_nonpr (c : V3.Ctx) (name v : Str)
    (hpr : ¬ ((name = c!"PR" ∧ c.scope = c!"C") ∨ (name = c!"MPR" ∧ c.modScope = c!"C")))
    (hsv : (lookup name c.metrics).getD V3.X = v) (hl : legalTok name v) :
    V3.getValue c name = expectedWeight name v := by
  obtain ⟨row, h1, w, h2⟩ := legalTok_row hl
  unfold V3.getValue
  simp only [hsv, if_neg hpr, h1, h2]
  exact values_pinned h1 h2

/-- `get_value` in the Privileges-Required special case -/
theorem getValue_pr (c : V3.Ctx) (name : Str) (w : Option Rat)
    (hpr : (name = c!"PR" ∧ c.scope = c!"C") ∨ (name = c!"MPR" ∧ c.modScope = c!"C"))
    (h : lookup ((lookup name c.metrics).getD V3.X) V3.prChanged = some w) :
    V3.getValue c name = w := by
  unfold V3.getValue
  simp only [if_pos hpr, h]

theorem expectedWeight_plain {name : Str} (v : Str) (h1 : name ≠ c!"S") (h2 : name ≠ c!"MS")
    (h3 : name.head? ≠ some 'M') (h4 : name ≠ c!"PR") (h5 : name ≠ c!"MPR") :
    expectedWeight name v = some (Spec.V3.w name v) := by
  simp [expectedWeight, h1, h2, h3, h4, h5]

theorem expectedWeight_mod {name : Str} (v : Str) (h1 : name ≠ c!"S") (h2 : name ≠ c!"MS")
    (h3 : name.head? = some 'M') (h4 : name ≠ c!"PR") (h5 : name ≠ c!"MPR") (hx : v ≠ V3.X) :
    expectedWeight name v = some (Spec.V3.w (name.drop 1) v) := by
  have hx' : v ≠ c!"X" := hx
  simp [expectedWeight, h1, h2, h3, h4, h5, hx']

theorem expectedWeight_PR (v : Str) :
    expectedWeight c!"PR" v = some (Spec.V3.prWeight false v) := by
  simp [expectedWeight]

theorem expectedWeight_MPR (v : Str) (hx : v ≠ V3.X) :
    expectedWeight c!"MPR" v = some (Spec.V3.prWeight false v) := by
  have hx' : v ≠ c!"X" := hx
  simp [expectedWeight, hx']

theorem X_eq : Spec.V3.X = V3.X := rfl

/-- the hypothesis shape delivered by `addMissingOptional_lookup` -/
def Filled (m full : MMap) : Prop :=
  ∀ k, lookup k full =
    if k ∈ V3.modifiedMetrics ∧ assignment V3.X m k = V3.X then lookup (k.drop 1) m else lookup k m

theorem sv_base {m full : MMap} (hf : Filled m full) {name : Str} (hn : name ∉ V3.modifiedMetrics) :
    (lookup name full).getD V3.X = assignment V3.X m name := by
  rw [hf name, if_neg (fun h => hn h.1)]; rfl

theorem sv_mod {m full : MMap} (hf : Filled m full) {name : Str} (hn : name ∈ V3.modifiedMetrics) :
    (lookup name full).getD V3.X = Spec.V3.eff (assignment V3.X m) name (name.drop 1) := by
  rw [hf name]; unfold Spec.V3.eff; rw [X_eq]
  by_cases h : assignment V3.X m name = V3.X
  · rw [if_pos ⟨hn, h⟩, if_pos h]; rfl
  · rw [if_neg (fun hh => h hh.2), if_neg h]; rfl

theorem legal_mandatory {m : MMap} (hv : ValidMap m) {name : Str} (hn : name ∈ V3.tables.mandatory) :
    legalTok name (assignment V3.X m name) := by
  obtain ⟨v, h⟩ := Option.isSome_iff_exists.mp (hv.2 name hn)
  have := legalTok_of_lookup hv h
  simpa [assignment, h] using this

theorem legal_optional {m : MMap} (hv : ValidMap m) {name : Str} (hx : legalTok name V3.X) :
    legalTok name (assignment V3.X m name) := by
  cases h : lookup name m with
  | none => simpa [assignment, h] using hx
  | some v => simpa [assignment, h] using legalTok_of_lookup hv h

/-- finite fact: every legal token of a base metric is a legal token ≠ X of its Modified metric -/
theorem mod_legal_fact : ∀ name ∈ V3.modifiedMetrics,
    ∀ t ∈ (lookup (name.drop 1) V3.tables.legal).getD [], legalTok name t ∧ t ≠ V3.X := by
  decide +kernel

theorem legal_eff {m : MMap} (hv : ValidMap m) {name : Str} (hn : name ∈ V3.modifiedMetrics) :
    legalTok name (Spec.V3.eff (assignment V3.X m) name (name.drop 1)) ∧
      Spec.V3.eff (assignment V3.X m) name (name.drop 1) ≠ V3.X := by
  unfold Spec.V3.eff; rw [X_eq]
  by_cases h : assignment V3.X m name = V3.X
  · rw [if_pos h]
    exact mod_legal_fact name hn _ (legal_mandatory hv (modified_base_mandatory name hn))
  · rw [if_neg h]
    cases hl : lookup name m with
    | none => exact absurd (by simp [assignment, hl]) h
    | some v =>
      have e : assignment V3.X m name = v := by simp [assignment, hl]
      rw [e] at h ⊢
      exact ⟨legalTok_of_lookup hv hl, h⟩

/-- the context `build` computes the scores in -/
def ctxOf (m full : MMap) : V3.Ctx :=
  { metrics := full, scope := assignment V3.X m c!"S",
    modScope := Spec.V3.eff (assignment V3.X m) c!"MS" c!"S" }

def plainNames : List Str :=
  [c!"C", c!"I", c!"A", c!"AV", c!"AC", c!"UI", c!"E", c!"RL", c!"RC", c!"CR", c!"IR", c!"AR"]

theorem plain_fact : ∀ name ∈ plainNames,
    name ∉ V3.modifiedMetrics ∧ name ≠ c!"S" ∧ name ≠ c!"MS" ∧ name.head? ≠ some 'M' ∧
      name ≠ c!"PR" ∧ name ≠ c!"MPR" ∧ (name ∈ V3.tables.mandatory ∨ legalTok name V3.X) := by
  decide +kernel

theorem gv_plain {m full : MMap} (hv : ValidMap m) (hf : Filled m full) {name : Str}
    (hn : name ∈ plainNames) :
    V3.getValue (ctxOf m full) name = some (Spec.V3.w name (assignment V3.X m name)) := by
  obtain ⟨h0, h1, h2, h3, h4, h5, h6⟩ := plain_fact name hn
  have hl : legalTok name (assignment V3.X m name) := by
    rcases h6 with h6 | h6
    · exact legal_mandatory hv h6
    · exact legal_optional hv h6
  rw [getValue_nonpr (ctxOf m full) name _ (fun h => h.elim (fun h => h4 h.1) (fun h => h5 h.1))
    (sv_base hf h0) hl]
  exact expectedWeight_plain _ h1 h2 h3 h4 h5

def modNames : List Str := [c!"MAV", c!"MAC", c!"MUI", c!"MC", c!"MI", c!"MA"]

theorem mod_fact : ∀ name ∈ modNames,
    name ∈ V3.modifiedMetrics ∧ name ≠ c!"S" ∧ name ≠ c!"MS" ∧ name.head? = some 'M' ∧
      name ≠ c!"PR" ∧ name ≠ c!"MPR" := by
  decide +kernel

theorem gv_mod {m full : MMap} (hv : ValidMap m) (hf : Filled m full) {name : Str}
    (hn : name ∈ modNames) :
    V3.getValue (ctxOf m full) name =
      some (Spec.V3.w (name.drop 1) (Spec.V3.eff (assignment V3.X m) name (name.drop 1))) := by
  obtain ⟨h0, h1, h2, h3, h4, h5⟩ := mod_fact name hn
  obtain ⟨hl, hx⟩ := legal_eff hv h0
  rw [getValue_nonpr (ctxOf m full) name _ (fun h => h.elim (fun h => h4 h.1) (fun h => h5 h.1))
    (sv_mod hf h0) hl]
  exact expectedWeight_mod _ h1 h2 h3 h4 h5 hx

theorem scope_cases {m : MMap} (hv : ValidMap m) :
    assignment V3.X m c!"S" = c!"C" ∨ assignment V3.X m c!"S" = c!"U" := by
  have h := legal_mandatory hv (name := c!"S") (by decide)
  -- membership, not list equality: the order of the value tokens in the generated row is irrelevant
  have e : ∀ t ∈ (lookup c!"S" V3.tables.legal).getD [], t ∈ [c!"C", c!"U"] := by decide +kernel
  unfold legalTok at h
  replace h := e _ h
  simpa using h

theorem modScope_cases {m : MMap} (hv : ValidMap m) :
    Spec.V3.eff (assignment V3.X m) c!"MS" c!"S" = c!"C" ∨
      Spec.V3.eff (assignment V3.X m) c!"MS" c!"S" = c!"U" := by
  obtain ⟨h, hx⟩ := legal_eff hv (name := c!"MS") (by decide)
  have e : ∀ t ∈ (lookup c!"MS" V3.tables.legal).getD [], t ∈ [c!"X", c!"C", c!"U"] := by
    decide +kernel
  unfold legalTok at h
  replace h := e _ h
  simp only [List.mem_cons, List.not_mem_nil, or_false] at h
  rcases h with h | h | h
  · exact absurd h hx
  · exact Or.inl h
  · exact Or.inr h

theorem prChanged_lookup {v : Str} (h : v ∈ [c!"N", c!"L", c!"H"]) :
    lookup v V3.prChanged = some (some (Spec.V3.prWeight true v)) := by
  simp only [List.mem_cons, List.not_mem_nil, or_false] at h
  rcases h with rfl | rfl | rfl <;> decide +kernel

theorem gv_PR {m full : MMap} (hv : ValidMap m) (hf : Filled m full) :
    V3.getValue (ctxOf m full) c!"PR" =
      some (Spec.V3.prWeight (decide (assignment V3.X m c!"S" = c!"C")) (assignment V3.X m c!"PR")) := by
  have hsv : (lookup c!"PR" full).getD V3.X = assignment V3.X m c!"PR" :=
    sv_base hf (by decide)
  have hl : legalTok c!"PR" (assignment V3.X m c!"PR") := legal_mandatory hv (by decide)
  rcases scope_cases hv with hs | hs
  · have e : ∀ t ∈ (lookup c!"PR" V3.tables.legal).getD [], t ∈ [c!"N", c!"L", c!"H"] := by
      decide +kernel
    unfold legalTok at hl
    replace hl := e _ hl
    have hc : ((c!"PR" = c!"PR" ∧ (ctxOf m full).scope = c!"C") ∨
        (c!"PR" = c!"MPR" ∧ (ctxOf m full).modScope = c!"C")) := Or.inl ⟨rfl, hs⟩
    have hsv' : (lookup c!"PR" (ctxOf m full).metrics).getD V3.X = assignment V3.X m c!"PR" := hsv
    rw [getValue_pr (ctxOf m full) c!"PR" _ hc (by rw [hsv']; exact prChanged_lookup hl), hs]
    rfl
  · have hc : ¬ ((c!"PR" = c!"PR" ∧ (ctxOf m full).scope = c!"C") ∨
        (c!"PR" = c!"MPR" ∧ (ctxOf m full).modScope = c!"C")) := by
      rintro (⟨_, h⟩ | ⟨h, _⟩)
      · have h' : assignment V3.X m c!"S" = c!"C" := h
        rw [hs] at h'; exact absurd h' (by decide)
      · exact absurd h (by decide)
    rw [getValue_nonpr (ctxOf m full) c!"PR" _ hc hsv hl, expectedWeight_PR, hs]
    rfl

theorem gv_MPR {m full : MMap} (hv : ValidMap m) (hf : Filled m full) :
    V3.getValue (ctxOf m full) c!"MPR" =
      some (Spec.V3.prWeight (decide (Spec.V3.eff (assignment V3.X m) c!"MS" c!"S" = c!"C"))
        (Spec.V3.eff (assignment V3.X m) c!"MPR" c!"PR")) := by
  have hsv : (lookup c!"MPR" full).getD V3.X = Spec.V3.eff (assignment V3.X m) c!"MPR" c!"PR" :=
    sv_mod hf (by decide)
  obtain ⟨hl, hx⟩ := legal_eff hv (name := c!"MPR") (by decide)
  change legalTok c!"MPR" (Spec.V3.eff (assignment V3.X m) c!"MPR" c!"PR") at hl
  change Spec.V3.eff (assignment V3.X m) c!"MPR" c!"PR" ≠ V3.X at hx
  rcases modScope_cases hv with hs | hs
  · have e : ∀ t ∈ (lookup c!"MPR" V3.tables.legal).getD [], t ∈ [c!"X", c!"N", c!"L", c!"H"] := by
      decide +kernel
    unfold legalTok at hl
    replace hl := e _ hl
    have hl' : Spec.V3.eff (assignment V3.X m) c!"MPR" c!"PR" ∈ [c!"N", c!"L", c!"H"] := by
      rcases List.mem_cons.mp hl with h | h
      · exact absurd h hx
      · exact h
    have hc : ((c!"MPR" = c!"PR" ∧ (ctxOf m full).scope = c!"C") ∨
        (c!"MPR" = c!"MPR" ∧ (ctxOf m full).modScope = c!"C")) := Or.inr ⟨rfl, hs⟩
    have hsv' : (lookup c!"MPR" (ctxOf m full).metrics).getD V3.X =
        Spec.V3.eff (assignment V3.X m) c!"MPR" c!"PR" := hsv
    rw [getValue_pr (ctxOf m full) c!"MPR" _ hc (by rw [hsv']; exact prChanged_lookup hl'), hs]
    rfl
  · have hc : ¬ ((c!"MPR" = c!"PR" ∧ (ctxOf m full).scope = c!"C") ∨
        (c!"MPR" = c!"MPR" ∧ (ctxOf m full).modScope = c!"C")) := by
      rintro (⟨h, _⟩ | ⟨_, h⟩)
      · exact absurd h (by decide)
      · have h' : Spec.V3.eff (assignment V3.X m) c!"MS" c!"S" = c!"C" := h
        rw [hs] at h'; exact absurd h' (by decide)
    rw [getValue_nonpr (ctxOf m full) c!"MPR" _ hc hsv hl, expectedWeight_MPR _ hx, hs]
    rfl

/-! ### the score functions, given what `get_value` returns -/
theorem baseScore_eq_abs (c : V3.Ctx) (a : Str → Str)
    (hs : c.scope = a c!"S") (hsc : a c!"S" = c!"C" ∨ a c!"S" = c!"U")
    (hC : V3.getValue c c!"C" = some (Spec.V3.w c!"C" (a c!"C")))
    (hI : V3.getValue c c!"I" = some (Spec.V3.w c!"I" (a c!"I")))
    (hA : V3.getValue c c!"A" = some (Spec.V3.w c!"A" (a c!"A")))
    (hAV : V3.getValue c c!"AV" = some (Spec.V3.w c!"AV" (a c!"AV")))
    (hAC : V3.getValue c c!"AC" = some (Spec.V3.w c!"AC" (a c!"AC")))
    (hUI : V3.getValue c c!"UI" = some (Spec.V3.w c!"UI" (a c!"UI")))
    (hPR : V3.getValue c c!"PR" = some (Spec.V3.prWeight (decide (a c!"S" = c!"C")) (a c!"PR"))) :
    V3.baseScore c = some (Spec.V3.baseScore a) := by
  unfold V3.baseScore V3.iscBase V3.esc V3.isc Spec.V3.baseScore Spec.V3.impact
  simp only [hC, hI, hA, hAV, hAC, hUI, hPR, hs, Option.bind_eq_bind, Option.bind_some, Option.pure_def]
  have hCU : ¬ (c!"C" = c!"U") := by decide
  have hUC : ¬ (c!"U" = c!"C") := by decide
  rcases hsc with h | h
  · simp only [h, hCU, if_true, if_false, decide_true, Option.bind_some, V3.r, Spec.V3.r,
      pyMin_eq_min, roundUp1_eq_roundup, ← apply_ite some]
  · simp only [h, hUC, if_true, if_false, decide_false, Bool.false_eq_true, Option.bind_some, V3.r, Spec.V3.r,
      pyMin_eq_min, roundUp1_eq_roundup, ← apply_ite some]

theorem temporalScore_eq_abs (c : V3.Ctx) (a : Str → Str) (b : Rat)
    (hE : V3.getValue c c!"E" = some (Spec.V3.w c!"E" (a c!"E")))
    (hRL : V3.getValue c c!"RL" = some (Spec.V3.w c!"RL" (a c!"RL")))
    (hRC : V3.getValue c c!"RC" = some (Spec.V3.w c!"RC" (a c!"RC"))) :
    V3.temporalScore c b = some (Spec.V3.roundup (b * Spec.V3.temporalFactor a)) := by
  unfold V3.temporalScore Spec.V3.temporalFactor
  simp only [hE, hRL, hRC, Option.bind_eq_bind, Option.bind_some, Option.pure_def,
    roundUp1_eq_roundup, mul_assoc]

theorem environmentalScore_eq_abs (c : V3.Ctx) (a : Str → Str) (minor : Nat)
    (hs : c.modScope = Spec.V3.eff a c!"MS" c!"S")
    (hsc : Spec.V3.eff a c!"MS" c!"S" = c!"C" ∨ Spec.V3.eff a c!"MS" c!"S" = c!"U")
    (hMC : V3.getValue c c!"MC" = some (Spec.V3.w c!"C" (Spec.V3.eff a c!"MC" c!"C")))
    (hMI : V3.getValue c c!"MI" = some (Spec.V3.w c!"I" (Spec.V3.eff a c!"MI" c!"I")))
    (hMA : V3.getValue c c!"MA" = some (Spec.V3.w c!"A" (Spec.V3.eff a c!"MA" c!"A")))
    (hCR : V3.getValue c c!"CR" = some (Spec.V3.w c!"CR" (a c!"CR")))
    (hIR : V3.getValue c c!"IR" = some (Spec.V3.w c!"IR" (a c!"IR")))
    (hAR : V3.getValue c c!"AR" = some (Spec.V3.w c!"AR" (a c!"AR")))
    (hMAV : V3.getValue c c!"MAV" = some (Spec.V3.w c!"AV" (Spec.V3.eff a c!"MAV" c!"AV")))
    (hMAC : V3.getValue c c!"MAC" = some (Spec.V3.w c!"AC" (Spec.V3.eff a c!"MAC" c!"AC")))
    (hMUI : V3.getValue c c!"MUI" = some (Spec.V3.w c!"UI" (Spec.V3.eff a c!"MUI" c!"UI")))
    (hMPR : V3.getValue c c!"MPR" = some (Spec.V3.prWeight
      (decide (Spec.V3.eff a c!"MS" c!"S" = c!"C")) (Spec.V3.eff a c!"MPR" c!"PR")))
    (hE : V3.getValue c c!"E" = some (Spec.V3.w c!"E" (a c!"E")))
    (hRL : V3.getValue c c!"RL" = some (Spec.V3.w c!"RL" (a c!"RL")))
    (hRC : V3.getValue c c!"RC" = some (Spec.V3.w c!"RC" (a c!"RC"))) :
    V3.environmentalScore c minor = some (Spec.V3.environmentalScore minor a) := by
  unfold V3.environmentalScore V3.modifiedIscBase V3.modifiedEsc V3.modifiedIsc
    Spec.V3.environmentalScore Spec.V3.modifiedImpact Spec.V3.temporalFactor
  simp only [hMC, hMI, hMA, hCR, hIR, hAR, hMAV, hMAC, hMUI, hMPR, hE, hRL, hRC, hs,
    Option.bind_eq_bind, Option.bind_some, Option.pure_def]
  have hCU : ¬ (c!"C" = c!"U") := by decide
  have hUC : ¬ (c!"U" = c!"C") := by decide
  rcases hsc with h | h
  · simp only [h, hCU, if_true, if_false, decide_true, Bool.not_true, Bool.false_eq_true,
      V3.r, Spec.V3.r,
      pyMin_eq_min, roundUp1_eq_roundup, ← apply_ite some, mul_assoc]
  · simp only [h, hUC, if_true, if_false, decide_false, Bool.not_false,
      V3.r, Spec.V3.r,
      pyMin_eq_min, roundUp1_eq_roundup, ← apply_ite some, mul_assoc]

/-- MAIN: for every valid metric map and minor version, construction succeeds (no exception outside the
    hierarchy) and the three scores are the specification's equations applied to the assignment read
    off the ORIGINAL map, with the modified-impact formula of that minor version; the object records
    the input, and its filled-in metric dict is as `addMissingOptional_lookup` says -/
theorem v3_build_eq_spec (s : Str) (minor : Nat) (m : MMap) (hv : ValidMap m) :
    ∃ o, V3.build s minor m = some o ∧ o.vector = s ∧ o.minor = minor ∧ o.orig = m ∧
      o.base = Spec.V3.baseScore (assignment V3.X m) ∧
      o.temporal = Spec.V3.temporalScore (assignment V3.X m) ∧
      o.env = Spec.V3.environmentalScore minor (assignment V3.X m) ∧
      ∀ k, lookup k o.metrics =
        if k ∈ V3.modifiedMetrics ∧ assignment V3.X m k = V3.X then lookup (k.drop 1) m else lookup k m := by
  obtain ⟨full, hfull, hf⟩ := addMissingOptional_lookup m hv
  have hf' : Filled m full := hf
  obtain ⟨sc, hsc⟩ := Option.isSome_iff_exists.mp (hv.2 c!"S" (by decide))
  have haS : assignment V3.X m c!"S" = sc := by simp [assignment, hsc]
  have hb := baseScore_eq_abs (ctxOf m full) (assignment V3.X m) rfl (scope_cases hv)
    (gv_plain hv hf' (by decide)) (gv_plain hv hf' (by decide)) (gv_plain hv hf' (by decide))
    (gv_plain hv hf' (by decide)) (gv_plain hv hf' (by decide)) (gv_plain hv hf' (by decide))
    (gv_PR hv hf')
  have ht := temporalScore_eq_abs (ctxOf m full) (assignment V3.X m)
    (Spec.V3.baseScore (assignment V3.X m))
    (gv_plain hv hf' (by decide)) (gv_plain hv hf' (by decide)) (gv_plain hv hf' (by decide))
  have he := environmentalScore_eq_abs (ctxOf m full) (assignment V3.X m) minor rfl
    (modScope_cases hv)
    (gv_mod hv hf' (name := c!"MC") (by decide)) (gv_mod hv hf' (name := c!"MI") (by decide))
    (gv_mod hv hf' (name := c!"MA") (by decide))
    (gv_plain hv hf' (by decide)) (gv_plain hv hf' (by decide)) (gv_plain hv hf' (by decide))
    (gv_mod hv hf' (name := c!"MAV") (by decide)) (gv_mod hv hf' (name := c!"MAC") (by decide))
    (gv_mod hv hf' (name := c!"MUI") (by decide)) (gv_MPR hv hf')
    (gv_plain hv hf' (by decide)) (gv_plain hv hf' (by decide)) (gv_plain hv hf' (by decide))
  have hctx : ∀ ms, ms = Spec.V3.eff (assignment V3.X m) c!"MS" c!"S" →
      ({ metrics := full, scope := sc, modScope := ms } : V3.Ctx) = ctxOf m full := by
    intro ms hms
    rw [hms, ← haS]; rfl
  unfold V3.build
  cases hm : lookup c!"MS" m with
  | none =>
    have hX : assignment V3.X m c!"MS" = Spec.V3.X := by
      simp only [assignment, hm, Option.getD_none]; rfl
    have e := hctx sc (by unfold Spec.V3.eff; rw [if_pos hX, haS])
    simp only [hsc, hfull, e, hb, ht, he, Option.bind_eq_bind, Option.bind_some, Option.pure_def]
    exact ⟨_, rfl, rfl, rfl, rfl, rfl, rfl, rfl, hf⟩
  | some v =>
    have hv' : assignment V3.X m c!"MS" = v := by
      simp only [assignment, hm, Option.getD_some]
    have e := hctx (if v = V3.X then sc else v) (by
      unfold Spec.V3.eff; rw [hv', haS, X_eq])
    simp only [hsc, hfull, e, hb, ht, he, Option.bind_eq_bind, Option.bind_some, Option.pure_def]
    exact ⟨_, rfl, rfl, rfl, rfl, rfl, rfl, rfl, hf⟩

/-! ### ranges of the specification's functions -/

theorem weights_nonneg_check :
    Spec.V3.weights.all (fun (_, row) => row.all (fun (_, x) => decide (0 ≤ x))) = true := by
  decide +kernel

theorem w_cases (P : Rat → Prop) (h0 : P 0) (mt v : Str)
    (h : ∀ row x, lookup mt Spec.V3.weights = some row → lookup v row = some x → P x) :
    P (Spec.V3.w mt v) := by
  unfold Spec.V3.w
  cases h1 : lookup mt Spec.V3.weights with
  | none => exact h0
  | some row =>
    show P ((lookup v row).getD 0)
    cases h2 : lookup v row with
    | none => exact h0
    | some x => exact h row x h1 h2

theorem w_nonneg (mt v : Str) : 0 ≤ Spec.V3.w mt v := by
  apply w_cases (fun x => 0 ≤ x) (le_refl _)
  intro row x h1 h2
  have h := Lemmas.V3.all_lookup (Lemmas.V3.all_lookup weights_nonneg_check h1) h2
  simpa using h

theorem temporal_le_one_check : ∀ mt ∈ [c!"E", c!"RL", c!"RC"],
    ∀ p ∈ (lookup mt Spec.V3.weights).getD [], p.2 ≤ 1 := by
  decide +kernel

theorem w_le_one {mt : Str} (hm : mt ∈ [c!"E", c!"RL", c!"RC"]) (v : Str) : Spec.V3.w mt v ≤ 1 := by
  have hc := temporal_le_one_check mt hm
  apply w_cases (fun x => x ≤ 1) zero_le_one
  intro row x h1 h2
  rw [h1] at hc
  exact hc (v, x) (Lemmas.V3.lookup_mem h2)

theorem prWeight_nonneg (ch : Bool) (v : Str) : 0 ≤ Spec.V3.prWeight ch v := by
  unfold Spec.V3.prWeight
  split_ifs <;> norm_num [Spec.V3.r, mkRat_eq]

theorem temporalFactor_range (a : Str → Str) :
    0 ≤ Spec.V3.temporalFactor a ∧ Spec.V3.temporalFactor a ≤ 1 := by
  unfold Spec.V3.temporalFactor
  exact mul3_range (w_nonneg _ _) (w_le_one (by decide) _) (w_nonneg _ _) (w_le_one (by decide) _)
    (w_nonneg _ _) (w_le_one (by decide) _)

theorem expl_nonneg {x1 x2 x3 x4 : Rat} (h1 : 0 ≤ x1) (h2 : 0 ≤ x2) (h3 : 0 ≤ x3) (h4 : 0 ≤ x4) :
    0 ≤ Spec.V3.r 822 100 * x1 * x2 * x3 * x4 := by
  have : (0 : Rat) ≤ Spec.V3.r 822 100 := by norm_num [Spec.V3.r, mkRat_eq]
  positivity

/-- a well-formed score: an integer number of tenths between 0.0 and 10.0 -/
def IsScore (x : Rat) : Prop := ∃ k : Nat, k ≤ 100 ∧ x = (k : Rat) / 10

theorem isScore_zero : IsScore 0 := ⟨0, by norm_num⟩

theorem inner_range {imp expl : Rat} (hi : ¬ imp ≤ 0) (he : 0 ≤ expl) :
    0 ≤ imp + expl ∧ 0 ≤ Spec.V3.r 108 100 * (imp + expl) := by
  have h1 : 0 ≤ imp + expl := by linarith [not_le.mp hi]
  have h2 : (0 : Rat) ≤ Spec.V3.r 108 100 := by norm_num [Spec.V3.r, mkRat_eq]
  exact ⟨h1, mul_nonneg h2 h1⟩

theorem base_shape_isScore (imp expl : Rat) (ch : Prop) [Decidable ch] (he : 0 ≤ expl) :
    IsScore (if imp ≤ 0 then 0
      else if ch then Spec.V3.roundup (min (Spec.V3.r 108 100 * (imp + expl)) 10)
      else Spec.V3.roundup (min (imp + expl) 10)) := by
  split_ifs with hi hc
  · exact isScore_zero
  · have h := min_ten_range (inner_range hi he).2
    exact roundup_tenths h.1 h.2
  · have h := min_ten_range (inner_range hi he).1
    exact roundup_tenths h.1 h.2

theorem env_shape_isScore (imp expl tf : Rat) (ch : Prop) [Decidable ch] (he : 0 ≤ expl)
    (h0 : 0 ≤ tf) (h1 : tf ≤ 1) :
    IsScore (if imp ≤ 0 then 0
      else if ch then
        Spec.V3.roundup (Spec.V3.roundup (min (Spec.V3.r 108 100 * (imp + expl)) 10) * tf)
      else Spec.V3.roundup (Spec.V3.roundup (min (imp + expl) 10) * tf)) := by
  split_ifs with hi hc
  · exact isScore_zero
  · have h := min_ten_range (inner_range hi he).2
    have h2 := tenths_range (roundup_tenths h.1 h.2)
    have h3 := mul_factor_range h2.1 h2.2 h0 h1
    exact roundup_tenths h3.1 h3.2
  · have h := min_ten_range (inner_range hi he).1
    have h2 := tenths_range (roundup_tenths h.1 h.2)
    have h3 := mul_factor_range h2.1 h2.2 h0 h1
    exact roundup_tenths h3.1 h3.2

theorem base_isScore (a : Str → Str) : IsScore (Spec.V3.baseScore a) := by
  unfold Spec.V3.baseScore
  exact base_shape_isScore _ _ _
    (expl_nonneg (w_nonneg _ _) (w_nonneg _ _) (prWeight_nonneg _ _) (w_nonneg _ _))

theorem temporal_isScore (a : Str → Str) : IsScore (Spec.V3.temporalScore a) := by
  unfold Spec.V3.temporalScore
  have h2 := tenths_range (base_isScore a)
  have ht := temporalFactor_range a
  have h3 := mul_factor_range h2.1 h2.2 ht.1 ht.2
  exact roundup_tenths h3.1 h3.2

theorem env_isScore (minor : Nat) (a : Str → Str) :
    IsScore (Spec.V3.environmentalScore minor a) := by
  unfold Spec.V3.environmentalScore
  have ht := temporalFactor_range a
  exact env_shape_isScore _ _ _ _
    (expl_nonneg (w_nonneg _ _) (w_nonneg _ _) (prWeight_nonneg _ _) (w_nonneg _ _)) ht.1 ht.2

/-- C09 (v3 part): for EVERY assignment the specification's three scores are integer tenths in [0.0, 10.0]
    (unknown tokens weigh 0 in `Spec.V3.w`, so no validity hypothesis is needed) -/
theorem v3_spec_range (minor : Nat) (a : Str → Str) :
    IsScore (Spec.V3.baseScore a) ∧ IsScore (Spec.V3.temporalScore a) ∧
      IsScore (Spec.V3.environmentalScore minor a) :=
  ⟨base_isScore a, temporal_isScore a, env_isScore minor a⟩

/-- non-vacuity: the README example
    CVSS:3.0/S:C/C:H/I:H/A:N/AV:P/AC:H/PR:H/UI:R/E:H/RL:O/RC:R/CR:H/IR:X/AR:X/MAC:H/MPR:X/MUI:X/MC:L/MA:X → 6.5, 6.0, 5.3 -/
example :
    Spec.V3.scores 0 (assignment V3.X [(c!"S", c!"C"), (c!"C", c!"H"), (c!"I", c!"H"), (c!"A", c!"N"), (c!"AV", c!"P"),
      (c!"AC", c!"H"), (c!"PR", c!"H"), (c!"UI", c!"R"), (c!"E", c!"H"), (c!"RL", c!"O"), (c!"RC", c!"R"), (c!"CR", c!"H"),
      (c!"IR", c!"X"), (c!"AR", c!"X"), (c!"MAC", c!"H"), (c!"MPR", c!"X"), (c!"MUI", c!"X"), (c!"MC", c!"L"), (c!"MA", c!"X")]) =
      [some (mkRat 65 10), some 6, some (mkRat 53 10)] := by decide +kernel

end Cvss.Props.C01
