/-
  C01 — CVSS v3.0/v3.1 scores equal the FIRST specification equations.
-/
import Cvss.Model.V3
import Cvss.Spec.V3
namespace Cvss.Props.C01
open Cvss Cvss.Model

/-- what the specification's tables say `METRICS_VALUES[metric][token]` must be -/
def expectedWeight (metric token : Str) : Option Rat :=
  if metric = c!"S" ∨ metric = c!"MS" then none
  else if metric.head? = some 'M' ∧ token = c!"X" then none
  else if metric = c!"PR" ∨ metric = c!"MPR" then some (Spec.V3.prWeight false token)
  else if metric.head? = some 'M' then some (Spec.V3.w (metric.drop 1) token)
  else some (Spec.V3.w metric token)

def weightsPinned : Bool :=
  Gen.V3.values.all (fun (m, row) => row.all (fun (t, wgt) => wgt == expectedWeight m t))

/-- pinning: every weight the library reads equals the specification's weight -/
theorem weights_pinned : weightsPinned = true := by decide +kernel

/-- pinning: the Privileges Required weights under Scope Changed -/
theorem pr_changed_pinned :
    V3.prChanged.all (fun (t, wgt) => wgt == (if t = c!"X" then none else some (Spec.V3.prWeight true t))) = true := by
  decide +kernel

end Cvss.Props.C01
