/-
  C04 — final, constructor-level statements (parser theorems of C04.lean + totality of scoring from
  C01, C02, C03): acceptance is exactly the grammar, the error taxonomy, no foreign exception.
-/
import Cvss.Lemmas.Construct
namespace Cvss.Props.C04
open Cvss Cvss.Model Cvss.Spec.Grammar Cvss.Lemmas.Construct

/-- CVSS2(s) succeeds if and only if s is in the v2 grammar -/
theorem v2_construct_accepts_iff (s : Str) : (∃ o, V2.construct s = .ok o) ↔ Accepts g2 s := by
  rw [← v2_parse_ok_iff]
  constructor
  · rintro ⟨o, h⟩; obtain ⟨m, hm, -⟩ := (v2_construct_ok_iff s o).1 h; exact ⟨m, hm⟩
  · rintro ⟨m, hm⟩; exact ⟨_, (v2_construct_ok_iff s _).2 ⟨m, hm, rfl⟩⟩

/-- CVSS3(s) succeeds if and only if s is in the v3 grammar (prefix CVSS:3.0/ or CVSS:3.1/) -/
theorem v3_construct_accepts_iff (s : Str) : (∃ o, V3.construct s = .ok o) ↔ Accepts g3 s := by
  rw [← v3_parse_ok_iff]
  constructor
  · rintro ⟨o, h⟩; obtain ⟨i, m, hm, -⟩ := (v3_construct_ok_iff s o).1 h; exact ⟨(i, m), hm⟩
  · rintro ⟨⟨i, m⟩, hm⟩
    obtain ⟨o, ho, -⟩ := C01.v3_build_eq_spec s i m (validMap3_of_parse hm)
    exact ⟨o, (v3_construct_ok_iff s o).2 ⟨i, m, hm, ho⟩⟩

/-- CVSS4(s) succeeds if and only if s is in the v4 grammar -/
theorem v4_construct_accepts_iff (s : Str) : (∃ o, V4.construct s = .ok o) ↔ Accepts g4 s := by
  rw [← v4_parse_ok_iff]
  constructor
  · rintro ⟨o, h⟩; obtain ⟨m, hm, -⟩ := (v4_construct_ok_iff s o).1 h; exact ⟨m, hm⟩
  · rintro ⟨m, hm⟩
    obtain ⟨o, ho, -⟩ := C02.v4_build_eq_spec s m (validMap4_of_parse hm)
    exact ⟨o, (v4_construct_ok_iff s o).2 ⟨m, hm, ho⟩⟩

/-- the mandatory-metric error is raised exactly for well-formed vectors lacking a mandatory metric; every
    other rejected string gets the malformed-vector error -/
theorem v2_construct_mandatory_iff (s : Str) : V2.construct s = .error .mandatory ↔ LacksMandatory g2 s := by
  rw [← v2_parse_mandatory_iff]
  constructor
  · intro h; exact (v2_construct_error s _ h).1
  · intro h
    cases hc : V2.construct s with
    | error e => have := (v2_construct_error s e hc).1; rw [h] at this; cases this; rfl
    | ok o => obtain ⟨m, hm, -⟩ := (v2_construct_ok_iff s o).1 hc; rw [h] at hm; cases hm

theorem v3_construct_mandatory_iff (s : Str) : V3.construct s = .error .mandatory ↔ LacksMandatory g3 s := by
  rw [← v3_parse_mandatory_iff]
  constructor
  · intro h; exact (v3_construct_error s _ h).1
  · intro h
    cases hc : V3.construct s with
    | error e => have := (v3_construct_error s e hc).1; rw [h] at this; cases this; rfl
    | ok o => obtain ⟨i, m, hm, -⟩ := (v3_construct_ok_iff s o).1 hc; rw [h] at hm; cases hm

theorem v4_construct_mandatory_iff (s : Str) : V4.construct s = .error .mandatory ↔ LacksMandatory g4 s := by
  rw [← v4_parse_mandatory_iff]
  constructor
  · intro h; exact (v4_construct_error s _ h).1
  · intro h
    cases hc : V4.construct s with
    | error e => have := (v4_construct_error s e hc).1; rw [h] at this; cases this; rfl
    | ok o => obtain ⟨m, hm, -⟩ := (v4_construct_ok_iff s o).1 hc; rw [h] at hm; cases hm

/-- TAXONOMY: for every string whatsoever and every class, the constructor succeeds, or raises that
    version's malformed-vector error, or its mandatory-metric error — never anything else -/
theorem construct_outcomes (v : Ver) (s : Str) :
    (∃ o, construct v s = .ok o) ∨ construct v s = .error .malformed ∨ construct v s = .error .mandatory := by
  cases v with
  | v2 =>
    simp only [construct]
    cases hc : V2.construct s with
    | ok o => exact Or.inl ⟨_, rfl⟩
    | error e => rcases (v2_construct_error s e hc).2 with rfl | rfl <;> simp [Except.map]
  | v3 =>
    simp only [construct]
    cases hc : V3.construct s with
    | ok o => exact Or.inl ⟨_, rfl⟩
    | error e => rcases (v3_construct_error s e hc).2 with rfl | rfl <;> simp [Except.map]
  | v4 =>
    simp only [construct]
    cases hc : V4.construct s with
    | ok o => exact Or.inl ⟨_, rfl⟩
    | error e => rcases (v4_construct_error s e hc).2 with rfl | rfl <;> simp [Except.map]

/-- … in particular no exception from outside the CVSSError hierarchy escapes, for any string -/
theorem no_foreign_exception (v : Ver) (s : Str) : construct v s ≠ .error .foreign :=
  construct_never_foreign v s

end Cvss.Props.C04
