/-
  C17 — the command-line calculator reports what the library computes and never crashes.
-/
import Cvss.Model.Cli
import Cvss.Lemmas.Construct
import Cvss.Props.C10
import Cvss.Props.C16
import Cvss.Lemmas.Cli
namespace Cvss.Props.C17
open Cvss Cvss.Model Cvss.Model.Cli

/-- version dispatch: a single version flag selects that version; none selects 3.1 -/
theorem dispatch (f : Flags) :
    (f.f2 = true → version f = .i2) ∧
    (f.f2 = false → f.f3 = true → version f = .i30) ∧
    (f.f2 = false → f.f3 = false → f.f4 = true → version f = .i4) ∧
    (f.f2 = false → f.f3 = false → f.f4 = false → version f = .i31) := by
  unfold version; refine ⟨?_, ?_, ?_, ?_⟩ <;> intros <;> simp_all

/-- with `-v VECTOR` (non-empty) the outcome is the report of the library's results for that vector and
    never end-of-input; it crashes only if the library raises a foreign exception -/
theorem main_with_vector (f : Flags) (s : Str) (stdin : List Str) (hs : s ≠ []) (hv : f.vector = some s) :
    main f stdin = match report f s with
      | some ls => .lines ls
      | none => .crash := by
  simp only [main, hv, hs]
  simp
  rfl

/-- the lines printed for a score slot: name, padding to column 24, the score as the API's float prints, and
    (v3/v4) the rating in parentheses -/
def scoreLine (v : Interactive.IVer) (o : AnyObj) (p : Str × Nat) : Option Str :=
  match scoreText v o p.2 with
  | none => none
  | some t => some (p.1 ++ c!":" ++ List.replicate (PAD - p.1.length - 2) ' ' ++ t)

/-- VALID VECTOR: the report consists of the class header, one line per score the API's `scores()` has (with the
    rating from `severities()`), the API's clean vector and Red Hat vector, and with `-j` the
    `json.dumps(indent=2)` lines of the API's sorted minimal `as_json()` -/
theorem report_valid (f : Flags) (s : Str) (o : AnyObj) (h : construct (classOf (version f)) s = .ok o) :
    report f s =
      (if f.json then (o.asJson true true).map (fun j =>
          [match version f with | .i2 => c!"CVSS2" | .i4 => c!"CVSS4" | _ => c!"CVSS3"] ++
          scoreNames.zipIdx.filterMap (scoreLine (version f) o) ++
          [c!"Cleaned vector:        " ++ o.clean, c!"Red Hat vector:        " ++ o.rh] ++
          [c!"CVSS vector in JSON:"] ++ jsonLines j)
       else some (
          [match version f with | .i2 => c!"CVSS2" | .i4 => c!"CVSS4" | _ => c!"CVSS3"] ++
          scoreNames.zipIdx.filterMap (scoreLine (version f) o) ++
          [c!"Cleaned vector:        " ++ o.clean, c!"Red Hat vector:        " ++ o.rh])) := by
  unfold report
  simp only [h]
  cases f.json with
  | false => rfl
  | true => cases hj : o.asJson true true <;> rfl

/-- INVALID VECTOR: exactly one line, the library's error message -/
theorem report_invalid (f : Flags) (s : Str) (e : Err) (h : construct (classOf (version f)) s = .error e)
    (he : e ≠ .foreign) : report f s = some [errorLine] := by
  cases e <;> first | exact absurd rfl he | simp only [report, h]

/-- without `-v` (or with an empty VECTOR) the vector comes from the interactive builder for the selected
    version; end of input there ends the program cleanly -/
theorem main_interactive (f : Flags) (stdin : List Str) (hv : f.vector = none ∨ f.vector = some []) :
    main f stdin =
      match Interactive.ask (version f) f.all stdin with
      | .eof _ => .eof
      | .keyError => .crash
      | .result s _ _ => (match report f s with | some ls => .lines ls | none => .crash) := by
  unfold main
  rcases hv with hv | hv <;> rw [hv] <;> rfl

/-- `as_json` of an object constructed by the v2 / v3 class never fails -/
theorem construct_asJson_isSome (v : Ver) (hv : v ≠ .v4) (s : Str) (o : AnyObj) (h : construct v s = .ok o)
    (sort minimal : Bool) : ∃ j, o.asJson sort minimal = some j := by
  cases v with
  | v2 =>
    simp only [construct] at h
    cases hc : V2.construct s with
    | error e => rw [hc] at h; cases h
    | ok o2 =>
      rw [hc] at h
      cases h
      obtain ⟨j, hj, -⟩ := C10.v2_json_valid s o2 hc sort minimal
      exact ⟨j, hj⟩
  | v3 =>
    simp only [construct] at h
    cases hc : V3.construct s with
    | error e => rw [hc] at h; cases h
    | ok o3 =>
      rw [hc] at h
      cases h
      obtain ⟨j, hj, -⟩ := C10.v3_json_valid s o3 hc sort minimal
      exact ⟨j, hj⟩
  | v4 => exact absurd rfl hv

theorem classOf_ne_v4 (v : Interactive.IVer) (hv : v ≠ .i4) : classOf v ≠ .v4 := by
  cases v <;> simp_all [classOf]

/-- with CVSS2 / CVSS3 selected the report never lets an exception escape -/
theorem report_ne_none (f : Flags) (hv : version f ≠ .i4) (s : Str) : report f s ≠ none := by
  have hcls := classOf_ne_v4 _ hv
  cases hc : construct (classOf (version f)) s with
  | error e =>
    have he : e ≠ .foreign := by
      rcases Lemmas.Cli.construct_error _ hcls s e hc with rfl | rfl <;> simp
    rw [report_invalid f s e hc he]
    simp
  | ok o =>
    obtain ⟨j, hj⟩ := construct_asJson_isSome _ hcls s o hc true true
    rw [report_valid f s o hc, hj]
    cases f.json <;> simp

/-- NEVER CRASHES (CVSS2 / CVSS3 selected; the CVSS4 case needs C02's totality of v4 scoring):
    for every flag set, every VECTOR and every stdin the calculator ends with a report or a clean EOF -/
theorem main_never_crashes (f : Flags) (stdin : List Str) (hv : version f ≠ .i4) : main f stdin ≠ .crash := by
  have hr := report_ne_none f hv
  have hcase : ∀ s, (match report f s with | some ls => Outcome.lines ls | none => Outcome.crash) ≠ .crash := by
    intro s
    cases hrep : report f s with
    | none => exact absurd hrep (hr s)
    | some ls => simp
  by_cases hvec : f.vector = none ∨ f.vector = some []
  · rw [main_interactive f stdin hvec]
    cases hask : Interactive.ask (version f) f.all stdin with
    | eof a => simp
    | keyError => exact absurd hask (C16.ask_never_keyError _ _ _)
    | result s n a => exact hcase s
  · cases hvs : f.vector with
    | none => exact absurd (Or.inl hvs) hvec
    | some s =>
      have hs : s ≠ [] := by
        rintro rfl
        exact hvec (Or.inr hvs)
      rw [main_with_vector f s stdin hs hvs]
      exact hcase s

end Cvss.Props.C17
