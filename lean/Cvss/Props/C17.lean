/-
  C17 — the command-line calculator reports what the library computes and never crashes.
-/
import Cvss.Model.Cli
namespace Cvss.Props.C17
open Cvss Cvss.Model Cvss.Model.Cli

/-- version dispatch: a single version flag selects that version; none selects 3.1 -/
theorem dispatch (f : Flags) :
    (f.f2 = true → version f = .i2) ∧
    (f.f2 = false → f.f3 = true → version f = .i30) ∧
    (f.f2 = false → f.f3 = false → f.f4 = true → version f = .i4) ∧
    (f.f2 = false → f.f3 = false → f.f4 = false → version f = .i31) := by
  unfold version; refine ⟨?_, ?_, ?_, ?_⟩ <;> intros <;> simp_all

/-- with `-v VECTOR` (non-empty) the outcome is the report of the library's results for that vector and
    never end-of-input; it crashes only if the library raises a foreign exception -/
theorem main_with_vector (f : Flags) (s : Str) (stdin : List Str) (hs : s ≠ []) (hv : f.vector = some s) :
    main f stdin = match report f s with
      | some ls => .lines ls
      | none => .crash := by
  simp only [main, hv, hs]
  simp [hs]
  rfl

end Cvss.Props.C17
